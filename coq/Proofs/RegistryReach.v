(* Reachability facts about the registry machine: what a collection found unreachable stays unreachable, so the
   ghost set `gone` of the invariant is exactly "no longer referenced".  For every digest H. *)
From Oak Require Import Model.Registry Proofs.RegistryProofs.

Inductive path (hp : list cell) : nat -> nat -> Prop :=
| p_refl a c : nth_error hp a = Some c -> path hp a a
| p_step a c k x : nth_error hp a = Some c -> In k (all_kids c) -> path hp k x -> path hp a x.

Lemma pre_path hp : forall fuel a x, In x (pre hp fuel a) -> path hp a x.
Proof.
  induction fuel as [|f IH]; simpl; [tauto|]. intros a x.
  destruct (nth_error hp a) as [c|] eqn:E; [|simpl; tauto].
  intros [<-|Hin]; [eapply p_refl; eauto|].
  apply in_flat_map in Hin as [k [Hk Hx]]. eapply p_step; eauto.
Qed.

Definition heap_wf (hp : list cell) : Prop :=
  forall a c, nth_error hp a = Some c -> forall k, In k (all_kids c) -> k < a.

Lemma path_pre hp : heap_wf hp -> forall a x, path hp a x -> forall fuel, a < fuel -> In x (pre hp fuel a).
Proof.
  intros Hwf a x Hp. induction Hp as [a c E|a c k x E Hk Hp IH]; intros fuel Hf;
    (destruct fuel as [|f]; [lia|]); simpl; rewrite E.
  - left; auto.
  - right. apply in_flat_map. exists k. split; auto. apply IH. specialize (Hwf _ _ E _ Hk). lia.
Qed.

Lemma path_trans hp a b c : path hp a b -> path hp b c -> path hp a c.
Proof. intros Hab. induction Hab; auto. intro Hc. eapply p_step; eauto. Qed.

Lemma path_bound hp a x : path hp a x -> x < length hp.
Proof. induction 1; auto. apply nth_error_Some. congruence. Qed.

(* reachability as a proposition *)
Definition reach (s : st) (x : nat) : Prop := exists r, In r (roots s) /\ path (heap s) r x.

Lemma reachable_reach s x : reachable s x = true -> reach s x.
Proof.
  intro Hr. apply memb_in in Hr. unfold reachable_set in Hr. apply in_flat_map in Hr as [r [Hr Hx]].
  exists r. split; auto. eapply pre_path; eauto.
Qed.
Lemma reach_reachable s x : heap_wf (heap s) -> reach s x -> reachable s x = true.
Proof.
  intros Hwf [r [Hr Hp]]. apply memb_in. unfold reachable_set. apply in_flat_map. exists r. split; auto.
  unfold tree_of. apply path_pre; auto.
  inversion Hp; subst; apply nth_error_Some; congruence.
Qed.

(* the core: a heap extended by cells whose old children were reachable adds no reachability among old cells *)
Lemma path_ext_old (s : st) ext :
  heap_wf (heap s ++ ext) ->
  (forall y c, length (heap s) <= y -> nth_error (heap s ++ ext) y = Some c ->
               forall k, In k (all_kids c) -> k < length (heap s) -> reach s k) ->
  forall a x, path (heap s ++ ext) a x -> x < length (heap s) ->
    (a < length (heap s) -> path (heap s) a x) /\ (length (heap s) <= a -> reach s x).
Proof.
  intros Hwf Hnew a x Hp. induction Hp as [a c E|a c k x E Hk Hp IH]; intro Hx.
  - split; [|lia]. intros Ha. rewrite nth_error_app1 in E by auto. eapply p_refl; eauto.
  - destruct (IH Hx) as [IHo IHn]. split.
    + intro Ha. pose proof (Hwf _ _ E _ Hk) as Hlt. rewrite nth_error_app1 in E by auto.
      eapply p_step; eauto. apply IHo. lia.
    + intro Ha. destruct (Nat.lt_ge_cases k (length (heap s))) as [Hko|Hkn].
      * destruct (Hnew _ _ Ha E _ Hk Hko) as [r [Hr Hrk]]. exists r. split; auto.
        eapply path_trans; eauto.
      * auto.
Qed.

(* a state s2 reached from s by a raw step: old cells kept, new cells only point at new cells or at what was
   reachable, every root is an old root or a new address *)
Record evolves (s s2 : st) : Prop := {
  ev_heap : exists ext, heap s2 = heap s ++ ext;
  ev_wf : heap_wf (heap s2);
  ev_new : forall y c, length (heap s) <= y -> cell_at s2 y = Some c ->
                       forall k, In k (all_kids c) -> k < length (heap s) -> reach s k;
  ev_roots : forall r, In r (roots s2) -> r < length (heap s) -> reach s r
}.

Lemma root_reach s r : In r (roots s) -> r < length (heap s) -> reach s r.
Proof.
  intros Hr Hlt. exists r. split; auto.
  destruct (nth_error (heap s) r) eqn:E; [eapply p_refl; eauto|apply nth_error_None in E; lia].
Qed.

Lemma evolves_mono s s2 x : evolves s s2 -> x < length (heap s) -> reach s2 x -> reach s x.
Proof.
  intros [[ext He] Hwf Hnew Hroots] Hx [r [Hr Hp]]. rewrite He in Hwf, Hp.
  assert (Hnew' : forall y c, length (heap s) <= y -> nth_error (heap s ++ ext) y = Some c ->
               forall k, In k (all_kids c) -> k < length (heap s) -> reach s k).
  { intros y c Hy Hc. apply (Hnew y c Hy). unfold cell_at. now rewrite He. }
  destruct (path_ext_old s ext Hwf Hnew' r x Hp Hx) as [Ho Hn].
  destruct (Nat.lt_ge_cases r (length (heap s))) as [Hlt|Hge].
  - destruct (Hroots r Hr Hlt) as [r0 [Hr0 Hp0]]. exists r0. split; auto. eapply path_trans; eauto.
  - auto.
Qed.

Lemma inv_wf s : Inv0 s -> heap_wf (heap s).
Proof. intros Hs a c E. exact (I_heap _ Hs a c E). Qed.

Lemma same_heap_evolves s s2 : heap s2 = heap s -> heap_wf (heap s) ->
  (forall r, In r (roots s2) -> In r (roots s)) -> evolves s s2.
Proof.
  intros Hh Hwf Hr. constructor.
  - exists []. now rewrite app_nil_r.
  - now rewrite Hh.
  - intros y c Hy Hc. unfold cell_at in Hc. rewrite Hh in Hc.
    assert (y < length (heap s)) by (apply nth_error_Some; congruence). lia.
  - intros r Hin Hlt. apply root_reach; auto.
Qed.

Lemma reach_kid s a c k : Inv0 s -> reach s a -> cell_at s a = Some c -> In k (all_kids c) -> reach s k.
Proof.
  intros Hs [r [Hr Hp]] Hc Hk. exists r. split; auto. eapply path_trans; eauto.
  assert (Hlt : k < length (heap s)) by (pose proof (I_heap _ Hs _ _ Hc _ Hk); apply cell_at_lt in Hc; lia).
  destruct (nth_error (heap s) k) as [ck|] eqn:Ek; [|apply nth_error_None in Ek; lia].
  eapply p_step; eauto. eapply p_refl; eauto.
Qed.

Lemma reach_ext_eq s s1 x : heap s1 = heap s -> vars s1 = vars s -> reach s1 x <-> reach s x.
Proof. intros Hh Hv. unfold reach, roots. now rewrite Hh, Hv. Qed.

Section Evolve.
  Variable H : pystr -> pystr.
  Variable ct : ctable.
  Variable late : st -> nat -> bool.

  (* one construction on a state with the heap and variables of s *)
  Lemma alloc_evolves0 s s1 c o ps ks s' a : Inv0 s1 -> heap s1 = heap s -> vars s1 = vars s ->
    (forall k, In k (flat_map (fun k => snd (snd k)) ks) -> k < length (heap s) /\ reach s k) ->
    alloc H ct s1 c o ps ks = Some (s', a) -> evolves s s'.
  Proof.
    intros Hs1 Hh Hv Hk Ea.
    assert (Hs' : Inv0 s') by (eapply alloc_inv; eauto; intros k Hin; rewrite Hh; apply Hk; auto).
    apply alloc_shape in Ea as [i [_ [-> [_ ->]]]]. constructor; simpl.
    - rewrite Hh. eexists; reflexivity.
    - apply (inv_wf _ Hs').
    - intros y cy Hy Hc k Hin Hlt. unfold cell_at in Hc; simpl in Hc. rewrite Hh in Hc.
      rewrite nth_error_app2 in Hc by auto. destruct (y - length (heap s)) as [|m]; simpl in Hc.
      + injection Hc as <-. unfold all_kids in Hin; simpl in Hin. apply Hk; auto.
      + destruct m; discriminate.
    - intros r Hr Hlt. apply root_reach; auto. unfold roots in *; simpl in Hr. now rewrite <- Hv.
  Qed.

  (* binding the result to a variable: a new node, or (as_obj) a node that was reachable *)
  Lemma evolves_bind s s' dst a : evolves s s' -> (a < length (heap s) -> reach s a) -> evolves s (set_var s' dst (Some a)).
  Proof.
    intros [Hh Hwf Hnew Hroots] Ha. constructor; simpl; auto.
    intros r Hr Hlt. unfold roots in Hr; simpl in Hr. apply roots_set_nth in Hr as [Hr|E].
    - apply Hroots; auto.
    - injection E as <-. auto.
  Qed.

  Lemma alloc_evolves s s1 c o ps ks s' a dst : Inv0 s1 -> heap s1 = heap s -> vars s1 = vars s ->
    (forall k, In k (flat_map (fun k => snd (snd k)) ks) -> k < length (heap s) /\ reach s k) ->
    alloc H ct s1 c o ps ks = Some (s', a) -> evolves s (set_var s' dst (Some a)).
  Proof.
    intros Hs1 Hh Hv Hk Ea. apply evolves_bind; [eapply alloc_evolves0; eauto|].
    intro Hlt. exfalso. apply alloc_shape in Ea as [i [_ [-> _]]]. rewrite Hh in Hlt. lia.
  Qed.

  Lemma resolved_kids_reach s ls l : mapO (resolve s) ls = Some l ->
    forall k, In k l -> k < length (heap s) /\ reach s k.
  Proof.
    intros E k Hin. destruct (mapO_in _ _ _ E _ Hin) as [x [_ Hx]]. split; [eapply resolve_lt; eauto|].
    apply reachable_reach. eapply resolve_reachable; eauto.
  Qed.

  Lemma new_args_reach s c ps ks ks' : new_args ct s c ps ks = ROk ks' ->
    forall k, In k (flat_map (fun k => snd (snd k)) ks') -> k < length (heap s) /\ reach s k.
  Proof.
    unfold new_args. destruct (find_class ct c); [|discriminate]. destruct (_ && _); [|discriminate].
    destruct (mapO _ ks) as [l|] eqn:E; [|discriminate]. intros [= <-] k Hin.
    apply in_flat_map in Hin as [e [He Hk]]. destruct (mapO_in _ _ _ E _ He) as [x [_ Hx]].
    destruct (mapO (resolve s) (snd (snd x))) as [l0|] eqn:E0; [|discriminate]. simpl in Hx. injection Hx as <-.
    simpl in Hk. eapply resolved_kids_reach; eauto.
  Qed.

  Definition changes_reach (s : st) (ch : list (pystr * rval)) : Prop :=
    forall name sh l, In (name, VKids (sh, l)) ch -> forall k, In k l -> k < length (heap s) /\ reach s k.

  Lemma changes_are_reach s c ch ch' : changes ct s c ch = ROk ch' -> changes_reach s ch'.
  Proof.
    unfold changes. destruct (_ && _); [|discriminate]. destruct (mapO _ ch) as [l|] eqn:E; [|discriminate].
    intros [= <-] name sh l0 Hin k Hk. destruct (mapO_in _ _ _ E _ Hin) as [[n cv] [_ Hx]]. simpl in Hx.
    destruct cv as [v|o|sh' ls]; simpl in Hx; try discriminate.
    destruct (mapO (resolve s) ls) as [l1|] eqn:E1; [|discriminate]. simpl in Hx. injection Hx as _ <- <-.
    eapply resolved_kids_reach; eauto.
  Qed.

  Lemma new_kids_reach s a c ch : Inv0 s -> cell_at s a = Some c -> reach s a -> changes_reach s ch ->
    forall k, In k (flat_map (fun k => snd (snd k)) (new_kids c ch)) -> k < length (heap s) /\ reach s k.
  Proof.
    intros Hs Hc Hra Hch k Hin. apply in_flat_map in Hin as [e [He Hk]]. unfold new_kids in He.
    apply in_map_iff in He as [e0 [<- He0]].
    assert (Hold : forall k, In k (snd (snd e0)) -> k < length (heap s) /\ reach s k).
    { intros k0 Hk0. assert (Hin : In k0 (all_kids c)) by (unfold all_kids; apply in_flat_map; eauto).
      split; [|eapply reach_kid; eauto]. pose proof (I_heap _ Hs _ _ Hc _ Hin). apply cell_at_lt in Hc. lia. }
    destruct (assoc (fst e0) ch) as [[v|o|[sh l]]|] eqn:Ea; auto.
    simpl in Hk. apply assoc_in in Ea. eapply Hch; eauto.
  Qed.

  Lemma evolves_refl s : Inv0 s -> evolves s s.
  Proof. intro Hs. apply same_heap_evolves; auto. now apply inv_wf. Qed.

  Lemma dc_replace_evolves s s1 a ch s' r dst : Inv0 s -> Inv0 s1 -> heap s1 = heap s -> vars s1 = vars s ->
    reach s a -> changes_reach s ch -> dc_replace H ct late s1 a ch = (s', r) ->
    evolves s s' /\ evolves s (fst (bind dst (s', r))).
  Proof.
    intros Hs Hs1 Hh Hv Hra Hch. unfold dc_replace.
    assert (Hsame : evolves s s1).
    { apply same_heap_evolves; auto; [now apply inv_wf|]. intros r0. unfold roots. now rewrite Hv. }
    destruct (cell_at s1 a) as [c|] eqn:Ec; [|intros [= <- <-]; split; exact Hsame].
    destruct (dc_check _ _ _); [intros [= <- <-]; split; exact Hsame|].
    assert (Hk : forall k, In k (flat_map (fun k => snd (snd k)) (new_kids c ch)) -> k < length (heap s) /\ reach s k).
    { unfold cell_at in Ec. rewrite Hh in Ec. eapply new_kids_reach; eauto. }
    destruct (construct _ _ _ _ _ _ _ _) as [s2 a2|s2|] eqn:Eco; intros [= <- <-]; [| |split; exact Hsame]; simpl.
    - apply construct_ok in Eco as [Ea _]. split; [eapply alloc_evolves0; eauto|eapply alloc_evolves; eauto].
    - apply construct_late in Eco as [a2 [Ea _]]. split; eapply alloc_evolves0; eauto.
  Qed.
End Evolve.

Section Evolve2.
  Variable H : pystr -> pystr.
  Variable ct : ctable.
  Variable late : st -> nat -> bool.

  Lemma replace_evolves s a ch dst : Inv0 s -> reach s a -> changes_reach s ch ->
    evolves s (fst (bind dst (replace H ct late true s a ch))).
  Proof.
    intros Hs Hra Hch. unfold replace. destruct (cell_at s a) as [c|] eqn:Ec; [|simpl; now apply evolves_refl].
    pose proof (detach_self_inv s a Hs) as Hs1. destruct (detach_self_frame true s a) as [Hh [Hv _]].
    destruct (dc_replace H ct late (fst (detach_self true s a)) a ch) as [s2 r2] eqn:Ed.
    destruct (dc_replace_evolves H ct late s _ a ch s2 r2 dst Hs Hs1 Hh Hv Hra Hch Ed) as [Hev0 Hev].
    destruct r2; try exact Hev.
    destruct (match lookup (k_id c) (reg s) with Some b => _ | None => None end); simpl; [|exact Hev0].
    destruct Hev0 as [Eh Ewf Enew Eroots]. constructor; simpl; auto.
  Qed.

  Lemma growR_evolves s s' : Inv0 s' -> growR s s' -> evolves s s'.
  Proof.
    intros Hs' [G Hr]. destruct G as [[ext He] [_ [Hv _]]]. constructor.
    - exists ext. exact He.
    - now apply inv_wf.
    - intros y c Hy Hc k Hk Hlt.
      assert (y < length (heap s')) by (apply cell_at_lt in Hc; auto).
      destruct (Hr y) as [c' [Hc' [Hkids _]]]; [lia|]. rewrite Hc in Hc'. injection Hc' as <-.
      apply Hkids in Hk. lia.
    - intros r Hin Hlt. apply root_reach; auto. unfold roots in *. now rewrite <- Hv.
  Qed.

  (* one as_obj call (the code in /repo) started in a state whose registered nodes are all reachable *)
  Lemma DP_evolves s s' : RInv s -> DP s s' -> evolves s s'.
  Proof.
    intros [Hs Hr] Hd. constructor.
    - now apply DP_hext.
    - apply inv_wf. apply Hd.
    - intros y c Hy Hc k Hk Hlt. destruct (dp_new _ _ Hd y c Hy Hc k Hk Hlt) as [j Hj].
      apply reachable_reach. eauto.
    - intros r Hin Hlt. apply root_reach; auto. unfold roots in *. now rewrite <- (dp_vars _ _ Hd).
  Qed.

  Lemma roots_drop s v r : In r (roots (set_var s v None)) -> In r (roots s).
  Proof. unfold roots; simpl. intro Hin. apply roots_set_nth in Hin as [Hin|E]; [auto|discriminate]. Qed.

  Lemma step_raw_evolves s o : RInv s -> evolves s (fst (step_raw H ct late true s o)).
  Proof.
    intros HR. pose proof HR as [Hs Hreg]. pose proof (evolves_refl s Hs) as Hrefl.
    destruct o as [dst c og ps ks|dst src|dst src ch|dst src ch|x|x|v|x k|src slot|slot dst]; simpl.
    - destruct (negb _); [exact Hrefl|]. destruct (new_args ct s c ps ks) as [| |ks'] eqn:En; try exact Hrefl.
      destruct (construct H ct late s c og ps ks') as [s' a|s'|] eqn:Eco; [| |exact Hrefl]; simpl.
      + apply construct_ok in Eco as [Ea _]. eapply alloc_evolves; eauto. eapply new_args_reach; eauto.
      + apply construct_late in Eco as [a [Ea _]]. eapply alloc_evolves0; eauto. eapply new_args_reach; eauto.
    - destruct (negb _); [exact Hrefl|]. destruct (resolve s src) as [a|]; [|exact Hrefl].
      pose proof (dup_spec_gen H ct late (length (heap s)) s a Hs) as M.
      destruct (dup H ct late (length (heap s)) s a) as [s' a'|s'|]; [| |exact Hrefl]; simpl.
      + destruct M as [Hs' [G Ha']]. apply evolves_bind; [now apply growR_evolves|intro; lia].
      + destruct M as [Hs' G]. now apply growR_evolves.
    - destruct (negb _); [exact Hrefl|]. destruct (resolve s src) as [a|] eqn:Er; [|exact Hrefl].
      destruct (cell_at s a) as [c|] eqn:Ec; [|exact Hrefl].
      destruct (changes ct s (k_cls c) ch) as [| |ch'] eqn:Ech; try exact Hrefl.
      destruct (dc_replace H ct late s a ch') as [s' r] eqn:Ed.
      eapply (dc_replace_evolves H ct late s s); eauto.
      + apply reachable_reach. eapply resolve_reachable; eauto.
      + eapply changes_are_reach; eauto.
    - destruct (negb _); [exact Hrefl|]. destruct (resolve s src) as [a|] eqn:Er; [|exact Hrefl].
      destruct (cell_at s a) as [c|] eqn:Ec; [|exact Hrefl].
      destruct (changes ct s (k_cls c) ch) as [| |ch'] eqn:Ech; try exact Hrefl.
      apply replace_evolves; auto.
      + apply reachable_reach. eapply resolve_reachable; eauto.
      + eapply changes_are_reach; eauto.
    - destruct (resolve s x) as [a|]; [|exact Hrefl]. simpl.
      destruct (fold_detach_frame true (tree_of s a) s) as [Hh [Hv _]].
      apply same_heap_evolves; auto; [now apply inv_wf|]. intro r. unfold roots, detach. now rewrite Hv.
    - destruct (resolve s x) as [a|]; [|exact Hrefl].
      destruct (detach_self_frame true s a) as [Hh [Hv _]]. destruct (detach_self true s a) as [s' b]. simpl in *.
      apply same_heap_evolves; auto; [now apply inv_wf|]. intro r. unfold roots. now rewrite Hv.
    - apply same_heap_evolves; auto; [now apply inv_wf|]. apply roots_drop.
    - destruct (resolve s x); exact Hrefl.
    - destruct (resolve s src) as [a|]; [|exact Hrefl]. destruct (ser_st s a); [|exact Hrefl]. simpl.
      apply same_heap_evolves; [reflexivity|now apply inv_wf|intros r Hr; exact Hr].
    - destruct (negb _); [exact Hrefl|]. destruct (slot_get slot (slots s)) as [v|]; [|exact Hrefl].
      pose proof (deser_spec H ct late s Hs (S (sdepth v)) s v (DP_refl s Hs)) as M. unfold asobj.
      destruct (deser H ct late true (S (sdepth v)) s v) as [s' a|s'|]; [| |exact Hrefl]; simpl.
      + destruct M as [Hd [_ Hq]]. apply evolves_bind; [now apply DP_evolves|].
        intro Hlt. destruct (proj2 Hq Hlt) as [j Hj]. apply reachable_reach. eauto.
      + apply DP_evolves; auto. apply M.
  Qed.

  Lemma dc_replace_gone s a ch s' r : dc_replace H ct late s a ch = (s', r) -> gone s' = gone s.
  Proof.
    unfold dc_replace. destruct (cell_at s a); [|intros [= <- _]; auto].
    destruct (dc_check _ _ _); [intros [= <- _]; auto|].
    destruct (construct _ _ _ _ _ _ _ _) as [s1 a1|s1|] eqn:Eco; intros [= <- _]; auto.
    - apply construct_ok in Eco as [Ea _]. apply alloc_shape in Ea as [i [_ [_ [_ ->]]]]. reflexivity.
    - apply construct_late in Eco as [a1 [Ea _]]. apply alloc_shape in Ea as [i [_ [_ [_ ->]]]]. reflexivity.
  Qed.
  Lemma replace_gone s a ch s' r : replace H ct late true s a ch = (s', r) -> gone s' = gone s.
  Proof.
    unfold replace. destruct (cell_at s a) as [c|]; [|intros [= <- _]; auto].
    destruct (detach_self_frame true s a) as [_ [_ Hg]].
    destruct (dc_replace H ct late (fst (detach_self true s a)) a ch) as [s2 r2] eqn:Ed.
    apply dc_replace_gone in Ed. rewrite Hg in Ed.
    destruct r2; try (intros [= <- _]; exact Ed).
    destruct (match lookup (k_id c) (reg s) with Some b => _ | None => None end); intros [= <- _]; exact Ed.
  Qed.
  Lemma bind_gone dst r : gone (fst (bind dst r)) = gone (fst r).
  Proof. destruct r as [s1 [| a | b | e | | |]]; reflexivity. Qed.

  Lemma step_raw_gone s o : Inv0 s -> gone (fst (step_raw H ct late true s o)) = gone s.
  Proof.
    intro Hs. destruct o as [dst c og ps ks|dst src|dst src ch|dst src ch|x|x|v|x k|src slot|slot dst]; simpl; auto.
    - destruct (negb _); auto. destruct (new_args ct s c ps ks) as [| |ks']; auto.
      destruct (construct H ct late s c og ps ks') as [s' a|s'|] eqn:Eco; auto; simpl.
      + apply construct_ok in Eco as [Ea _]. apply alloc_shape in Ea as [i [_ [_ [_ ->]]]]. reflexivity.
      + apply construct_late in Eco as [a [Ea _]]. apply alloc_shape in Ea as [i [_ [_ [_ ->]]]]. reflexivity.
    - destruct (negb _); auto. destruct (resolve s src) as [a|]; auto.
      pose proof (dup_spec_gen H ct late (length (heap s)) s a Hs) as M.
      destruct (dup H ct late (length (heap s)) s a) as [s' a'|s'|]; auto; simpl.
      + destruct M as [_ [[G _] _]]. apply G.
      + destruct M as [_ [G _]]. apply G.
    - destruct (negb _); auto. destruct (resolve s src) as [a|]; auto. destruct (cell_at s a) as [c|]; auto.
      destruct (changes ct s (k_cls c) ch) as [| |ch']; auto. rewrite bind_gone.
      destruct (dc_replace H ct late s a ch') as [s' r] eqn:Ed. simpl. eapply dc_replace_gone; eauto.
    - destruct (negb _); auto. destruct (resolve s src) as [a|]; auto. destruct (cell_at s a) as [c|]; auto.
      destruct (changes ct s (k_cls c) ch) as [| |ch']; auto. rewrite bind_gone.
      destruct (replace H ct late true s a ch') as [s' r] eqn:Ed. simpl. eapply replace_gone; eauto.
    - destruct (resolve s x) as [a|]; auto. simpl. apply (fold_detach_frame true (tree_of s a) s).
    - destruct (resolve s x) as [a|]; auto. destruct (detach_self_frame true s a) as [_ [_ Hg]].
      destruct (detach_self true s a). exact Hg.
    - destruct (resolve s x); auto.
    - destruct (resolve s src) as [a|]; auto. destruct (ser_st s a); auto.
    - destruct (negb _); auto. destruct (slot_get slot (slots s)) as [v|]; auto.
      pose proof (deser_spec H ct late s Hs (S (sdepth v)) s v (DP_refl s Hs)) as M. unfold asobj.
      destruct (deser H ct late true (S (sdepth v)) s v) as [s' a|s'|]; auto; simpl; destruct M as [Hd _]; apply Hd.
  Qed.

  (* the strengthened invariant: what a collection once found unreachable is unreachable now *)
  Definition RInvS (s : st) : Prop := RInv s /\ forall a, In a (gone s) -> reachable s a = false.

  Lemma invS_init n : RInvS (init_st n).
  Proof. split; [apply inv_init|]. simpl. tauto. Qed.

  Theorem step_invS s o : RInvS s -> RInvS (fst (step H ct late true s o)).
  Proof.
    intros [[Hs Hr] Hg]. split; [apply step_inv0; auto|].
    unfold step. pose proof (step_raw_evolves s o (conj Hs Hr)) as Hev. pose proof (step_raw_gone s o Hs) as Hgo.
    destruct (step_raw H ct late true s o) as [s2 r]. simpl in *.
    intros a Ha. apply filter_In in Ha as [Hseq Hor].
    destruct (memb a (reachable_set s2)) eqn:Em; [|exact Em]. simpl in Hor.
    apply memb_in in Hor. rewrite Hgo in Hor. exfalso.
    assert (Hlt : a < length (heap s)) by (apply (I_bound _ Hs); auto).
    assert (Hra : reach s a) by (eapply evolves_mono; eauto; apply reachable_reach; exact Em).
    specialize (Hg a Hor). rewrite (reach_reachable s a (inv_wf _ Hs) Hra) in Hg. discriminate.
  Qed.
  Theorem run_invS l : forall s, RInvS s -> RInvS (run H ct late true s l).
  Proof. induction l as [|o l IH]; simpl; auto. intros s Hs. apply IH. now apply step_invS. Qed.

  (* ================= an operation that raises leaves the registry exactly as it was ================= *)
  (* whichever operation raises - a replace() or dataclasses.replace rejected before anything was built (non-init
     key, unknown key), or a constructor / dataclasses.replace / replace() / duplicate() whose class validates in its
     own __post_init__ after the node (or, for duplicate, a number of copies) had been built and registered:
     the variables are what they were, every existing node is what it was (the heap only grew), EVERY lookup returns
     what it returned before, and none of the nodes built by the failed call can be reached *)
  Lemma path_app hp ext a x : path hp a x -> path (hp ++ ext) a x.
  Proof.
    induction 1 as [a c E|a c k x E Hk Hp IH].
    - eapply p_refl. rewrite nth_error_app1; eauto. apply nth_error_Some. congruence.
    - eapply p_step; eauto. rewrite nth_error_app1; eauto. apply nth_error_Some. congruence.
  Qed.

  Theorem fail_frame s o s' e : RInv s -> step H ct late true s o = (s', Raised e) ->
    (exists ext, heap s' = heap s ++ ext) /\ vars s' = vars s /\ (forall j, get_any s' j = get_any s j) /\
    (forall x, length (heap s) <= x -> reachable s' x = false).
  Proof.
    intros [Hs Hr]. unfold step. pose proof (step_raw_inv H ct late s o Hs) as Hs2.
    destruct (step_raw H ct late true s o) as [s2 r] eqn:Er. intros [= <- ->]. simpl in Hs2.
    destruct (step_raw_raised H ct late _ _ _ _ Hs Er) as [[ext He] [Hv [Hg [Hsub Hsup]]]].
    assert (Hun : forall x, length (heap s) <= x -> reachable s2 x = false).
    { intros x Hx. apply unreachable_above with (n := length (heap s)); auto.
      - exact (J_heap _ Hs2).
      - unfold roots. rewrite Hv. exact (I_roots _ Hs). }
    simpl. split; [eauto|]. split; [exact Hv|]. split; [|exact Hun].
    intro j. unfold get_any. simpl. apply lookup_equiv.
    - apply (I_fun _ Hs).
    - apply filter_keys_nodup. apply (J_fun _ Hs2).
    - intros i x. rewrite filter_In. simpl. split.
      + intros [Hin Hm]. destruct (Hsup _ Hin) as [Hold|Hnew]; auto.
        simpl in Hnew. change (reachable s2 x = true) in Hm. rewrite (Hun _ Hnew) in Hm. discriminate.
      + intro Hin. split; [now apply Hsub|].
        specialize (Hr _ _ Hin). apply reachable_reach in Hr. destruct Hr as [r [Hroot Hp]].
        change (reachable s2 x = true). apply reach_reachable; [exact (J_heap _ Hs2)|].
        exists r. split; [unfold roots in *; now rewrite Hv|]. rewrite He. now apply path_app.
  Qed.

  (* in particular every node that existed keeps its id and its registration - the original of a failed replace() too *)
  Theorem fail_keeps_id s o s' e : RInv s -> step H ct late true s o = (s', Raised e) ->
    forall a c, cell_at s a = Some c -> cell_at s' a = Some c /\ get_any s' (k_id c) = get_any s (k_id c).
  Proof.
    intros Hs Er a c Hc. destruct (fail_frame _ _ _ _ Hs Er) as [[ext He] [_ [Hl _]]]. split; auto.
    unfold cell_at in *. rewrite He, nth_error_app1; auto. apply nth_error_Some. congruence.
  Qed.
End Evolve2.

(* the registry holds exactly the referenced, not detached nodes *)
Theorem lookup_live s i a : (RInv s /\ forall a, In a (gone s) -> reachable s a = false) ->
  (get_any s i = Some a <->
   exists c, cell_at s a = Some c /\ k_id c = i /\ ~ In a (det s) /\ reachable s a = true).
Proof.
  intros [Hs Hg]. rewrite (lookup_exact s i a Hs). split.
  - intros [c [Hc [Hi [Hd Hgn]]]]. exists c. repeat split; auto.
    apply (registered_reachable s i a Hs). apply (lookup_exact s i a Hs). exists c. auto.
  - intros [c [Hc [Hi [Hd Hr]]]]. exists c. repeat split; auto. intro Hgn. rewrite (Hg _ Hgn) in Hr. discriminate.
Qed.
