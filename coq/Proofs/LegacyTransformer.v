(* C18 round 3: a successful ASTTransformer.execute ends in the state in which the history of its primitive calls
   (Spec/LegacySpec3.v: exec_ops) ends; hence it preserves Inv2 whenever that history is guarded. *)
From Oak Require Import Spec.LegacySpec Spec.LegacySpec2 Spec.LegacySpec3 Proofs.LegacyProofs Proofs.LegacyInv
  Proofs.LegacyHeap Proofs.LegacyHistory Proofs.LegacyStep.
From Coq Require Import List String Ascii ZArith Bool Arith Lia.
Import ListNotations.

Section Transformer.
  Variable H : pystr -> pystr.
  Variable ct : ctable.

  Lemma run_app s a b : run H ct s (a ++ b) = run H ct (run H ct s a) b.
  Proof. unfold run. apply fold_left_app. Qed.

  (* a successful execute = the history of its primitive calls *)
  Theorem execute_is_history rules s root s' o order :
    op_execute H ct rules s root = Ok s' o -> postorder (fuel_of s) s root = Some order ->
    run H ct s (exec_ops H ct rules root s order) = s'.
  Proof.
    intros E Hp. unfold op_execute in E. rewrite Hp in E.
    match type of E with ?F s order [] = _ => set (go := F) in * end.
    clear Hp. revert E. generalize (@nil nat) as made. revert s s' o.
    induction order as [|child r IH]; intros s s' o made E.
    - simpl in E. inversion E; subst. reflexivity.
    - (* the continuation after the callback, given its outcome *)
      assert (Hcont : forall (call : list op) s1 new made1,
        run H ct s call = s1 ->
        (if Nat.eqb child root then Ok s1 (new, made1)
         else if (match new with Some n => negb (Nat.eqb n child) | None => true end) &&
                 (match new with Some n => negb (pystr_eqb (id_of s1 n) (id_of s1 child)) | None => true end)
              then let* (s2, _) := wrap_tr (op_replace_with H ct s1 child new) in go s2 r made1
              else go s1 r made1) = Ok s' o ->
        run H ct s
          (if Nat.eqb child root then call
           else if (match new with Some n => negb (Nat.eqb n child) | None => true end) &&
                   (match new with Some n => negb (pystr_eqb (id_of s1 n) (id_of s1 child)) | None => true end)
                then call ++ OReplaceWith child new :: exec_ops H ct rules root (fst (step H ct s1 (OReplaceWith child new))) r
                else call ++ exec_ops H ct rules root s1 r) = s').
      { intros call s1 new made1 Hrun Ec.
        destruct (Nat.eqb child root); [inversion Ec; subst; reflexivity|].
        match type of Ec with (if ?c then _ else _) = _ => destruct c end.
        - destruct (op_replace_with H ct s1 child new) as [s2 u|s2 e|] eqn:Erw; simpl in Ec; try discriminate.
          rewrite run_app, Hrun. simpl. rewrite Erw. simpl. eapply IH; exact Ec.
        - rewrite run_app, Hrun. eapply IH; exact Ec. }
      unfold go in E. cbn [exec_ops]. simpl in E. fold go in E.
      destruct (action_for rules (cellD s child)) as [| | |p v|cls org fs|] eqn:Ea; simpl in E; cbv beta iota zeta.
      + exact (Hcont [] s (Some child) made eq_refl E).
      + exact (Hcont [] s (Some child) made eq_refl E).
      + exact (Hcont [] s None made eq_refl E).
      + destruct (op_replace H ct s child [(p, CV (FP v))]) as [s1 n|s1 e|] eqn:Er; simpl in E; try discriminate.
        assert (Hst : step H ct s (OReplace child [(p, CV (FP v))]) = (s1, RNode n)) by (simpl; rewrite Er; reflexivity).
        rewrite Hst. cbn [snd result_node].
        assert (Hrun : run H ct s [OReplace child [(p, CV (FP v))]] = s1) by (unfold run; cbn [fold_left]; rewrite Hst; reflexivity).
        rewrite Hrun. exact (Hcont _ s1 (Some n) made Hrun E).
      + destruct (construct H ct s cls org fs None false false false) as [s1 n|s1 e|] eqn:Ec; simpl in E; try discriminate.
        assert (Hst : step H ct s (ONew cls org fs None false false false) = (s1, RNode n)) by (simpl; rewrite Ec; reflexivity).
        rewrite Hst. cbn [snd result_node].
        assert (Hrun : run H ct s [ONew cls org fs None false false false] = s1) by (unfold run; cbn [fold_left]; rewrite Hst; reflexivity).
        rewrite Hrun. exact (Hcont _ s1 (Some n) (made ++ [n]) Hrun E).
      + discriminate.
  Qed.

  Lemma run_in_trace : forall ops s, In (run H ct s ops) (trace H ct s ops).
  Proof.
    induction ops as [|o r IH]; intros s; simpl; [left; reflexivity|]. right. apply IH.
  Qed.

  Theorem inv2_step_transformer s root rules s' o made order :
    Inv2 H ct s -> step H ct s (OTransformer root rules) = (s', ROut o made) ->
    postorder (fuel_of s) s root = Some order ->
    guarded H ct s (exec_ops H ct rules root s order) -> Inv2 H ct s'.
  Proof.
    intros HI E Hp G. simpl in E.
    destruct (op_execute H ct rules s root) as [s1 out|s1 e|] eqn:Ee; simpl in E; inversion E; subst s1.
    rewrite <- (execute_is_history rules s root s' out order Ee Hp).
    eapply inv2_history; [exact HI | exact G | apply run_in_trace].
  Qed.
End Transformer.
