(* C18 round 2, part 2: the description holds for every successful _attach_inner on a tree-shaped receiver whose
   detached nodes do not share an id with one of their ancestors. *)
From Oak Require Import Spec.LegacySpec Spec.LegacySpec2 Proofs.LegacyInv Proofs.LegacyHeap Proofs.LegacyAttach.
From Coq Require Import List String Ascii ZArith Bool Arith Lia.
Import ListNotations.

Definition alink (s : st) (b : nat) (ks : list edge) (D : list nat) (E : list aedge) : Prop :=
  (forall d, In d D -> exists e, In e ks /\ reach s (enode e) d) /\
  (forall d k f i, In (d, (k, f, i)) E ->
      ((d = b /\ In (k, f, i) ks) \/ (In d D /\ In (k, f, i) (skids_wf s d))) /\
      (In k D \/ is_attached_root s k = true)) /\
  (forall d e, In d D -> In e (skids_wf s d) -> In (d, e) E) /\
  (forall e, In e ks -> In (b, e) E).

Definition att_node_spec (s : st) (b : nat) (s1 : st) : Prop :=
  exists D E, att_rel s s1 D E /\
  (forall d, In d D -> reach s b d) /\
  (forall d k f i, In (d, (k, f, i)) E ->
      In d D /\ In (k, f, i) (skids_wf s d) /\ (In k D \/ is_attached_root s k = true)) /\
  (forall d e, In d D -> In e (skids_wf s d) -> In (d, e) E) /\
  In b D.

Definition loop_pre (P : nat -> Prop) (s : st) (ks : list edge) : Prop :=
  NoDup (map enode ks) /\
  (forall e1 e2 x, In e1 ks -> In e2 ks -> enode e1 <> enode e2 ->
                   reach s (enode e1) x -> reach s (enode e2) x -> False) /\
  (forall e, In e ks -> live s (enode e) /\ tree_shaped s (enode e) /\ ids_apart P s (enode e)).

Lemma edge_kid s d k f i : In (k, f, i) (skids_wf s d) -> In k (skids s d).
Proof. intros Hin. apply in_skids. eauto. Qed.
Lemma reach_kid s d k : In k (skids s d) -> reach s d k.
Proof. intros Hk. eapply reach_step; [exact Hk | apply reach_refl]. Qed.

(* transport along a parent frame *)
Lemma Rank_pf s s' : pframe s s' -> Rank s -> Rank s'.
Proof. intros PF. apply rank_same_kids; [apply (pf_len _ _ PF) | intros b; apply (pf_skids _ _ PF)]. Qed.
Lemma tree_shaped_pf s s' a : pframe s s' -> tree_shaped s a -> tree_shaped s' a.
Proof.
  intros PF HT d Hd. apply (pframe_sym_reach _ _ _ _ PF) in Hd. destruct (HT d Hd) as [Hn Hx].
  rewrite (pf_skids _ _ PF). split; [exact Hn|].
  intros k1 k2 x H1 H2 Hne R1 R2. apply (Hx k1 k2 x H1 H2 Hne); eapply pframe_sym_reach; eassumption.
Qed.
Lemma ids_apart_pf P s s' a : pframe s s' -> ids_apart P s a -> ids_apart P s' a.
Proof.
  intros PF HI d d' R1 R2 Hne Hp. rewrite !(pf_id _ _ PF).
  apply HI; try assumption; eapply pframe_sym_reach; eassumption.
Qed.
Lemma loop_pre_pf P s s' ks : pframe s s' -> loop_pre P s ks -> loop_pre P s' ks.
Proof.
  intros PF [Hn [Hd He]]. split; [exact Hn|]. split.
  - intros e1 e2 x H1 H2 Hne R1 R2. apply (Hd e1 e2 x H1 H2 Hne); eapply pframe_sym_reach; eassumption.
  - intros e Hin. destruct (He e Hin) as [Hl [Ht Hi]].
    split; [apply (pf_live _ _ PF); exact Hl|]. split; [eapply tree_shaped_pf | eapply ids_apart_pf]; eassumption.
Qed.
Lemma loop_pre_tail P s e ks : loop_pre P s (e :: ks) -> loop_pre P s ks.
Proof.
  intros [Hn [Hd He]]. simpl in Hn. inversion Hn; subst. split; [assumption|]. split.
  - intros e1 e2 x Hi1 Hi2. apply Hd; right; assumption.
  - intros e' Hin. apply He. right; exact Hin.
Qed.

Lemma alink_adopted_reach s b ks D E x :
  alink s b ks D E -> In x (adopted E) -> exists e, In e ks /\ reach s (enode e) x.
Proof.
  intros [L1 [L2 _]] Hx. apply in_adopted in Hx. destruct Hx as [d [f [i Hin]]].
  destruct (L2 _ _ _ _ Hin) as [[[-> Hk]|[Hd Hk]] _].
  - exists (x, f, i). split; [exact Hk | apply reach_refl].
  - destruct (L1 d Hd) as [e [He Hr]]. exists e. split; [exact He|].
    eapply reach_trans; [exact Hr|]. apply reach_kid. eapply edge_kid; exact Hk.
Qed.

Section AttachSpec.
  Variable P : nat -> Prop.

  Lemma attach_loop_spec rec b :
    (forall s k s1, Rank s -> tree_shaped s k -> ids_apart P s k -> (forall x, detached s x = true -> P x) ->
                    rec s k = Ok s1 None -> att_node_spec s k s1) ->
    forall ks s s1, Rank s -> (forall x, detached s x = true -> P x) -> loop_pre P s ks ->
      attach_loop rec b s ks = Ok s1 None ->
      exists D E, att_rel s s1 D E /\ alink s b ks D E.
  Proof.
    intros Hrec. induction ks as [|[[k fn] i] r IH]; intros s s1 HR HP LP Eq.
    - simpl in Eq. inversion Eq; subst. exists [], []. split; [apply att_refl|].
      split; [|split; [|split]]; intros; contradiction.
    - destruct LP as [Hnd [Hdis Hek]].
      destruct (Hek (k, fn, i) (or_introl eq_refl)) as [Hlk [Htk Hik]]. simpl in Hlk, Htk, Hik.
      (* the first child: a description of what happened to it, and the rest of the loop *)
      assert (Pre : exists s' D1 E1, att_rel s s' D1 E1 /\
                (forall d, In d D1 -> reach s k d) /\
                (forall d k' f i', In (d, (k', f, i')) E1 ->
                     In d D1 /\ In (k', f, i') (skids_wf s d) /\ (In k' D1 \/ is_attached_root s k' = true)) /\
                (forall d e, In d D1 -> In e (skids_wf s d) -> In (d, e) E1) /\
                (In k D1 \/ is_attached_root s k = true) /\
                attach_loop rec b (set_parent s' k b fn i) r = Ok s1 None).
      { simpl in Eq. destruct (detached s k) eqn:Hd.
        - destruct (rec s k) as [s' [c|]|s' e'|] eqn:Er; try discriminate.
          destruct (Hrec _ _ _ HR Htk Hik HP Er) as [D1 [E1 [R1 [K1 [K2 [K3 K4]]]]]].
          exists s', D1, E1. split; [exact R1|]. split; [exact K1|]. split; [exact K2|]. split; [exact K3|].
          split; [left; exact K4 | exact Eq].
        - destruct (is_attached_root s k) eqn:Hr; simpl in Eq; [|discriminate].
          exists s, [], []. split; [apply att_refl|]. split; [intros; contradiction|]. split; [intros; contradiction|].
          split; [intros; contradiction|]. split; [right; reflexivity | exact Eq]. }
      destruct Pre as [s' [D1 [E1 [R1 [K1 [K2 [K3 [K4 Eq']]]]]]]].
      assert (PF1 := ar_pf _ _ _ _ R1).
      set (s'' := set_parent s' k b fn i) in *.
      assert (R2 : att_rel s' s'' [] [(b, (k, fn, i))]).
      { apply att_setp. apply (pf_live _ _ PF1). exact Hlk. }
      (* everything adopted or registered so far lies below k *)
      assert (HE1 : forall x, In x (adopted E1) -> reach s k x).
      { intros x Hx. apply in_adopted in Hx. destruct Hx as [d [f [i' Hin]]].
        destruct (K2 _ _ _ _ Hin) as [Hd [Hk _]]. apply edge_kid in Hk.
        eapply reach_trans; [apply K1; exact Hd | apply reach_kid; exact Hk]. }
      assert (HE1' : forall x, In x (adopted E1) -> x <> k).
      { intros x Hx. apply in_adopted in Hx. destruct Hx as [d [f [i' Hin]]].
        destruct (K2 _ _ _ _ Hin) as [Hd [Hk _]]. apply edge_kid in Hk.
        intros ->. exact (rank_acyc _ _ _ HR Hk (K1 d Hd)). }
      assert (R12 : att_rel s s'' (D1 ++ []) (E1 ++ [(b, (k, fn, i))])).
      { eapply att_trans; [exact R1 | exact R2 |].
        intros x Hx [<-|[]]. apply HE1' in Hx. unfold enode in Hx. simpl in Hx. apply Hx; reflexivity. }
      assert (PF12 := ar_pf _ _ _ _ R12).
      assert (HR'' : Rank s'') by (eapply Rank_pf; eassumption).
      assert (HP'' : forall x, detached s'' x = true -> P x).
      { intros x Hx. apply HP. destruct (detached s x) eqn:Hdx; [reflexivity|].
        assert (Hax := att_attached_fwd _ _ _ _ _ R12 Hdx). unfold attached in Hax. congruence. }
      assert (LP'' : loop_pre P s'' r).
      { eapply loop_pre_pf; [exact PF12|]. eapply loop_pre_tail. split; [exact Hnd | split; [exact Hdis | exact Hek]]. }
      destruct (IH _ _ HR'' HP'' LP'' Eq') as [D2 [E2 [R3 L3]]].
      assert (Hk_notin_r : forall e, In e r -> enode e <> k).
      { intros e He Ee. simpl in Hnd. inversion Hnd; subst. apply H1. apply in_map_iff. exists e. auto. }
      (* what lies below a later sibling does not lie below k *)
      assert (Hsep : forall x, (exists e, In e r /\ reach s'' (enode e) x) -> reach s k x -> False).
      { intros x [e [He Hr]] Hk. apply (pframe_sym_reach _ _ _ _ PF12) in Hr.
        apply (Hdis (k, fn, i) e x); simpl; auto. intros Ee. apply (Hk_notin_r e He). symmetry. exact Ee. }
      assert (HE12 : forall x, In x (adopted (E1 ++ [(b, (k, fn, i))])) -> reach s k x).
      { intros x Hx. rewrite adopted_app in Hx. apply in_app_or in Hx.
        destruct Hx as [Hx|[<-|[]]]; [apply HE1; exact Hx | apply reach_refl]. }
      assert (R : att_rel s s1 ((D1 ++ []) ++ D2) ((E1 ++ [(b, (k, fn, i))]) ++ E2)).
      { eapply att_trans; [exact R12 | exact R3 |].
        intros x Hx1 Hx2. apply (Hsep x); [eapply alink_adopted_reach; eassumption | apply HE12; exact Hx1]. }
      exists ((D1 ++ []) ++ D2), ((E1 ++ [(b, (k, fn, i))]) ++ E2). split; [exact R|].
      destruct L3 as [M1 [M2 [M3 M4]]].
      split; [|split; [|split]].
      + intros d Hd. rewrite app_nil_r in Hd. apply in_app_or in Hd. destruct Hd as [Hd|Hd].
        * exists (k, fn, i). split; [left; reflexivity | apply K1; exact Hd].
        * destruct (M1 d Hd) as [e [He Hr]]. exists e. split; [right; exact He|].
          eapply pframe_sym_reach; eassumption.
      + intros d k' f i' Hin. rewrite app_nil_r. apply in_app_or in Hin. destruct Hin as [Hin|Hin].
        * apply in_app_or in Hin. destruct Hin as [Hin|[Hin|[]]].
          -- destruct (K2 _ _ _ _ Hin) as [Hd [Hk Ho]]. split.
             ++ right. split; [apply in_or_app; left; exact Hd | exact Hk].
             ++ destruct Ho; [left; apply in_or_app; left; assumption | right; assumption].
          -- inversion Hin; subst. split; [left; split; [reflexivity | left; reflexivity]|].
             destruct K4; [left; apply in_or_app; left; assumption | right; assumption].
        * destruct (M2 _ _ _ _ Hin) as [Hwho Ho]. split.
          -- destruct Hwho as [[-> Hk]|[Hd Hk]]; [left; split; [reflexivity | right; exact Hk]|].
             right. split; [apply in_or_app; right; exact Hd|]. rewrite <- (pf_skids_wf _ _ PF12). exact Hk.
          -- destruct Ho as [Ho|Ho]; [left; apply in_or_app; right; exact Ho|]. right.
             assert (Hx : exists e, In e r /\ reach s'' (enode e) k').
             { eapply alink_adopted_reach; [split; [exact M1 | split; [exact M2 | split; [exact M3 | exact M4]]]|].
               apply in_adopted. eauto. }
             eapply att_root_back; [exact R12 | | | exact Ho].
             ++ rewrite app_nil_r. intros Hd. apply (Hsep k' Hx). apply K1; exact Hd.
             ++ intros Ha. apply (Hsep k' Hx). apply HE12; exact Ha.
      + intros d e Hd He. rewrite app_nil_r in Hd. apply in_app_or in Hd. apply in_or_app. destruct Hd as [Hd|Hd].
        * left. apply in_or_app. left. apply K3; assumption.
        * right. apply M3; [exact Hd|]. rewrite (pf_skids_wf _ _ PF12). exact He.
      + intros e [<-|He]; apply in_or_app.
        * left. apply in_or_app. right. left; reflexivity.
        * right. apply M4; exact He.
  Qed.

  Lemma attach_inner_spec : forall fuel s b s1,
    Rank s -> tree_shaped s b -> ids_apart P s b -> (forall x, detached s x = true -> P x) ->
    attach_inner fuel s b = Ok s1 None -> att_node_spec s b s1.
  Proof.
    induction fuel; intros s b s1 HR HT HI HP Eq; simpl in Eq; [discriminate|].
    destruct (reg_get s (id_of s b)) as [x|] eqn:Eg; [discriminate|].
    destruct (attach_loop (attach_inner fuel) b s (skids_wf s b)) as [s2 [c|]|s2 e2|] eqn:El; try discriminate.
    inversion Eq; subst s1. clear Eq.
    assert (LP : loop_pre P s (skids_wf s b)).
    { destruct (HT b (reach_refl _ _)) as [Hn Hx]. split; [exact Hn|]. split.
      - intros [[k1 f1] i1] [[k2 f2] i2] x H1 H2 Hne R1 R2. apply edge_kid in H1. apply edge_kid in H2.
        exact (Hx k1 k2 x H1 H2 Hne R1 R2).
      - intros [[k f] i] Hin. apply edge_kid in Hin. unfold enode; simpl.
        split; [eapply rank_kid_live; eassumption|]. split.
        + intros d Hd. apply HT. eapply reach_step; eassumption.
        + intros d d' R1 R2. apply HI; [eapply reach_step; eassumption | exact R2]. }
    destruct (attach_loop_spec _ b IHfuel _ _ _ HR HP LP El) as [D [E [R [L1 [L2 [L3 L4]]]]]].
    assert (PF := ar_pf _ _ _ _ R).
    assert (Hb : forall d, In d D -> reach s b d /\ d <> b).
    { intros d Hd. destruct (L1 d Hd) as [[[k f] i] [He Hr]]. apply edge_kid in He. unfold enode in Hr; simpl in Hr.
      split; [eapply reach_step; eassumption | eapply reach_kid_ne; eassumption]. }
    assert (Eg2 : reg_get s2 (id_of s2 b) = None).
    { rewrite (pf_id _ _ PF), (ar_reg _ _ _ _ R); [exact Eg|].
      intros d Hd Ei. destruct (Hb d Hd) as [Hr Hlt].
      apply (HI b d (reach_refl _ _) Hr); [congruence | | congruence].
      apply HP. eapply att_detached_D; eassumption. }
    assert (R' : att_rel s (reg_set s2 (id_of s2 b) b) (D ++ [b]) (E ++ [])).
    { eapply att_trans; [exact R | apply att_reg; exact Eg2 | intros ? ? []]. }
    exists (D ++ [b]), (E ++ []). split; [exact R'|]. split; [|split; [|split]].
    - intros d Hd. apply in_app_or in Hd. destruct Hd as [Hd|[<-|[]]]; [apply Hb; exact Hd | apply reach_refl].
    - intros d k f i Hin. rewrite app_nil_r in Hin. destruct (L2 _ _ _ _ Hin) as [Hwho Ho]. split; [|split].
      + destruct Hwho as [[-> _]|[Hd _]]; apply in_or_app; [right; left; reflexivity | left; exact Hd].
      + destruct Hwho as [[-> Hk]|[_ Hk]]; exact Hk.
      + destruct Ho; [left; apply in_or_app; left; assumption | right; assumption].
    - intros d e Hd He. rewrite app_nil_r. apply in_app_or in Hd.
      destruct Hd as [Hd|[<-|[]]]; [apply L3; assumption | apply L4; exact He].
    - apply in_or_app. right. left. reflexivity.
  Qed.
End AttachSpec.
