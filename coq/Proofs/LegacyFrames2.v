(* C19 round 2: more frames.
   - attach() rejected before anything was attached (the rejection is met on the leftmost path): total frame
   - attach() / constructor rejected anywhere: the CONTENT part of the frame (fields, id, original_id, content_id of
     every pre-existing node) holds whatever the point of failure; only links and registry can be left changed
   - replace_with(None) raising ASTNodeReplaceWithError changed nothing (the only source is the pre-check)
   - detach()/detach_self() raise no documented error at all *)
From Oak Require Import Spec.LegacySpec Spec.LegacySpec2 Proofs.LegacyProofs Proofs.LegacyInv Proofs.LegacyHeap
  Proofs.LegacyAttach Proofs.LegacyAttach2 Proofs.LegacyAttach3 Proofs.LegacyConstruct Proofs.LegacyConstruct2.
From Coq Require Import List String Ascii ZArith Bool Arith Lia.
Import ListNotations.

(* the rejection is met before any mutation: at the receiver, or at the first child, recursively *)
Inductive first_reject (s : st) : nat -> Prop :=
| fr_reg a : reg_get s (id_of s a) <> None -> first_reject s a
| fr_par a k f i r : reg_get s (id_of s a) = None -> skids_wf s a = (k, f, i) :: r ->
                     detached s k = false -> is_attached_root s k = false -> first_reject s a
| fr_deep a k f i r : reg_get s (id_of s a) = None -> skids_wf s a = (k, f, i) :: r ->
                      detached s k = true -> first_reject s k -> first_reject s a.

Lemma first_reject_inner s a : first_reject s a ->
  forall n fuel, depth_le s n a -> n < fuel ->
    (exists e, attach_inner fuel s a = Er s e) \/ (exists c, attach_inner fuel s a = Ok s (Some c)).
Proof.
  intros HF. induction HF as [a Hr|a k f i r Hr Hk Hd Hroot|a k f i r Hr Hk Hd HF IH]; intros n fuel Hdp Hlt;
    (destruct fuel as [|fuel]; [lia|]); simpl.
  - destruct (reg_get s (id_of s a)); [left; eauto | congruence].
  - rewrite Hr, Hk. simpl. rewrite Hd, Hroot. simpl. right; eauto.
  - rewrite Hr, Hk. simpl. rewrite Hd.
    assert (Hkk : In k (skids s a)). { apply in_skids. exists f, i. rewrite Hk. left; reflexivity. }
    destruct n as [|n]; simpl in Hdp; [exfalso; exact (Hdp k Hkk)|].
    destruct (IH n fuel (Hdp k Hkk) ltac:(lia)) as [[e E]|[c E]]; rewrite E; [left | right]; eauto.
Qed.

Section Frames2.
  Variable H : pystr -> pystr.
  Variable ct : ctable.

  Theorem frame_attach_first s a :
    Rank s -> live s a -> detached s a = true -> first_reject s a ->
    exists e, step H ct s (OAttach a) = (s, RErr e) /\ documented e = true /\ Frame s s.
  Proof.
    intros HK Hl Hd HF. simpl. unfold op_attach. rewrite Hd. simpl. unfold attach_.
    destruct (first_reject_inner s a HF (List.length (heap s)) (fuel_of s)) as [[e E]|[c E]];
      [apply rank_depth; exact HK | unfold fuel_of; lia | |];
      rewrite E; simpl.
    - exists e. split; [reflexivity|]. split; [|apply Frame_refl].
      rewrite (attach_inner_err _ _ _ _ _ E). reflexivity.
    - exists EPar. split; [reflexivity|]. split; [reflexivity | apply Frame_refl].
  Qed.

  (* the content part of the frame *)
  Definition same_content (s s' : st) : Prop :=
    forall b, live s b ->
      c_fs (cellD s' b) = c_fs (cellD s b) /\ c_id (cellD s' b) = c_id (cellD s b) /\
      c_oid (cellD s' b) = c_oid (cellD s b) /\ c_cid (cellD s' b) = c_cid (cellD s b).
  Lemma same_content_pframe s s' : pframe s s' -> same_content s s'.
  Proof.
    intros PF b _. split; [apply (pf_fs _ _ PF)|]. split; [apply (pf_id _ _ PF)|].
    split; [apply (pf_oid _ _ PF) | apply (pf_cid _ _ PF)].
  Qed.
  Lemma same_content_push s c s' : pframe (push s c) s' -> same_content s s'.
  Proof.
    intros PF b Hl. unfold live in Hl. destruct (same_content_pframe _ _ PF b) as [A [B [C D]]].
    { unfold live. rewrite heap_len_push. lia. }
    rewrite cellD_push_ne in A, B, C, D by lia. auto.
  Qed.

  Theorem attach_rejected_content s a s' e :
    step H ct s (OAttach a) = (s', RErr e) -> same_content s s'.
  Proof.
    simpl. unfold op_attach. destruct (negb (detached s a)); simpl; [discriminate|].
    assert (PF := attach_pframe s a). destruct (attach_ s a) as [s1 u|s1 e1|]; simpl in *; try discriminate.
    intros E; inversion E; subst. apply same_content_pframe; exact PF.
  Qed.

  Theorem new_rejected_content s cls org fs idarg eu ad cd s' e :
    step H ct s (ONew cls org fs idarg eu ad cd) = (s', RErr e) -> same_content s s'.
  Proof.
    simpl. destruct (construct H ct s cls org fs idarg eu ad cd) as [s1 r|s1 e1|] eqn:E; simpl; try discriminate.
    intros E'; inversion E'; subst s1 e1. clear E'.
    unfold construct in E. cbv zeta in E.
    fold (init_cell cls org fs idarg) in E. fold (push s (init_cell cls org fs idarg)) in E.
    match type of E with context [has_dup_id ?s0 [] ?k] => destruct (has_dup_id s0 [] k) end.
    { inversion E; subst. eapply same_content_push; apply pframe_refl. }
    destruct cd; cbv beta iota in E; [discriminate|].
    match type of E with context [reg_get ?s0 ?b] => destruct (reg_get s0 b) eqn:Eb end.
    - destruct (negb eu || ad).
      + match type of E with context [next_unique ?b ?s0] => destruct (next_unique b s0) eqn:En end; [|discriminate].
        cbv beta iota in E. rewrite upd_push in E.
        match type of E with context [attach_ ?s1 ?a] =>
          assert (PF := attach_pframe s1 a); destruct (attach_ s1 a) as [s2 u|s2 e2|] end; try discriminate.
        inversion E; subst. simpl in PF. eapply same_content_push; exact PF.
      + inversion E; subst. eapply same_content_push; apply pframe_refl.
    - cbv beta iota in E. rewrite upd_push in E.
      match type of E with context [attach_ ?s1 ?a] =>
        assert (PF := attach_pframe s1 a); destruct (attach_ s1 a) as [s2 u|s2 e2|] end; try discriminate.
      inversion E; subst. simpl in PF. eapply same_content_push; exact PF.
  Qed.

  (* detach raises nothing documented *)
  Theorem detach_error_undocumented s a s' e :
    (step H ct s (ODetach a) = (s', RErr e) \/ step H ct s (ODetachSelf a) = (s', RErr e)) -> e = ECrash.
  Proof.
    simpl. intros [E|E].
    - destruct (op_detach false s a) as [s1 b|s1 e1|] eqn:Ed; simpl in E; try discriminate.
      inversion E; subst. unfold op_detach in Ed. eapply detach_err; exact Ed.
    - destruct (op_detach true s a) as [s1 b|s1 e1|] eqn:Ed; simpl in E; try discriminate.
      inversion E; subst. unfold op_detach in Ed. eapply detach_err; exact Ed.
  Qed.

  Theorem detach_no_documented_error s a s' e :
    documented e = true ->
    step H ct s (ODetach a) <> (s', RErr e) /\ step H ct s (ODetachSelf a) <> (s', RErr e).
  Proof.
    intros Hd. split; intros E.
    - rewrite (detach_error_undocumented s a s' e (or_introl E)) in Hd. discriminate.
    - rewrite (detach_error_undocumented s a s' e (or_intror E)) in Hd. discriminate.
  Qed.

  (* replace_with(None): ASTNodeReplaceWithError can only come from the optionality pre-check *)
  Theorem replace_with_none_rejected s a s' :
    step H ct s (OReplaceWith a None) = (s', RErr ERw) -> s' = s.
  Proof.
    simpl. unfold op_replace_with. cbv beta iota.
    destruct (parent s a) as [p|].
    - destruct (c_pf (cellD s a)) as [f|]; [|simpl; intros E; inversion E].
      destruct (fdecl_of ct (c_cls (cellD s p)) f) as [dcl|]; [|simpl; intros E; inversion E].
      assert (Hrest : forall s0,
        lift (fun _ : unit => RNone) s
          (let* (s2, _) := op_detach false (clear_parent s a) a in
           let* (s5, _) := Ok s2 tt in replace_child H ct s5 p a f (c_pi (cellD s a)) None) = (s0, RErr ERw) -> False).
      { intros s0. destruct (op_detach false (clear_parent s a) a) as [s2 b|s2 e2|] eqn:Ed; simpl.
        - destruct (replace_child H ct s2 p a f (c_pi (cellD s a)) None) as [s3 u|s3 e3|] eqn:Er; simpl;
            try discriminate.
          intros E; inversion E; subst. apply replace_child_err in Er. discriminate.
        - intros E; inversion E; subst. unfold op_detach in Ed. apply detach_err in Ed. discriminate.
        - discriminate. }
      destruct (fd_kind dcl); simpl.
      + intros E; inversion E.
      + intros E; inversion E; reflexivity.
      + intros E. exfalso. eapply Hrest; exact E.
      + intros E. exfalso. eapply Hrest; exact E.
    - destruct (op_detach false s a) as [s1 b|s1 e1|] eqn:Ed; simpl; try discriminate.
      intros E; inversion E; subst. unfold op_detach in Ed. apply detach_err in Ed. discriminate.
  Qed.
  Theorem frame_replace_with_none_rejected s a s' :
    step H ct s (OReplaceWith a None) = (s', RErr ERw) -> Frame s s'.
  Proof. intros E. rewrite (replace_with_none_rejected _ _ _ E). apply Frame_refl. Qed.
End Frames2.
