(* C18 round 3: _replace_child on a hole state - part 2: entering the hole (clear_parent + detach of a node that has
   a parent) and leaving it (fill_hole: the parent's field is redirected to the new node, the new node gets its parent
   slots, the digests of the parent chain are recomputed when the content changed - and are right as they are when
   it did not). *)
From Oak Require Import Spec.LegacySpec Spec.LegacySpec2 Proofs.LegacyProofs Proofs.LegacyInv Proofs.LegacyHeap
  Proofs.LegacyDetach Proofs.LegacyAttach Proofs.LegacyAttach2 Proofs.LegacyAttach3 Proofs.LegacyConstruct
  Proofs.LegacyConstruct2 Proofs.LegacyRemove Proofs.LegacyRemoveSeq Proofs.LegacyHole Proofs.LegacyReplaceChild.
From Coq Require Import List String Ascii ZArith Bool Arith Lia.
Import ListNotations.

(* ---------- det_rel and attachment ---------- *)
Lemma det_attached_back s s1 D C x : det_rel s s1 D C -> attached s1 x -> attached s x /\ ~ In x D.
Proof.
  intros R Hx. assert (PF := dr_pf _ _ _ _ R). apply attached_reg in Hx. rewrite (pf_id _ _ PF) in Hx. split.
  - apply attached_reg. eapply dr_sub; eassumption.
  - intros Hd. rewrite (dr_pop _ _ _ _ R x Hd) in Hx. discriminate.
Qed.
Lemma det_attached_fwd s s1 D C x : det_rel s s1 D C -> attached s x -> ~ In x D -> attached s1 x.
Proof.
  intros R Hx Hn. assert (PF := dr_pf _ _ _ _ R). apply attached_reg. rewrite (pf_id _ _ PF), (dr_reg _ _ _ _ R).
  - apply attached_reg; exact Hx.
  - intros d Hd Ei. apply Hn. apply attached_reg in Hx. assert (Hd' := dr_att _ _ _ _ R d Hd).
    apply attached_reg in Hd'. rewrite Ei in Hd'. assert (x = d) by congruence. subst. exact Hd.
Qed.
(* a successful detach of an attached root pops it *)
Lemma detach_root_detached fuel os s a s1 b :
  detach fuel os s a = Ok s1 b -> is_attached_root s a = true -> detached s1 a = true.
Proof.
  intros E Hroot. destruct fuel as [|fuel]; simpl in E; [discriminate|].
  assert (Hd : detached s a = false).
  { unfold is_attached_root in Hroot. destruct (parent s a); [discriminate|]. apply negb_true_iff in Hroot. exact Hroot. }
  rewrite Hd, Hroot in E. simpl in E.
  destruct (detach_loop (detach fuel false) os s (skids s a)) as [s2 u|s2 e|]; try discriminate.
  destruct (reg_get s2 (id_of s2 a)) as [x|] eqn:Eg; [|discriminate]. inversion E; subst s1 b.
  unfold detached. change (id_of (reg_pop s2 (id_of s2 a)) a) with (id_of s2 a).
  rewrite reg_get_reg_pop, pystr_eqb_refl. reflexivity.
Qed.

Section ReplaceChild.
  Variable H : pystr -> pystr.
  Variable ct : ctable.

  (* ---------- into the hole ---------- *)
  Lemma hole_intro s a p f :
    Inv2 H ct s -> live s a -> attached s a -> parent s a = Some p -> c_pf (cellD s a) = Some f ->
    HInvX H ct (hole p a f (c_pi (cellD s a))) (clear_parent s a).
  Proof.
    intros HI Hla Haa Hpa Hpf. apply Inv2_split in HI. destruct HI as [[HR [HK [HP HL]]] HCid].
    set (s1 := clear_parent s a).
    assert (PF : pframe s s1) by apply pframe_clear_parent.
    assert (Hne : forall x, x <> a -> cellD s1 x = cellD s x).
    { intros x Hx. unfold s1. rewrite cellD_clear_parent. destruct (Nat.eqb a x) eqn:E; [|reflexivity].
      apply Nat.eqb_eq in E. congruence. }
    assert (Ha1 : cellD s1 a = cleared (cellD s a)) by (unfold s1; rewrite cellD_clear_parent, Nat.eqb_refl; reflexivity).
    assert (Hreg : forall i, reg_get s1 i = reg_get s i) by (intros i; unfold reg_get, s1; rewrite reg_clear_parent; reflexivity).
    assert (Hatt : forall x, attached s1 x <-> attached s x).
    { intros x. unfold attached, detached. rewrite Hreg, (pf_id _ _ PF). tauto. }
    assert (Hpar : forall x, x <> a -> parent s1 x = parent s x).
    { intros x Hx. unfold parent. rewrite (Hne x Hx). destruct (c_pid (cellD s x)); [apply Hreg | reflexivity]. }
    assert (Hpara : parent s1 a = None) by (unfold parent; rewrite Ha1; reflexivity).
    split; [split; [|split; [|split]]|].
    - intros i x Hx. rewrite Hreg in Hx. destruct (HR _ _ Hx) as [A B].
      split; [apply (pf_live _ _ PF); exact A | rewrite (pf_id _ _ PF); exact B].
    - eapply Rank_pf; eassumption.
    - intros x Hx. destruct (Nat.eq_dec x a) as [->|Hxa]; [rewrite Ha1 in Hx; simpl in Hx; congruence|].
      rewrite (Hne x Hxa) in Hx. destruct (HP x Hx) as [A B].
      split; [apply Hatt; exact A | rewrite (Hpar x Hxa); exact B].
    - intros x Hlx Hax. apply (pf_live _ _ PF) in Hlx. apply Hatt in Hax.
      destruct (HL x Hlx Hax) as [Hc [Hs Hl]]. split; [|split].
      + intros k g j Hin HnX. rewrite (pf_skids_wf _ _ PF) in Hin. destruct (Hc k g j Hin) as [A [B [C Dd]]].
        assert (Hka : k <> a).
        { intros ->. apply HnX. rewrite Hpa in B. inversion B; subst x.
          rewrite Hpf in C. inversion C; subst g. subst j. split; reflexivity. }
        split; [apply Hatt; exact A|]. rewrite (Hpar k Hka), (Hne k Hka). auto.
      + intros q Hq. assert (Hxa : x <> a) by (intros ->; congruence).
        rewrite (Hpar x Hxa) in Hq. destruct (Hs q Hq) as [g [Hg Hin]].
        exists g. rewrite (Hne x Hxa), (pf_skids_wf _ _ PF). split; assumption.
      + rewrite Hreg, (pf_id _ _ PF). exact Hl.
    - intros x Hlx Hax. apply (cid_ok_pframe H ct _ _ _ PF). apply HCid; [apply (pf_live _ _ PF); exact Hlx|].
      apply Hatt; exact Hax.
  Qed.

  (* clear_parent + detach (either mode) of an attached node that has a parent: the state with the hole *)
  Lemma hole_detach s a p f os s2 b :
    Inv2 H ct s -> live s a -> attached s a -> parent s a = Some p -> c_pf (cellD s a) = Some f ->
    op_detach os (clear_parent s a) a = Ok s2 b ->
    HInvX H ct (hole p a f (c_pi (cellD s a))) s2 /\ pframe s s2 /\
    detached s2 a = true /\ c_pid (cellD s2 a) = None /\ live s2 p /\ attached s2 p /\
    In (a, f, c_pi (cellD s a)) (skids_wf s2 p) /\ cid_ok H ct s2 a /\
    (forall x, attached s2 x -> attached s x).
  Proof.
    intros HI Hla Haa Hpa Hpf Ed.
    assert (HX1 := hole_intro s a p f HI Hla Haa Hpa Hpf).
    assert (HI' := HI). apply Inv2_split in HI'. destruct HI' as [[HR [HK [HP HL]]] HCid].
    set (s1 := clear_parent s a) in *. set (X := hole p a f (c_pi (cellD s a))) in *.
    assert (PF01 : pframe s s1) by apply pframe_clear_parent.
    assert (HK1 : Rank s1) by (eapply Rank_pf; eassumption).
    destruct (parent_attached _ _ _ HR Hpa) as [Hpatt _].
    assert (Hlp : live s p) by (apply attached_reg in Hpatt; apply HR in Hpatt; tauto).
    assert (Hedge : In (a, f, c_pi (cellD s a)) (skids_wf s p)).
    { destruct (HL a Hla Haa) as [_ [Hs _]]. destruct (Hs p Hpa) as [f' [Hf' Hin]].
      rewrite Hpf in Hf'. inversion Hf'; subst f'. exact Hin. }
    assert (Hap : ~ reach s a p) by (apply (proj2 HK); eapply edge_kid; exact Hedge).
    assert (Ha1 : cellD s1 a = cleared (cellD s a)) by (unfold s1; rewrite cellD_clear_parent, Nat.eqb_refl; reflexivity).
    assert (Haa1 : attached s1 a).
    { unfold attached, detached, reg_get, s1. rewrite reg_clear_parent. fold (reg_get s (id_of (clear_parent s a) a)).
      fold s1. rewrite (pf_id _ _ PF01). exact Haa. }
    assert (Hroot1 : is_attached_root s1 a = true).
    { assert (Hp1 : parent s1 a = None) by (unfold parent; rewrite Ha1; reflexivity).
      unfold is_attached_root. rewrite Hp1. apply negb_true_iff. exact Haa1. }
    unfold op_detach in Ed.
    destruct (detach_spec _ _ _ _ _ _ Ed) as [D [C [R [L Hr]]]].
    assert (PF12 := dr_pf _ _ _ _ R).
    assert (PF : pframe s s2) by (eapply pframe_trans; eassumption).
    assert (HpD : ~ In p D).
    { apply (dlink_not_above s1 [a] D p HK1 (proj1 L)). intros r [<-|[]] Hc. apply Hap.
      exact (pframe_sym_reach _ _ _ _ PF01 Hc). }
    assert (HX2 : SInvX X s2).
    { eapply sinvx_det; [exact (proj1 HX1) | exact R | exact L | exact Hr|].
      intros d e Hd [-> _]. exact (HpD Hd). }
    split; [split; [exact HX2|]|split; [exact PF | split; [|split; [|split; [|split; [|split; [|split]]]]]]].
    - intros x Hlx Hax. apply (cid_ok_pframe H ct _ _ _ PF12). apply (proj2 HX1); [apply (pf_live _ _ PF12); exact Hlx|].
      exact (proj1 (det_attached_back _ _ _ _ _ R Hax)).
    - eapply detach_root_detached; eassumption.
    - destruct (dr_either _ _ _ _ R a) as [E|E]; rewrite E, Ha1; reflexivity.
    - apply (pf_live _ _ PF); exact Hlp.
    - eapply det_attached_fwd; [exact R | | exact HpD].
      unfold attached, detached, reg_get, s1. rewrite reg_clear_parent. fold (reg_get s (id_of (clear_parent s a) p)).
      fold s1. rewrite (pf_id _ _ PF01). exact Hpatt.
    - rewrite (pf_skids_wf _ _ PF). exact Hedge.
    - apply (cid_ok_pframe H ct _ _ _ PF). apply HCid; assumption.
    - intros x Hx. destruct (det_attached_back _ _ _ _ _ R Hx) as [Hx1 _].
      unfold attached, detached, reg_get, s1 in Hx1. rewrite reg_clear_parent in Hx1.
      fold (reg_get s (id_of (clear_parent s a) x)) in Hx1. fold s1 in Hx1. rewrite (pf_id _ _ PF01) in Hx1. exact Hx1.
  Qed.

  (* ---------- out of the hole ---------- *)
  Lemma replace_child_unfold t p a f i n v :
    assoc f (c_fs (cellD t p)) = Some v -> In (a, f, i) (fkids (f, v)) ->
    replace_child H ct t p a f i (Some n) =
    (let t2 := upd t p (with_fs (set_key f (subst_val i n v) (c_fs (cellD t p)))) in
     let t3 := set_parent t2 n p f i in
     if negb (pystr_eqb (c_cid (cellD t3 a)) (c_cid (cellD t3 n))) then reset_cid H ct (fuel_of t3) t3 p else Ok t3 tt).
  Proof.
    intros Ha Hv. unfold replace_child. rewrite Ha.
    destruct v as [x|[k|]|l]; unfold fkids in Hv; simpl in Hv; try contradiction.
    - destruct Hv as [E|[]]. inversion E; subst. reflexivity.
    - apply in_map_iff in Hv. destruct Hv as [[j k] [E _]]. simpl in E. inversion E; subst. reflexivity.
  Qed.

  Theorem fill_hole t p a f i n t' u :
    HInvX H ct (hole p a f i) t -> live t p -> attached t p -> In (a, f, i) (skids_wf t p) ->
    NoDup (map fst (c_fs (cellD t p))) ->
    detached t a = true -> cid_ok H ct t a ->
    live t n -> attached t n -> c_pid (cellD t n) = None -> ~ reach t n p ->
    replace_child H ct t p a f i (Some n) = Ok t' u -> Inv2 H ct t'.
  Proof.
    intros [[HR [HK [HP HL]]] HCid] Hlp Hpatt Hedge Hnames Hda Hcida Hln Hnatt Hnpid Hnp E.
    destruct (flat_fkids_subst (c_fs (cellD t p)) f a i n Hnames Hedge) as [v [Hassoc [Hv Eq]]].
    rewrite (replace_child_unfold t p a f i n v Hassoc Hv) in E. cbv zeta in E.
    set (fs' := set_key f (subst_val i n v) (c_fs (cellD t p))) in *.
    set (t2 := upd t p (with_fs fs')) in *. set (t3 := set_parent t2 n p f i) in *.
    assert (Hpn : p <> n) by (intros ->; apply Hnp; apply reach_refl).
    assert (Hna : n <> a) by (intros ->; unfold attached in Hnatt; congruence).
    assert (Hvchild : (forall x, v <> FP x) /\ (forall x, subst_val i n v <> FP x)).
    { destruct v as [x|o|l]; [unfold fkids in Hv; simpl in Hv; contradiction| |];
        (split; [intros x; discriminate|]); destruct i; simpl; intros x; discriminate. }
    (* cells *)
    assert (Hlen : List.length (heap t3) = List.length (heap t)).
    { unfold t3, set_parent. rewrite heap_len_upd. unfold t2. apply heap_len_upd. }
    assert (Hreg : forall j, reg_get t3 j = reg_get t j).
    { intros j. unfold t3, set_parent. rewrite reg_get_upd. unfold t2. apply reg_get_upd. }
    assert (Hc2 : forall x, cellD t2 x = if Nat.eqb p x then with_fs fs' (cellD t x) else cellD t x).
    { intros x. unfold t2. rewrite cellD_upd. apply Nat.ltb_lt in Hlp. rewrite Hlp, andb_true_r. reflexivity. }
    assert (Hid2 : forall x, id_of t2 x = id_of t x).
    { intros x. unfold id_of. rewrite Hc2. destruct (Nat.eqb p x); reflexivity. }
    assert (Hc3 : forall x, cellD t3 x =
               if Nat.eqb n x then with_parent (Some (id_of t p)) (Some f) i (cellD t x)
               else if Nat.eqb p x then with_fs fs' (cellD t x) else cellD t x).
    { intros x. assert (Hlen2 : List.length (heap t2) = List.length (heap t)) by (unfold t2; apply heap_len_upd).
      unfold t3, set_parent. rewrite cellD_upd, Hlen2.
      apply Nat.ltb_lt in Hln. rewrite Hln, andb_true_r, Hid2, Hc2.
      destruct (Nat.eqb n x) eqn:En; [|reflexivity]. apply Nat.eqb_eq in En. subst x.
      apply Nat.eqb_neq in Hpn. rewrite Hpn. reflexivity. }
    assert (Hcp : cellD t3 p = with_fs fs' (cellD t p)).
    { rewrite Hc3. assert (En : Nat.eqb n p = false) by (apply Nat.eqb_neq; congruence). rewrite En, Nat.eqb_refl. reflexivity. }
    assert (Hcn : cellD t3 n = with_parent (Some (id_of t p)) (Some f) i (cellD t n)) by (rewrite Hc3, Nat.eqb_refl; reflexivity).
    assert (Hco : forall x, x <> p -> x <> n -> cellD t3 x = cellD t x).
    { intros x Hxp Hxn. rewrite Hc3. apply Nat.eqb_neq in Hxp. apply Nat.eqb_neq in Hxn.
      rewrite (Nat.eqb_sym n x), Hxn, (Nat.eqb_sym p x), Hxp. reflexivity. }
    assert (Hsame : forall x, c_cls (cellD t3 x) = c_cls (cellD t x) /\ c_cid (cellD t3 x) = c_cid (cellD t x) /\
                              id_of t3 x = id_of t x).
    { intros x. unfold id_of. rewrite Hc3. destruct (Nat.eqb n x); [|destruct (Nat.eqb p x)]; repeat split; reflexivity. }
    assert (Hslots : forall x, x <> n -> c_pid (cellD t3 x) = c_pid (cellD t x) /\ c_pf (cellD t3 x) = c_pf (cellD t x) /\
                                         c_pi (cellD t3 x) = c_pi (cellD t x)).
    { intros x Hxn. rewrite Hc3. apply Nat.eqb_neq in Hxn. rewrite (Nat.eqb_sym n x), Hxn.
      destruct (Nat.eqb p x); repeat split; reflexivity. }
    assert (Hfs : forall x, x <> p -> c_fs (cellD t3 x) = c_fs (cellD t x)).
    { intros x Hxp. rewrite Hc3. apply Nat.eqb_neq in Hxp. rewrite (Nat.eqb_sym p x), Hxp.
      destruct (Nat.eqb n x); reflexivity. }
    assert (Hskw : forall x, x <> p -> skids_wf t3 x = skids_wf t x).
    { intros x Hxp. unfold skids_wf, kids_wf. rewrite (Hfs x Hxp). reflexivity. }
    assert (Hskp : skids_wf t3 p = map (esub a n f i) (skids_wf t p)).
    { unfold skids_wf, kids_wf. rewrite Hcp. simpl. exact Eq. }
    assert (Hprops : props_of (cellD t3 p) = props_of (cellD t p)).
    { unfold props_of. rewrite Hcp. simpl. apply (props_set_key_child _ f v); [exact Hassoc | apply Hvchild | apply Hvchild]. }
    assert (Hatt : forall x, attached t3 x <-> attached t x).
    { intros x. unfold attached, detached. rewrite Hreg. destruct (Hsame x) as [_ [_ Ei]]. rewrite Ei. tauto. }
    assert (Hpar : forall x, x <> n -> parent t3 x = parent t x).
    { intros x Hxn. unfold parent. destruct (Hslots x Hxn) as [Ep _]. rewrite Ep.
      destruct (c_pid (cellD t x)); [apply Hreg | reflexivity]. }
    assert (Hparn : parent t3 n = Some p).
    { unfold parent. rewrite Hcn. simpl. rewrite Hreg. apply attached_reg. exact Hpatt. }
    assert (Hparn0 : parent t n = None) by (unfold parent; rewrite Hnpid; reflexivity).
    (* the stored child relation *)
    assert (Hsk : forall b k, In k (skids t3 b) -> In k (skids t b) \/ (b = p /\ k = n)).
    { intros b k Hk. apply in_skids in Hk. destruct Hk as [g [j Hk]]. destruct (Nat.eq_dec b p) as [->|Hb].
      - rewrite Hskp in Hk. apply in_map_esub in Hk. destruct Hk as [[Ek _]|[Hk _]].
        + inversion Ek; subst. right. split; reflexivity.
        + left. eapply edge_kid; exact Hk.
      - rewrite (Hskw b Hb) in Hk. left. eapply edge_kid; exact Hk. }
    assert (HK3 : Rank t3) by (apply (rank_redirect t t3 p n HK Hlen Hln Hnp Hsk)).
    (* a path to p of the old state is a path to p of the new one *)
    assert (Hreach_p : forall y z, reach t y z -> z = p -> reach t3 y p).
    { intros y z Hr. induction Hr as [y|y k d Hk Hr IH]; intros ->; [apply reach_refl|].
      destruct (Nat.eq_dec y p) as [->|Hy]; [apply reach_refl|].
      eapply reach_step; [|apply IH; reflexivity].
      unfold skids, kids, kids_wf. rewrite (Hfs y Hy). exact Hk. }
    (* the links *)
    assert (HS3 : SInv t3).
    { split; [|split; [exact HK3 | split]].
      - intros j x Hx. rewrite Hreg in Hx. destruct (HR _ _ Hx) as [A B].
        split; [unfold live in *; rewrite Hlen; exact A|]. destruct (Hsame x) as [_ [_ Ei]]. rewrite Ei. exact B.
      - intros x Hx. destruct (Nat.eq_dec x n) as [->|Hxn].
        + split; [apply Hatt; exact Hnatt | rewrite Hparn; discriminate].
        + destruct (Hslots x Hxn) as [Ep _]. rewrite Ep in Hx. destruct (HP x Hx) as [A B].
          split; [apply Hatt; exact A | rewrite (Hpar x Hxn); exact B].
      - intros x Hlx Hax. assert (Hlx0 : live t x) by (unfold live in *; rewrite <- Hlen; exact Hlx).
        apply Hatt in Hax. destruct (HL x Hlx0 Hax) as [Hc [Hs Hl]].
        (* an old child at a non-excepted edge keeps its slots *)
        assert (Hkeep : forall k g j, In (k, g, j) (skids_wf t x) -> ~ hole p a f i x (k, g, j) ->
                  attached t3 k /\ parent t3 k = Some x /\ c_pf (cellD t3 k) = Some g /\ c_pi (cellD t3 k) = j).
        { intros k g j Hin HnX. destruct (Hc k g j Hin HnX) as [A [B [C Dd]]].
          assert (Hkn : k <> n) by (intros ->; congruence).
          destruct (Hslots k Hkn) as [_ [Ef Ei]].
          split; [apply Hatt; exact A|]. rewrite (Hpar k Hkn), Ef, Ei. auto. }
        split; [|split].
        + intros k g j Hin. destruct (Nat.eq_dec x p) as [->|Hxp].
          * rewrite Hskp in Hin. apply in_map_esub in Hin. destruct Hin as [[Ek _]|[Hin Hne]].
            -- inversion Ek; subst k g j. split; [apply Hatt; exact Hnatt|]. split; [exact Hparn|].
               rewrite Hcn. split; reflexivity.
            -- apply Hkeep; [exact Hin|]. intros [_ Ee]. contradiction.
          * rewrite (Hskw x Hxp) in Hin. apply Hkeep; [exact Hin|]. intros [Ee _]. contradiction.
        + intros q Hq. destruct (Nat.eq_dec x n) as [->|Hxn].
          * rewrite Hparn in Hq. inversion Hq; subst q. exists f. rewrite Hcn. split; [reflexivity|]. simpl.
            rewrite Hskp. apply in_map_esub. left. split; [reflexivity | exact Hedge].
          * rewrite (Hpar x Hxn) in Hq. destruct (Hs q Hq) as [g [Hg Hin]].
            destruct (Hslots x Hxn) as [_ [Ef Ei]]. exists g. rewrite Ef, Ei. split; [exact Hg|].
            destruct (Nat.eq_dec q p) as [->|Hqp]; [|rewrite (Hskw q Hqp); exact Hin].
            rewrite Hskp. apply in_map_esub. right. split; [exact Hin|].
            intros Ee. inversion Ee; subst x. unfold attached in Hax. congruence.
        + rewrite Hreg. destruct (Hsame x) as [_ [_ Ei]]. rewrite Ei. exact Hl. }
    assert (Hl3 : live t3 p) by (unfold live in *; rewrite Hlen; exact Hlp).
    assert (Ha3 : attached t3 p) by (apply Hatt; exact Hpatt).
    destruct (negb (pystr_eqb (c_cid (cellD t3 a)) (c_cid (cellD t3 n)))) eqn:Ech.
    - (* the content changed: the digests are recomputed along the parent chain *)
      assert (HG3 : good_below H ct t3 p).
      { intros x Hlx Hax Hnr. assert (Hlx0 : live t x) by (unfold live in *; rewrite <- Hlen; exact Hlx).
        apply Hatt in Hax. destruct (Hsame x) as [_ [Ecid _]].
        apply (cid_ok_local H ct t t3 x HK); [rewrite Hlen; apply le_n | | exact Ecid | apply HCid; assumption].
        intros y Hy. assert (Hyp : y <> p) by (intros ->; apply Hnr; apply (Hreach_p x p Hy eq_refl)).
        destruct (Hsame y) as [Ecls _]. rewrite Ecls, (Hfs y Hyp). split; reflexivity. }
      destruct (reset_cid_repairs H ct _ _ _ _ _ HS3 Hl3 Ha3 HG3 E) as [HS' [_ HC']].
      apply Inv2_split. split; assumption.
    - (* same content: every digest is still right *)
      inversion E; subst t'. apply negb_false_iff in Ech. apply pystr_eqb_eq in Ech.
      destruct (Hsame a) as [_ [Eca _]]. destruct (Hsame n) as [_ [Ecn _]]. rewrite Eca, Ecn in Ech.
      assert (Hn_local : tree_cid H ct (fuel_of t3) t3 n = tree_cid H ct (fuel_of t) t n).
      { apply tree_cid_reach_local; [exact HK | | unfold fuel_of; rewrite Hlen; lia | unfold fuel_of; lia].
        intros y Hy. assert (Hyp : y <> p) by (intros ->; exact (Hnp Hy)).
        destruct (Hsame y) as [Ecls _]. rewrite Ecls, (Hfs y Hyp). split; reflexivity. }
      assert (Htc : forall x, tree_cid H ct (fuel_of t3) t3 x = tree_cid H ct (fuel_of t) t x).
      { apply (rank_ind t (fun x => tree_cid H ct (fuel_of t3) t3 x = tree_cid H ct (fuel_of t) t x) HK).
        intros x IH. rewrite (tree_cid_unfold H ct t3 x HK3), (tree_cid_unfold H ct t x HK).
        destruct (Hsame x) as [Ecls _]. rewrite Ecls.
        destruct (Nat.eq_dec x p) as [->|Hxp].
        - rewrite Hprops. f_equal. f_equal. f_equal.
          apply (kid_data_subst _ _ _ _ a n f i); [exact Hskp|].
          intros e He. destruct (edge_is a f i e) eqn:Ei.
          + apply edge_is_true in Ei. subst e. rewrite esub_hit. cbn [fst snd].
            rewrite Hn_local. unfold cid_ok in Hcida. rewrite <- Hcida, Ech. symmetry.
            apply HCid; assumption.
          + unfold esub. rewrite Ei. apply IH. destruct e as [[k g] j]. eapply edge_kid; exact He.
        - unfold props_of. rewrite (Hfs x Hxp). f_equal. f_equal. f_equal.
          assert (Ek : kid_data (tree_cid H ct (fuel_of t3) t3) (cellD t3 x) =
                       kid_data (tree_cid H ct (fuel_of t3) t3) (cellD t x)).
          { unfold kid_data, sorted_kids, kids_wf. rewrite (Hfs x Hxp). reflexivity. }
          rewrite Ek. apply kid_data_ext. intros k Hk. apply IH. exact Hk. }
      apply Inv2_split. split; [exact HS3|].
      intros x Hlx Hax. assert (Hlx0 : live t x) by (unfold live in *; rewrite <- Hlen; exact Hlx).
      apply Hatt in Hax. unfold cid_ok. destruct (Hsame x) as [_ [Ecid _]].
      rewrite Ecid, Htc. apply HCid; assumption.
  Qed.
End ReplaceChild.
