(* Proofs for C04: what was serialized is read back. Values, code points and ranges, sources (through the source
   registry, plain and index-based). Origins and nodes: see the _partial statements in Props/C04.v. *)
From Oak Require Import Model.SerOpts Model.Serial Proofs.AccessProofs Proofs.SerOptsProofs.
From Coq Require Import Permutation.

(* ---------- reading a key back from a hook's output ---------- *)
Lemma jget_none k m : ~ In k (map fst m) -> jget k m = None.
Proof.
  induction m as [|[k' v] m IH]; simpl; auto. intros Hn.
  destruct (pystr_eqb_spec k' k); [exfalso; auto|]. apply IH. tauto.
Qed.
Lemma jget_nodup k v m : NoDup (map fst m) -> In (k, v) m -> jget k m = Some v.
Proof.
  intros Hnd Hin. apply jget_unique; auto. intros v' Hv'.
  induction m as [|[k' w] m IH]; [destruct Hin|]. simpl in Hnd. inversion Hnd as [|? ? Hni Hnd']; subst.
  destruct Hin as [Hin|Hin], Hv' as [Hv'|Hv'].
  - congruence.
  - injection Hin as -> ->. exfalso. apply Hni. apply in_map_iff. exists (k, v'). auto.
  - injection Hv' as -> ->. exfalso. apply Hni. apply in_map_iff. exists (k, v). auto.
  - auto.
Qed.

Lemma base_post_get s cls d k v :
  NoDup (map fst d) -> ~ In type_key (map fst d) -> In (k, v) d -> jget k (base_post s cls d) = Some v.
Proof.
  intros Hnd Hnt Hin. apply jget_nodup.
  - unfold base_post. rewrite map_app.
    assert (Hd : NoDup (map fst (if get_sort s then sort_items d else d))).
    { destruct (get_sort s); auto. eapply Permutation_NoDup; [apply Permutation_map, sort_items_perm|exact Hnd]. }
    destruct (get_skip s); simpl; auto. constructor; auto.
    intros Hi. apply Hnt. destruct (get_sort s); auto.
    eapply Permutation_in; [apply Permutation_sym, Permutation_map, sort_items_perm|exact Hi].
  - unfold base_post. apply in_or_app. right. destruct (get_sort s); auto.
    eapply Permutation_in; [apply sort_items_perm|exact Hin].
Qed.
Lemma base_post_tag s cls d :
  get_skip s = false -> jget type_key (base_post s cls d) = Some (JStr cls).
Proof. intros Hs. unfold base_post. rewrite Hs. simpl. reflexivity. Qed.
Lemma base_post_nonempty s cls d : get_skip s = false -> is_empty_map (base_post s cls d) = false.
Proof. intros Hs. unfold base_post. rewrite Hs. reflexivity. Qed.

Ltac nodup_keys := cbn [map fst kv]; repeat constructor; simpl; intuition discriminate.
Ltac notin_keys := cbn [map fst kv]; unfold type_key; simpl; intuition discriminate.

(* ---------- property values ---------- *)
Definition not_opt (t : pty) : Prop := match t with TyOpt _ => False | _ => True end.
(* a value conforms to its annotation, and the annotation can tell its values apart *)
Fixpoint wt (s : slots) (t : pty) (v : pval) {struct t} : Prop :=
  match t with
  | TyInt => exists z, v = VInt z
  | TyStr => exists x, v = VStr x
  | TyBool => exists b, v = VBool b
  | TyFloat => exists r, v = VFloat r
  | TyPath => exists p, v = VPath p
  | TyEnum n ms => exists m p, v = VEnum n m p /\ find_member s ms (ser_pval s TyAny p) = Some (m, p)
  | TyOpt t' => not_opt t' /\ (v = VNone \/ (wt s t' v /\ ser_pval s t' v <> JNull))
  | TyTup e => exists l, v = VTuple l /\ Forall (wt s e) l
  | TyAny => match v with VNone | VBool _ | VInt _ | VStr _ | VFloat _ => True | _ => False end
  end.

Lemma ser_pval_opt s t v : not_opt t -> ser_pval s (TyOpt t) v = ser_pval s t v.
Proof.
  intros Hn. destruct v; simpl; auto.
  destruct t; simpl in *; auto; tauto.
Qed.

Theorem pval_roundtrip s : ints_as_str s = false ->
  forall t v, wt s t v -> deser_pval s t (ser_pval s t v) = Some v.
Proof.
  intros Hi. induction t as [| | | | |n ms|t IH|e IH|]; intros v Hw; simpl in Hw.
  - destruct Hw as [z ->]. simpl. unfold ser_int, deser_int. rewrite Hi. reflexivity.
  - destruct Hw as [x ->]. reflexivity.
  - destruct Hw as [b ->]. reflexivity.
  - destruct Hw as [r ->]. reflexivity.
  - destruct Hw as [p ->]. reflexivity.
  - destruct Hw as [m [p [-> Hf]]]. cbn [ser_pval deser_pval]. rewrite Hf. reflexivity.
  - destruct Hw as [Hn [->|[Hw Hnn]]]; [reflexivity|].
    rewrite ser_pval_opt by exact Hn. cbn [deser_pval].
    destruct (ser_pval s t v) eqn:E; try (rewrite <- E; apply IH; exact Hw). congruence.
  - destruct Hw as [l [-> Hl]]. cbn [ser_pval elem_ty deser_pval].
    induction Hl as [|x l Hx Hl IHl]; [reflexivity|]. cbn [map].
    rewrite (IH x Hx).
    match type of IHl with option_map _ ?g = _ => destruct g eqn:Eg end; [|discriminate].
    simpl in IHl. injection IHl as <-. reflexivity.
  - destruct v; try tauto; reflexivity.
Qed.

(* ---------- code points and ranges ---------- *)
Lemma point_roundtrip s p : ints_as_str s = false -> get_skip s = false -> wf_point p ->
  deser_point s (ser_point s p) = Ok p.
Proof.
  intros Hi Hs [H1 [H2 H3]]. unfold ser_point, deser_point.
  set (d := [kv "index" _; kv "line" _; kv "column" _]).
  unfold jtag. rewrite base_post_tag by exact Hs. rewrite pystr_eqb_refl.
  rewrite (base_post_get s _ d (lit "index") (ser_int s (p_idx p))); [|subst d; nodup_keys|subst d; notin_keys|subst d; simpl; auto].
  rewrite (base_post_get s _ d (lit "line") (ser_int s (p_line p))); [|subst d; nodup_keys|subst d; notin_keys|subst d; simpl; auto].
  rewrite (base_post_get s _ d (lit "column") (ser_int s (p_col p))); [|subst d; nodup_keys|subst d; notin_keys|subst d; simpl; auto].
  unfold ser_int, deser_int. rewrite Hi. unfold mk_point.
  destruct (Z.ltb_spec (p_idx p) 0); [lia|]. destruct (Z.ltb_spec (p_line p) 1); [lia|]. destruct (Z.ltb_spec (p_col p) 0); [lia|].
  destruct p; reflexivity.
Qed.
Lemma range_roundtrip s r : ints_as_str s = false -> get_skip s = false -> wf_range r ->
  deser_range s (ser_range s r) = Ok r.
Proof.
  intros Hi Hs [H1 [H2 H3]]. unfold ser_range, deser_range.
  set (d := [kv "start" _; kv "end" _]).
  unfold tag_is, jtag. rewrite base_post_tag by exact Hs. rewrite pystr_eqb_refl.
  rewrite (base_post_get s _ d (lit "start") (ser_point s (r_start r))); [|subst d; nodup_keys|subst d; notin_keys|subst d; simpl; auto].
  rewrite (base_post_get s _ d (lit "end") (ser_point s (r_end r))); [|subst d; nodup_keys|subst d; notin_keys|subst d; simpl; auto].
  rewrite !point_roundtrip by assumption. unfold mk_range, p_gt, p_lt.
  destruct (Z.ltb_spec (p_idx (r_end r)) (p_idx (r_start r))); [lia|]. destruct r; reflexivity.
Qed.

(* ---------- sources ---------- *)
Lemma source_eqb_refl x : source_eqb x x = true.
Proof.
  induction x as [|u t|u r|p|l IH] using source_ind'; simpl; rewrite ?pystr_eqb_refl; auto.
  induction IH as [|y l Hy Hl IHl]; auto. rewrite Hy. exact IHl.
Qed.
Lemma source_eqb_trans x : forall y z, source_eqb x y = true -> source_eqb y z = true -> source_eqb x z = true.
Proof.
  induction x as [|u t|u r|p|l IH] using source_ind'; intros [|u' t'|u' r'|p'|l'] [|u'' t''|u'' r''|p''|l'']; simpl;
    try discriminate; auto.
  - intros E1 E2. apply andb_prop in E1 as [A1 B1]. apply andb_prop in E2 as [A2 B2].
    apply pystr_eqb_eq in A1, B1, A2, B2. subst. rewrite !pystr_eqb_refl. reflexivity.
  - intros E1 E2. apply pystr_eqb_eq in E1, E2. subst. apply pystr_eqb_refl.
  - intros E1 E2. apply pystr_eqb_eq in E1, E2. subst. apply pystr_eqb_refl.
  - revert l' l''. induction IH as [|a l Ha Hl IHl]; intros [|b l'] [|c l'']; try discriminate; auto.
    intros E1 E2. apply andb_prop in E1 as [A1 B1]. apply andb_prop in E2 as [A2 B2].
    rewrite (Ha _ _ A1 A2). simpl. exact (IHl _ _ B1 B2).
Qed.

Lemma index_of_nth x reg i : index_of x reg = Some i ->
  exists y, nth_error reg i = Some y /\ source_eqb y x = true.
Proof.
  revert i. induction reg as [|y reg IH]; simpl; [discriminate|]. intros i.
  destruct (source_eqb y x) eqn:E.
  - intros [= <-]. exists y. auto.
  - destruct (index_of x reg) as [j|]; [|discriminate]. intros [= <-]. simpl. apply IH. reflexivity.
Qed.
Lemma index_of_app_self x reg : index_of x reg = None -> index_of x (reg ++ [x]) = Some (length reg).
Proof.
  induction reg as [|y reg IH]; simpl.
  - rewrite source_eqb_refl. reflexivity.
  - destruct (source_eqb y x); [discriminate|]. destruct (index_of x reg); [discriminate|]. intros _. rewrite IH; reflexivity.
Qed.
Lemma register1_has x reg : exists i, index_of x (register1 x reg) = Some i.
Proof.
  unfold register1. destruct (index_of x reg) as [i|] eqn:E; [exists i; exact E|].
  eexists. apply index_of_app_self. exact E.
Qed.
(* the tail of Source._deserialize: register the new object, hand back the registered instance *)
Lemma registered_instance obj reg :
  exists y reg', (let reg2 := register1 obj reg in
                  match index_of obj reg2 with
                  | Some i => match nth_error reg2 i with Some r => Ok (r, reg2) | None => Exc end
                  | None => Exc
                  end) = Ok (y, reg') /\ source_eqb y obj = true.
Proof.
  destruct (register1_has obj reg) as [i Hi]. cbv zeta. rewrite Hi.
  destruct (index_of_nth _ _ _ Hi) as [y [Hy Ey]]. rewrite Hy. eauto.
Qed.

Fixpoint source_depth (x : source) : nat :=
  match x with SSet l => S (fold_right (fun y n => Nat.max (source_depth y) n) 0 l) | _ => 1 end.

Lemma jget_jpop k k' m : k <> k' -> jget k (jpop k' m) = jget k m.
Proof.
  intros Hn. induction m as [|[a v] m IH]; simpl; auto.
  destruct (pystr_eqb_spec a k') as [->|Ha]; simpl.
  - destruct (pystr_eqb_spec k' k); [congruence|exact IH].
  - destruct (pystr_eqb a k); auto.
Qed.
Lemma jget_jpop_same k m : jget k (jpop k m) = None.
Proof.
  induction m as [|[a v] m IH]; simpl; auto.
  destruct (pystr_eqb_spec a k) as [->|Ha]; simpl; auto.
  destruct (pystr_eqb_spec a k); [congruence|exact IH].
Qed.
Lemma base_post_absent s cls d k : k <> type_key -> ~ In k (map fst d) -> jget k (base_post s cls d) = None.
Proof.
  intros Hk Hn. apply jget_none. unfold base_post. rewrite map_app. intros Hi. apply in_app_or in Hi as [Hi|Hi].
  - destruct (get_skip s); simpl in Hi; [tauto|]. destruct Hi as [Hi|[]]. congruence.
  - apply Hn. destruct (get_sort s); auto.
    eapply Permutation_in; [apply Permutation_sym, Permutation_map, sort_items_perm|exact Hi].
Qed.

Section SourceRT.
  Variable s : slots.
  Hypothesis Hx : get_sidx s = false.
  Hypothesis Hs : get_skip s = false.

  Lemma sp_tag cls d : jtag (source_post s cls d) = Some cls.
  Proof.
    unfold jtag, source_post. rewrite jget_jpop by (vm_compute; discriminate). rewrite base_post_tag by exact Hs. reflexivity.
  Qed.
  Lemma sp_nonempty cls d : is_empty_map (source_post s cls d) = false.
  Proof. unfold source_post, base_post. rewrite Hs. reflexivity. Qed.
  Lemma sp_get cls d k v : k <> lit "_raw" -> NoDup (map fst d) -> ~ In type_key (map fst d) -> In (k, v) d ->
    jget k (source_post s cls d) = Some v.
  Proof. intros Hk Hn Ht Hi. unfold source_post. rewrite jget_jpop by exact Hk. apply base_post_get; auto. Qed.
  Lemma sp_absent cls d k : k <> lit "_raw" -> k <> type_key -> ~ In k (map fst d) -> jget k (source_post s cls d) = None.
  Proof. intros Hk Ht Hn. unfold source_post. rewrite jget_jpop by exact Hk. apply base_post_absent; auto. Qed.
  Lemma sp_raw cls d : jget (lit "_raw") (source_post s cls d) = None.
  Proof. apply jget_jpop_same. Qed.

  Ltac key_ne := vm_compute; discriminate.
  Ltac sp_rewrite d :=
    repeat match goal with
    | |- context [jget ?k (source_post s ?cls d)] =>
      first [ rewrite (sp_raw cls d)
            | rewrite (sp_absent cls d k) by (first [key_ne | subst d; notin_keys])
            | erewrite (sp_get cls d k) by (first [key_ne | subst d; nodup_keys | subst d; notin_keys | subst d; simpl; auto 6]) ]
    end.

  Lemma mapM_sources fuel l :
    Forall (fun x => forall reg0 v reg, ser_source s reg0 x = Some v ->
                     exists x' reg', deser_source fuel v reg = Ok (x', reg') /\ source_eqb x' x = true) l ->
    forall reg0 vs reg, omap (ser_source s reg0) l = Some vs ->
    exists ys reg', mapM_st (deser_source fuel) vs reg = Ok (ys, reg') /\ source_eqb (SSet ys) (SSet l) = true.
  Proof.
    induction 1 as [|x l Hxx Hl IHl]; intros reg0 vs reg E; simpl in E.
    - injection E as <-. simpl. eauto.
    - destruct (ser_source s reg0 x) as [v|] eqn:Ev; [|discriminate].
      destruct (omap _ l) as [vs'|] eqn:El; [|discriminate]. injection E as <-.
      destruct (Hxx _ _ reg Ev) as [x' [reg1 [D1 E1]]]. destruct (IHl _ _ reg1 El) as [ys [reg2 [D2 E2]]].
      exists (x' :: ys), reg2. simpl. rewrite D1, D2. split; auto. simpl in E2. rewrite E1. exact E2.
  Qed.

  Theorem source_roundtrip x : forall reg0 v fuel reg, ser_source s reg0 x = Some v -> source_depth x <= fuel ->
    exists x' reg', deser_source fuel v reg = Ok (x', reg') /\ source_eqb x' x = true.
  Proof.
    induction x as [|u t|u r|p|l IH] using source_ind'; intros reg0 v fuel reg E Hf;
      (destruct fuel as [|fuel]; [simpl in Hf; lia|]).
    - injection E as <-. simpl. eauto.
    - cbn [ser_source] in E. rewrite Hx in E. injection E as <-. cbn [deser_source].
      match goal with |- context [source_post s _ ?dd] => set (d := dd) end.
      rewrite sp_nonempty. unfold tag_is. rewrite !sp_tag. sp_rewrite d.
      repeat match goal with |- context [pystr_eqb (lit ?a) (lit ?b)] => let r := eval vm_compute in (pystr_eqb (lit a) (lit b)) in change (pystr_eqb (lit a) (lit b)) with r end.
      cbv beta iota delta [orb jget_str]. sp_rewrite d. cbv beta iota.
      exact (registered_instance (SText u t) reg).
    - cbn [ser_source] in E. rewrite Hx in E. injection E as <-. cbn [deser_source].
      match goal with |- context [source_post s _ ?dd] => set (d := dd) end.
      rewrite sp_nonempty. unfold tag_is. rewrite !sp_tag. sp_rewrite d.
      repeat match goal with |- context [pystr_eqb (lit ?a) (lit ?b)] => let r := eval vm_compute in (pystr_eqb (lit a) (lit b)) in change (pystr_eqb (lit a) (lit b)) with r end.
      cbv beta iota delta [orb jget_str]. sp_rewrite d. cbv beta iota.
      destruct (registered_instance (SMem u None) reg) as [y [reg' [D Ey]]]. exists y, reg'. split; [exact D|].
      eapply source_eqb_trans; [exact Ey|]. simpl. apply pystr_eqb_refl.
    - cbn [ser_source] in E. rewrite Hx in E. injection E as <-. cbn [deser_source].
      match goal with |- context [source_post s _ ?dd] => set (d := dd) end.
      rewrite sp_nonempty. unfold tag_is. rewrite !sp_tag. sp_rewrite d.
      repeat match goal with |- context [pystr_eqb (lit ?a) (lit ?b)] => let r := eval vm_compute in (pystr_eqb (lit a) (lit b)) in change (pystr_eqb (lit a) (lit b)) with r end.
      cbv beta iota delta [orb jget_str]. sp_rewrite d. cbv beta iota.
      exact (registered_instance (SFile p) reg).
    - cbn [ser_source] in E. rewrite Hx in E.
      destruct (omap (ser_source s reg0) l) as [vs|] eqn:El; [|discriminate]. injection E as <-. cbn [deser_source].
      match goal with |- context [source_post s _ ?dd] => set (d := dd) end.
      rewrite sp_nonempty. unfold tag_is. rewrite !sp_tag. sp_rewrite d.
      repeat match goal with |- context [pystr_eqb (lit ?a) (lit ?b)] => let r := eval vm_compute in (pystr_eqb (lit a) (lit b)) in change (pystr_eqb (lit a) (lit b)) with r end.
      cbv beta iota delta [orb jget_str]. sp_rewrite d. cbv beta iota.
      assert (IH' : Forall (fun x => forall reg0 v reg, ser_source s reg0 x = Some v ->
                       exists x' reg', deser_source fuel v reg = Ok (x', reg') /\ source_eqb x' x = true) l).
      { simpl in Hf. apply le_S_n in Hf. clear - IH Hf. induction IH as [|x l Hxx Hl IHl]; constructor.
        - intros reg0 v reg E. apply (Hxx reg0 v fuel reg E). simpl in Hf. lia.
        - apply IHl. simpl in Hf. lia. }
      destruct (mapM_sources fuel l IH' reg0 vs reg El) as [ys [reg1 [D E1]]]. rewrite D.
      destruct (registered_instance (SSet ys) reg1) as [y [reg' [D2 Ey]]]. exists y, reg'. split; [exact D2|].
      eapply source_eqb_trans; [exact Ey|exact E1].
  Qed.

  (* index-based serialization: the reference resolves, in any registry that holds an equal source at that index *)
  Theorem source_index_roundtrip (s' : slots) x reg reg' i fuel : get_sidx s' = true -> x <> SNo ->
    ser_source s' reg x = Some (JMap [kv "idx" (JInt (Z.of_nat i))]) ->
    (forall y, nth_error reg i = Some y -> exists y', nth_error reg' i = Some y' /\ source_eqb y' y = true) ->
    exists y', deser_source (S fuel) (JMap [kv "idx" (JInt (Z.of_nat i))]) reg' = Ok (y', reg') /\ source_eqb y' x = true.
  Proof.
    intros Hi Hn E Hreg.
    assert (Ei : index_of x reg = Some i).
    { destruct x; try congruence; simpl in E; rewrite Hi in E; destruct (index_of _ reg) as [j|]; try discriminate;
        injection E as E; apply Nat2Z.inj in E; congruence. }
    destruct (index_of_nth _ _ _ Ei) as [y [Hy Ey]]. destruct (Hreg y Hy) as [y' [Hy' Ey']].
    exists y'. split; [|eapply source_eqb_trans; eauto].
    cbn [deser_source]. cbv beta iota delta [is_empty_map kv tag_is jtag]. simpl jget.
    cbv beta iota delta [orb]. destruct (Z.ltb_spec (Z.of_nat i) 0); [lia|]. rewrite Nat2Z.id, Hy'. reflexivity.
  Qed.
End SourceRT.

(* ---------- singletons ---------- *)
Lemma singletons s reg fuel :
  ser_source s reg SNo = Some (JMap []) /\ deser_source (S fuel) (JMap []) reg = Ok (SNo, reg)
  /\ ser_origin s reg ONo = Some (JMap []) /\ deser_origin (S fuel) s (JMap []) reg = Ok (ONo, reg).
Proof. repeat split. Qed.

(* ---------- a worked tree: every origin kind, a shared child, read back into an empty node registry ---------- *)
Definition x_ct : ctable :=
  [ {| cd_name := lit "Leaf"; cd_bases := [];
       cd_own := [ {| fd_name := lit "v"; fd_role := RProp; fd_compare := true; fd_init := true; fd_kwonly := false |};
                   {| fd_name := lit "t"; fd_role := RProp; fd_compare := false; fd_init := true; fd_kwonly := false |} ] |};
    {| cd_name := lit "Par"; cd_bases := [];
       cd_own := [ {| fd_name := lit "kids"; fd_role := RChild KTup; fd_compare := true; fd_init := true; fd_kwonly := false |};
                   {| fd_name := lit "one"; fd_role := RChild (KOpt true); fd_compare := true; fd_init := true; fd_kwonly := false |};
                   {| fd_name := lit "b"; fd_role := RProp; fd_compare := true; fd_init := true; fd_kwonly := false |} ] |} ].
Definition x_pt : ptab :=
  [ (lit "Leaf", [ {| pd_name := lit "v"; pd_ty := TyOpt TyInt; pd_default := None |};
                   {| pd_name := lit "t"; pd_ty := TyTup TyStr; pd_default := None |} ]);
    (lit "Par", [ {| pd_name := lit "b"; pd_ty := TyPath; pd_default := None |} ]) ].
Definition x_src : source := SText (lit "u") (lit "T").
Definition x_pt0 : point := {| p_idx := 0; p_line := 1; p_col := 0 |}.
Definition x_pt3 : point := {| p_idx := 3; p_line := 1; p_col := 3 |}.
Definition x_leaf1 : node :=
  Node 2 (lit "Leaf") (OMulti [OGen x_src; OXml (SFile (lit "f.xml")) (lit "/a"); OCode (SMem (lit "m") None) {| r_start := x_pt0; r_end := x_pt3 |}])
       [(lit "v", VInt 7%Z); (lit "t", VTuple [VStr (lit "a:b"); VStr []])] [].
Definition x_leaf2 : node := Node 3 (lit "Leaf") (OEntire (SSet [x_src; SNo])) [(lit "v", VNone); (lit "t", VTuple [])] [].
Definition x_leaf3 : node := Node 4 (lit "Leaf") (OEntire (SSet [x_src; SNo])) [(lit "v", VNone); (lit "t", VTuple [])] [].  (* a twin: id with suffix *)
Definition x_tree : node :=
  Node 1 (lit "Par") ONo [(lit "b", VPath (lit "d/f.txt"))]
       [(lit "kids", (ShMany, [x_leaf1; x_leaf2; x_leaf1; x_leaf3])); (lit "one", (ShOne, [x_leaf2]))].
Definition x_H (x : pystr) : pystr := dec (length x).

Fixpoint all_pairs {A} (l : list A) : list (A * A) := flat_map (fun x => map (fun y => (x, y)) l) l.
Fixpoint preorder (n : node) : list node :=
  match n with Node _ _ _ _ ks => n :: flat_map (fun k => flat_map preorder (snd (snd k))) ks end.
Fixpoint zip {A B} (x : list A) (y : list B) : list (A * B) :=
  match x, y with a :: x', b :: y' => (a, b) :: zip x' y' | _, _ => [] end.
Fixpoint pvals_eqb (x y : list (pystr * pval)) : bool :=
  match x, y with
  | [], [] => true
  | (k, p) :: x', (k', q) :: y' => pystr_eqb k k' && pval_eqb p q && pvals_eqb x' y'
  | _, _ => false
  end.

(* position-wise: class, id, content_id, properties, origin; the same sharing; all nodes new *)
Definition rt_check (given : optdict) (fresh_sources : bool) : bool :=
  let st := build x_H x_ct x_tree {| b_ids := []; b_used := []; b_srcs := [] |} in
  let s := {| sl_opts := given; sl_md := None |} in
  match ser_node x_H x_ct x_pt current_nv s (b_srcs st) (b_ids st) [] x_tree with
  | None => false
  | Some v =>
    let srcs := if fresh_sources then
                  match all_as_dict (b_srcs st) with
                  | Some ds => load_sources 10 ds []
                  | None => Exc
                  end
                else Ok (b_srcs st) in
    match srcs with
    | Exc => false
    | Ok srcs' =>
      match deser_node x_H x_ct x_pt current_dv (S (sval_depth v)) s v
              {| ds_srcs := srcs'; ds_reg := []; ds_ids := []; ds_next := 100 |} with
      | Exc => false
      | Ok (n', st') =>
        let ps := zip (preorder x_tree) (preorder n') in
        Nat.eqb (length (preorder x_tree)) (length (preorder n'))
        && forallb (fun p => let '(a, b) := p in
                     pystr_eqb (cls a) (cls b) && origin_eqb (norigin b) (norigin a) && pvals_eqb (nprops a) (nprops b)
                     && Nat.leb 100 (addr b)
                     && match assoc_nat (addr a) (b_ids st), assoc_nat (addr b) (ds_ids st') with
                        | Some i, Some (i', c') => pystr_eqb i i' && pystr_eqb c' (cid_of x_H x_ct a)
                        | _, _ => false
                        end) ps
        && forallb (fun pq => let '((a, b), (a', b')) := pq in Bool.eqb (Nat.eqb (addr a) (addr a')) (Nat.eqb (addr b) (addr b'))) (all_pairs ps)
      end
    end
  end.
Definition sort_idx : optdict := {| od_skip := None; od_sort := Some true; od_dial := None; od_sidx := Some true |}.
Lemma example_roundtrip :
  rt_check od_empty false = true /\ rt_check od_empty true = true /\ rt_check sort_idx false = true /\ rt_check sort_idx true = true.
Proof. vm_compute. auto. Qed.
(* the calibration mutant deser_no_force_id: the twin leaf comes back under its un-suffixed id *)
Definition forced_ids (dv : dvariant) : bool :=
  let st := build x_H x_ct x_tree {| b_ids := []; b_used := []; b_srcs := [] |} in
  (* the twin leaf alone, read back when its content-identical sibling is gone *)
  match ser_node x_H x_ct x_pt current_nv slots0 (b_srcs st) (b_ids st) [] x_leaf3 with
  | None => false
  | Some v =>
    match deser_node x_H x_ct x_pt dv (S (sval_depth v)) slots0 v {| ds_srcs := b_srcs st; ds_reg := []; ds_ids := []; ds_next := 100 |} with
    | Exc => false
    | Ok (n', st') =>
      forallb (fun p => match assoc_nat (addr (fst p)) (b_ids st), assoc_nat (addr (snd p)) (ds_ids st') with
                        | Some i, Some (i', _) => pystr_eqb i i'
                        | _, _ => false
                        end) (zip (preorder x_leaf3) (preorder n'))
    end
  end.
Lemma refuted_no_force_id : forced_ids {| dv_force := false |} = false /\ forced_ids current_dv = true.
Proof. vm_compute. auto. Qed.
