(* C18 round 2: the guarded step (all covered operations) and the guarded history. *)
From Oak Require Import Spec.LegacySpec Spec.LegacySpec2 Proofs.LegacyProofs Proofs.LegacyInv Proofs.LegacyHeap
  Proofs.LegacyDetach Proofs.LegacyAttach Proofs.LegacyAttach2 Proofs.LegacyAttach3 Proofs.LegacyConstruct
  Proofs.LegacyConstruct2 Proofs.LegacyDup Proofs.LegacyDup2 Proofs.LegacyHistory Proofs.LegacyFrames2
  Proofs.LegacyReplace Proofs.LegacyRemove Proofs.LegacyRemove2 Proofs.LegacyRemoveSeq3 Proofs.LegacyReplaceChild3 Proofs.LegacyReplaceChild4.
From Coq Require Import List String Ascii ZArith Bool Arith Lia.
Import ListNotations.

Section Step.
  Variable H : pystr -> pystr.
  Variable ct : ctable.

  (* ---------- the guarded step ---------- *)
  Theorem inv2_step s o s' ob :
    Inv2 H ct s -> step H ct s o = (s', ob) -> step_guard H ct s o s' ob -> Inv2 H ct s'.
  Proof.
    intros HI E G. destruct o as [cls org fs idarg eu ad cd|a|a|a|a ch|a new|a d|a|a rules|a rules];
      cbn [step_guard] in G; try contradiction.
    - destruct G as [Hkl G]. simpl in E.
      destruct (construct H ct s cls org fs idarg eu ad cd) as [s1 r|s1 e|] eqn:Ec; simpl in E; inversion E; subst.
      + eapply inv2_construct; eassumption.
      + assert (E' : step H ct s (ONew cls org fs idarg eu ad cd) = (s', RErr e)) by (simpl; rewrite Ec; reflexivity).
        rewrite (new_rejected_dup_or_idc H ct _ _ _ _ _ _ _ _ _ _ E' G). apply inv2_push_new; assumption.
      + exact HI.
    - simpl in E. unfold op_attach in E. destruct (negb (detached s a)) eqn:Hd; simpl in E.
      + inversion E; subst. exact HI.
      + destruct (attach_ s a) as [s1 u|s1 e|] eqn:Ea; simpl in E; inversion E; subst; try contradiction; [|exact HI].
        destruct G as [Hl [HT [HA HC]]]. eapply inv2_attach; eassumption.
    - simpl in E. destruct (op_detach false s a) as [s1 b|s1 e|] eqn:Ed; simpl in E; inversion E; subst;
        try contradiction; [eapply inv2_step_detach; eassumption | exact HI].
    - simpl in E. destruct (op_detach true s a) as [s1 b|s1 e|] eqn:Ed; simpl in E; inversion E; subst;
        try contradiction; [eapply inv2_step_detach; eassumption | exact HI].
    - (* replace on a parent-less receiver or on a node with a parent; ASTNodeReplaceError leaves the state alone *)
      destruct ob as [|b|r|o made|e|]; try contradiction.
      + destruct G as [[Hp [Hk HG]]|[p [Hp [Hn [Hk [HG [Hnp Hna]]]]]]].
        * eapply inv2_step_replace_root; eassumption.
        * eapply inv2_step_replace_child; eassumption.
      + destruct e; try contradiction. rewrite (replace_rejected_keys H ct _ _ _ _ E). exact HI.
      + simpl in E. destruct (op_replace H ct s a ch); simpl in E; inversion E; subst. exact HI.
    - (* replace_with(None) on a parent-less receiver; ASTNodeReplaceWithError of replace_with(None) *)
      destruct new as [n|].
      + destruct ob; try contradiction.
        * destruct G as [[Hp HG]|[p [Hp [Hn [HG Hnp]]]]].
          -- destruct (detached (fst (step H ct s (ODetach a))) n) eqn:Hd.
             ++ eapply inv2_step_replace_with_root; eassumption.
             ++ eapply inv2_step_replace_with_root_attached; eassumption.
          -- destruct (detached (fst (step H ct (clear_parent s a) (ODetach a))) n) eqn:Hd.
             ++ eapply inv2_step_replace_with_child; eassumption.
             ++ eapply inv2_step_replace_with_child_attached; eassumption.
        * simpl in E. destruct (op_replace_with H ct s a (Some n)); simpl in E; inversion E; subst. exact HI.
      + destruct ob as [|b|r|o made|e|]; try contradiction.
        * destruct G as [Hp|[Hl [Ha [p [f [Hp [Hpf Hn]]]]]]].
          -- eapply inv2_step_replace_with_none_root; eassumption.
          -- destruct (c_pi (cellD s a)) as [ix|] eqn:Hpi.
             ++ eapply inv2_step_replace_with_none_seq; eassumption.
             ++ eapply inv2_step_replace_with_none_child; eassumption.
        * destruct e; try contradiction. rewrite (replace_with_none_rejected H ct _ _ _ E). exact HI.
        * simpl in E. destruct (op_replace_with H ct s a None); simpl in E; inversion E; subst. exact HI.
    - simpl in E. destruct (op_duplicate H ct d s a) as [s1 r|s1 e|] eqn:Ed; simpl in E; inversion E; subst;
        try contradiction; [eapply inv2_step_duplicate; eassumption | exact HI].
    - eapply inv2_step_calc_xpath; eassumption.
  Qed.

  (* ---------- histories ---------- *)
  Theorem inv2_history : forall ops s, Inv2 H ct s -> guarded H ct s ops -> forall x, In x (trace H ct s ops) -> Inv2 H ct x.
  Proof.
    induction ops as [|o r IH]; intros s HI G x Hx; simpl in Hx.
    - destruct Hx as [<-|[]]. exact HI.
    - destruct Hx as [<-|Hx]; [exact HI|]. destruct G as [G1 G2].
      eapply IH; [|exact G2 | exact Hx].
      eapply inv2_step; [exact HI | apply surjective_pairing | exact G1].
  Qed.
  Corollary inv2_history_empty ops :
    guarded H ct empty_st ops -> forall x, In x (trace H ct empty_st ops) -> Inv2 H ct x.
  Proof. apply inv2_history. apply inv2_empty. Qed.

  (* ---------- the step theorems in the form of Props/C18.v ---------- *)
  Theorem inv2_step_new s cls org fs idarg eu ad cd s' r :
    Inv2 H ct s -> kids_live s fs -> step H ct s (ONew cls org fs idarg eu ad cd) = (s', RNode r) ->
    (cd = false -> new_guard H ct s s' r) -> Inv2 H ct s'.
  Proof. intros HI Hk E G. eapply inv2_step; [exact HI | exact E | split; assumption]. Qed.
  Theorem inv2_step_new_rejected s cls org fs idarg eu ad cd s' e :
    Inv2 H ct s -> kids_live s fs -> step H ct s (ONew cls org fs idarg eu ad cd) = (s', RErr e) ->
    e = EDup \/ e = EIdc -> Inv2 H ct s'.
  Proof. intros HI Hk E G. eapply inv2_step; [exact HI | exact E | split; assumption]. Qed.
  Theorem inv2_step_attach_form s a s' :
    Inv2 H ct s -> att_guard H ct s a -> step H ct s (OAttach a) = (s', RNone) -> Inv2 H ct s'.
  Proof. intros HI G E. eapply inv2_step; [exact HI | exact E | exact G]. Qed.
  Theorem inv2_step_detach_form s a s' b :
    Inv2 H ct s -> step H ct s (ODetach a) = (s', RBool b) -> Inv2 H ct s'.
  Proof. intros HI E. eapply inv2_step; [exact HI | exact E | exact I]. Qed.
  Theorem inv2_step_detach_self_form s a s' b :
    Inv2 H ct s -> step H ct s (ODetachSelf a) = (s', RBool b) -> Inv2 H ct s'.
  Proof. intros HI E. eapply inv2_step; [exact HI | exact E | exact I]. Qed.
  Theorem inv2_step_replace_root_form s a ch s' r :
    Inv2 H ct s -> parent s a = None ->
    step H ct s (OReplace a ch) = (s', RNode r) ->
    kids_live s (apply_changes (c_fs (cellD s a)) ch) ->
    (detached s a = false -> new_guard H ct (fst (step H ct s (ODetachSelf a))) s' r) ->
    Inv2 H ct s'.
  Proof. exact (inv2_step_replace_root H ct s a ch s' r). Qed.
  Theorem inv2_step_duplicate_form s a d s' r :
    Inv2 H ct s -> step H ct s (ODuplicate a d) = (s', RNode r) -> Inv2 H ct s'.
  Proof. intros HI E. eapply inv2_step; [exact HI | exact E | exact I]. Qed.
End Step.
