From Oak Require Import Model.Access.
From Coq Require Import Permutation Sorted.

(* ---------- the property sentence for get_properties ---------- *)
Definition builtin (f : fdecl) : bool :=
  pystr_eqb (fd_name f) (lit "id") || pystr_eqb (fd_name f) (lit "content_id") || pystr_eqb (fd_name f) (lit "origin").

(* "a user property is yielded unless it is non-comparable and skip_non_compare is set or non-init and
   skip_non_init is set; id, content_id and origin follow their own flags" *)
Definition spec_yields (fl : pflags) (f : fdecl) : bool :=
  if pystr_eqb (fd_name f) (lit "id") then negb (skip_id fl)
  else if pystr_eqb (fd_name f) (lit "content_id") then negb (skip_content_id fl)
  else if pystr_eqb (fd_name f) (lit "origin") then negb (skip_origin fl)
  else negb ((negb (fd_compare f) && skip_non_compare fl) || (negb (fd_init f) && skip_non_init fl)).

Lemma yields_spec fl f : yields true fl f = spec_yields fl f.
Proof.
  unfold yields, spec_yields.
  destruct (pystr_eqb (fd_name f) (lit "id")); auto.
  destruct (pystr_eqb (fd_name f) (lit "content_id")); auto.
  destruct (pystr_eqb (fd_name f) (lit "origin")); auto.
  destruct (fd_compare f), (fd_init f), (skip_non_compare fl), (skip_non_init fl); reflexivity.
Qed.

Lemma static_yields_spec fl f : static_yields true fl f = spec_yields fl f.
Proof. reflexivity. Qed.

Lemma filter_ext_all {A} (p q : A -> bool) l : (forall x, p x = q x) -> filter p l = filter q l.
Proof. intros E. induction l as [|x l IH]; simpl; auto. rewrite E, IH. reflexivity. Qed.

Theorem props_spec ct c fl sort :
  get_properties_fields true ct c fl sort =
  filter (spec_yields fl) (if sort then sort_fields (all_props ct c) else all_props ct c).
Proof. unfold get_properties_fields. apply filter_ext_all. apply yields_spec. Qed.

Theorem static_eq_dynamic ct c fl :
  get_property_fields true ct c fl = get_properties_fields true ct c fl false.
Proof.
  unfold get_property_fields, get_properties_fields. apply filter_ext_all.
  intros f. rewrite static_yields_spec, yields_spec. reflexivity.
Qed.

(* the code before the repairs: both cascades disagree with the sentence *)
Definition wit_field : fdecl := {| fd_name := lit "v"; fd_role := RProp; fd_compare := false; fd_init := false; fd_kwonly := false |}.
Definition wit_flags : pflags := {| skip_id := true; skip_origin := true; skip_content_id := true; skip_non_compare := false; skip_non_init := true |}.
Lemma refuted_D11 : yields false wit_flags wit_field = true /\ spec_yields wit_flags wit_field = false.
Proof. vm_compute. auto. Qed.
Definition wit_flags2 : pflags := {| skip_id := false; skip_origin := true; skip_content_id := true; skip_non_compare := true; skip_non_init := false |}.
Lemma refuted_D19 : static_yields false wit_flags2 f_id = false /\ spec_yields wit_flags2 f_id = true.
Proof. vm_compute. auto. Qed.

(* ---------- sorting by name: a sorted permutation ---------- *)
Lemma pystr_leb_total a b : pystr_leb a b = false -> pystr_leb b a = true.
Proof.
  revert b. induction a as [|x a IH]; intros [|y b]; simpl; try discriminate; auto.
  destruct (Nat.ltb_spec (nat_of_ascii x) (nat_of_ascii y)); [discriminate|].
  destruct (Nat.ltb_spec (nat_of_ascii y) (nat_of_ascii x)); auto.
Qed.

Section SortFacts.
  Context {A : Type} (leb : A -> A -> bool).
  Hypothesis leb_total : forall a b, leb a b = false -> leb b a = true.

  Lemma insert_perm x l : Permutation (x :: l) (insert_sorted leb x l).
  Proof.
    induction l as [|y l IH]; simpl; auto.
    destruct (leb x y); auto.
    eapply perm_trans; [apply perm_swap|]. constructor. exact IH.
  Qed.
  Lemma isort_perm l : Permutation l (isort leb l).
  Proof.
    induction l as [|x l IH]; simpl; auto.
    eapply perm_trans; [|apply insert_perm]. constructor. exact IH.
  Qed.
  Lemma insert_sorted_sorted x l :
    LocallySorted (fun a b => leb a b = true) l -> LocallySorted (fun a b => leb a b = true) (insert_sorted leb x l).
  Proof.
    induction 1 as [|y|y z l Hs IH Hyz]; simpl.
    - constructor.
    - destruct (leb x y) eqn:E; repeat constructor; auto.
    - destruct (leb x y) eqn:E.
      + repeat constructor; auto.
      + simpl in IH. destruct (leb x z) eqn:E2.
        * repeat constructor; auto.
        * constructor; auto.
  Qed.
  Lemma isort_sorted l : LocallySorted (fun a b => leb a b = true) (isort leb l).
  Proof. induction l; simpl; [constructor|]. apply insert_sorted_sorted; auto. Qed.
End SortFacts.

Theorem sorted_is_perm_sorted (l : list fdecl) :
  Permutation l (sort_fields l) /\
  LocallySorted (fun f g => pystr_leb (fd_name f) (fd_name g) = true) (sort_fields l).
Proof.
  split.
  - apply isort_perm.
  - apply (isort_sorted by_name). intros a b. apply pystr_leb_total.
Qed.

(* ---------- children ---------- *)
Lemma number_from_fst {A} (l : list A) i : map fst (number_from i l) = l.
Proof. revert i; induction l; simpl; intros; f_equal; auto. Qed.
Lemma number_from_snd {A} (l : list A) i : map snd (number_from i l) = seq i (length l).
Proof. revert i; induction l; simpl; intros; f_equal; auto. Qed.

(* absent optionals contribute nothing, a single child has index None, tuple elements are indexed from 0 *)
Theorem field_children_spec {A} (l : list A) (x : A) :
  field_children (ShNone, l) = [] /\
  field_children (ShOne, [x]) = [(x, None)] /\
  map fst (field_children (ShMany, l)) = l /\
  map snd (field_children (ShMany, l)) = map Some (seq 0 (length l)).
Proof.
  repeat split; simpl; auto.
  - rewrite map_map. simpl. rewrite <- (map_map fst (fun x => x)), number_from_fst, map_id. reflexivity.
  - rewrite map_map. simpl. rewrite <- (map_map snd Some), number_from_snd. reflexivity.
Qed.

Theorem children_spec ct n sort :
  get_child_nodes_with_field ct n sort =
  flat_map (fun f => map (fun ci => (fst ci, fd_name f, snd ci)) (field_children (field_value (nkids n) f)))
           (if sort then sort_fields (child_fields ct (cls n)) else child_fields ct (cls n)).
Proof. reflexivity. Qed.

Theorem child_nodes_proj ct n sort :
  get_child_nodes ct n sort = map (fun t => fst (fst t)) (get_child_nodes_with_field ct n sort)
  /\ children ct n = get_child_nodes ct n false.
Proof. split; reflexivity. Qed.

Theorem iter_fields_spec ct n sort :
  map fst (iter_child_fields ct n sort) =
  map fd_name (if sort then sort_fields (child_fields ct (cls n)) else child_fields ct (cls n)).
Proof. unfold iter_child_fields, kid_fields. rewrite map_map. reflexivity. Qed.

(* the edges are exactly the contents of the raw field values, field by field *)
Theorem edges_from_fields ct n sort :
  get_child_nodes_with_field ct n sort =
  flat_map (fun p => map (fun ci => (fst ci, fst p, snd ci)) (field_children (snd p))) (iter_child_fields ct n sort).
Proof.
  unfold get_child_nodes_with_field, edges_view, iter_child_fields.
  induction (kid_fields ct (cls n) sort) as [|f l IH]; simpl; auto. rewrite IH. reflexivity.
Qed.

(* ---------- partition ---------- *)
Theorem partition ct c f :
  In f (fields_of ct c) <-> (In f (prop_fields ct c) \/ In f (child_fields ct c)).
Proof.
  unfold prop_fields, child_fields. rewrite !filter_In. unfold is_child.
  destruct (is_prop f); simpl; intuition.
Qed.
Theorem partition_excl ct c f : ~ (In f (prop_fields ct c) /\ In f (child_fields ct c)).
Proof.
  unfold prop_fields, child_fields. rewrite !filter_In. unfold is_child.
  destruct (is_prop f); simpl; intuition discriminate.
Qed.

Theorem to_properties_dict_names ct n :
  (forall f, In f (prop_fields ct (cls n)) -> builtin f = false) ->
  map fst (to_properties_dict true ct n) = map fd_name (prop_fields ct (cls n)).
Proof.
  intros Hu. unfold to_properties_dict, get_properties, get_properties_fields, all_props.
  rewrite map_map. simpl.
  assert (E : filter (yields true default_flags) (prop_fields ct (cls n)) = prop_fields ct (cls n)).
  { induction (prop_fields ct (cls n)) as [|f l IH]; simpl; auto.
    assert (Hb : builtin f = false) by (apply Hu; simpl; auto).
    unfold builtin in Hb. apply orb_false_elim in Hb as [Hb H3]. apply orb_false_elim in Hb as [H1 H2].
    unfold yields at 1. rewrite H1, H2, H3. cbn [default_flags skip_non_compare skip_non_init negb].
    rewrite !orb_true_r. cbn [andb].
    rewrite IH; auto. intros g Hg. apply Hu. simpl; auto. }
  rewrite E. reflexivity.
Qed.

(* ---------- inheritance: a subclass keeps the base's fields in place, new fields are appended ---------- *)
Lemma upsert_names f l :
  map fd_name (upsert f l) =
  if existsb (fun g => pystr_eqb (fd_name g) (fd_name f)) l then map fd_name l else map fd_name l ++ [fd_name f].
Proof.
  induction l as [|g l IH]; simpl; auto.
  destruct (pystr_eqb_spec (fd_name g) (fd_name f)) as [E|N]; simpl.
  - rewrite E. reflexivity.
  - rewrite IH. destruct (existsb _ l); reflexivity.
Qed.

Lemma upsert_prefix f l : exists extra, map fd_name (upsert f l) = map fd_name l ++ extra.
Proof. rewrite upsert_names. destruct (existsb _ l); [exists []; now rewrite app_nil_r | eauto]. Qed.

Lemma merge_prefix own acc : exists extra, map fd_name (merge_fields acc own) = map fd_name acc ++ extra.
Proof.
  unfold merge_fields. revert acc. induction own as [|f own IH]; intros acc; simpl.
  - exists []. now rewrite app_nil_r.
  - destruct (IH (upsert f acc)) as [e1 E1]. destruct (upsert_prefix f acc) as [e2 E2].
    exists (e2 ++ e1). rewrite E1, E2, app_assoc. reflexivity.
Qed.

(* accessor results of a class are a function of its merged field list alone *)
Theorem inheritance_determined ct1 ct2 c fl sort :
  fields_of ct1 c = fields_of ct2 c ->
  get_properties_fields true ct1 c fl sort = get_properties_fields true ct2 c fl sort
  /\ kid_fields ct1 c sort = kid_fields ct2 c sort.
Proof.
  intros E. unfold get_properties_fields, kid_fields, all_props, prop_fields, child_fields. rewrite E. auto.
Qed.
