(* C20, traversal half: the legacy deque machines compute C05's orders with the start object in front (behind
   for bottom-up).  Built on Proofs/TraverseProofs.v: the legacy loops are step-for-step simulations of the C05
   machines on the positions below the start node (sim_td / sim_bu / sim_bfs), whose results C05 proved. *)
From Oak Require Import Spec.LegacyTravSpec Proofs.TraverseProofs.

Lemma appendleft_all_rev {A} (l dq : list A) : appendleft_all l dq = rev l ++ dq.
Proof.
  unfold appendleft_all. revert dq. induction l as [|x l IH]; intros dq; simpl; auto.
  rewrite IH, <- app_assoc. reflexivity.
Qed.

(* ---------- what the legacy code sees as children = what C05's accessors see ---------- *)
Lemma find_class_name ct c d : find_class ct c = Some d -> cd_name d = c /\ In d ct.
Proof.
  induction ct as [|e ct IH]; simpl; [discriminate|].
  destruct (pystr_eqb_spec (cd_name e) c) as [E|N].
  - intros H. injection H as <-. auto.
  - intros H. apply IH in H as [H1 H2]. auto.
Qed.

Lemma child_init_all ct : ct_child_init ct = true -> forall c, forallb fd_init (child_fields ct c) = true.
Proof.
  intros H c. unfold ct_child_init in H. rewrite forallb_forall in H.
  destruct (find_class ct c) as [d|] eqn:E.
  - apply find_class_name in E as [<- Hin]. now apply H.
  - unfold child_fields, fields_of. now rewrite E.
Qed.

Lemma filter_field_child fs :
  forallb fd_init (filter is_child fs) = true -> filter is_field_child fs = filter is_child fs.
Proof.
  induction fs as [|f fs IH]; simpl; auto. unfold is_field_child at 1.
  destruct (is_child f) eqn:E; simpl.
  - intros H. apply andb_prop in H as [H1 H2]. rewrite H1. simpl. f_equal. auto.
  - rewrite andb_false_r. auto.
Qed.

Lemma lget_infos ct o : ct_child_init ct = true -> lget_child_nodes ct o = map of_tinfo (infos ct (lo_node o)).
Proof.
  intros H. unfold lget_child_nodes, lchild_nodes_with_field, infos, get_child_nodes_with_field, kid_fields.
  unfold child_fields at 1. rewrite <- filter_field_child by (apply (child_init_all ct H)).
  rewrite map_map. reflexivity.
Qed.

Section Sim.
  Variable ct : ctable.
  Hypothesis CI : ct_child_init ct = true.
  Variables (prune filt : lobj -> bool).
  Notation pr := (on_pos prune).
  Notation fl := (on_pos filt).

  Lemma lget_of ti : lget_child_nodes ct (of_tinfo ti) = map of_tinfo (infos ct (ti_node ti)).
  Proof. now rewrite lget_infos. Qed.

  (* top-down: the legacy build deque holds the objects of C05's stack, the yield deque a fixed prefix followed
     by what C05 has accumulated *)
  Lemma sim_td : forall fuel st acc pfx,
    ldfs_loop ct prune filt fuel false false (map of_tinfo st) (pfx ++ map of_tinfo (rev acc))
    = option_map (fun r => pfx ++ map of_tinfo r) (dfs_td ct pr fl fuel st acc).
  Proof.
    induction fuel as [|f IH]; intros st acc pfx; destruct st as [|ti st]; try reflexivity.
    cbn [map ldfs_loop dfs_td]. unfold on_pos at 1 3.
    assert (Ey : (if filt (of_tinfo ti) then (pfx ++ map of_tinfo (rev acc)) ++ [of_tinfo ti] else pfx ++ map of_tinfo (rev acc))
                 = pfx ++ map of_tinfo (rev (if filt (of_tinfo ti) then ti :: acc else acc))).
    { destruct (filt (of_tinfo ti)); auto. cbn [rev]. now rewrite map_app, app_assoc. }
    rewrite Ey. destruct (prune (of_tinfo ti)).
    - apply IH.
    - rewrite appendleft_all_rev, rev_involutive, lget_of, <- map_app. apply IH.
  Qed.

  Lemma sim_bu : forall fuel st acc sfx,
    ldfs_loop ct prune filt fuel true false (map of_tinfo st) (map of_tinfo acc ++ sfx)
    = option_map (fun r => map of_tinfo r ++ sfx) (dfs_bu ct pr fl fuel st acc).
  Proof.
    induction fuel as [|f IH]; intros st acc sfx; destruct st as [|ti st]; try reflexivity.
    cbn [map ldfs_loop dfs_bu]. unfold on_pos at 1 3.
    assert (Ey : (if filt (of_tinfo ti) then of_tinfo ti :: map of_tinfo acc ++ sfx else map of_tinfo acc ++ sfx)
                 = map of_tinfo (if filt (of_tinfo ti) then ti :: acc else acc) ++ sfx).
    { destruct (filt (of_tinfo ti)); auto. }
    rewrite Ey. destruct (prune (of_tinfo ti)).
    - apply IH.
    - rewrite appendleft_all_rev, lget_of, <- map_rev, <- map_app. apply IH.
  Qed.

  Lemma sim_bfs : forall fuel q acc pfx,
    lbfs_loop ct prune filt fuel false (map of_tinfo q) (pfx ++ map of_tinfo (rev acc))
    = option_map (fun r => pfx ++ map of_tinfo r) (bfs_run ct pr fl fuel q acc).
  Proof.
    induction fuel as [|f IH]; intros q acc pfx; destruct q as [|ti q]; try reflexivity.
    cbn [map lbfs_loop bfs_run]. unfold on_pos at 1 3.
    assert (Ey : (if filt (of_tinfo ti) then (pfx ++ map of_tinfo (rev acc)) ++ [of_tinfo ti] else pfx ++ map of_tinfo (rev acc))
                 = pfx ++ map of_tinfo (rev (if filt (of_tinfo ti) then ti :: acc else acc))).
    { destruct (filt (of_tinfo ti)); auto. cbn [rev]. now rewrite map_app, app_assoc. }
    rewrite Ey. destruct (prune (of_tinfo ti)).
    - apply IH.
    - rewrite lget_of, <- map_app. apply IH.
  Qed.

  Lemma sim_td0 fuel st pfx :
    ldfs_loop ct prune filt fuel false false (map of_tinfo st) pfx
    = option_map (fun r => pfx ++ map of_tinfo r) (dfs_td ct pr fl fuel st []).
  Proof. rewrite <- (sim_td fuel st [] pfx). cbn [rev map]. now rewrite app_nil_r. Qed.
  Lemma sim_bu0 fuel st sfx :
    ldfs_loop ct prune filt fuel true false (map of_tinfo st) sfx
    = option_map (fun r => map of_tinfo r ++ sfx) (dfs_bu ct pr fl fuel st []).
  Proof. now rewrite <- (sim_bu fuel st [] sfx). Qed.
  Lemma sim_bfs0 fuel q pfx :
    lbfs_loop ct prune filt fuel false (map of_tinfo q) pfx
    = option_map (fun r => pfx ++ map of_tinfo r) (bfs_run ct pr fl fuel q []).
  Proof. rewrite <- (sim_bfs fuel q [] pfx). cbn [rev map]. now rewrite app_nil_r. Qed.

  (* ---------- the three theorems ---------- *)
  Lemma below_wfs n : wf_node ct n = true -> wfs ct (infos ct n).
  Proof. intros W x Hx. rewrite infos_direct in Hx by auto. eapply wf_direct; eauto. Qed.
  Lemma below_work n k : wf_node ct n = true -> size n = S k -> work (infos ct n) <= k.
  Proof. intros W E. rewrite infos_direct by auto. pose proof (work_direct n). lia. Qed.

  Theorem ldfs_pre skip s : wf_node ct (lo_node s) = true ->
    ldfs ct prune filt (size (lo_node s)) false skip s = Some (lpre prune filt skip s).
  Proof.
    intros W. set (n := lo_node s) in *. unfold ldfs, lpre, lself, lbelow.
    destruct (size n) as [|k] eqn:Ek; [pose proof (size_pos n); lia|].
    assert (Hb : dfs_td ct pr fl k (infos ct n) [] = Some (pre pr fl n)).
    { rewrite dfs_td_spec by (auto using below_wfs, below_work).
      cbn [rev app]. now rewrite infos_direct, <- pre_unfold by auto. }
    cbn [ldfs_loop]. rewrite appendleft_all_rev, rev_involutive, app_nil_r, lget_infos by auto. fold n.
    destruct skip; cbn [orb].
    - rewrite sim_td0, Hb. reflexivity.
    - destruct (prune s); cbn [negb].
      + destruct k; destruct (filt s); reflexivity.
      + destruct (filt s).
        * rewrite sim_td0, Hb. reflexivity.
        * rewrite sim_td0, Hb. reflexivity.
  Qed.

  Theorem ldfs_post skip s : wf_node ct (lo_node s) = true ->
    ldfs ct prune filt (size (lo_node s)) true skip s = Some (lpost prune filt skip s).
  Proof.
    intros W. set (n := lo_node s) in *. unfold ldfs, lpost, lself, lbelow.
    destruct (size n) as [|k] eqn:Ek; [pose proof (size_pos n); lia|].
    assert (Hb : dfs_bu ct pr fl k (rev (infos ct n)) [] = Some (post pr fl n)).
    { rewrite dfs_bu_spec.
      - rewrite rev_involutive, app_nil_r. now rewrite infos_direct, <- post_unfold by auto.
      - intros x Hx. apply in_rev in Hx. now apply (below_wfs n W).
      - rewrite work_rev. now apply below_work. }
    cbn [ldfs_loop]. rewrite appendleft_all_rev, app_nil_r, lget_infos, <- map_rev by auto. fold n.
    destruct skip; cbn [orb].
    - rewrite sim_bu0, Hb. cbn. now rewrite !app_nil_r.
    - destruct (prune s); cbn [negb].
      + destruct k; destruct (filt s); reflexivity.
      + destruct (filt s).
        * rewrite sim_bu0, Hb. reflexivity.
        * rewrite sim_bu0, Hb. reflexivity.
  Qed.

  Theorem lbfs_levels skip s : wf_node ct (lo_node s) = true ->
    lbfs ct prune filt (size (lo_node s)) skip s = Some (llevels prune filt skip s).
  Proof.
    intros W. set (n := lo_node s) in *. unfold lbfs, llevels, lself, lbelow.
    destruct (size n) as [|k] eqn:Ek; [pose proof (size_pos n); lia|]. rewrite <- Ek.
    assert (Hb : bfs_run ct pr fl k (infos ct n) [] = Some (levels_from pr fl (size n) (direct_infos n))).
    { rewrite (bfs_run_spec ct pr fl (size n)).
      - now rewrite infos_direct by auto.
      - now apply below_wfs.
      - pose proof (below_work n k W Ek). lia.
      - now apply below_work. }
    rewrite Ek at 1. cbn [lbfs_loop app]. rewrite lget_infos by auto. fold n.
    destruct skip; cbn [orb].
    - rewrite sim_bfs0, Hb. reflexivity.
    - destruct (prune s); cbn [negb].
      + destruct k; destruct (filt s); reflexivity.
      + destruct (filt s).
        * rewrite sim_bfs0, Hb. reflexivity.
        * rewrite sim_bfs0, Hb. reflexivity.
  Qed.
End Sim.

(* gather = the pre-order of dfs restricted to the class filter and the extra filter *)
Theorem lgather_spec ct classes exact extra prune skip s :
  ct_child_init ct = true -> wf_node ct (lo_node s) = true ->
  lgather ct (size (lo_node s)) classes exact extra prune skip s
  = Some (lpre prune (fun o => lclass_filter ct classes exact o && extra o) skip s).
Proof. intros CI W. unfold lgather. now apply ldfs_pre. Qed.

(* the class filter of gather is C05's class filter on the stored node *)
Lemma lclass_filter_pos ct classes exact ti :
  lclass_filter ct classes exact (of_tinfo ti) = class_filter ct classes exact ti.
Proof. reflexivity. Qed.

(* consequences inherited from C05: every object yielded below the start node sits where its attributes say *)
Theorem lpre_info_sound ct prune filt s o : wf_node ct (lo_node s) = true ->
  In o (map of_tinfo (pre (on_pos prune) (on_pos filt) (lo_node s))) ->
  exists p f i, lo_pos o = Some (p, f, i) /\ child_at p f i = Some (lo_node o).
Proof.
  intros W H. apply in_map_iff in H as (ti & <- & Hti).
  exists (ti_parent ti), (ti_field ti), (ti_index ti). split; [reflexivity|].
  eapply info_sound; eauto.
Qed.
