(* C01 (Props/C01b.v) and C02: non-vacuity witnesses, one shared instance.
   Class table w1_ct: Leaf (a comparable and a NON-comparable property), Pair (a property, an optional, a mandatory
   and a tuple child field) and Sub, a SUBCLASS of Pair adding a comparable property `tags` and one more optional child
   (merged fields of Sub: kind left one items tags extra).  w1_ct2 declares the same fields in other orders.
   Trees: w1_sub a o o' note tags = a Sub node over four levels / six nodes (tuple field with two elements, one of
   them a Pair with its own children), object identities a.., origins o / o', a non-comparable note and the value of
   `tags` as parameters.  Digest: tohex (collision-free and hex-valued, Proofs/EncodeComplete.v). *)
From Oak Require Import Spec.CEq Proofs.AccessProofs Proofs.EncodeSound Proofs.EncodeComplete.
From Coq Require Import List ZArith Lia Permutation.
Import ListNotations.

Definition w1_ct : ctable :=
  [ {| cd_name := lit "Leaf"; cd_bases := [];
       cd_own := [ ex_fd "name" RProp true; ex_fd "note" RProp false ] |};
    {| cd_name := lit "Pair"; cd_bases := [];
       cd_own := [ ex_fd "kind" RProp true; ex_fd "left" (RChild (KOpt true)) true;
                   ex_fd "one" (RChild (KOpt false)) true; ex_fd "items" (RChild KTup) true ] |};
    {| cd_name := lit "Sub"; cd_bases := [lit "Pair"];
       cd_own := [ ex_fd "tags" RProp true; ex_fd "extra" (RChild (KOpt true)) true ] |} ].
(* the same classes, every declaration list permuted *)
Definition w1_ct2 : ctable :=
  [ {| cd_name := lit "Leaf"; cd_bases := [];
       cd_own := [ ex_fd "note" RProp false; ex_fd "name" RProp true ] |};
    {| cd_name := lit "Pair"; cd_bases := [];
       cd_own := [ ex_fd "items" (RChild KTup) true; ex_fd "kind" RProp true;
                   ex_fd "one" (RChild (KOpt false)) true; ex_fd "left" (RChild (KOpt true)) true ] |};
    {| cd_name := lit "Sub"; cd_bases := [lit "Pair"];
       cd_own := [ ex_fd "extra" (RChild (KOpt true)) true; ex_fd "tags" RProp true ] |} ].

Definition w1_o1 : origin :=
  OCode (SText (lit "f.py") (lit "text"))
        {| r_start := {| p_idx := 3; p_line := 1; p_col := 3 |}; r_end := {| p_idx := 9; p_line := 2; p_col := 1 |} |}.
Definition w1_o2 : origin := OGen (SFile (lit "g"))%Z.

Definition w1_leaf (a : nat) (o : origin) (s note : string) : node :=
  Node a (lit "Leaf") o [(lit "name", VStr (lit s)); (lit "note", VStr (lit note))] [].
Definition w1_pair (a : nat) (o : origin) (note : string) : node :=
  Node a (lit "Pair") o [(lit "kind", ex_red)]
       [ (lit "left", (ShOne, [w1_leaf (a + 1) o "l" note]));
         (lit "one", (ShOne, [w1_leaf (a + 2) ONo "a):b" note]));
         (lit "items", (ShMany, [])) ].
Definition w1_sub (a : nat) (o o' : origin) (note : string) (tags : pval) : node :=
  Node a (lit "Sub") o [(lit "kind", VInt 7); (lit "tags", tags)]
       [ (lit "left", (ShNone, []));
         (lit "one", (ShOne, [w1_leaf (a + 1) o' "x" note]));
         (lit "items", (ShMany, [w1_leaf (a + 2) ONo "y:[0]=" note; w1_pair (a + 3) o' note]));
         (lit "extra", (ShNone, [])) ].

(* nested values for `tags`: one frozenset in three element orders, and a different one *)
Definition w1_t1 : pval := VFset [VStr (lit "x, 'y'"); VInt (-3); VTuple [VNone; VBool true; VFloat (lit "2.5")]].
Definition w1_t2 : pval := VFset [VTuple [VNone; VBool true; VFloat (lit "2.5")]; VStr (lit "x, 'y'"); VInt (-3)].
Definition w1_t3 : pval := VFset [VInt (-3); VTuple [VNone; VBool true; VFloat (lit "2.5")]; VStr (lit "x, 'y'")].
Definition w1_t4 : pval := VFset [VStr (lit "x, 'y'"); VInt (-3)].

Definition w1_a : node := w1_sub 0 w1_o1 w1_o2 "first" w1_t1.
Definition w1_b : node := w1_sub 10 w1_o1 w1_o2 "second" w1_t2.    (* content-equal to a, same origins *)
Definition w1_c : node := w1_sub 20 w1_o1 w1_o2 "third" w1_t3.     (* content-equal to a, same origins *)
Definition w1_d : node := w1_sub 30 w1_o1 ONo "first" w1_t1.       (* content-equal to a, other origins below the root *)
Definition w1_e : node := w1_sub 40 w1_o1 w1_o2 "first" w1_t4.     (* other content *)
(* scalar values for `tags` *)
Definition w1_sa : node := w1_sub 0 w1_o1 w1_o2 "first" (VStr (lit "t,u")).
Definition w1_sb : node := w1_sub 10 ONo ONo "second" (VStr (lit "t,u")).
Definition w1_se : node := w1_sub 20 ONo ONo "second" (VStr (lit "t")).

(* ---------- the premises ---------- *)
Lemma w1_names_ok : names_ok w1_ct.
Proof.
  intros c f Hf. unfold fields_of, w1_ct in Hf. cbn [find_class cd_name] in Hf.
  destruct (pystr_eqb_spec (lit "Leaf") c) as [<-|N1].
  { vm_compute in Hf. repeat (destruct Hf as [<-|Hf]; [vm_compute; split; auto; discriminate|]). destruct Hf. }
  destruct (pystr_eqb_spec (lit "Pair") c) as [<-|N2].
  { vm_compute in Hf. repeat (destruct Hf as [<-|Hf]; [vm_compute; split; auto; discriminate|]). destruct Hf. }
  destruct (pystr_eqb_spec (lit "Sub") c) as [<-|N3]; [|destruct Hf].
  vm_compute in Hf. repeat (destruct Hf as [<-|Hf]; [vm_compute; split; auto; discriminate|]). destruct Hf.
Qed.

Lemma w1_sub_all (P : pval -> Prop) a o o' note tags :
  tag_ok tags -> P tags -> P ex_red -> (forall s, P (VStr s)) -> P (VInt 7) ->
  node_all (fun c => free_of ":" c = true) (fun _ _ v => tag_ok v /\ P v) (w1_sub a o o' note tags).
Proof.
  intros Tt Pt Pr Ps Pi.
  assert (L : forall b ob s, node_all (fun c => free_of ":" c = true) (fun _ _ v => tag_ok v /\ P v) (w1_leaf b ob s note)).
  { intros b ob s. cbn -[free_of lit]. split; [reflexivity|]. split; [|exact I].
    intros q [<-|[<-|[]]]; cbn [snd]; (split; [exact I|apply Ps]). }
  cbn -[free_of lit w1_leaf]. split; [reflexivity|]. split.
  { intros q [<-|[<-|[]]]; cbn [snd]; split; auto. exact I. }
  split; [exact I|]. split; [split; [apply L|exact I]|]. split; [|split; exact I].
  split; [apply L|]. split; [|exact I].
  split; [reflexivity|]. split.
  { intros q [<-|[]]; cbn [snd]; split; [reflexivity|exact Pr]. }
  split; [split; [apply L|exact I]|]. split; [split; [apply L|exact I]|]. split; exact I.
Qed.

Lemma w1_values_ok a o o' note tags : tag_ok tags -> node_values_ok w1_ct (w1_sub a o o' note tags).
Proof.
  intros Tt. apply node_values_ok_all.
  eapply node_all_impl; [| |apply (w1_sub_all (fun _ => True) a o o' note tags)]; cbn; tauto.
Qed.
Lemma w1_scalar a o o' note s : node_scalar w1_ct ex_et (w1_sub a o o' note (VStr s)).
Proof.
  eapply node_all_impl; [| |apply (w1_sub_all (scalar ex_et) a o o' note (VStr s))]; cbn; try tauto; auto.
  intros c n v [_ Hs] _. exact Hs.
Qed.
Lemma w1_deep a o o' note tags : tag_ok tags -> deep ex_et tags -> node_deep w1_ct ex_et (w1_sub a o o' note tags).
Proof.
  intros Tt Dt.
  eapply node_all_impl; [| |apply (w1_sub_all (deep ex_et) a o o' note tags)]; cbn; try tauto; auto.
  intros c n v [_ Hs] _. exact Hs.
Qed.
Lemma w1_tags_deep : deep ex_et w1_t1 /\ deep ex_et w1_t2 /\ deep ex_et w1_t3 /\ deep ex_et w1_t4.
Proof. repeat split; cbn [deep w1_t1 w1_t2 w1_t3 w1_t4]; repeat constructor. Qed.

(* the trees conform to the table, are different objects with different non-comparable values, and have four levels *)
Lemma w1_wf : wf_node w1_ct w1_a = true /\ wf_node w1_ct w1_b = true /\ wf_node w1_ct w1_c = true
  /\ wf_node w1_ct w1_d = true /\ wf_node w1_ct w1_e = true
  /\ wf_node w1_ct w1_sa = true /\ wf_node w1_ct w1_sb = true /\ wf_node w1_ct w1_se = true /\ size w1_a = 6.
Proof. vm_compute. repeat split. Qed.

Definition w1_good (n : node) : Prop :=
  wf_node w1_ct n = true /\ node_values_ok w1_ct n /\ node_deep w1_ct ex_et n.
Lemma w1_good_a : w1_good w1_a.
Proof. split; [apply w1_wf|]. split; [apply w1_values_ok; exact I|apply w1_deep; [exact I|apply w1_tags_deep]]. Qed.
Lemma w1_good_b : w1_good w1_b.
Proof. split; [apply w1_wf|]. split; [apply w1_values_ok; exact I|apply w1_deep; [exact I|apply w1_tags_deep]]. Qed.
Lemma w1_good_c : w1_good w1_c.
Proof. split; [apply w1_wf|]. split; [apply w1_values_ok; exact I|apply w1_deep; [exact I|apply w1_tags_deep]]. Qed.
Lemma w1_good_d : w1_good w1_d.
Proof. split; [apply w1_wf|]. split; [apply w1_values_ok; exact I|apply w1_deep; [exact I|apply w1_tags_deep]]. Qed.
Lemma w1_good_e : w1_good w1_e.
Proof. split; [apply w1_wf|]. split; [apply w1_values_ok; exact I|apply w1_deep; [exact I|apply w1_tags_deep]]. Qed.

(* ---------- C01_indep_field_order ---------- *)
Ltac w1_perm1 :=
  match goal with
  | |- Permutation [] [] => apply perm_nil
  | |- Permutation (?a :: ?l) (?a :: ?r) => apply perm_skip
  | |- Permutation (?a :: ?l) (?x :: ?a :: ?r) => apply (Permutation_cons_app [x] r a)
  | |- Permutation (?a :: ?l) (?x :: ?y :: ?a :: ?r) => apply (Permutation_cons_app [x; y] r a)
  | |- Permutation (?a :: ?l) (?x :: ?y :: ?z :: ?a :: ?r) => apply (Permutation_cons_app [x; y; z] r a)
  | |- Permutation (?a :: ?l) (?x :: ?y :: ?z :: ?u :: ?a :: ?r) => apply (Permutation_cons_app [x; y; z; u] r a)
  | |- Permutation (?a :: ?l) (?x :: ?y :: ?z :: ?u :: ?v :: ?a :: ?r) => apply (Permutation_cons_app [x; y; z; u; v] r a)
  end; cbn [app].
Ltac w1_perm := repeat w1_perm1.
Lemma w1_field_order :
  v_stable current = true
  /\ (forall c, Permutation (fields_of w1_ct c) (fields_of w1_ct2 c))
  /\ (forall c f, In f (fields_of w1_ct c) -> builtin f = false)
  /\ map fd_name (fields_of w1_ct (lit "Sub")) = map lit ["kind"; "left"; "one"; "items"; "tags"; "extra"]%string
  /\ map fd_name (fields_of w1_ct2 (lit "Sub")) = map lit ["items"; "kind"; "one"; "left"; "extra"; "tags"]%string
  /\ content_id tohex w1_ct current w1_a = content_id tohex w1_ct2 current w1_a.
Proof.
  split; [reflexivity|]. split; [|split; [intros c f Hf; exact (proj1 (w1_names_ok c f Hf))|]].
  - intros c. unfold fields_of, w1_ct, w1_ct2. cbn [find_class cd_name].
    destruct (pystr_eqb (lit "Leaf") c); [vm_compute; w1_perm|].
    destruct (pystr_eqb (lit "Pair") c); [vm_compute; w1_perm|].
    destruct (pystr_eqb (lit "Sub") c); [vm_compute; w1_perm|constructor].
  - vm_compute. repeat split.
Qed.

(* ---------- completeness theorems of C01b ---------- *)
Lemma w1_digest : (forall x y, tohex x = tohex y -> x = y) /\ (forall x, forallb is_hex (tohex x) = true).
Proof. split; [exact tohex_inj|exact tohex_hex]. Qed.

(* C01_complete_framing, C01_complete_framing_strong, C01_cid_determines_class, C01_is_equal_complete_framing,
   C01_complete_nested, C01_cid_iff_ceq, C01_is_equal_iff_ceq: all premises on two different objects whose frozenset
   is stored in different orders; and a pair with different content ids, so the iff has both sides *)
Lemma w1_complete :
  (forall x y, tohex x = tohex y -> x = y) /\ (forall x, forallb is_hex (tohex x) = true) /\ names_ok w1_ct
  /\ wf_node w1_ct w1_a = true /\ wf_node w1_ct w1_b = true /\ node_values_ok w1_ct w1_a /\ node_values_ok w1_ct w1_b
  /\ node_deep w1_ct ex_et w1_a /\ node_deep w1_ct ex_et w1_b
  /\ cls w1_a = cls w1_b /\ content_id tohex w1_ct current w1_a = content_id tohex w1_ct current w1_b
  /\ is_equal tohex w1_ct current w1_a w1_b = true
  /\ w1_a <> w1_b /\ nprops w1_a <> nprops w1_b
  /\ wf_node w1_ct w1_e = true /\ node_values_ok w1_ct w1_e /\ node_deep w1_ct ex_et w1_e
  /\ content_id tohex w1_ct current w1_a <> content_id tohex w1_ct current w1_e.
Proof.
  destruct w1_good_a as (Wa & Va & Da), w1_good_b as (Wb & Vb & Db), w1_good_e as (We & Ve & De).
  split; [exact tohex_inj|]. split; [exact tohex_hex|]. split; [exact w1_names_ok|].
  repeat (split; [assumption|]). split; [reflexivity|]. split; [vm_compute; reflexivity|].
  split; [vm_compute; reflexivity|]. split; [discriminate|]. split; [discriminate|].
  repeat (split; [assumption|]). vm_compute. discriminate.
Qed.

(* C01_complete_scalar: the same with scalar comparable values *)
Lemma w1_complete_scalar :
  names_ok w1_ct /\ wf_node w1_ct w1_sa = true /\ wf_node w1_ct w1_sb = true
  /\ node_values_ok w1_ct w1_sa /\ node_values_ok w1_ct w1_sb
  /\ node_scalar w1_ct ex_et w1_sa /\ node_scalar w1_ct ex_et w1_sb
  /\ content_id tohex w1_ct current w1_sa = content_id tohex w1_ct current w1_sb /\ w1_sa <> w1_sb
  /\ wf_node w1_ct w1_se = true /\ node_values_ok w1_ct w1_se /\ node_scalar w1_ct ex_et w1_se
  /\ content_id tohex w1_ct current w1_sa <> content_id tohex w1_ct current w1_se.
Proof.
  split; [exact w1_names_ok|]. split; [apply w1_wf|]. split; [apply w1_wf|].
  split; [apply w1_values_ok; exact I|]. split; [apply w1_values_ok; exact I|].
  split; [apply w1_scalar|]. split; [apply w1_scalar|]. split; [vm_compute; reflexivity|]. split; [discriminate|].
  split; [apply w1_wf|]. split; [apply w1_values_ok; exact I|]. split; [apply w1_scalar|]. vm_compute. discriminate.
Qed.

(* C01_render_inj_scalar / C01_render_inj_nested: the premises on values.  For scalars (and tuples) equal tag and
   rendering force the very same value; for frozensets they hold of two DIFFERENT values (other element order) *)
Lemma w1_render :
  scalar ex_et ex_red /\ tytag ex_red = tytag ex_red /\ stable_str ex_red = stable_str ex_red
  /\ scalar ex_et (VInt 1) /\ scalar ex_et (VBool true) /\ stable_str (VInt 1) <> stable_str (VBool true)
  /\ tytag (VInt 1) <> tytag (VBool true)
  /\ deep ex_et w1_t1 /\ deep ex_et w1_t2 /\ tytag w1_t1 = tytag w1_t2 /\ stable_str w1_t1 = stable_str w1_t2
  /\ w1_t1 <> w1_t2
  /\ deep ex_et w1_t4 /\ tytag w1_t1 = tytag w1_t4 /\ stable_str w1_t1 <> stable_str w1_t4.
Proof.
  destruct w1_tags_deep as (D1 & D2 & _ & D4).
  split; [reflexivity|]. split; [reflexivity|]. split; [reflexivity|]. split; [exact I|]. split; [exact I|].
  split; [vm_compute; discriminate|]. split; [vm_compute; discriminate|].
  split; [exact D1|]. split; [exact D2|]. split; [reflexivity|]. split; [vm_compute; reflexivity|].
  split; [discriminate|]. split; [exact D4|]. split; [reflexivity|]. vm_compute. discriminate.
Qed.

(* C01_str_repr_prefix_free: the premise is an equation between two concatenations; it holds (by the conclusion,
   only) of equal strings and equal rests - here a string with both quotes and a backslash *)
Definition w1_s : pystr := lit "a'b""c\d".
Lemma w1_prefix : str_repr w1_s ++ lit ", 'z')" = str_repr w1_s ++ lit ", 'z')" /\ length (str_repr w1_s) = 11.
Proof. split; [reflexivity|vm_compute; reflexivity]. Qed.
