(* C17, xpath half: every text derived from the xpath grammar, with any white space between its tokens, is read
   back as the step list it was printed from. *)
From Oak Require Import Model.XpathParse.
From Coq Require Import List Bool Ascii Arith Lia.
Import ListNotations.

(* ------------------------------------------------------------------ printing *)
Definition tok_text (t : xtok) : pystr :=
  match t with
  | XSlash => ["/"%char] | XAt => ["@"%char] | XLb => ["["%char] | XRb => ["]"%char]
  | XName n => n | XDigit c => [c] | XBad => ["#"%char]
  end.
Definition step_toks (s : xstep) : list xtok :=
  XSlash :: (match xs_field s with Some f => [XAt; XName f] | None => [] end)
         ++ (match xs_index s with Some ds => XLb :: map XDigit ds ++ [XRb] | None => [] end)
         ++ (match xs_cls s with Some c => [XName c] | None => [] end).
Definition steps_toks (l : list xstep) : list xtok := flat_map step_toks l.
(* tokens, each preceded by its white space; trail = white space after the last token *)
Definition print_toks (wts : list (pystr * xtok)) (trail : pystr) : pystr :=
  flat_map (fun wt => fst wt ++ tok_text (snd wt)) wts ++ trail.

Definition all_ws (w : pystr) : Prop := forallb is_ws w = true.
Definition is_cname (n : pystr) : Prop :=
  match n with c :: r => cname_start c = true /\ forallb cname_char r = true | [] => False end.
Definition tok_wf (t : xtok) : Prop :=
  match t with XName n => is_cname n | XDigit c => is_digit c = true | XBad => False | _ => True end.
Definition glues (t : xtok) : bool := match t with XName _ | XDigit _ => true | _ => false end.
Definition is_name (t : xtok) : bool := match t with XName _ => true | _ => false end.
(* a CNAME must be separated by white space from a following CNAME or DIGIT *)
Fixpoint seps_ok (prev_name : bool) (wts : list (pystr * xtok)) : Prop :=
  match wts with
  | [] => True
  | (w, t) :: r => (prev_name = true -> glues t = true -> w <> []) /\ all_ws w /\ tok_wf t /\ seps_ok (is_name t) r
  end.

(* ------------------------------------------------------------------ character classes *)
Ltac ascii_cases c := destruct c as [[|] [|] [|] [|] [|] [|] [|] [|]]; vm_compute; try reflexivity; try discriminate; auto.

Lemma ws_not_cname c : is_ws c = true -> cname_char c = false.
Proof. ascii_cases c. Qed.
Lemma cname_start_facts c : cname_start c = true ->
  is_ws c = false /\ Ascii.eqb c "/" = false /\ Ascii.eqb c "@" = false /\ Ascii.eqb c "[" = false /\ Ascii.eqb c "]" = false
  /\ cname_char c = true.
Proof. ascii_cases c; intros; repeat split; discriminate. Qed.
Lemma digit_facts c : is_digit c = true ->
  is_ws c = false /\ Ascii.eqb c "/" = false /\ Ascii.eqb c "@" = false /\ Ascii.eqb c "[" = false /\ Ascii.eqb c "]" = false
  /\ cname_start c = false.
Proof. ascii_cases c; intros; repeat split; discriminate. Qed.

(* ------------------------------------------------------------------ the lexer on printed text *)
Lemma flush_flush acc k : flush acc k = flush acc [] ++ k.
Proof. destruct acc; reflexivity. Qed.

Lemma xlex_ws w s acc : all_ws w -> w <> [] -> xlex (w ++ s) acc = flush acc (xlex s None).
Proof.
  intros Hw Hne. destruct w as [|c w]; [congruence|]. clear Hne.
  unfold all_ws in Hw. simpl in Hw. apply andb_prop in Hw. destruct Hw as [Hc Hw].
  assert (G : forall w, forallb is_ws w = true -> xlex (w ++ s) None = xlex s None).
  { induction w0 as [|d w0 IH]; intros Hd; simpl; [reflexivity|].
    simpl in Hd. apply andb_prop in Hd. destruct Hd as [Hd1 Hd2]. rewrite Hd1. apply IH. exact Hd2. }
  simpl. destruct acc as [n|].
  - rewrite (ws_not_cname _ Hc), Hc. rewrite G by exact Hw. reflexivity.
  - rewrite Hc. simpl. apply G. exact Hw.
Qed.
Lemma xlex_ws_none w s : all_ws w -> xlex (w ++ s) None = xlex s None.
Proof.
  intros Hw. destruct w as [|c w]; [reflexivity|]. rewrite xlex_ws by (auto; discriminate). reflexivity.
Qed.

Lemma xlex_name_chars n s acc : forallb cname_char n = true -> xlex (n ++ s) (Some acc) = xlex s (Some (rev n ++ acc)).
Proof.
  revert acc. induction n as [|c n IH]; intros acc Hn; simpl; [reflexivity|].
  simpl in Hn. apply andb_prop in Hn. destruct Hn as [Hc Hn]. rewrite Hc. rewrite IH by exact Hn.
  rewrite <- app_assoc. reflexivity.
Qed.

Definition punct (t : xtok) : bool := match t with XSlash | XAt | XLb | XRb => true | _ => false end.
Lemma xlex_punct t s acc : punct t = true -> xlex (tok_text t ++ s) acc = flush acc (t :: xlex s None).
Proof.
  destruct t; simpl; try discriminate; intros _; destruct acc; reflexivity.
Qed.
Lemma xlex_name_none n s : is_cname n -> xlex (n ++ s) None = xlex s (Some (rev n)).
Proof.
  destruct n as [|c n]; simpl; [tauto|]. intros [Hc Hn].
  destruct (cname_start_facts _ Hc) as [A [B [C [D [E F]]]]]. rewrite A, B, C, D, E, Hc.
  rewrite xlex_name_chars by exact Hn. reflexivity.
Qed.
Lemma xlex_digit_none d s : is_digit d = true -> xlex (d :: s) None = XDigit d :: xlex s None.
Proof.
  intros Hd. destruct (digit_facts _ Hd) as [A [B [C [D [E F]]]]]. simpl. rewrite A, B, C, D, E, F, Hd. reflexivity.
Qed.

(* the state after a token: inside a name, or between tokens *)
Definition acc_after (t : xtok) : option pystr := match t with XName n => Some (rev n) | _ => None end.

Lemma flush_acc_after t k : flush (acc_after t) k = match t with XName n => XName n :: k | _ => k end.
Proof. destruct t; simpl; try reflexivity. rewrite rev_involutive. reflexivity. Qed.

(* tokens still to be emitted when the lexer state is [acc_after prev] *)
Lemma xlex_print wts trail : all_ws trail ->
  forall acc prev_name,
    (prev_name = false -> acc = None) ->
    seps_ok prev_name wts ->
    xlex (print_toks wts trail) acc = flush acc (map snd wts).
Proof.
  intros Htrail. unfold print_toks.
  induction wts as [|[w t] r IH]; intros acc prev_name Hacc Hs.
  - simpl. destruct trail as [|c tr]; [destruct acc; reflexivity|].
    rewrite <- (app_nil_r (c :: tr)). rewrite xlex_ws by (auto; discriminate). reflexivity.
  - simpl in Hs. destruct Hs as [Hsep [Hw [Hwf Hr]]].
    cbn [flat_map fst snd map]. rewrite <- !app_assoc.
    (* get to the token with the right lexer state *)
    assert (Hstep : forall acc', (acc' = None \/ glues t = false) ->
              xlex (tok_text t ++ flat_map (fun wt => fst wt ++ tok_text (snd wt)) r ++ trail) acc'
              = flush acc' (t :: map snd r)).
    { intros acc' Hcase.
      destruct t; simpl in Hwf.
      - rewrite xlex_punct by reflexivity. rewrite (IH None false) by auto. reflexivity.
      - rewrite xlex_punct by reflexivity. rewrite (IH None false) by auto. reflexivity.
      - rewrite xlex_punct by reflexivity. rewrite (IH None false) by auto. reflexivity.
      - rewrite xlex_punct by reflexivity. rewrite (IH None false) by auto. reflexivity.
      - destruct Hcase as [Hn|Hg]; [subst acc'|discriminate].
        simpl tok_text. rewrite xlex_name_none by exact Hwf.
        rewrite (IH (Some (rev s)) true) by (auto; discriminate).
        simpl. rewrite rev_involutive. reflexivity.
      - destruct Hcase as [Hn|Hg]; [subst acc'|discriminate].
        simpl tok_text. simpl app. rewrite xlex_digit_none by exact Hwf.
        rewrite (IH None false) by auto. reflexivity.
      - contradiction. }
    destruct w as [|c w].
    + simpl app. apply Hstep. destruct prev_name.
      * destruct (glues t) eqn:Hg; [exfalso; apply (Hsep eq_refl eq_refl); reflexivity|right; reflexivity].
      * left. apply Hacc. reflexivity.
    + rewrite xlex_ws by (auto; discriminate). rewrite Hstep by (left; reflexivity). reflexivity.
Qed.

(* ------------------------------------------------------------------ the parser on the tokens of a step list *)
Section Parse.
  Variable chk : pystr -> option perr.

  Definition ready (st : xst) : Prop := x_ph st <> PAt /\ x_ph st <> PIdx /\ (x_ph st = PStart -> x_done st = []).
  Definition closed (st : xst) : list xstep := match x_ph st with PStart => [] | _ => cur_step st :: x_done st end.
  Definition cls_ok (st : xst) : Prop := match x_c st with Some c => chk c = None | None => True end.
  Definition step_ok (s : xstep) : Prop := match xs_cls s with Some c => chk c = None | None => True end.
  Definition phase_of (s : xstep) : xphase :=
    match xs_cls s, xs_index s, xs_field s with
    | Some _, _, _ => PCls
    | None, Some _, _ => PIdxDone
    | None, None, Some _ => PField
    | None, None, None => PSlash
    end.
  Definition state_of (done : list xstep) (s : xstep) : xst :=
    {| x_done := done; x_f := xs_field s; x_i := option_map (@rev ascii) (xs_index s); x_c := xs_cls s; x_ph := phase_of s |}.

  Lemma xrun_digits ds rest done f acc :
    xrun chk (map XDigit ds ++ rest) {| x_done := done; x_f := f; x_i := Some acc; x_c := None; x_ph := PIdx |}
    = xrun chk rest {| x_done := done; x_f := f; x_i := Some (rev ds ++ acc); x_c := None; x_ph := PIdx |}.
  Proof.
    revert acc. induction ds as [|d ds IH]; intros acc; simpl; [reflexivity|].
    rewrite IH. rewrite <- app_assoc. reflexivity.
  Qed.

  Lemma close_step_ok st : cls_ok st -> close_step chk st = inl (cur_step st :: x_done st).
  Proof. unfold cls_ok, close_step. destruct (x_c st); [intros ->|]; reflexivity. Qed.

  Lemma xrun_step s rest st :
    ready st -> cls_ok st ->
    xrun chk (step_toks s ++ rest) st = xrun chk rest (state_of (closed st) s).
  Proof.
    intros [R1 [R2 R3]] Hc. unfold step_toks. cbn [app xrun].
    (* the "/" *)
    assert (E0 : xtrans chk st XSlash = inl {| x_done := closed st; x_f := None; x_i := None; x_c := None; x_ph := PSlash |}).
    { unfold xtrans, closed. destruct (x_ph st) eqn:Ep; try congruence;
        try (rewrite close_step_ok by exact Hc; reflexivity). }
    rewrite E0. clear E0.
    destruct s as [f i c]. unfold state_of, phase_of. cbn [xs_field xs_index xs_cls].
    destruct f as [f|]; destruct i as [ds|]; destruct c as [c|]; cbn [app xrun xtrans x_ph x_done x_f x_i x_c option_map];
      rewrite <- ?app_assoc; rewrite ?xrun_digits; cbn [app xrun xtrans x_ph x_done x_f x_i x_c option_map];
      rewrite ?app_nil_r; reflexivity.
  Qed.

  Lemma state_of_ready done s : ready (state_of done s) /\ cur_step (state_of done s) = s
                                /\ closed (state_of done s) = s :: done /\ (step_ok s -> cls_ok (state_of done s)).
  Proof.
    destruct s as [f i c]. unfold ready, state_of, phase_of, cur_step, closed, cls_ok, step_ok. cbn.
    assert (Hrev : option_map (@rev ascii) (option_map (@rev ascii) i) = i).
    { destruct i; simpl; [rewrite rev_involutive|]; reflexivity. }
    rewrite Hrev.
    destruct c, i, f; cbn; repeat split; try discriminate; auto;
      unfold cur_step; cbn; rewrite rev_involutive; reflexivity.
  Qed.

  Lemma xrun_steps steps : forall st,
    steps <> [] -> (exists c, xs_cls (last steps {| xs_field := None; xs_index := None; xs_cls := None |}) = Some c) ->
    Forall step_ok steps -> ready st -> cls_ok st ->
    xrun chk (steps_toks steps) st = inl (rev (closed st) ++ steps).
  Proof.
    induction steps as [|s r IH]; intros st Hne Hlast Hok Hr Hc; [congruence|].
    unfold steps_toks. cbn [flat_map]. fold (steps_toks r).
    inversion Hok as [|? ? Hs Hrest]; subst.
    rewrite xrun_step by assumption.
    destruct (state_of_ready (closed st) s) as [R [Cu [Cl Ck]]].
    destruct r as [|s2 r'].
    - (* the last step: it has a class *)
      unfold steps_toks. cbn [flat_map xrun].
      destruct Hlast as [c Hcls]. cbn [last] in Hcls.
      assert (Hph : x_ph (state_of (closed st) s) = PCls).
      { unfold state_of, phase_of. cbn. rewrite Hcls. reflexivity. }
      rewrite Hph. rewrite close_step_ok by (apply Ck; exact Hs). rewrite Cu. cbn [x_done state_of rev]. reflexivity.
    - rewrite IH; [ | discriminate | exact Hlast | exact Hrest | exact R | apply Ck; exact Hs ].
      rewrite Cl. cbn [rev]. rewrite <- app_assoc. reflexivity.
  Qed.
End Parse.

Lemma ready_init : forall chk : pystr -> option perr, ready xinit /\ cls_ok chk xinit.
Proof. intros. unfold ready, cls_ok, xinit. cbn. repeat split; try discriminate; auto. Qed.

(* printed text starts with "/" : the path is absolute and is not rewritten *)
Lemma normalize_printed wts trail r :
  wts = ([], XSlash) :: r -> xnormalize (print_toks wts trail) = print_toks wts trail.
Proof. intros ->. reflexivity. Qed.

Definition no_step : xstep := {| xs_field := None; xs_index := None; xs_cls := None |}.

(* C17_print_parse for the xpath grammar *)
Theorem xpath_print_parse chk steps wts trail :
  steps <> [] -> (exists c, xs_cls (last steps no_step) = Some c) ->          (* the grammar: element* self *)
  Forall (step_ok chk) steps ->                                              (* class names exist and are node classes *)
  map snd wts = steps_toks steps ->                                          (* the text is these tokens ... *)
  seps_ok false wts -> all_ws trail ->                                       (* ... with any white space between them *)
  (exists r, wts = ([], XSlash) :: r) ->                                     (* none in front (it would make the path relative) *)
  xparse chk (print_toks wts trail) = inl steps.
Proof.
  intros Hne Hlast Hok Htoks Hseps Htrail [r Hr].
  unfold xparse. rewrite (normalize_printed _ _ _ Hr).
  rewrite (xlex_print wts trail Htrail None false) by auto.
  cbn [flush]. rewrite Htoks.
  destruct (ready_init chk) as [R C].
  rewrite xrun_steps; auto.
Qed.

(* a sample used by the Example in Props/C17.v *)
Definition ex_steps : list xstep :=
  [ {| xs_field := None; xs_index := None; xs_cls := None |};
    {| xs_field := Some (lit "items"); xs_index := Some (lit "12"); xs_cls := None |};
    {| xs_field := Some (lit "x"); xs_index := None; xs_cls := Some (lit "A") |} ].
Definition ex_wts : list (pystr * xtok) :=
  [([], XSlash); ([], XSlash); (lit " ", XAt); ([], XName (lit "items")); ([], XLb); (lit " ", XDigit "1"%char);
   (lit "  ", XDigit "2"%char); ([], XRb); ([], XSlash); ([], XAt); ([], XName (lit "x")); (lit " ", XName (lit "A"))].
