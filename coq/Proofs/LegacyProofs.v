(* C18 / C19: lemmas about Model/Legacy.v.
   Part A  frame lemmas: the rejections that happen before any mutation leave the state as it was
   Part B  machine-checked witnesses of the defects (vm_compute on their minimal histories)
   Part C  the queries (ancestors, get_depth, is_ancestor) against the stored structure *)
From Oak Require Import Spec.LegacySpec.
From Coq Require Import List String Ascii ZArith Bool Arith Lia.
Import ListNotations.

(* ================================================================ Part A: frames ================== *)
Section Frames.
  Variable H : pystr -> pystr.
  Variable ct : ctable.

  Lemma Frame_refl s : Frame s s.
  Proof. split; [intros a _; constructor; reflexivity | auto]. Qed.

  (* a state that only gained one (unregistered) cell *)
  Definition push (s : st) (c : cell) : st := {| heap := heap s ++ [c]; reg := reg s |}.
  Lemma cellD_push s c a : a < List.length (heap s) -> cellD (push s c) a = cellD s a.
  Proof. intros Hl. unfold cellD, push; simpl. apply app_nth1; exact Hl. Qed.
  Lemma Frame_push s c : Frame s (push s c).
  Proof.
    split.
    - intros a Hl. unfold live in Hl.
      assert (E : cellD (push s c) a = cellD s a) by (apply cellD_push; exact Hl).
      constructor.
      + unfold detached, id_of, reg_get. rewrite E. reflexivity.
      + unfold position, parent, reg_get. rewrite E. reflexivity.
      + rewrite E; reflexivity.
      + rewrite E; reflexivity.
      + rewrite E; reflexivity.
      + rewrite E; reflexivity.
    - intros i Hi. exact Hi.
  Qed.

  (* replace(): forbidden or unknown keys are refused before anything is touched *)
  Lemma replace_bad_keys s a ch :
    forallb (fun kv => allowed_key ct (c_cls (cellD s a)) (fst kv)) ch = false ->
    step H ct s (OReplace a ch) = (s, RErr ERep).
  Proof. intros Hk. simpl. unfold op_replace. rewrite Hk. reflexivity. Qed.

  (* replace_with(): the three pre-checks *)
  Lemma replace_with_new_has_parent s a n :
    is_attached_subtree s n = true ->
    step H ct s (OReplaceWith a (Some n)) = (s, RErr ERw).
  Proof. intros Hn. simpl. unfold op_replace_with. rewrite Hn. reflexivity. Qed.

  Lemma replace_with_none_required s a p f d :
    parent s a = Some p -> c_pf (cellD s a) = Some f ->
    fdecl_of ct (c_cls (cellD s p)) f = Some d -> fd_kind d = KReq ->
    step H ct s (OReplaceWith a None) = (s, RErr ERw).
  Proof.
    intros Hp Hf Hd Hk. simpl. unfold op_replace_with. rewrite Hp, Hf, Hd, Hk. reflexivity.
  Qed.

  Lemma replace_with_wrong_type s a n p f d :
    is_attached_subtree s n = false ->
    parent s a = Some p -> c_pf (cellD s a) = Some f ->
    fdecl_of ct (c_cls (cellD s p)) f = Some d ->
    (forall b, fd_kind d <> KProp b) ->
    existsb (pystr_eqb (c_cls (cellD s n))) (fd_types d) = false ->
    step H ct s (OReplaceWith a (Some n)) = (s, RErr ERw).
  Proof.
    intros Hn Hp Hf Hd Hk Ht. simpl. unfold op_replace_with. rewrite Hn, Hp, Hf, Hd.
    destruct (fd_kind d) eqn:E; try (rewrite Ht; reflexivity).
    exfalso. eapply Hk. reflexivity.
  Qed.

  (* the constructor: duplicate children and ASTNodeIDCollisionError are raised before attaching *)
  Definition init_cell (cls org : pystr) (fs : list (pystr * fval)) (idarg : option pystr) : cell :=
    {| c_cls := cls; c_org := org; c_fs := fs;
       c_id := match idarg with Some i => i | None => UNSET end; c_oid := None; c_coll := None;
       c_pid := None; c_pf := None; c_pi := None; c_xp := None; c_cid := UNSET |}.

  Lemma construct_dup_children s cls org fs idarg e d cd :
    has_dup_id (push s (init_cell cls org fs idarg)) [] (kids (init_cell cls org fs idarg)) = true ->
    step H ct s (ONew cls org fs idarg e d cd) = (push s (init_cell cls org fs idarg), RErr EDup).
  Proof.
    intros Hd. simpl. unfold construct. fold (init_cell cls org fs idarg).
    fold (push s (init_cell cls org fs idarg)). rewrite Hd. reflexivity.
  Qed.

  Lemma construct_id_collision s cls org fs idarg x :
    let c0 := init_cell cls org fs idarg in
    let s0 := push s c0 in
    let base := if pystr_eqb (c_id c0) UNSET then H (id_data s0 (List.length (heap s))) else c_id c0 in
    has_dup_id s0 [] (kids c0) = false ->
    reg_get s0 base = Some x ->
    step H ct s (ONew cls org fs idarg true false false) = (s0, RErr EIdc).
  Proof.
    intros c0 s0 base Hd Hr. subst c0 s0 base. unfold init_cell, push in *.
    unfold step, construct. rewrite Hd. cbv beta zeta.
    match goal with |- context [reg_get ?s1 ?b] =>
      match type of Hr with reg_get ?s2 ?b2 = _ => change (reg_get s1 b) with (reg_get s2 b2) end end.
    rewrite Hr. reflexivity.
  Qed.
  (* the same facts with the frame they imply *)
  Lemma frame_replace_keys s a ch :
    forallb (fun kv => allowed_key ct (c_cls (cellD s a)) (fst kv)) ch = false ->
    step H ct s (OReplace a ch) = (s, RErr ERep) /\ Frame s s.
  Proof. intros; split; [apply replace_bad_keys; assumption | apply Frame_refl]. Qed.
  Lemma frame_replace_with_parent s a n :
    is_attached_subtree s n = true ->
    step H ct s (OReplaceWith a (Some n)) = (s, RErr ERw) /\ Frame s s.
  Proof. intros; split; [apply replace_with_new_has_parent; assumption | apply Frame_refl]. Qed.
  Lemma frame_replace_with_none s a p f d :
    parent s a = Some p -> c_pf (cellD s a) = Some f ->
    fdecl_of ct (c_cls (cellD s p)) f = Some d -> fd_kind d = KReq ->
    step H ct s (OReplaceWith a None) = (s, RErr ERw) /\ Frame s s.
  Proof. intros; split; [eapply replace_with_none_required; eassumption | apply Frame_refl]. Qed.
  Lemma frame_replace_with_type s a n p f d :
    is_attached_subtree s n = false ->
    parent s a = Some p -> c_pf (cellD s a) = Some f ->
    fdecl_of ct (c_cls (cellD s p)) f = Some d ->
    (forall b, fd_kind d <> KProp b) ->
    existsb (pystr_eqb (c_cls (cellD s n))) (fd_types d) = false ->
    step H ct s (OReplaceWith a (Some n)) = (s, RErr ERw) /\ Frame s s.
  Proof. intros; split; [eapply replace_with_wrong_type; eassumption | apply Frame_refl]. Qed.
  Lemma frame_constructor_dup_children s cls org fs idarg e d cd :
    has_dup_id (push s (init_cell cls org fs idarg)) [] (kids (init_cell cls org fs idarg)) = true ->
    step H ct s (ONew cls org fs idarg e d cd) = (push s (init_cell cls org fs idarg), RErr EDup)
    /\ Frame s (push s (init_cell cls org fs idarg)).
  Proof. intros; split; [apply construct_dup_children; assumption | apply Frame_push]. Qed.
  Lemma frame_constructor_id_collision s cls org fs idarg x :
    has_dup_id (push s (init_cell cls org fs idarg)) [] (kids (init_cell cls org fs idarg)) = false ->
    reg_get (push s (init_cell cls org fs idarg))
            (if pystr_eqb (c_id (init_cell cls org fs idarg)) UNSET
             then H (id_data (push s (init_cell cls org fs idarg)) (List.length (heap s)))
             else c_id (init_cell cls org fs idarg)) = Some x ->
    step H ct s (ONew cls org fs idarg true false false) = (push s (init_cell cls org fs idarg), RErr EIdc)
    /\ Frame s (push s (init_cell cls org fs idarg)).
  Proof. intros; split; [eapply construct_id_collision; eassumption | apply Frame_push]. Qed.
End Frames.

(* ================================================================ Part B: witnesses ================ *)
(* The digest of the witnesses is the identity (injective: no collision is involved in any of them). *)
Definition Hid (p : pystr) : pystr := p.
Definition mkF (n : string) (k : fkind) (t : list string) : fdecl :=
  {| fd_name := lit n; fd_kind := k; fd_types := map lit t |}.
Definition ct0 : ctable :=
  [ {| cd_name := lit "Lf"; cd_fields := [mkF "v" (KProp true) []] |};
    {| cd_name := lit "In";
       cd_fields := [mkF "req" KReq ["Lf"; "In"]; mkF "opt" KOpt ["Lf"]; mkF "tup" KSeq ["Lf"; "In"]] |} ]%string.
Definition leaf (v : string) : op :=
  ONew (lit "Lf") (lit "o") [(lit "v", FP (LS (lit v)))] None false false false.
Definition inner (req opt : option nat) (tup : list nat) : op :=
  ONew (lit "In") (lit "o") [(lit "req", FOne req); (lit "opt", FOne opt); (lit "tup", FSeq tup)]
       None false false false.

(* a history of successful, admissible steps *)
Definition is_reject (o : obs) : bool := match o with RErr _ | RDiv => true | _ => false end.
Fixpoint run_ok (s : st) (ops : list op) : option st :=
  match ops with
  | [] => Some s
  | o :: r => if admissible Hid ct0 s o && negb (is_reject (snd (step Hid ct0 s o)))
              then run_ok (fst (step Hid ct0 s o)) r else None
  end.

Open Scope string_scope.

(* ---- L1 (D13): replace() rejected for duplicate children leaves the children parent-less ---- *)
Definition h_L1 := [leaf "a"; leaf "b"; inner (Some 0) (Some 1) []].
Definition o_L1 := OReplace 2 [(lit "opt", CV (FOne (Some 0)))].
Lemma refuted_replace_dup_children :
  exists s s', run_ok empty_st h_L1 = Some s /\ step Hid ct0 s o_L1 = (s', RErr EDup) /\ ~ Frame s s'.
Proof.
  eexists; eexists. split; [vm_compute; reflexivity|]. split; [vm_compute; reflexivity|].
  intros [Hn _]. specialize (Hn 0). destruct Hn as [_ Hp _ _ _ _]; [vm_compute; lia|].
  vm_compute in Hp. discriminate.
Qed.
(* ... after which child.detach() succeeds inside the still attached tree *)
Lemma refuted_replace_dup_children_then_detach :
  exists s s', run_ok empty_st h_L1 = Some s /\ fst (step Hid ct0 s o_L1) = s' /\
               snd (step Hid ct0 s' (ODetach 0)) = RBool true /\
               detached (fst (step Hid ct0 s' (ODetach 0))) 0 = true /\
               In 0 (skids (fst (step Hid ct0 s' (ODetach 0))) 2) /\
               detached (fst (step Hid ct0 s' (ODetach 0))) 2 = false.
Proof.
  eexists; eexists. split; [vm_compute; reflexivity|]. split; [reflexivity|].
  repeat split; vm_compute; auto.
Qed.

(* ---- L2: a constructor rejected at a later child has already adopted (re-registered) an earlier one ---- *)
Definition h_L2 := [leaf "a"; leaf "b"; inner (Some 1) None []; ODetach 0].
Definition o_L2 := inner (Some 0) (Some 1) [].
Lemma refuted_constructor_parent_collision :
  exists s s', run_ok empty_st h_L2 = Some s /\ step Hid ct0 s o_L2 = (s', RErr EPar) /\ ~ Frame s s'.
Proof.
  eexists; eexists. split; [vm_compute; reflexivity|]. split; [vm_compute; reflexivity|].
  intros [Hn _]. specialize (Hn 0). destruct Hn as [Ha _ _ _ _ _]; [vm_compute; lia|].
  vm_compute in Ha. discriminate.
Qed.

(* ---- L3: replace_with() rejected because the new node cannot be attached: the new node keeps the receiver's id
        and its own in original_id ---- *)
Definition h_L3 := [leaf "a"; leaf "b"; inner (Some 1) None []; ODetachSelf 2; inner (Some 1) None []].
Definition o_L3 := OReplaceWith 0 (Some 2).
Lemma refuted_replace_with_ids_not_restored :
  exists s s', run_ok empty_st h_L3 = Some s /\ step Hid ct0 s o_L3 = (s', RErr ERw) /\ ~ Frame s s'.
Proof.
  eexists; eexists. split; [vm_compute; reflexivity|]. split; [vm_compute; reflexivity|].
  intros [Hn _]. specialize (Hn 2). destruct Hn as [_ _ _ Hi _ _]; [vm_compute; lia|].
  vm_compute in Hi. discriminate.
Qed.

(* ---- L4: ... and when the new node was attached, the handler registers it under the RECEIVER's id, which evicts
        the attached node that holds that id ---- *)
Definition h_L4 := [leaf "a"; ODetach 0; leaf "a"; leaf "c"; inner (Some 2) None []].
Definition o_L4 := OReplaceWith 0 (Some 3).
Lemma refuted_replace_with_evicts_twin :
  exists s s', run_ok empty_st h_L4 = Some s /\ step Hid ct0 s o_L4 = (s', RErr ERw) /\ ~ Frame s s'.
Proof.
  eexists; eexists. split; [vm_compute; reflexivity|]. split; [vm_compute; reflexivity|].
  intros [Hn _]. specialize (Hn 1). destruct Hn as [Ha _ _ _ _ _]; [vm_compute; lia|].
  vm_compute in Ha. discriminate.
Qed.

(* ---- L5: attach() rejected at a later child keeps the earlier children attached ---- *)
Definition h_L5 := [leaf "a"; leaf "b"; inner (Some 0) (Some 1) []; ODetach 2; leaf "b"].
Definition o_L5 := OAttach 2.
Lemma refuted_attach_partial :
  exists s s', run_ok empty_st h_L5 = Some s /\ step Hid ct0 s o_L5 = (s', RErr EReg) /\ ~ Frame s s'.
Proof.
  eexists; eexists. split; [vm_compute; reflexivity|]. split; [vm_compute; reflexivity|].
  intros [Hn _]. specialize (Hn 0). destruct Hn as [Ha _ _ _ _ _]; [vm_compute; lia|].
  vm_compute in Ha. discriminate.
Qed.

(* ---- L6: x.replace(f=x) succeeds and returns an attached node whose child x is detached (parent and child share
        one id, the parent's registration overwrites the child's) ---- *)
Definition h_L6 := [leaf "a"; inner (Some 0) None []; OReplace 1 [(lit "opt", CV (FOne (Some 1)))]].
Lemma refuted_replace_self_as_child :
  exists s, run_ok empty_st h_L6 = Some s /\ ~ LInv Hid ct0 s.
Proof.
  eexists. split; [vm_compute; reflexivity|].
  intros HI. specialize (HI 2). destruct HI as [Hc _ _ _]; [vm_compute; lia | vm_compute; reflexivity |].
  destruct (Hc 1 (lit "opt") None) as [Ha _]; [vm_compute; auto|].
  vm_compute in Ha. discriminate.
Qed.

(* ---- L7: is_ancestor compares with ==: the duplicate of a parent "is an ancestor" of the original's child ---- *)
Definition h_L7 := [leaf "a"; inner (Some 0) None []; ODuplicate 1 false].
Lemma refuted_is_ancestor_twin :
  exists s, run_ok empty_st h_L7 = Some s /\
            ancestors (fuel_of s) s 0 = Some [1] /\ is_ancestor ct0 s 3 0 = Some true.
Proof. eexists. repeat split; vm_compute; reflexivity. Qed.

(* ---- child.replace_with(its parent) does not return (_reset_content_id walks a cycle): inadmissible ---- *)
Definition h_L8 := [leaf "a"; inner (Some 0) None []].
Lemma replace_with_own_parent_diverges :
  exists s, run_ok empty_st h_L8 = Some s /\ snd (step Hid ct0 s (OReplaceWith 0 (Some 1))) = RDiv /\
            admissible Hid ct0 s (OReplaceWith 0 (Some 1)) = false.
Proof. eexists. repeat split; vm_compute; reflexivity. Qed.

Close Scope string_scope.

(* ================================================================ Part C: queries ================= *)
Section Queries.
  Variable H : pystr -> pystr.
  Variable ct : ctable.

  (* ancestors() is the chain of .parent; under LInv every link of it is a stored child position *)
  Inductive chain_up (s : st) : nat -> list nat -> Prop :=
  | chain_nil a : parent s a = None -> chain_up s a []
  | chain_cons a p l : parent s a = Some p -> chain_up s p l -> chain_up s a (p :: l).

  Lemma ancestors_chain fuel s a l : ancestors fuel s a = Some l -> chain_up s a l.
  Proof.
    revert a l. induction fuel; simpl; intros a l E; [discriminate|].
    destruct (parent s a) as [p|] eqn:Hp.
    - destruct (ancestors fuel s p) as [l'|] eqn:E'; [|discriminate]. inversion E; subst.
      apply chain_cons; auto.
    - inversion E; subst. apply chain_nil; auto.
  Qed.

  Lemma get_depth_length s a n :
    get_depth s a = Some n -> exists l, ancestors (fuel_of s) s a = Some l /\ List.length l = n.
  Proof.
    unfold get_depth. destruct (ancestors (fuel_of s) s a) as [l|]; [|discriminate].
    intros E; inversion E; subst. eauto.
  Qed.

  (* the first link: an attached node with a parent sits in a child field of that parent, at its own slots *)
  Lemma parent_holds_child s a p :
    LInv H ct s -> live s a -> attached s a -> parent s a = Some p ->
    exists f, In (a, f, c_pi (cellD s a)) (skids_wf s p).
  Proof.
    intros HI Hl Ha Hp. destruct (HI a Hl Ha) as [_ Hs _ _].
    destruct (Hs p Hp) as [f [_ Hin]]. eauto.
  Qed.
End Queries.

(* a non-trivial state inside the invariant (premise of the theorems that assume LInv) *)
Lemma linv_example :
  exists s, run_ok empty_st [leaf "a"; inner (Some 0) None []] = Some s /\ LInv Hid ct0 s /\
            live s 0 /\ attached s 0 /\ parent s 0 = Some 1.
Proof.
  eexists. split; [vm_compute; reflexivity|]. split; [|repeat split; vm_compute; auto].
  intros a Hl Ha. unfold live in Hl. vm_compute in Hl.
  destruct a as [|[|a]]; [| |exfalso; lia].
  - constructor.
    + intros k f i Hin. vm_compute in Hin. contradiction.
    + intros p Hp. vm_compute in Hp. inversion Hp; subst. exists (lit "req"). split; vm_compute; auto.
    + vm_compute; reflexivity.
    + vm_compute; reflexivity.
  - constructor.
    + intros k f i Hin. vm_compute in Hin. destruct Hin as [E|[]]. inversion E; subst.
      repeat split; vm_compute; reflexivity.
    + intros p Hp. vm_compute in Hp. discriminate.
    + vm_compute; reflexivity.
    + vm_compute; reflexivity.
Qed.

(* ---- L12: a change below a detach_self'ed node does not reach it (its parent link is gone), and attach() does not
        recompute: the re-attached node carries a stale content_id ---- *)
Definition h_L12 := [leaf "a"; leaf "b"; leaf "x"; inner (Some 0) None [1]; inner (Some 2) None [3];
                     ODetachSelf 4; OReplace 1 [(lit "v", CV (FP (LS (lit "c"))))]; OAttach 4]%string.
Lemma refuted_attach_stale_content_id :
  exists s, run_ok empty_st h_L12 = Some s /\ ~ LInv Hid ct0 s.
Proof.
  eexists. split; [vm_compute; reflexivity|].
  intros HI. specialize (HI 4). destruct HI as [_ _ _ Hc]; [vm_compute; lia | vm_compute; reflexivity |].
  vm_compute in Hc. discriminate.
Qed.
