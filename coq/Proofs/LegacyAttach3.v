(* C18 round 2, part 3: the structural half of Inv2 (SInv) survives every change described by att_rel, hence
   every successful _attach_inner under the guards; the content_id half follows from the frame. *)
From Oak Require Import Spec.LegacySpec Spec.LegacySpec2 Proofs.LegacyInv Proofs.LegacyHeap Proofs.LegacyAttach
  Proofs.LegacyAttach2.
From Coq Require Import List String Ascii ZArith Bool Arith Lia.
Import ListNotations.

Definition node_links (s : st) (a : nat) : Prop :=
  (forall k f i, In (k, f, i) (skids_wf s a) ->
     attached s k /\ parent s k = Some a /\ c_pf (cellD s k) = Some f /\ c_pi (cellD s k) = i) /\
  (forall p, parent s a = Some p ->
     exists f, c_pf (cellD s a) = Some f /\ In (a, f, c_pi (cellD s a)) (skids_wf s p)) /\
  reg_get s (id_of s a) = Some a.
Definition SInv (s : st) : Prop :=
  RegOk s /\ Rank s /\ PidOk s /\ forall a, live s a -> attached s a -> node_links s a.

Section Split.
  Variable H : pystr -> pystr.
  Variable ct : ctable.
  Lemma Inv2_split s : Inv2 H ct s <-> SInv s /\ forall a, live s a -> attached s a -> cid_ok H ct s a.
  Proof.
    split.
    - intros [HR [HK [HP HL]]]. split; [split; [exact HR | split; [exact HK | split; [exact HP|]]]|].
      + intros a Hl Ha. destruct (HL a Hl Ha) as [A B C _]. split; [exact A | split; [exact B | exact C]].
      + intros a Hl Ha. destruct (HL a Hl Ha) as [_ _ _ E]. exact E.
    - intros [[HR [HK [HP HL]]] HC]. split; [exact HR | split; [exact HK | split; [exact HP|]]].
      intros a Hl Ha. destruct (HL a Hl Ha) as [A [B C]]. constructor; auto. apply HC; assumption.
  Qed.
  Lemma cid_ok_pframe s s' a : pframe s s' -> cid_ok H ct s a -> cid_ok H ct s' a.
  Proof.
    intros PF E. unfold cid_ok in *. rewrite (pf_cid _ _ PF), E. symmetry. apply tree_cid_pframe. exact PF.
  Qed.
End Split.

Theorem sinv_att s s1 D E :
  SInv s -> att_rel s s1 D E ->
  (forall d, In d D -> live s d) ->
  (forall d k f i, In (d, (k, f, i)) E ->
      In d D /\ In (k, f, i) (skids_wf s d) /\ (In k D \/ is_attached_root s k = true)) ->
  (forall d e, In d D -> In e (skids_wf s d) -> In (d, e) E) ->
  SInv s1.
Proof.
  intros [HR [HK [HP HL]]] R HDl K2 K3.
  assert (PF := ar_pf _ _ _ _ R).
  assert (Hroot : forall x, is_attached_root s x = true -> attached s x /\ parent s x = None).
  { intros x Hx. unfold is_attached_root in Hx. destruct (parent s x); [discriminate|].
    apply negb_true_iff in Hx. split; [exact Hx | reflexivity]. }
  (* what an adopted node looks like afterwards *)
  assert (Had : forall d x f i, In (d, (x, f, i)) E ->
            attached s1 x /\ parent s1 x = Some d /\ c_pf (cellD s1 x) = Some f /\ c_pi (cellD s1 x) = i /\
            In d D /\ In (x, f, i) (skids_wf s1 d)).
  { intros d x f i Hin. destruct (K2 _ _ _ _ Hin) as [Hd [Hk Ho]].
    assert (Ec := ar_adopt _ _ _ _ R _ _ _ _ Hin). split; [|split; [|split; [|split; [|split]]]].
    - destruct Ho as [Ho|Ho]; [eapply att_attached_new; eassumption|].
      eapply att_attached_fwd; [eassumption | apply Hroot; exact Ho].
    - unfold parent. rewrite Ec. simpl. exact (ar_new _ _ _ _ R d Hd).
    - rewrite Ec. reflexivity.
    - rewrite Ec. reflexivity.
    - exact Hd.
    - rewrite (pf_skids_wf _ _ PF). exact Hk. }
  (* a node that had a stored parent id is not adopted *)
  assert (Hnad : forall x, c_pid (cellD s x) <> None -> ~ In x (adopted E)).
  { intros x Hx Ha. destruct (HP x Hx) as [Hxa Hxp]. apply in_adopted in Ha. destruct Ha as [d [f [i Hin]]].
    destruct (K2 _ _ _ _ Hin) as [_ [_ [Ho|Ho]]].
    - assert (Hdx := att_detached_D _ _ _ _ _ R Ho). unfold attached in Hxa. congruence.
    - apply Hroot in Ho. destruct Ho as [_ Ho]. contradiction. }
  assert (Hpar_same : forall x p, ~ In x (adopted E) -> parent s x = Some p -> parent s1 x = Some p).
  { intros x p Hn Hp. unfold parent in *. rewrite (ar_same _ _ _ _ R x Hn).
    destruct (c_pid (cellD s x)); [|discriminate]. apply (ar_mono _ _ _ _ R). exact Hp. }
  split; [|split; [|split]].
  - intros i x Hx. destruct (id_in_dec s D i) as [[d [Hd Ei]]|Hn].
    + rewrite <- Ei, (ar_new _ _ _ _ R d Hd) in Hx. inversion Hx; subst x.
      split; [apply (pf_live _ _ PF); apply HDl; exact Hd | rewrite (pf_id _ _ PF); exact Ei].
    + rewrite (ar_reg _ _ _ _ R _ Hn) in Hx. destruct (HR _ _ Hx) as [Hl Hi].
      split; [apply (pf_live _ _ PF); exact Hl | rewrite (pf_id _ _ PF); exact Hi].
  - eapply Rank_pf; eassumption.
  - intros x Hx. destruct (in_dec Nat.eq_dec x (adopted E)) as [Ha|Ha].
    + apply in_adopted in Ha. destruct Ha as [d [f [i Hin]]].
      destruct (Had _ _ _ _ Hin) as [A [B _]]. split; [exact A | rewrite B; discriminate].
    + rewrite (ar_same _ _ _ _ R x Ha) in Hx. destruct (HP x Hx) as [Hxa Hxp].
      split; [eapply att_attached_fwd; eassumption|].
      destruct (parent s x) as [p|] eqn:Hp; [|congruence]. rewrite (Hpar_same x p Ha Hp). discriminate.
  - intros x Hlx Hax. apply (pf_live _ _ PF) in Hlx.
    (* the slot clause is the same argument for old and new nodes *)
    assert (Hslot : forall p, parent s1 x = Some p ->
                      (c_pid (cellD s x) = None -> ~ In x (adopted E) -> False) ->
                      exists f, c_pf (cellD s1 x) = Some f /\ In (x, f, c_pi (cellD s1 x)) (skids_wf s1 p)).
    { intros p Hp Hnone. destruct (in_dec Nat.eq_dec x (adopted E)) as [Ha|Ha].
      - apply in_adopted in Ha. destruct Ha as [d [f [i Hin]]].
        destruct (Had _ _ _ _ Hin) as [_ [B [C [Dd [_ F]]]]]. rewrite B in Hp. inversion Hp; subst p.
        exists f. rewrite Dd. split; assumption.
      - destruct (c_pid (cellD s x)) as [pid|] eqn:Epid; [|exfalso; apply Hnone; [reflexivity | exact Ha]].
        assert (Hx : c_pid (cellD s x) <> None) by congruence.
        destruct (HP x Hx) as [Hxa Hxp]. destruct (parent s x) as [p0|] eqn:Hp0; [|congruence].
        rewrite (Hpar_same x p0 Ha Hp0) in Hp. inversion Hp; subst p0.
        destruct (HL x Hlx Hxa) as [_ [Hs _]]. destruct (Hs p Hp0) as [f [Hf Hin]].
        exists f. rewrite (ar_same _ _ _ _ R x Ha), (pf_skids_wf _ _ PF). split; assumption. }
    destruct (in_dec Nat.eq_dec x D) as [HxD|HxD].
    + split; [|split].
      * intros k f i Hin. rewrite (pf_skids_wf _ _ PF) in Hin.
        destruct (Had _ _ _ _ (K3 x _ HxD Hin)) as [A [B [C [Dd _]]]]. auto.
      * intros p Hp. apply (Hslot p Hp). intros Hn Ha. unfold parent in Hp.
        rewrite (ar_same _ _ _ _ R x Ha), Hn in Hp. discriminate.
      * apply attached_reg. exact Hax.
    + assert (Hxa : attached s x).
      { destruct (att_attached_back _ _ _ _ _ R Hax); [assumption | contradiction]. }
      destruct (HL x Hlx Hxa) as [Hc [Hs Hlk]]. split; [|split].
      * intros k f i Hin. rewrite (pf_skids_wf _ _ PF) in Hin.
        destruct (Hc k f i Hin) as [Hk1 [Hk2 [Hk3 Hk4]]].
        assert (Hkn : ~ In k (adopted E)).
        { apply Hnad. unfold parent in Hk2. destruct (c_pid (cellD s k)); [discriminate | discriminate]. }
        split; [eapply att_attached_fwd; eassumption|]. split; [apply Hpar_same; assumption|].
        rewrite (ar_same _ _ _ _ R k Hkn). split; assumption.
      * intros p Hp. apply (Hslot p Hp). intros Hn Ha. unfold parent in Hp.
        rewrite (ar_same _ _ _ _ R x Ha), Hn in Hp. discriminate.
      * apply attached_reg. exact Hax.
Qed.

Section AttInv.
  Variable H : pystr -> pystr.
  Variable ct : ctable.

  (* a successful _attach_inner on a live, tree-shaped receiver whose detached nodes share no id with an ancestor *)
  Theorem sinv_attach_inner fuel s a s1 :
    SInv s -> live s a -> tree_shaped s a -> ids_apart (fun x => detached s x = true) s a ->
    attach_inner fuel s a = Ok s1 None ->
    SInv s1 /\ pframe s s1 /\ attached s1 a /\
    (forall x, attached s1 x -> attached s x \/ (reach s a x /\ detached s x = true)) /\
    (forall x, attached s x -> attached s1 x).
  Proof.
    intros HS Hl HT HI Eq. assert (HK : Rank s) by (destruct HS as [_ [HK _]]; exact HK).
    destruct (attach_inner_spec (fun x => detached s x = true) fuel s a s1 HK HT HI (fun x Hx => Hx) Eq)
      as [D [E [R [K1 [K2 [K3 K4]]]]]].
    split; [|split; [|split; [|split]]].
    - eapply sinv_att; try eassumption. intros d Hd. apply K1 in Hd. eapply reach_live; eassumption.
    - exact (ar_pf _ _ _ _ R).
    - eapply att_attached_new; eassumption.
    - intros x Hx. destruct (att_attached_back _ _ _ _ _ R Hx) as [Hx'|Hx']; [left; exact Hx'|].
      right. split; [apply K1; exact Hx' | eapply att_detached_D; eassumption].
    - intros x Hx. eapply att_attached_fwd; eassumption.
  Qed.

  Theorem inv2_attach s a s1 u :
    Inv2 H ct s -> live s a -> tree_shaped s a -> ids_apart (fun x => detached s x = true) s a ->
    cids_fresh H ct s a -> attach_ s a = Ok s1 u -> Inv2 H ct s1.
  Proof.
    intros HI Hl HT HA HC Eq. apply Inv2_split in HI. destruct HI as [HS HCid].
    unfold attach_ in Eq.
    destruct (attach_inner (fuel_of s) s a) as [s2 [c|]|s2 e2|] eqn:Ei; try discriminate.
    inversion Eq; subst s2. clear Eq.
    destruct (sinv_attach_inner _ _ _ _ HS Hl HT HA Ei) as [HS1 [PF [_ [Hback _]]]].
    apply Inv2_split. split; [exact HS1|].
    intros x Hlx Hax. apply (cid_ok_pframe H ct _ _ _ PF).
    destruct (Hback x Hax) as [Hx|[Hr Hd]].
    - apply HCid; [apply (pf_live _ _ PF); exact Hlx | exact Hx].
    - apply HC; assumption.
  Qed.

  Theorem inv2_step_attach s a s' :
    Inv2 H ct s -> live s a -> tree_shaped s a -> ids_apart (fun x => detached s x = true) s a ->
    cids_fresh H ct s a -> step H ct s (OAttach a) = (s', RNone) -> Inv2 H ct s'.
  Proof.
    intros HI Hl HT HA HC Eq. simpl in Eq. unfold op_attach in Eq.
    destruct (negb (detached s a)); simpl in Eq; [inversion Eq; subst; exact HI|].
    destruct (attach_ s a) as [s2 u|s2 e2|] eqn:Ea; simpl in Eq; try discriminate.
    inversion Eq; subst s2. eapply inv2_attach; eassumption.
  Qed.
End AttInv.
