(* The definitions regenerated from origin.py on every build (Gen/OriginGen.v, by tools/translate_origin.py) are
   extensionally equal to the hand-written model of Model/Origin.v, for all points and ranges over Z: so the C15
   interval theorems are re-established against what the source text says now. *)
From Oak Require Import Model.Origin Gen.OriginGen.
From Coq Require Import ZifyBool.
Local Open Scope Z_scope.

Ltac unfold_all :=
  unfold g_hull, g_mk_range, g_range_rejected, g_point_rejected, g_overlaps, g_contains, g_r_lt, g_r_le, g_p_lt, g_p_le,
         hull, mk_range, mk_point, overlaps, contains, r_lt, r_le, pmin, pmax, p_ge, p_gt, p_le, p_lt in *.
Ltac split_ifs :=
  repeat match goal with
         | |- context [if ?c then _ else _] =>
           match type of c with bool => let E := fresh "E" in destruct c eqn:E end
         end.
Ltac solve_gen := intros; unfold_all; cbv zeta; cbn [r_start r_end p_idx p_line p_col];
  first [ reflexivity | lia | (split_ifs; cbn [orb andb negb]; first [reflexivity | congruence | lia]) ].

Lemma g_p_lt_eq a b : g_p_lt a b = p_lt a b. Proof. solve_gen. Qed.
Lemma g_p_le_eq a b : g_p_le a b = p_le a b. Proof. solve_gen. Qed.
Lemma g_point_rejected_eq i l c :
  g_point_rejected {| p_idx := i; p_line := l; p_col := c |} = match mk_point i l c with None => true | Some _ => false end.
Proof. solve_gen. Qed.
Lemma g_mk_range_eq s e : g_mk_range s e = mk_range s e. Proof. solve_gen. Qed.
Lemma g_overlaps_eq a b : g_overlaps a b = overlaps a b. Proof. solve_gen. Qed.
Lemma g_contains_eq a b : g_contains a b = contains a b. Proof. solve_gen. Qed.
Lemma g_r_lt_eq a b : g_r_lt a b = r_lt a b. Proof. solve_gen. Qed.
Lemma g_r_le_eq a b : g_r_le a b = r_le a b. Proof. solve_gen. Qed.
(* the hull picks the same operands' points on well-formed ranges (ties included) *)
Lemma g_hull_eq a b : g_hull a b = hull a b.
Proof.
  intros. unfold_all. cbv zeta. cbn [r_start r_end].
  first [ reflexivity | (split_ifs; cbn [r_start r_end] in *; first [reflexivity | congruence | lia]) ].
Qed.
