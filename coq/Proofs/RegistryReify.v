(* C14_dup_eq: the heap cells of the registry machine reified into trees of Model/Node.v, and duplicate() related to
   the tree-level notions of equality (Spec/CEq.v `ceq`, Model/Equality.v `eqn` / `all_origins`, Model/Encode.v
   `content_id`): the copy is the same tree up to object identity.  For every digest H and every late validation. *)
From Oak Require Import Model.Registry Proofs.RegistryProofs.
From Oak Require Import Model.Equality Spec.CEq Proofs.TraverseProofs Proofs.EncodeSound Proofs.EqualityProofs.

Definition hwf (hp : list cell) : Prop :=
  forall a c, nth_error hp a = Some c -> forall k, In k (all_kids c) -> k < a.
Lemma inv_hwf s : Inv0 s -> hwf (heap s).
Proof. intros Hs a c E. exact (I_heap _ Hs a c E). Qed.

Lemma kid_in (c : cell) (e : pystr * (kshape * list nat)) k : In e (k_kids c) -> In k (snd (snd e)) -> In k (all_kids c).
Proof. intros He Hk. unfold all_kids. apply in_flat_map. eauto. Qed.

(* the fuel does not matter once it exceeds the address *)
Lemma reify_fuel hp : hwf hp -> forall f1 f2 a, a < f1 -> a < f2 -> reify hp f1 a = reify hp f2 a.
Proof.
  intro Hwf. induction f1 as [|f1 IH]; intros f2 a H1 H2; [lia|]. destruct f2 as [|f2]; [lia|]. simpl.
  destruct (nth_error hp a) as [c|] eqn:E; auto. f_equal.
  apply map_ext_in. intros e He. f_equal. f_equal. apply map_ext_in. intros k Hk.
  pose proof (Hwf _ _ E _ (kid_in _ _ _ He Hk)). apply IH; lia.
Qed.

(* cells appended to the heap do not change the tree under an old address *)
Lemma reify_app hp ext : hwf (hp ++ ext) -> forall f a, a < length hp -> reify (hp ++ ext) f a = reify hp f a.
Proof.
  intro Hwf. induction f as [|f IH]; intros a Ha; simpl; auto.
  rewrite nth_error_app1 by auto. destruct (nth_error hp a) as [c|] eqn:E; auto. f_equal.
  apply map_ext_in. intros e He. f_equal. f_equal. apply map_ext_in. intros k Hk. apply IH.
  assert (E' : nth_error (hp ++ ext) a = Some c) by (rewrite nth_error_app1; auto).
  pose proof (Hwf _ _ E' _ (kid_in _ _ _ He Hk)). lia.
Qed.

Lemma reify_grow s t a : Inv0 t -> grow s t -> a < length (heap s) -> reify_st t a = reify_st s a.
Proof.
  intros Ht [[ext He] _] Ha. unfold reify_st. pose proof (inv_hwf _ Ht) as Hwf. rewrite He in *.
  now apply reify_app.
Qed.

(* the node at a, unfolded once, with its children as reified trees of their own *)
Lemma reify_st_unfold s a c : hwf (heap s) -> cell_at s a = Some c ->
  reify_st s a = Node a (k_cls c) (k_org c) (k_props c)
                   (map (fun k => (fst k, (fst (snd k), map (reify_st s) (snd (snd k))))) (k_kids c)).
Proof.
  intros Hwf Hc. unfold reify_st at 1. simpl. unfold cell_at in Hc. rewrite Hc. f_equal.
  apply map_ext_in. intros e He. f_equal. f_equal. apply map_ext_in. intros k Hk.
  pose proof (Hwf _ _ Hc _ (kid_in _ _ _ He Hk)). unfold reify_st. apply reify_fuel; auto; lia.
Qed.

(* a tree with every object identity erased *)
Definition strip (n : node) : node := retag (fun _ => 0) (fun o => o) n.
Lemma strip_node a c o ps ks :
  strip (Node a c o ps ks) = Node 0 c o ps (map (fun k => (fst k, (fst (snd k), map strip (snd (snd k))))) ks).
Proof. reflexivity. Qed.

Lemma Forall2_map_eq2 {A B C} (R : A -> B -> Prop) (g : A -> C) (h : B -> C) l l' :
  Forall2 R l l' -> (forall x y, In x l -> In y l' -> R x y -> g x = h y) -> map g l = map h l'.
Proof.
  induction 1 as [|x y l l' Hxy HF IH]; simpl; intro Hg; auto. f_equal; [apply Hg; simpl; auto|].
  apply IH. intros x0 y0 Hx0 Hy0. apply Hg; simpl; auto.
Qed.

Lemma Forall2_in_r {A B} (R : A -> B -> Prop) l l' : Forall2 R l l' -> forall y, In y l' -> exists x, In x l /\ R x y.
Proof.
  induction 1 as [|x y0 l l' Hxy HF IH]; intros y []; [subst; exists x; simpl; auto|].
  destruct (IH _ H) as [x0 [? ?]]. exists x0; simpl; auto.
Qed.

Lemma mapM_d_rel {A B} (f : st -> A -> dres B) (P : st -> Prop) (R : st -> st -> Prop) (Q : st -> A -> B -> Prop) l :
  (forall s, R s s) -> (forall a b c, R a b -> R b c -> R a c) ->
  (forall s s' x y, P s' -> Q s x y -> R s s' -> Q s' x y) ->
  (forall s x, In x l -> P s -> match f s x with DOk s' y => P s' /\ R s s' /\ Q s' x y | _ => True end) ->
  forall s, P s -> match mapM_d f s l with DOk s' ys => P s' /\ R s s' /\ Forall2 (Q s') l ys | _ => True end.
Proof.
  intros Rrefl Rtrans Qmono. induction l as [|x l IH]; simpl; intros Hf s Hs; [auto|].
  pose proof (Hf s x (or_introl eq_refl) Hs) as Hx. destruct (f s x) as [s1 y|s1|]; auto.
  destruct Hx as [Hs1 [R1 Q1]].
  specialize (IH (fun s x Hin => Hf s x (or_intror Hin)) s1 Hs1).
  destruct (mapM_d f s1 l) as [s2 ys|s2|]; auto.
  destruct IH as [Hs2 [R2 Q2]]. split; auto. split; [eauto|]. constructor; eauto.
Qed.

Section DupEq.
  Variable H : pystr -> pystr.
  Variable ct : ctable.
  Variable late : st -> nat -> bool.

  (* ---- duplicate() returns the same tree up to object identity: same class, origin, ALL property values
          (non-comparable ones included), same child fields with the same shapes, position by position ---- *)
  Theorem dup_same_tree : forall fuel s a s' a', Inv0 s -> dup H ct late fuel s a = DOk s' a' ->
    strip (reify_st s' a') = strip (reify_st s a).
  Proof.
    induction fuel as [|f IH]; intros s a s' a' Hs; simpl; [discriminate|].
    destruct (cell_at s a) as [c|] eqn:Ec; [|discriminate].
    pose (P := fun t : st => Inv0 t /\ grow s t).
    pose (Q := fun (t : st) (k k' : nat) => k' < length (heap t) /\ strip (reify_st t k') = strip (reify_st s k)).
    pose (Q' := fun (t : st) (e e' : pystr * (kshape * list nat)) =>
                  fst e' = fst e /\ fst (snd e') = fst (snd e) /\ Forall2 (Q t) (snd (snd e)) (snd (snd e'))).
    assert (Qmono : forall t t' x y, P t' -> Q t x y -> grow t t' -> Q t' x y).
    { intros t t' x y [Ht' _] [Hy E] G. split; [pose proof (grow_len _ _ G); lia|].
      now rewrite (reify_grow _ _ _ Ht' G Hy). }
    assert (Q'mono : forall t t' x y, P t' -> Q' t x y -> grow t t' -> Q' t' x y).
    { intros t t' x y Ht' [E1 [E2 HF]] G. repeat split; auto.
      eapply Forall2_impl; [|exact HF]. intros x0 y0 Hq. eapply Qmono; eauto. }
    assert (Hkid : forall e k, In e (k_kids c) -> In k (snd (snd e)) -> k < length (heap s)).
    { intros e k He Hk. pose proof (I_heap _ Hs _ _ Ec _ (kid_in _ _ _ He Hk)). apply cell_at_lt in Ec. lia. }
    assert (Houter : forall t e, In e (k_kids c) -> P t ->
       match (match mapM_d (dup H ct late f) t (snd (snd e)) with
              | DOk t' l => DOk t' (fst e, (fst (snd e), l))
              | DLate t' => DLate t'
              | DFuel => DFuel
              end) with
       | DOk t' y => P t' /\ grow t t' /\ Q' t' e y
       | _ => True
       end).
    { intros t e He Ht.
      assert (Hinner : forall t0 x, In x (snd (snd e)) -> P t0 ->
                match dup H ct late f t0 x with DOk t1 y => P t1 /\ grow t0 t1 /\ Q t1 x y | _ => True end).
      { intros t0 x Hx [Ht0 G0]. destruct (dup H ct late f t0 x) as [t1 y|t1|] eqn:Ed; auto.
        destruct (dup_spec H ct late _ _ _ _ _ Ht0 Ed) as [Ht1 [[G1 _] Hy]].
        split; [split; [auto|eapply grow_trans; eauto]|]. split; auto. split; [lia|].
        rewrite (IH _ _ _ _ Ht0 Ed). now rewrite (reify_grow _ _ _ Ht0 G0 (Hkid _ _ He Hx)). }
      pose proof (mapM_d_rel (dup H ct late f) P grow Q (snd (snd e)) grow_refl grow_trans Qmono Hinner t Ht) as M.
      destruct (mapM_d (dup H ct late f) t (snd (snd e))) as [t1 l|t1|]; auto.
      destruct M as [Ht1 [G1 HF]]. split; auto. split; auto. repeat split; auto. }
    pose proof (mapM_d_rel _ P grow Q' (k_kids c) grow_refl grow_trans Q'mono Houter s (conj Hs (grow_refl s))) as M.
    destruct (mapM_d _ s (k_kids c)) as [s1 ks'|s1|]; try discriminate.
    destruct M as [[Hs1 G1] [_ HF]]. intro Eco. apply construct_ok in Eco as [Ea _].
    assert (Hbelow : kids_below (length (heap s1)) ks').
    { intros k Hin. apply in_flat_map in Hin as [e' [He' Hk]].
      destruct (Forall2_in_r _ _ _ HF _ He') as [e [_ [_ [_ HF2]]]].
      destruct (Forall2_in_r _ _ _ HF2 _ Hk) as [k0 [_ [Hlt _]]]. exact Hlt. }
    pose proof (alloc_inv H ct _ _ _ _ _ _ _ Hs1 Hbelow Ea) as Hs'.
    pose proof (alloc_grow H ct _ _ _ _ _ _ _ Ea) as G2.
    assert (Hc' : cell_at s' a' = Some (mkcell H ct (k_cls c) (k_org c) (k_props c) ks'
                                          (match cell_at s' a' with Some x => k_id x | None => [] end) (heap s1))).
    { apply alloc_shape in Ea as [i [_ [-> [_ ->]]]]. unfold cell_at; simpl.
      rewrite nth_error_app2, Nat.sub_diag by lia. reflexivity. }
    rewrite (reify_st_unfold _ _ _ (inv_hwf _ Hs') Hc'), (reify_st_unfold _ _ _ (inv_hwf _ Hs) Ec).
    rewrite !strip_node. cbn [k_cls k_org k_props k_kids mkcell]. f_equal. rewrite !map_map. cbn [fst snd].
    symmetry. apply (Forall2_map_eq2 (Q' s1)); auto.
    intros e e' He He' [E1 [E2 HF2]]. rewrite E1, E2. f_equal. f_equal. rewrite !map_map.
    apply (Forall2_map_eq2 (Q s1)); auto.
    intros k k' Hk Hk' [Hlt E]. rewrite <- E. now rewrite (reify_grow _ _ _ Hs' G2 Hlt).
  Qed.
End DupEq.

(* ================= from "same tree up to identity" to the tree-level notions ================= *)
Lemma kid_size (ks : list (pystr * (kshape * list node))) k x : In k ks -> In x (snd (snd k)) ->
  size x <= list_sum (map (fun k => list_sum (map size (snd (snd k)))) ks).
Proof.
  intros Hk Hx. induction ks as [|k0 ks IHk]; [destruct Hk|]. simpl. destruct Hk as [->|Hk].
  - assert (size x <= list_sum (map size (snd (snd k)))).
    { clear -Hx. induction (snd (snd k)) as [|y l IHl]; [destruct Hx|]. simpl. destruct Hx as [->|Hx]; [lia|]. specialize (IHl Hx). lia. }
    lia.
  - specialize (IHk Hk). lia.
Qed.

Lemma strip_eq_ceq ct : forall x y, strip x = strip y -> ceq ct x y.
Proof.
  induction x as [x IH] using size_induction. intros y E.
  destruct x as [a c o ps ks], y as [a' c' o' ps' ks']. rewrite !strip_node in E. injection E as Ec Eo Ep Ek. subst.
  cbn [ceq]. split; [reflexivity|]. split; [apply props_eq_refl|].
  assert (IH' : forall k, In k ks -> forall x, In x (snd (snd k)) -> forall y, strip x = strip y -> ceq ct x y).
  { intros k Hk x Hx. apply IH. simpl. apply Nat.lt_succ_r. eapply kid_size; eauto. }
  clear IH. revert ks' Ek. induction ks as [|[f [sh l]] ks IHks]; intros [|[f' [sh' l']] ks']; cbn [map fst snd];
    try discriminate; auto.
  intros E. injection E as Ef Esh El Eks. subst. repeat split; auto.
  - assert (IHl : forall x, In x l -> forall y, strip x = strip y -> ceq ct x y)
      by (intros x Hx; apply (IH' (f', (sh', l))); simpl; auto).
    clear IH' IHks Eks. revert l' El. induction l as [|x l IHl']; intros [|y l']; cbn [map]; try discriminate; auto.
    intros E. injection E as Ex El. split; [apply IHl; simpl; auto|]. apply IHl'; auto.
    intros z Hz. apply IHl. simpl; auto.
  - apply IHks; auto. intros k Hk. apply IH'. simpl; auto.
Qed.

Lemma all_origins_strip : forall n, all_origins (strip n) = all_origins n.
Proof.
  induction n as [n IH] using size_induction. destruct n as [a c o ps ks]. rewrite strip_node.
  cbn [all_origins]. f_equal.
  assert (IH' : forall k, In k ks -> forall x, In x (snd (snd k)) -> all_origins (strip x) = all_origins x).
  { intros k Hk x Hx. apply IH. simpl. apply Nat.lt_succ_r. eapply kid_size; eauto. }
  clear IH. induction ks as [|[f [sh l]] ks IHks]; cbn [map fst snd]; auto.
  f_equal; [|apply IHks; intros k Hk; apply IH'; simpl; auto].
  assert (IHl : forall x, In x l -> all_origins (strip x) = all_origins x)
    by (intros x Hx; apply (IH' (f, (sh, l))); simpl; auto).
  clear IH' IHks. destruct sh; auto.
  - destruct l as [|x l]; cbn [map]; auto. apply IHl. simpl; auto.
  - induction l as [|x l IHl']; cbn [map]; auto. f_equal; [apply IHl; simpl; auto|].
    apply IHl'. intros z Hz. apply IHl. simpl; auto.
Qed.

Lemma zip_ok_map_r {A B C} (p : A -> C -> bool) (g : B -> C) fs (l : list B) :
  zip_ok p fs (map g l) = zip_ok (fun f x => p f (g x)) fs l.
Proof. revert l. induction fs as [|f fs IH]; intros [|x l]; simpl; auto. now rewrite IH. Qed.
Lemma zip_ok_ext {A B} (p q : A -> B -> bool) fs l : (forall f x, p f x = q f x) -> zip_ok p fs l = zip_ok q fs l.
Proof. intro E. revert l. induction fs as [|f fs IH]; intros [|x l]; simpl; auto. now rewrite E, IH. Qed.
Lemma shape_ok_map k sh (l : list node) (g : node -> node) : shape_ok k (sh, map g l) = shape_ok k (sh, l).
Proof. destruct k as [[|]|], sh, l as [|x [|y l]]; reflexivity. Qed.

Lemma forallb_map' {A B} (f : B -> bool) (g : A -> B) l : forallb f (map g l) = forallb (fun x => f (g x)) l.
Proof. induction l as [|x l IH]; simpl; auto. now rewrite IH. Qed.

Lemma wf_node_strip ct : forall n, wf_node ct (strip n) = wf_node ct n.
Proof.
  induction n as [n IH] using size_induction. destruct n as [a c o ps ks]. rewrite strip_node. cbn [wf_node].
  assert (IH' : forall k, In k ks -> forall x, In x (snd (snd k)) -> wf_node ct (strip x) = wf_node ct x).
  { intros k Hk x Hx. apply IH. simpl. apply Nat.lt_succ_r. eapply kid_size; eauto. }
  f_equal; [f_equal|].
  - rewrite zip_ok_map_r. apply zip_ok_ext. intros f [n [sh l]]. cbn [fst snd]. now rewrite shape_ok_map.
  - rewrite forallb_map'. cbn [fst snd]. clear IH. induction ks as [|k ks IHks]; simpl; auto.
    f_equal; [|apply IHks; intros k0 Hk0; apply IH'; simpl; auto].
    rewrite forallb_map'. assert (IHl : forall x, In x (snd (snd k)) -> wf_node ct (strip x) = wf_node ct x)
      by (intros x Hx; apply (IH' k); simpl; auto).
    clear IH' IHks. induction (snd (snd k)) as [|x l IHl']; simpl; auto. f_equal; [apply IHl; simpl; auto|].
    apply IHl'. intros z Hz. apply IHl. simpl; auto.
Qed.

Section DupEq2.
  Variable H : pystr -> pystr.
  Variable ct : ctable.
  Variable late : st -> nat -> bool.

  (* C14_dup_eq: the copy is content-equal to the original, has the same content_id, the same origin at every
     position, is well-formed when the original is, and == (ASTNode.__eq__ of Model/Equality.v) answers True *)
  Theorem dup_eq fuel s a s' a' : Inv0 s -> dup H ct late fuel s a = DOk s' a' ->
    let o := reify_st s a in let n := reify_st s' a' in
    strip n = strip o /\ ceq ct o n /\ content_id H ct current n = content_id H ct current o /\
    all_origins n = all_origins o /\ wf_node ct n = wf_node ct o /\
    (wf_node ct o = true -> eqn H ct current n o = EqTrue /\ eqn H ct current o n = EqTrue).
  Proof.
    intros Hs Ed o n. pose proof (dup_same_tree H ct late _ _ _ _ _ Hs Ed) as E. fold o n in E.
    assert (Hc : ceq ct o n) by (apply strip_eq_ceq; auto).
    assert (Hc' : ceq ct n o) by (apply strip_eq_ceq; auto).
    assert (Ho : all_origins n = all_origins o) by (rewrite <- (all_origins_strip n), E; apply all_origins_strip).
    assert (Hw : wf_node ct n = wf_node ct o) by (rewrite <- (wf_node_strip ct n), E; apply wf_node_strip).
    split; auto. split; auto. split; [symmetry; apply (ceq_sound H ct current eq_refl); auto|].
    split; auto. split; auto. intro Wo. assert (Wn : wf_node ct n = true) by congruence.
    split.
    - rewrite (eq_of_ceq H ct current eq_refl n o Wn Wo Hc'). unfold origins_eq. rewrite Ho, forallb2_refl. reflexivity.
    - rewrite (eq_of_ceq H ct current eq_refl o n Wo Wn Hc). unfold origins_eq. rewrite Ho, forallb2_refl. reflexivity.
  Qed.

  (* the original's tree is the same before and after the call (nothing existing was modified) *)
  Lemma dup_keeps_original fuel s a s' a' : Inv0 s -> a < length (heap s) -> dup H ct late fuel s a = DOk s' a' ->
    reify_st s' a = reify_st s a.
  Proof.
    intros Hs Ha Ed. destruct (dup_spec H ct late _ _ _ _ _ Hs Ed) as [Hs' [[G _] _]]. now apply reify_grow.
  Qed.
End DupEq2.

(* ================= the content_id FIELD of the cells is the content_id of the reified tree ================= *)
(* every cell's content_id was computed, when the cell was built, from its class, properties and the content_ids / origins
   of its children as they stood in the heap of that moment (= the cells below it) *)
Definition coh (H : pystr -> pystr) (ct : ctable) (hp : list cell) : Prop :=
  forall a c, nth_error hp a = Some c ->
    k_cid c = H (cid_data_of ct current (k_cls c) (k_props c) (kd_of (firstn a hp) (k_kids c))).

Lemma nth_error_firstn_lt {A} (l : list A) : forall a k, k < a -> nth_error (firstn a l) k = nth_error l k.
Proof.
  induction l as [|x l IH]; intros a k Hk; [now rewrite firstn_nil|].
  destruct a as [|a]; [lia|]. destruct k as [|k]; simpl; auto. apply IH. lia.
Qed.

Section Coherence.
  Variable H : pystr -> pystr.
  Variable ct : ctable.
  Variable late : st -> nat -> bool.

  Lemma alloc_coh s c o ps ks s' a : coh H ct (heap s) -> alloc H ct s c o ps ks = Some (s', a) -> coh H ct (heap s').
  Proof.
    intros Hc Ea. apply alloc_shape in Ea as [i [_ [_ [_ ->]]]]. simpl. intros x cx Hx.
    destruct (Nat.lt_ge_cases x (length (heap s))) as [Hlt|Hge].
    - rewrite nth_error_app1 in Hx by auto. rewrite firstn_app.
      replace (x - length (heap s)) with 0 by lia. simpl. rewrite app_nil_r. now apply Hc.
    - rewrite nth_error_app2 in Hx by auto. destruct (x - length (heap s)) as [|m] eqn:Ex; simpl in Hx;
        [|destruct m; discriminate].
      injection Hx as <-. assert (x = length (heap s)) by lia. subst x.
      rewrite firstn_app, Nat.sub_diag, firstn_all. simpl. now rewrite app_nil_r.
  Qed.

  Lemma construct_coh s c o ps ks : coh H ct (heap s) ->
    coh H ct (heap (dstate (construct H ct late s c o ps ks) s)).
  Proof.
    intro Hc. unfold construct. destruct (alloc H ct s c o ps ks) as [[s1 a1]|] eqn:Ea; auto.
    pose proof (alloc_coh _ _ _ _ _ _ _ Hc Ea). destruct (late s1 a1); auto.
  Qed.

  Lemma mapM_d_coh {A B} (f : st -> A -> dres B) :
    (forall s x, coh H ct (heap s) -> coh H ct (heap (dstate (f s x) s))) ->
    forall l s, coh H ct (heap s) -> coh H ct (heap (dstate (mapM_d f s l) s)).
  Proof.
    intros Hf. induction l as [|x l IH]; simpl; intros s Hs; auto.
    specialize (Hf s x Hs). destruct (f s x) as [s1 y|s1|]; simpl in *; auto.
    specialize (IH s1 Hf). destruct (mapM_d f s1 l) as [s2 ys|s2|]; simpl in *; auto.
  Qed.

  Lemma dup_coh : forall fuel s a, coh H ct (heap s) -> coh H ct (heap (dstate (dup H ct late fuel s a) s)).
  Proof.
    induction fuel as [|f IH]; simpl; intros s a Hs; auto.
    destruct (cell_at s a) as [c|]; auto.
    assert (H1 : coh H ct (heap (dstate (mapM_d (fun s k => match mapM_d (dup H ct late f) s (snd (snd k)) with
                                 | DOk s' l => DOk s' (fst k, (fst (snd k), l))
                                 | DLate s' => DLate s'
                                 | DFuel => DFuel
                                 end) s (k_kids c)) s))).
    { apply mapM_d_coh; auto. intros t k Ht. pose proof (mapM_d_coh (dup H ct late f) IH (snd (snd k)) t Ht) as M.
      destruct (mapM_d (dup H ct late f) t (snd (snd k))); exact M. }
    destruct (mapM_d _ s (k_kids c)) as [s1 ks'|s1|]; simpl in *; auto.
    pose proof (construct_coh s1 (k_cls c) (k_org c) (k_props c) ks' H1) as H2.
    destruct (construct _ _ _ _ _ _ _ _); simpl in *; auto.
  Qed.

  Lemma dc_replace_coh s a ch : coh H ct (heap s) -> coh H ct (heap (fst (dc_replace H ct late s a ch))).
  Proof.
    intro Hs. unfold dc_replace. destruct (cell_at s a) as [c|]; auto. destruct (dc_check _ _ _); auto.
    pose proof (construct_coh s (k_cls c) (new_origin c ch) (new_props c ch) (new_kids c ch) Hs) as M.
    destruct (construct _ _ _ _ _ _ _ _); simpl in *; auto.
  Qed.

  Lemma replace_coh fx s a ch : coh H ct (heap s) -> coh H ct (heap (fst (replace H ct late fx s a ch))).
  Proof.
    intro Hs. unfold replace. destruct (cell_at s a) as [c|]; auto.
    destruct (detach_self_frame fx s a) as [Hh _].
    assert (H1 : coh H ct (heap (fst (detach_self fx s a)))) by now rewrite Hh.
    pose proof (dc_replace_coh _ a ch H1) as M.
    destruct (dc_replace H ct late (fst (detach_self fx s a)) a ch) as [s2 r2]. simpl in M.
    destruct r2; auto. destruct (match lookup (k_id c) (reg s) with Some b => _ | None => None end); auto.
  Qed.

  (* as_obj: the forced-id branch overwrites the ID of the node just built - no digest reads an id *)
  Lemma kd_of_ext hp hp' ks :
    (forall k, option_map (fun c => (k_cid c, ofqn (k_org c))) (nth_error hp k)
               = option_map (fun c => (k_cid c, ofqn (k_org c))) (nth_error hp' k)) -> kd_of hp ks = kd_of hp' ks.
  Proof.
    intro E. unfold kd_of. apply map_ext. intro k. f_equal. f_equal. apply map_ext. intro x. specialize (E x).
    destruct (nth_error hp x), (nth_error hp' x); simpl in E; congruence.
  Qed.
  Lemma nth_error_firstn_ge {A} (l : list A) a k : a <= k -> nth_error (firstn a l) k = None.
  Proof. intro. apply nth_error_None. rewrite firstn_length. lia. Qed.
  Lemma with_id_coh hp a cl i : coh H ct hp -> nth_error hp a = Some cl -> coh H ct (set_nth a (with_id cl i) hp).
  Proof.
    intros Hc Ea x cx Hx.
    assert (Hkd : forall ks, kd_of (firstn x (set_nth a (with_id cl i) hp)) ks = kd_of (firstn x hp) ks).
    { intro ks. apply kd_of_ext. intro k. destruct (Nat.lt_ge_cases k x) as [Hk|Hk].
      - rewrite !nth_error_firstn_lt by auto. destruct (Nat.eq_dec a k) as [->|Hne].
        + rewrite set_nth_same by (apply nth_error_Some; congruence). rewrite Ea. reflexivity.
        + now rewrite set_nth_other.
      - rewrite !nth_error_firstn_ge by auto. reflexivity. }
    rewrite Hkd. destruct (Nat.eq_dec a x) as [->|Hne].
    - rewrite set_nth_same in Hx by (apply nth_error_Some; congruence). injection Hx as <-.
      cbn [with_id k_cid k_cls k_props k_kids]. now apply Hc.
    - rewrite set_nth_other in Hx by auto. now apply Hc.
  Qed.
  Lemma deser_coh fx : forall fuel s v, coh H ct (heap s) -> coh H ct (heap (dstate (deser H ct late fx fuel s v) s)).
  Proof.
    induction fuel as [|f IH]; simpl; intros s v Hs; auto. destruct v as [i c o ps ks].
    destruct (lookup i (reg s)); auto.
    assert (H1 : coh H ct (heap (dstate (mapM_d (fun s k => match mapM_d (deser H ct late fx f) s (snd (snd k)) with
                                 | DOk s' l => DOk s' (fst k, (fst (snd k), l))
                                 | DLate s' => DLate s'
                                 | DFuel => DFuel
                                 end) s ks) s))).
    { apply mapM_d_coh; auto. intros t k Ht. pose proof (mapM_d_coh (deser H ct late fx f) IH (snd (snd k)) t Ht) as M.
      destruct (mapM_d (deser H ct late fx f) t (snd (snd k))); exact M. }
    destruct (mapM_d _ s ks) as [s1 ks'|s1|]; simpl in *; auto.
    pose proof (construct_coh s1 c o ps ks' H1) as H2.
    destruct (construct H ct late s1 c o ps ks') as [s2 a|s2|]; simpl in *; auto.
    destruct (cell_at s2 a) as [cl|] eqn:Ec; simpl; auto.
    destruct (pystr_eqb (k_id cl) i); simpl; auto.
    destruct (force_id_cases fx s2 a cl i) as [-> | ->]; auto. simpl. now apply with_id_coh.
  Qed.

  Lemma bind_heap dst r : heap (fst (bind dst r)) = heap (fst r).
  Proof. destruct r as [s1 [| a | b | e | | |]]; reflexivity. Qed.

  Theorem step_coh fx s o : coh H ct (heap s) -> coh H ct (heap (fst (step H ct late fx s o))).
  Proof.
    intro Hs. unfold step. destruct (step_raw H ct late fx s o) as [s' r] eqn:E. simpl.
    replace s' with (fst (step_raw H ct late fx s o)) by now rewrite E. clear E.
    destruct o as [dst c og ps ks|dst src|dst src ch|dst src ch|x|x|v|x k|src slot|slot dst]; simpl; auto.
    - destruct (negb _); auto. destruct (new_args ct s c ps ks); auto.
      pose proof (construct_coh s c og ps x Hs) as M. destruct (construct H ct late s c og ps x); simpl in *; auto.
    - destruct (negb _); auto. destruct (resolve s src) as [a|]; auto.
      pose proof (dup_coh (length (heap s)) s a Hs) as M.
      destruct (dup H ct late (length (heap s)) s a); simpl in *; auto.
    - destruct (negb _); auto. destruct (resolve s src) as [a|]; auto. destruct (cell_at s a) as [c|]; auto.
      destruct (changes ct s (k_cls c) ch); auto. rewrite bind_heap. now apply dc_replace_coh.
    - destruct (negb _); auto. destruct (resolve s src) as [a|]; auto. destruct (cell_at s a) as [c|]; auto.
      destruct (changes ct s (k_cls c) ch); auto. rewrite bind_heap. now apply replace_coh.
    - destruct (resolve s x) as [a|]; auto. simpl.
      destruct (fold_detach_frame fx (tree_of s a) s) as [Hh _]. unfold detach. now rewrite Hh.
    - destruct (resolve s x) as [a|]; auto. destruct (detach_self_frame fx s a) as [Hh _].
      destruct (detach_self fx s a). simpl in *. now rewrite Hh.
    - destruct (resolve s x); auto.
    - destruct (resolve s src) as [a|]; auto. destruct (ser_st s a); auto.
    - destruct (negb _); auto. destruct (slot_get slot (slots s)) as [v|]; auto.
      pose proof (deser_coh fx (S (sdepth v)) s v Hs) as M. unfold asobj.
      destruct (deser H ct late fx (S (sdepth v)) s v); simpl in *; auto.
  Qed.
  Theorem run_coh fx l : forall s, coh H ct (heap s) -> coh H ct (heap (run H ct late fx s l)).
  Proof. induction l as [|o l IH]; simpl; auto. intros s Hs. apply IH. now apply step_coh. Qed.
  Lemma coh_init n : coh H ct (heap (init_st n)).
  Proof. intros a c E. destruct a; discriminate. Qed.

  (* the field is the tree-level content_id (Model/Encode.v) of the reified tree, at every address *)
  Theorem cid_is_content_id s : hwf (heap s) -> coh H ct (heap s) ->
    forall a c, cell_at s a = Some c -> k_cid c = content_id H ct current (reify_st s a).
  Proof.
    intros Hwf Hc a. induction a as [a IH] using lt_wf_ind. intros c Ec.
    rewrite (reify_st_unfold _ _ _ Hwf Ec). cbn [content_id]. rewrite (Hc _ _ Ec). f_equal. f_equal.
    unfold kd_of. rewrite map_map. apply map_ext_in. intros e He. cbn [fst snd]. f_equal. f_equal.
    rewrite map_map. apply map_ext_in. intros k Hk.
    pose proof (Hwf _ _ Ec _ (kid_in _ _ _ He Hk)) as Hlt.
    assert (Hl : k < length (heap s)) by (apply cell_at_lt in Ec; lia).
    destruct (nth_error (heap s) k) as [ck|] eqn:Ek; [|apply nth_error_None in Ek; lia].
    rewrite nth_error_firstn_lt by auto. rewrite Ek.
    rewrite (IH k Hlt ck Ek). rewrite (reify_st_unfold _ _ _ Hwf Ek). reflexivity.
  Qed.

  (* so the copy's content_id field equals the original's *)
  Theorem dup_cid fuel s a s' a' c c' : Inv0 s -> coh H ct (heap s) -> dup H ct late fuel s a = DOk s' a' ->
    cell_at s a = Some c -> cell_at s' a' = Some c' -> k_cid c' = k_cid c /\ k_cls c' = k_cls c /\ k_org c' = k_org c /\ k_props c' = k_props c.
  Proof.
    intros Hs Hc Ed Ec Ec'. destruct (dup_spec H ct late _ _ _ _ _ Hs Ed) as [Hs' _].
    pose proof (dup_coh fuel s a Hc) as Hc'. rewrite Ed in Hc'. simpl in Hc'.
    destruct (dup_eq H ct late _ _ _ _ _ Hs Ed) as [E [_ [Ecid _]]].
    rewrite (cid_is_content_id s' (inv_hwf _ Hs') Hc' _ _ Ec'), (cid_is_content_id s (inv_hwf _ Hs) Hc _ _ Ec).
    split; auto.
    rewrite (reify_st_unfold _ _ _ (inv_hwf _ Hs') Ec'), (reify_st_unfold _ _ _ (inv_hwf _ Hs) Ec), !strip_node in E.
    injection E as E1 E2 E3 _. auto.
  Qed.
End Coherence.
