(* C18 round 2: a successful constructor preserves Inv2 (all three flags), under the guards of attach. *)
From Oak Require Import Spec.LegacySpec Spec.LegacySpec2 Proofs.LegacyProofs Proofs.LegacyInv Proofs.LegacyHeap
  Proofs.LegacyAttach Proofs.LegacyAttach2 Proofs.LegacyAttach3 Proofs.LegacyConstruct.
From Coq Require Import List String Ascii ZArith Bool Arith Lia.
Import ListNotations.

(* ---------- _attach_inner only writes parent slots and the registry, whatever its outcome ---------- *)
Definition res_state {A} (r : res A) (s : st) : st :=
  match r with Ok s1 _ => s1 | Er s1 _ => s1 | Div => s end.

Lemma attach_loop_pframe rec b :
  (forall s k s0, pframe s0 s -> pframe s0 (res_state (rec s k) s0)) ->
  forall ks s s0, pframe s0 s -> pframe s0 (res_state (attach_loop rec b s ks) s0).
Proof.
  intros Hrec. induction ks as [|[[k fn] i] r IH]; intros s s0 P0; simpl; [exact P0|].
  destruct (detached s k).
  - assert (Hk := Hrec s k s0 P0). destruct (rec s k) as [s1 [c|]|s1 e|]; simpl in *; try assumption.
    apply IH. eapply pframe_trans; [exact Hk | apply pframe_set_parent].
  - destruct (negb (is_attached_root s k)); simpl; [exact P0|].
    apply IH. eapply pframe_trans; [exact P0 | apply pframe_set_parent].
Qed.
Lemma attach_inner_pframe : forall fuel s a s0, pframe s0 s -> pframe s0 (res_state (attach_inner fuel s a) s0).
Proof.
  induction fuel; intros s a s0 P0; simpl; [apply pframe_refl|].
  destruct (reg_get s (id_of s a)); simpl; [exact P0|].
  assert (Hl := attach_loop_pframe (attach_inner fuel) a (fun s k => IHfuel s k) (skids_wf s a) s s0 P0).
  destruct (attach_loop (attach_inner fuel) a s (skids_wf s a)) as [s1 [c|]|s1 e|]; simpl in *; try assumption.
Qed.
Lemma attach_pframe s a : pframe s (res_state (attach_ s a) s).
Proof.
  unfold attach_. assert (Hp := attach_inner_pframe (fuel_of s) s a s (pframe_refl s)).
  destruct (attach_inner (fuel_of s) s a) as [s1 [c|]|s1 e|]; simpl in *; assumption.
Qed.

(* ---------- same skeleton: child fields and ids ---------- *)
Definition skel_eq (s s' : st) : Prop :=
  forall b, c_fs (cellD s' b) = c_fs (cellD s b) /\ id_of s' b = id_of s b.
Lemma skel_sym s s' : skel_eq s s' -> skel_eq s' s.
Proof. intros Hs b. destruct (Hs b). split; congruence. Qed.
Lemma skel_trans s1 s2 s3 : skel_eq s1 s2 -> skel_eq s2 s3 -> skel_eq s1 s3.
Proof. intros A B b. destruct (A b), (B b). split; congruence. Qed.
Lemma skel_pframe s s' : pframe s s' -> skel_eq s s'.
Proof. intros PF b. split; [apply (pf_fs _ _ PF) | apply (pf_id _ _ PF)]. Qed.
Lemma skel_cframe s s' : cframe s s' -> skel_eq s s'.
Proof. intros CF b. split; [apply (cf_fs _ _ CF) | apply (cf_id _ _ CF)]. Qed.
Lemma skel_skids s s' b : skel_eq s s' -> skids s' b = skids s b.
Proof. intros Hs. unfold skids, kids, kids_wf. rewrite (proj1 (Hs b)). reflexivity. Qed.
Lemma skel_reach s s' a d : skel_eq s s' -> reach s a d -> reach s' a d.
Proof.
  intros Hs. induction 1; [apply reach_refl|]. eapply reach_step; [|eassumption].
  rewrite (skel_skids _ _ _ Hs). assumption.
Qed.
Lemma tree_shaped_skel s s' a : skel_eq s s' -> tree_shaped s a -> tree_shaped s' a.
Proof.
  intros Hs HT d Hd. assert (Hs' := skel_sym _ _ Hs).
  apply (skel_reach _ _ _ _ Hs') in Hd. destruct (HT d Hd) as [Hn Hx].
  rewrite (skel_skids _ _ _ Hs). split; [exact Hn|].
  intros k1 k2 x H1 H2 Hne R1 R2. apply (Hx k1 k2 x H1 H2 Hne); eapply skel_reach; eassumption.
Qed.
Lemma ids_apart_skel P s s' a : skel_eq s s' -> ids_apart P s a -> ids_apart P s' a.
Proof.
  intros Hs HI d d' R1 R2 Hne Hp. assert (Hs' := skel_sym _ _ Hs).
  rewrite (proj2 (Hs d)), (proj2 (Hs d')). apply HI; try assumption; eapply skel_reach; eassumption.
Qed.

(* ---------- _get_next_unique_id returns an unregistered id ---------- *)
Lemma next_unique_from_fresh d : forall fuel cur k s n,
  next_unique_from d cur k fuel s = Some n -> reg_get s n = None.
Proof.
  induction fuel; intros cur k s n E; simpl in E.
  - destruct (reg_get s cur) eqn:Ec; [discriminate | inversion E; subst; exact Ec].
  - destruct (reg_get s cur) eqn:Ec; [eapply IHfuel; exact E | inversion E; subst; exact Ec].
Qed.

(* ---------- more about push ---------- *)
Lemma push_detached_new s c : RegOk s -> detached (push s c) (List.length (heap s)) = true.
Proof.
  intros HR. unfold detached.
  change (reg_get (push s c) (id_of (push s c) (List.length (heap s)))) with (reg_get s (id_of (push s c) (List.length (heap s)))).
  destruct (reg_get s (id_of (push s c) (List.length (heap s)))) as [x|] eqn:E; [|reflexivity].
  apply HR in E. destruct E as [Hl _]. unfold live in Hl. apply negb_true_iff. apply Nat.eqb_neq. lia.
Qed.
Lemma push_detached_old s c b : b <> List.length (heap s) -> detached (push s c) b = detached s b.
Proof. intros Hb. unfold detached, id_of. rewrite (cellD_push_ne s c b Hb). reflexivity. Qed.

Section Construct.
  Variable H : pystr -> pystr.
  Variable ct : ctable.

  Lemma cid_ok_push s c x : Rank s -> live s x -> cid_ok H ct s x -> cid_ok H ct (push s c) x.
  Proof.
    intros HK Hl E. unfold cid_ok, live in *. rewrite cellD_push_ne by lia. rewrite E. symmetry.
    apply tree_cid_reach_local.
    - exact HK.
    - intros y Hy. apply (reach_live _ _ _ HK Hl) in Hy. unfold live in Hy. rewrite cellD_push_ne by lia. split; reflexivity.
    - unfold fuel_of. rewrite heap_len_push. lia.
    - unfold fuel_of. lia.
  Qed.

  (* the cell the constructor leaves in the heap before attaching *)
  Definition fresh_cell cls org fs (idarg : option pystr) (new_id : pystr) (oid coll : option pystr) : cell :=
    with_xp None (with_parent None None None (with_ids new_id oid coll (init_cell cls org fs idarg))).

  Lemma construct_ok s cls org fs idarg eu ad cd s' r :
    construct H ct s cls org fs idarg eu ad cd = Ok s' r ->
    r = List.length (heap s) /\
    exists new_id oid coll,
      let s1 := push s (fresh_cell cls org fs idarg new_id oid coll) in
      (cd = true /\ s' = set_cid H ct s1 r) \/
      (cd = false /\ exists s2 u, attach_ s1 r = Ok s2 u /\ s' = set_cid H ct s2 r).
  Proof.
    intros E. unfold construct in E. cbv zeta in E.
    fold (init_cell cls org fs idarg) in E. fold (push s (init_cell cls org fs idarg)) in E.
    match type of E with context [has_dup_id ?s0 [] ?k] => destruct (has_dup_id s0 [] k) end; [discriminate|].
    destruct cd.
    - cbv beta iota in E. rewrite upd_push in E. inversion E; subst. split; [reflexivity|].
      do 3 eexists. left. split; reflexivity.
    - cbv beta iota in E.
      match type of E with context [reg_get ?s0 ?b] => destruct (reg_get s0 b) eqn:Eb end.
      + destruct (negb eu || ad); [|discriminate].
        match type of E with context [next_unique ?b ?s0] => destruct (next_unique b s0) eqn:En end; [|discriminate].
        cbv beta iota in E. rewrite upd_push in E.
        match type of E with context [attach_ ?s1 ?a] => destruct (attach_ s1 a) as [s2 u|s2 e2|] eqn:Ea end;
          try discriminate.
        inversion E; subst. split; [reflexivity|]. do 3 eexists. right. split; [reflexivity|].
        exists s2, u. split; [exact Ea | reflexivity].
      + cbv beta iota in E. rewrite upd_push in E.
        match type of E with context [attach_ ?s1 ?a] => destruct (attach_ s1 a) as [s2 u|s2 e2|] eqn:Ea end;
          try discriminate.
        inversion E; subst. split; [reflexivity|]. do 3 eexists. right. split; [reflexivity|].
        exists s2, u. split; [exact Ea | reflexivity].
  Qed.

  Lemma push_then_frames s c1 s2 s' :
    pframe (push s c1) s2 -> cframe s2 s' ->
    List.length (heap s') = S (List.length (heap s)) /\
    (forall b, live s b -> c_fs (cellD s' b) = c_fs (cellD s b)) /\
    c_fs (cellD s' (List.length (heap s))) = c_fs c1.
  Proof.
    intros PF CF. split; [|split].
    - rewrite (proj1 (proj2 CF)), (pf_len _ _ PF). apply heap_len_push.
    - intros b Hl. unfold live in Hl. rewrite (cf_fs _ _ CF), (pf_fs _ _ PF), cellD_push_ne by lia. reflexivity.
    - rewrite (cf_fs _ _ CF), (pf_fs _ _ PF), cellD_push_eq. reflexivity.
  Qed.

  Theorem construct_full s cls org fs idarg eu ad cd s' r :
    Inv2 H ct s -> kids_live s fs ->
    construct H ct s cls org fs idarg eu ad cd = Ok s' r ->
    (cd = false -> new_guard H ct s s' r) ->
    Inv2 H ct s' /\ r = List.length (heap s) /\
    List.length (heap s') = S (List.length (heap s)) /\
    (forall b, live s b -> c_fs (cellD s' b) = c_fs (cellD s b)) /\
    c_fs (cellD s' r) = fs /\
    (forall b, live s b -> attached s b -> attached s' b) /\
    (cd = false -> attached s' r).
  Proof.
    intros HI Hkl E HG.
    destruct (construct_ok _ _ _ _ _ _ _ _ _ _ E) as [-> [new_id [oid [coll Hcase]]]].
    set (n := List.length (heap s)) in *.
    set (c1 := fresh_cell cls org fs idarg new_id oid coll) in *.
    set (s1 := push s c1) in *. cbv zeta in Hcase.
    assert (HI1 : Inv2 H ct s1).
    { apply inv2_push; [exact HI | reflexivity | intros k Hk; apply Hkl; exact Hk]. }
    assert (HR0 : RegOk s) by (destruct HI as [A _]; exact A).
    assert (HK0 : Rank s) by (destruct HI as [_ [A _]]; exact A).
    assert (Hdn : detached s1 n = true) by (apply push_detached_new; exact HR0).
    assert (Hln : live s1 n) by (unfold live, s1; rewrite heap_len_push; unfold n; lia).
    assert (Hatt1 : forall b, live s b -> attached s b -> attached s1 b).
    { intros b Hl Ha. unfold attached, s1. rewrite push_detached_old; [exact Ha | unfold live in Hl; lia]. }
    apply Inv2_split in HI1. destruct HI1 as [HS1 HC1].
    assert (HK1 : Rank s1) by (destruct HS1 as [_ [A _]]; exact A).
    destruct Hcase as [[-> ->]|[-> [s2 [u [Ea ->]]]]].
    - (* create_detached *)
      assert (CF : cframe s1 (set_cid H ct s1 n)) by apply cframe_upd.
      destruct (push_then_frames s c1 s1 _ (pframe_refl _) CF) as [F1 [F2 F3]].
      split; [|split; [reflexivity | split; [exact F1 | split; [exact F2 | split; [exact F3 | split]]]]].
      + apply Inv2_split. split; [apply (sinv_cframe _ _ CF); exact HS1|].
        intros x Hl Ha. apply (cf_live _ _ CF) in Hl. unfold attached in Ha. rewrite (cf_detached _ _ CF) in Ha.
        apply cid_ok_set_cid_ne; [intros ->; congruence | apply HC1; assumption].
      + intros b Hl Ha. unfold attached. rewrite (cf_detached _ _ CF). apply Hatt1; assumption.
      + discriminate.
    - (* attached *)
      destruct (HG eq_refl) as [GT [GI GC]].
      assert (PF := attach_pframe s1 n). rewrite Ea in PF. simpl in PF.
      assert (CF : cframe s2 (set_cid H ct s2 n)) by apply cframe_upd.
      destruct (push_then_frames s c1 s2 _ PF CF) as [F1 [F2 F3]].
      assert (SK : skel_eq (set_cid H ct s2 n) s1).
      { apply skel_sym. eapply skel_trans; [apply skel_pframe; exact PF | apply skel_cframe; exact CF]. }
      assert (GT1 : tree_shaped s1 n) by (eapply tree_shaped_skel; eassumption).
      assert (GI1 : ids_apart (fun x => detached s1 x = true) s1 n).
      { intros d d' R1 R2 Hne Hd'.
        assert (Hlt : d' < n).
        { assert (A := reach_live _ _ _ HK1 Hln (reach_trans _ _ _ _ R1 R2)). unfold live, s1 in A.
          rewrite heap_len_push in A. fold n in A.
          assert (d' <> n); [|lia]. intros ->. apply Hne. eapply reach_antisym; eassumption. }
        assert (GI' := ids_apart_skel _ _ _ _ SK GI). apply GI'; try assumption.
        cbv beta. rewrite <- (push_detached_old s c1 d') by (fold n; lia). exact Hd'. }
      assert (GC1 : forall x, reach s1 n x -> x <> n -> detached s1 x = true -> cid_ok H ct s1 x).
      { intros x Hr Hne Hd.
        assert (Hlt : x < n).
        { assert (A := reach_live _ _ _ HK1 Hln Hr). unfold live, s1 in A. rewrite heap_len_push in A. fold n in A. lia. }
        apply cid_ok_push; [exact HK0 | exact Hlt|]. apply GC; [|exact Hne|].
        - eapply skel_reach; [apply skel_sym; exact SK | exact Hr].
        - rewrite <- (push_detached_old s c1 x) by (fold n; lia). exact Hd. }
      unfold attach_ in Ea.
      destruct (attach_inner (fuel_of s1) s1 n) as [s2' [c|]|s2' e2|] eqn:Ei; try discriminate.
      inversion Ea; subst s2'. clear Ea.
      destruct (sinv_attach_inner _ _ _ _ HS1 Hln GT1 GI1 Ei) as [HS2 [_ [Han [Hback Hfwd]]]].
      assert (HK2 : Rank s2) by (destruct HS2 as [_ [A _]]; exact A).
      assert (HC2 : forall x, live s2 x -> attached s2 x -> x <> n -> cid_ok H ct s2 x).
      { intros x Hl Ha Hne. apply (cid_ok_pframe H ct _ _ _ PF). destruct (Hback x Ha) as [Hx|[Hr Hd]].
        - apply HC1; [apply (pf_live _ _ PF); exact Hl | exact Hx].
        - apply GC1; assumption. }
      split; [|split; [reflexivity | split; [exact F1 | split; [exact F2 | split; [exact F3 | split]]]]].
      + apply Inv2_split. split; [apply (sinv_cframe _ _ CF); exact HS2|].
        intros x Hl Ha. apply (cf_live _ _ CF) in Hl. unfold attached in Ha. rewrite (cf_detached _ _ CF) in Ha.
        destruct (Nat.eq_dec x n) as [->|Hne].
        * apply cid_ok_set_cid; [exact HK2 | exact Hl|].
          intros k Hk. destruct HS2 as [HR2 [_ [_ HL2]]]. destruct (HL2 n Hl Ha) as [Hc _].
          apply in_skids in Hk. destruct Hk as [f [i Hk]]. destruct (Hc k f i Hk) as [Hka _].
          assert (Hkk : In k (skids s2 n)) by (apply in_skids; eauto).
          apply HC2; [eapply rank_kid_live; eassumption | exact Hka |].
          eapply reach_kid_ne; [exact HK2 | exact Hkk | apply reach_refl].
        * apply cid_ok_set_cid_ne; [exact Hne | apply HC2; assumption].
      + intros b Hl Ha. unfold attached. rewrite (cf_detached _ _ CF). apply Hfwd. apply Hatt1; assumption.
      + intros _. unfold attached. rewrite (cf_detached _ _ CF). exact Han.
  Qed.

  Theorem inv2_construct s cls org fs idarg eu ad cd s' r :
    Inv2 H ct s -> kids_live s fs ->
    construct H ct s cls org fs idarg eu ad cd = Ok s' r ->
    (cd = false -> new_guard H ct s s' r) ->
    Inv2 H ct s'.
  Proof. intros A B C D. exact (proj1 (construct_full _ _ _ _ _ _ _ _ _ _ A B C D)). Qed.

  (* the rejected constructor (duplicate children / id collision): the state only gains the dead cell *)
  Lemma inv2_push_new s cls org fs idarg :
    Inv2 H ct s -> kids_live s fs -> Inv2 H ct (push_new s cls org fs idarg).
  Proof.
    intros HI Hkl. apply (inv2_push H ct s (init_cell cls org fs idarg)); [exact HI | reflexivity|].
    intros k Hk. apply Hkl. exact Hk.
  Qed.
End Construct.
