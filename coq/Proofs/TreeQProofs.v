(* Proofs for C06: paths vs pre-order, the tables of Tree.__init__, every query against the path. *)
From Oak Require Import Spec.PathSem Proofs.TraverseProofs.
From Coq Require Import Lia.

Ltac inv H := inversion H; subst; clear H.

Definition P (n : node) : list tinfo := pre no_prune all_pos n.
Definition key (ti : tinfo) : nat := addr (ti_node ti).

Lemma P_unfold n : P n = flat_map (fun ti => ti :: P (ti_node ti)) (direct_infos n).
Proof. unfold P. rewrite pre_unfold. reflexivity. Qed.

Lemma direct_parent n ti : In ti (direct_infos n) -> ti_parent ti = n.
Proof.
  unfold direct_infos. rewrite in_flat_map. intros (k & _ & H).
  apply in_map_iff in H as (ci & <- & _). reflexivity.
Qed.

Lemma size_le_work ti l : In ti l -> size (ti_node ti) <= work l.
Proof.
  induction l as [|a l IH]; simpl; [tauto|]. unfold work. simpl. fold (work l).
  intros [->|H]; [lia|]. apply IH in H. lia.
Qed.
Lemma direct_size n ti : In ti (direct_infos n) -> size (ti_node ti) < size n.
Proof.
  intros H. apply size_le_work in H. pose proof (work_direct n). pose proof (size_pos n). lia.
Qed.

(* ---------- paths ---------- *)
Lemma path_nil_inv n x : path n [] x -> x = n.
Proof. intro H; inv H; auto. Qed.
Lemma path_app n l1 y : path n l1 y -> forall l2 x, path y l2 x -> path n (l1 ++ l2) x.
Proof. induction 1; simpl; auto. intros. econstructor; eauto. Qed.
Lemma path_snoc n l p ti : path n l p -> In ti (direct_infos p) -> path n (l ++ [ti]) (ti_node ti).
Proof. intros. eapply path_app; eauto. econstructor; eauto. constructor. Qed.
Lemma path_app_inv l1 : forall n l2 x, path n (l1 ++ l2) x -> exists y, path n l1 y /\ path y l2 x.
Proof.
  induction l1 as [|ti l1 IH]; simpl; intros n l2 x H.
  - exists n. split; [constructor|auto].
  - inv H. apply IH in H5 as (y & H1 & H2). exists y. split; auto. econstructor; eauto.
Qed.
Lemma path_snoc_inv n l ti x : path n (l ++ [ti]) x ->
  path n l (ti_parent ti) /\ In ti (direct_infos (ti_parent ti)) /\ x = ti_node ti.
Proof.
  intros H. apply path_app_inv in H as (y & H1 & H2). inv H2. apply path_nil_inv in H6. subst.
  rewrite (direct_parent _ _ H4). auto.
Qed.
Lemma path_size n l x : path n l x -> length l + size x <= size n.
Proof. induction 1; simpl; [lia|]. apply direct_size in H. lia. Qed.
Lemma path_self n l : path n l n -> l = [].
Proof. intros H. apply path_size in H. destruct l; auto. simpl in H. lia. Qed.

Lemma in_P_of_path n l p : path n l p -> forall ti, In ti (direct_infos p) -> In ti (P n).
Proof.
  induction 1; intros t Ht; rewrite P_unfold; apply in_flat_map.
  - exists t. split; simpl; auto.
  - exists ti. split; simpl; auto.
Qed.
Lemma path_of_in_P : forall k n, size n <= k -> forall ti, In ti (P n) ->
  exists l, path n l (ti_parent ti) /\ In ti (direct_infos (ti_parent ti)).
Proof.
  induction k as [|k IH]; intros n Hk ti Hin.
  - pose proof (size_pos n). lia.
  - rewrite P_unfold in Hin. apply in_flat_map in Hin as (t1 & H1 & [->|Hin]).
    + exists []. rewrite (direct_parent _ _ H1). split; [constructor|auto].
    + apply IH in Hin as (l & Hp & Hd).
      * exists (t1 :: l). split; auto. econstructor; eauto.
      * apply direct_size in H1. lia.
Qed.
Lemma in_P_iff n ti : In ti (P n) <-> exists l, path n l (ti_parent ti) /\ In ti (direct_infos (ti_parent ti)).
Proof.
  split.
  - apply (path_of_in_P (size n)). lia.
  - intros (l & Hp & Hd). eapply in_P_of_path; eauto.
Qed.
Lemma path_last_in_P n l ti x : path n (l ++ [ti]) x -> In ti (P n) /\ x = ti_node ti.
Proof. intros H. apply path_snoc_inv in H as (H1 & H2 & ->). split; auto. eapply in_P_of_path; eauto. Qed.

(* ---------- no node object twice ---------- *)
Definition nodup_tree (n : node) : Prop := NoDup (map addr (n :: map ti_node (P n))).

Lemma nodup_map_inj {A B} (f : A -> B) l a b : NoDup (map f l) -> In a l -> In b l -> f a = f b -> a = b.
Proof.
  induction l as [|x l IH]; simpl; [tauto|]. intros Hn Ha Hb E. inv Hn.
  destruct Ha as [->|Ha], Hb as [->|Hb]; auto.
  - exfalso. apply H1. rewrite E. now apply in_map.
  - exfalso. apply H1. rewrite <- E. now apply in_map.
Qed.

Section Unique.
  Variable rt : node.
  Hypothesis ND : nodup_tree rt.

  Lemma nd_keys : NoDup (map key (P rt)).
  Proof. unfold nodup_tree in ND. simpl in ND. inv ND. now rewrite map_map in H2. Qed.
  Lemma nd_root ti : In ti (P rt) -> key ti <> addr rt.
  Proof.
    unfold nodup_tree in ND. simpl in ND. inv ND. intros Hin E. apply H1. rewrite <- E, map_map.
    now apply (in_map key).
  Qed.

  Lemma path_unique : forall l1 x1 l2 x2, path rt l1 x1 -> path rt l2 x2 -> addr x1 = addr x2 -> l1 = l2 /\ x1 = x2.
  Proof.
    intros l1. induction l1 as [|t1 l1 IH] using rev_ind; intros x1 l2 x2 H1 H2 E.
    - apply path_nil_inv in H1. subst. destruct l2 as [|t2 l2] using rev_ind.
      + apply path_nil_inv in H2. auto.
      + apply path_last_in_P in H2 as (Hin & ->). exfalso. apply (nd_root _ Hin). auto.
    - pose proof H1 as H1'. apply path_last_in_P in H1' as (Hin1 & ->).
      destruct l2 as [|t2 l2 _] using rev_ind.
      + apply path_nil_inv in H2. subst. exfalso. apply (nd_root _ Hin1). auto.
      + pose proof H2 as H2'. apply path_last_in_P in H2' as (Hin2 & ->).
        assert (t1 = t2) by (eapply (nodup_map_inj key); eauto using nd_keys). subst t2.
        apply path_snoc_inv in H1 as (P1 & _ & _). apply path_snoc_inv in H2 as (P2 & _ & _).
        destruct (IH _ _ _ P1 P2 eq_refl) as (-> & _). auto.
  Qed.
End Unique.

Lemma nodup_app_inv {A} (a b : list A) : NoDup (a ++ b) -> NoDup a /\ NoDup b /\ (forall x, In x a -> In x b -> False).
Proof.
  induction a as [|x a IH]; simpl; intros H.
  - repeat split; auto. constructor.
  - inv H. apply IH in H3 as (Ha & Hb & Hd). repeat split; auto.
    + constructor; auto. intro Hin. apply H2. apply in_or_app; auto.
    + intros y [<-|Hy] Hyb; [apply H2; apply in_or_app; auto|eauto].
Qed.

(* ---------- dicts ---------- *)
Lemma dget_app_some {V} k (d d' : list (nat * V)) v : dget k d = Some v -> dget k (d ++ d') = Some v.
Proof. induction d as [|[k' v'] d IH]; simpl; [discriminate|]. destruct (Nat.eqb k' k); auto. Qed.
Lemma dget_app_none {V} k (d d' : list (nat * V)) : dget k d = None -> dget k (d ++ d') = dget k d'.
Proof. induction d as [|[k' v'] d IH]; simpl; auto. destruct (Nat.eqb k' k); [discriminate|auto]. Qed.
Lemma dset_fresh {V} k (v : V) d : dget k d = None -> dset k v d = d ++ [(k, v)].
Proof.
  induction d as [|[k' v'] d IH]; simpl; auto. destruct (Nat.eqb k' k); [discriminate|].
  intros H. now rewrite IH.
Qed.
Lemma dget_none_iff {V} k (d : list (nat * V)) : dget k d = None <-> ~ In k (map fst d).
Proof.
  induction d as [|[k' v'] d IH]; simpl; [tauto|]. destruct (Nat.eqb_spec k' k).
  - split; [discriminate|]. intros H; exfalso; auto.
  - rewrite IH. tauto.
Qed.
Lemma dget_in {V} k (d : list (nat * V)) v : dget k d = Some v -> In (k, v) d.
Proof.
  induction d as [|[k' v'] d IH]; simpl; [discriminate|]. destruct (Nat.eqb_spec k' k).
  - intros [= ->]. subst. auto.
  - auto.
Qed.
Lemma dget_nodup {V} (d : list (nat * V)) k v : NoDup (map fst d) -> In (k, v) d -> dget k d = Some v.
Proof.
  induction d as [|[k' v'] d IH]; simpl; [tauto|]. intros Hn [[= -> ->]|Hin].
  - now rewrite Nat.eqb_refl.
  - inv Hn. destruct (Nat.eqb_spec k' k); auto. subst. exfalso. apply H1.
    change k with (fst (k, v)). now apply in_map.
Qed.

(* ---------- the two tables ---------- *)
Definition kp (ti : tinfo) : nat * tinfo := (key ti, ti).
Definition pstep (pi : list (nat * tinfo)) (ti : tinfo) := dset (key ti) ti pi.
Definition xstep (acc : option (list (nat * pystr))) (ti : tinfo) : option (list (nat * pystr)) :=
  match acc with
  | None => None
  | Some xp => match dget (addr (ti_parent ti)) xp with
               | None => None
               | Some p => Some (dset (key ti) (p ++ xp_seg ti) xp)
               end
  end.

Lemma xstep_none L : fold_left xstep L None = None.
Proof. induction L; simpl; auto. Qed.
Lemma tree_step_none L : fold_left tree_step L None = None.
Proof. induction L; simpl; auto. Qed.
Lemma tree_step_split L : forall pi xp,
  fold_left tree_step L (Some (pi, xp)) =
  match fold_left xstep L (Some xp) with
  | None => None
  | Some xp' => Some (fold_left pstep L pi, xp')
  end.
Proof.
  induction L as [|ti L IH]; intros pi xp; simpl; auto.
  unfold key. destruct (dget (addr (ti_parent ti)) xp).
  - apply IH.
  - now rewrite tree_step_none, xstep_none.
Qed.

Lemma pstep_fresh L : forall pi, NoDup (map key L) -> (forall ti, In ti L -> dget (key ti) pi = None) ->
  fold_left pstep L pi = pi ++ map kp L.
Proof.
  induction L as [|ti L IH]; intros pi Hn Hf; simpl; [now rewrite app_nil_r|].
  inv Hn. unfold pstep at 2. rewrite dset_fresh by (apply Hf; simpl; auto).
  rewrite IH; auto.
  - now rewrite <- app_assoc.
  - intros t Ht. rewrite dget_app_none by (apply Hf; simpl; auto). simpl.
    destruct (Nat.eqb_spec (key ti) (key t)); auto. exfalso. apply H1. rewrite e. now apply in_map.
Qed.

Lemma xstep_cons ti L xp p : dget (addr (ti_parent ti)) xp = Some p ->
  fold_left xstep (ti :: L) (Some xp) = fold_left xstep L (@Some (list (nat * pystr)) (@dset pystr (key ti) (p ++ xp_seg ti) xp)).
Proof. intros H. simpl. now rewrite H. Qed.

Lemma xpath_of_snoc root l ti : xpath_of root (l ++ [ti]) = xpath_of root l ++ xp_seg ti.
Proof. unfold xpath_of. rewrite map_app, concat_app. simpl. now rewrite app_nil_r, app_assoc. Qed.

Section Tables.
  Variable root : node.

  Definition good (k : nat) (v : pystr) : Prop := exists l y, path root l y /\ addr y = k /\ v = xpath_of root l.
  Definition fresh_in (L : list tinfo) (xp : list (nat * pystr)) : Prop := forall ti, In ti L -> dget (key ti) xp = None.

  Lemma xstep_P : forall k n, size n <= k -> forall l xp,
    path root l n -> dget (addr n) xp = Some (xpath_of root l) -> fresh_in (P n) xp -> NoDup (map key (P n)) ->
    exists xp', fold_left xstep (P n) (Some xp) = Some (xp ++ xp') /\ map fst xp' = map key (P n)
                /\ (forall a v, In (a, v) xp' -> good a v).
  Proof.
    induction k as [|k IH]; intros n Hk l xp Hp Hs Hf Hn.
    { pose proof (size_pos n). lia. }
    rewrite P_unfold in *.
    assert (G : forall tis, (forall ti, In ti tis -> In ti (direct_infos n)) -> forall xp,
              dget (addr n) xp = Some (xpath_of root l) ->
              fresh_in (flat_map (fun ti => ti :: P (ti_node ti)) tis) xp ->
              NoDup (map key (flat_map (fun ti => ti :: P (ti_node ti)) tis)) ->
              exists xp', fold_left xstep (flat_map (fun ti => ti :: P (ti_node ti)) tis) (Some xp) = Some (xp ++ xp')
                          /\ map fst xp' = map key (flat_map (fun ti => ti :: P (ti_node ti)) tis)
                          /\ (forall a v, In (a, v) xp' -> good a v)).
    { clear xp Hs Hf Hn. induction tis as [|t tis IHt]; intros Hsub xp Hs Hf Hn.
      - exists []. simpl. rewrite app_nil_r. repeat split; auto. intros a v [].
      - cbn [flat_map app] in *.
        assert (Ht : In t (direct_infos n)) by (apply Hsub; simpl; auto).
        rewrite (xstep_cons t _ xp (xpath_of root l)) by (now rewrite (direct_parent _ _ Ht)).
        rewrite fold_left_app.
        rewrite dset_fresh by (apply Hf; simpl; auto).
        cbn [map] in Hn. rewrite map_app in Hn. inversion Hn as [|? ? Hnotin Hn']; subst. clear Hn.
        apply nodup_app_inv in Hn' as (Hn1 & Hn2 & Hdis).
        assert (Hsz : size (ti_node t) <= k) by (apply direct_size in Ht; lia).
        pose proof (IH (ti_node t) Hsz (l ++ [t])) as IHc.
        match goal with |- context [fold_left xstep (P (ti_node t)) (Some ?X)] =>
          destruct (IHc X) as (xp1 & E1 & K1 & G1) end.
        + eapply path_snoc; eauto.
        + rewrite dget_app_none by (apply Hf; simpl; auto). simpl. unfold key. rewrite Nat.eqb_refl.
          now rewrite xpath_of_snoc.
        + intros ti Hti. rewrite dget_app_none by (apply Hf; simpl; right; apply in_or_app; auto). simpl.
          destruct (Nat.eqb_spec (key t) (key ti)); auto. exfalso. apply Hnotin. rewrite e.
          apply in_or_app. left. now apply in_map.
        + exact Hn1.
        + rewrite E1.
          match goal with |- context [fold_left xstep (flat_map _ tis) (Some ?X)] =>
            destruct (IHt) with (xp := X) as (xp2 & E2 & K2 & G2) end.
          * intros ti Hti. apply Hsub. simpl; auto.
          * apply dget_app_some. apply dget_app_some. exact Hs.
          * intros ti Hti.
            assert (Hfr : dget (key ti) xp = None) by (apply Hf; simpl; right; apply in_or_app; auto).
            rewrite dget_app_none.
            -- apply dget_none_iff. rewrite K1. intro Hin.
               eapply Hdis; [exact Hin|]. now apply in_map.
            -- rewrite dget_app_none by auto. simpl.
               destruct (Nat.eqb_spec (key t) (key ti)); auto. exfalso. apply Hnotin. rewrite e.
               apply in_or_app. right. now apply in_map.
          * exact Hn2.
          * rewrite E2. eexists (_ :: xp1 ++ xp2). repeat split.
            -- f_equal. rewrite <- !app_assoc. reflexivity.
            -- simpl. rewrite !map_app, K1, K2. reflexivity.
            -- intros a v Hin. simpl in Hin. destruct Hin as [[= <- <-]|Hin].
               ++ exists (l ++ [t]), (ti_node t). repeat split; auto.
                  ** eapply path_snoc; eauto.
                  ** now rewrite xpath_of_snoc.
               ++ apply in_app_or in Hin as [Hin|Hin]; auto. }
    apply G; auto.
  Qed.
End Tables.

Lemma plast_nil : plast [] = None. Proof. reflexivity. Qed.
Lemma plast_snoc l ti : plast (l ++ [ti]) = Some ti.
Proof. unfold plast. now rewrite rev_app_distr. Qed.
Lemma ups_nil : ups [] = []. Proof. reflexivity. Qed.
Lemma ups_snoc l ti : ups (l ++ [ti]) = ti_parent ti :: ups l.
Proof. unfold ups. now rewrite rev_app_distr. Qed.

Section Queries.
  Variables (ct : ctable) (root : node).
  Hypothesis W : wf_node ct root = true.
  Hypothesis ND : nodup_tree root.

  (* what Tree(root) holds *)
  Definition is_tree (t : ptree) : Prop :=
    t_root t = root /\ t_pinfo t = map kp (P root) /\ map fst (t_xpath t) = addr root :: map key (P root)
    /\ (forall a v, In (a, v) (t_xpath t) -> good root a v).

  Lemma build_ok : exists t, tree_build ct root = Some t /\ is_tree t.
  Proof.
    unfold tree_build. rewrite (dfs_pre ct no_prune all_pos root W). fold (P root).
    rewrite tree_step_split.
    destruct (xstep_P root (size root) root (le_n _) [] [(addr root, root_xpath root)]) as (xp' & E & K & G).
    - constructor.
    - simpl. rewrite Nat.eqb_refl. unfold xpath_of. simpl. now rewrite app_nil_r.
    - intros ti Hti. simpl. destruct (Nat.eqb_spec (addr root) (key ti)); auto.
      exfalso. eapply nd_root; eauto.
    - now apply nd_keys.
    - rewrite E. eexists. split; [reflexivity|]. unfold is_tree. simpl. repeat split.
      + rewrite pstep_fresh; auto. now apply nd_keys.
      + now rewrite K.
      + intros a v [[= <- <-]|Hin]; auto.
        exists [], root. repeat split; [constructor|]. unfold xpath_of. simpl. now rewrite app_nil_r.
  Qed.

  Variable t : ptree.
  Hypothesis T : is_tree t.

  Lemma t_root_eq : t_root t = root. Proof. apply T. Qed.

  Lemma pinfo_lookup ti : In ti (P root) -> dget (key ti) (t_pinfo t) = Some ti.
  Proof.
    intros Hin. destruct T as (_ & -> & _). apply dget_nodup.
    - rewrite map_map. simpl. now apply nd_keys.
    - change (key ti, ti) with (kp ti). now apply in_map.
  Qed.

  Lemma not_root l ti x : path root (l ++ [ti]) x -> same x root = false.
  Proof.
    intros H. apply path_last_in_P in H as (Hin & ->). unfold same. apply Nat.eqb_neq. now apply nd_root.
  Qed.

  Theorem parent_info_path l x : path root l x -> get_parent_info t x = Ok (plast l).
  Proof.
    intros H. unfold get_parent_info. rewrite t_root_eq. destruct l as [|ti l _] using rev_ind.
    - apply path_nil_inv in H. subst. unfold same. now rewrite Nat.eqb_refl.
    - rewrite (not_root _ _ _ H), plast_snoc. apply path_last_in_P in H as (Hin & ->).
      fold (key ti). now rewrite pinfo_lookup.
  Qed.
  Theorem parent_path l x : path root l x -> get_parent t x = Ok (option_map ti_parent (plast l)).
  Proof.
    intros H. unfold get_parent. rewrite t_root_eq. destruct l as [|ti l _] using rev_ind.
    - apply path_nil_inv in H. subst. unfold same. now rewrite Nat.eqb_refl.
    - rewrite (not_root _ _ _ H), plast_snoc. apply path_last_in_P in H as (Hin & ->).
      fold (key ti). now rewrite pinfo_lookup.
  Qed.

  Lemma member_iff a : In a (addr root :: map key (P root)) <-> exists l y, path root l y /\ addr y = a.
  Proof.
    split.
    - intros [<-|Hin].
      + exists [], root. split; [constructor|auto].
      + apply in_map_iff in Hin as (ti & <- & Hin). apply in_P_iff in Hin as (l & Hp & Hd).
        exists (l ++ [ti]), (ti_node ti). split; auto. eapply path_snoc; eauto.
    - intros (l & y & Hp & <-). destruct l as [|ti l _] using rev_ind.
      + apply path_nil_inv in Hp. subst. simpl; auto.
      + apply path_last_in_P in Hp as (Hin & ->). right. now apply (in_map key).
  Qed.

  Theorem in_tree_iff x : is_in_tree t x = true <-> exists l y, path root l y /\ addr y = addr x.
  Proof.
    rewrite <- member_iff. destruct T as (_ & _ & <- & _). unfold is_in_tree, dmem.
    destruct (dget (addr x) (t_xpath t)) eqn:E.
    - split; auto. intros _. apply dget_in in E. change (addr x) with (fst (addr x, p)). now apply in_map.
    - split; [discriminate|]. intro Hin. now apply dget_none_iff in E.
  Qed.

  Theorem xpath_path l x : path root l x -> get_xpath t x = Ok (xpath_of root l).
  Proof.
    intros H. unfold get_xpath. destruct (dget (addr x) (t_xpath t)) eqn:E.
    - apply dget_in in E. destruct T as (_ & _ & _ & G). apply G in E as (l' & y & Hp & Ea & ->).
      destruct (path_unique root ND _ _ _ _ Hp H Ea) as (-> & _). reflexivity.
    - exfalso. apply dget_none_iff in E. apply E. destruct T as (_ & _ & -> & _).
      apply member_iff. eauto.
  Qed.

  Theorem is_root_iff x : is_root t x = true <-> addr x = addr root.
  Proof. unfold is_root, same. rewrite t_root_eq, Nat.eqb_eq. split; auto. Qed.

  (* ---------- the ancestor generator ---------- *)
  Lemma anc_loop_path : forall l p fuel, path root l p -> length l < fuel ->
    anc_loop fuel t (Some p) = Some (p :: ups l, false).
  Proof.
    induction l as [|ti l IH] using rev_ind; intros p fuel H Hf.
    - destruct fuel; [lia|]. simpl. rewrite (parent_path _ _ H). simpl. destruct fuel; reflexivity.
    - destruct fuel; [lia|]. cbn [anc_loop]. rewrite (parent_path _ _ H), plast_snoc. cbn [option_map].
      apply path_snoc_inv in H as (Hp & _ & _). rewrite (IH _ fuel Hp), ups_snoc; auto.
      rewrite app_length in Hf. simpl in Hf. lia.
  Qed.
  Theorem ancestors_gen_path l x : path root l x -> ancestors_gen t x = Some (ups l, false).
  Proof.
    intros H. unfold ancestors_gen. rewrite (parent_path _ _ H), t_root_eq.
    destruct l as [|ti l _] using rev_ind; [simpl; destruct (size root); reflexivity|].
    rewrite plast_snoc. cbn [option_map]. pose proof (path_size _ _ _ H) as Hs.
    apply path_snoc_inv in H as (Hp & _ & ->). rewrite (anc_loop_path _ _ _ Hp), ups_snoc; auto.
    rewrite app_length in Hs. simpl in Hs. pose proof (size_pos (ti_node ti)). lia.
  Qed.

  Theorem ancestors_path l x : path root l x -> get_ancestors t x = Some (Ok (ups l)).
  Proof. intros H. unfold get_ancestors. now rewrite (ancestors_gen_path _ _ H). Qed.
  Theorem is_ancestor_path l x a : path root l x -> is_ancestor t x a = Some (Ok (existsb (same a) (ups l))).
  Proof. intros H. unfold is_ancestor. rewrite (ancestors_gen_path _ _ H). now destruct (existsb _ _). Qed.
  Theorem first_ancestor_path l x cs ex : path root l x ->
    get_first_ancestor_of_type ct t x cs ex = Some (Ok (List.find (class_test ct cs ex) (ups l))).
  Proof. intros H. unfold get_first_ancestor_of_type. rewrite (ancestors_gen_path _ _ H). now destruct (List.find _ _). Qed.

  (* ---------- depth ---------- *)
  Lemma depth_abs_loop : forall l x fuel chk, path root l x -> length l < fuel ->
    get_depth fuel t x None chk = Some (Ok (length l)).
  Proof.
    induction l as [|ti l IH] using rev_ind; intros x fuel chk H Hf; (destruct fuel; [lia|]); cbn [get_depth].
    - rewrite (parent_path _ _ H). reflexivity.
    - rewrite (parent_path _ _ H), plast_snoc. cbn [option_map].
      apply path_snoc_inv in H as (Hp & _ & _). rewrite app_length in *. simpl in *.
      rewrite (IH _ fuel false Hp) by lia. reflexivity.
  Qed.
  Theorem depth_abs l x chk : path root l x -> depth t x None chk = Some (Ok (length l)).
  Proof.
    intros H. unfold depth. apply depth_abs_loop; auto. rewrite t_root_eq.
    apply path_size in H. lia.
  Qed.

  Lemma ups_app l1 l2 : ups (l1 ++ l2) = ups l2 ++ ups l1.
  Proof. unfold ups. now rewrite rev_app_distr, map_app. Qed.
  Lemma ups_has_start r l2 x : path r l2 x -> l2 <> [] -> In r (ups l2).
  Proof.
    intros H Hn. destruct l2 as [|ti l2]; [congruence|]. inv H. unfold ups. simpl. rewrite map_app.
    apply in_or_app. right. simpl. left. eapply direct_parent; eauto.
  Qed.

  Section Rel.
    Variables (l1 : list tinfo) (r : node).
    Hypothesis Hr : path root l1 r.

    Lemma is_anc_true l2 x : path r l2 x -> l2 <> [] -> is_ancestor t x r = Some (Ok true).
    Proof.
      intros H Hn. rewrite (is_ancestor_path (l1 ++ l2) x r) by (eapply path_app; eauto).
      do 2 f_equal. apply existsb_exists. exists r. split.
      - rewrite ups_app. apply in_or_app. left. eapply ups_has_start; eauto.
      - unfold same. apply Nat.eqb_refl.
    Qed.

    Lemma depth_rel_loop : forall l2 x fuel chk, path r l2 x -> l2 <> [] -> length l2 < fuel ->
      get_depth fuel t x (Some r) chk = Some (Ok (length l2)).
    Proof.
      induction l2 as [|ti l2 IH] using rev_ind; intros x fuel chk H Hn Hf; [congruence|].
      destruct fuel; [lia|]. cbn [get_depth].
      assert (G : match chk with true => is_ancestor t x r | false => Some (Ok true) end = Some (Ok true))
        by (destruct chk; auto; eapply is_anc_true; eauto).
      replace (if chk then is_ancestor t x r else Some (Ok true)) with (Some (@Ok bool true)).
      assert (Hx : path root ((l1 ++ l2) ++ [ti]) x) by (rewrite <- app_assoc; eapply path_app; eauto).
      rewrite (parent_path _ _ Hx), plast_snoc. cbn [option_map].
      apply path_snoc_inv in H as (Hp & _ & _).
      destruct l2 as [|t2 l2' ] eqn:El2.
      - apply path_nil_inv in Hp. rewrite Hp. unfold same. rewrite Nat.eqb_refl. reflexivity.
      - rewrite <- El2 in *.
        assert (Hs : same (ti_parent ti) r = false).
        { unfold same. apply Nat.eqb_neq. intro E.
          assert (Hq : path root (l1 ++ l2) (ti_parent ti)) by (eapply path_app; eauto).
          destruct (path_unique root ND _ _ _ _ Hq Hr E) as (E2 & _).
          rewrite <- (app_nil_r l1) in E2 at 2. apply app_inv_head in E2. subst l2. discriminate. }
        rewrite Hs. rewrite app_length in *. simpl in *.
        rewrite (IH _ fuel false Hp) by (subst l2; try discriminate; lia). reflexivity.
    Qed.
    Theorem depth_rel l2 x chk : path r l2 x -> l2 <> [] -> depth t x (Some r) chk = Some (Ok (length l2)).
    Proof.
      intros H Hn. unfold depth. apply depth_rel_loop; auto. rewrite t_root_eq.
      assert (Hx : path root (l1 ++ l2) x) by (eapply path_app; eauto).
      apply path_size in Hx. rewrite app_length in Hx. lia.
    Qed.
  End Rel.

  Theorem depth_nonancestor l x r : path root l x -> existsb (same r) (ups l) = false ->
    depth t x (Some r) true = Some ValueError.
  Proof.
    intros H E. unfold depth. cbn [get_depth]. rewrite (is_ancestor_path _ _ r H), E. reflexivity.
  Qed.

  (* ---------- a node that is not in the tree ---------- *)
  Definition foreign (x : node) : Prop := forall l y, path root l y -> addr y <> addr x.

  Theorem foreign_keyerror x cs ex rel chk : foreign x ->
    is_in_tree t x = false /\ is_root t x = false /\ get_xpath t x = KeyError /\ get_parent t x = KeyError
    /\ get_parent_info t x = KeyError /\ get_ancestors t x = Some KeyError /\ is_ancestor t x rel = Some KeyError
    /\ get_first_ancestor_of_type ct t x cs ex = Some KeyError /\ depth t x None chk = Some KeyError
    /\ depth t x (Some rel) chk = Some KeyError.
  Proof.
    intros F.
    assert (Hin : is_in_tree t x = false).
    { destruct (is_in_tree t x) eqn:E; auto. apply in_tree_iff in E as (l & y & Hp & Ea). exfalso. eapply F; eauto. }
    assert (Hroot : same x root = false).
    { unfold same. apply Nat.eqb_neq. intro E. apply (F [] root); auto. constructor. }
    assert (Hpi : dget (addr x) (t_pinfo t) = None).
    { destruct T as (_ & -> & _). apply dget_none_iff. rewrite map_map. simpl. intro Hi.
      apply in_map_iff in Hi as (ti & E & Hi). apply in_P_iff in Hi as (l & Hp & Hd).
      apply (F (l ++ [ti]) (ti_node ti)); auto. eapply path_snoc; eauto. }
    assert (Hgp : get_parent t x = KeyError) by (unfold get_parent; now rewrite t_root_eq, Hroot, Hpi).
    assert (Hag : ancestors_gen t x = Some ([], true)) by (unfold ancestors_gen; now rewrite Hgp).
    assert (Hia : is_ancestor t x rel = Some KeyError) by (unfold is_ancestor; now rewrite Hag).
    repeat split; auto.
    - unfold is_root, same. rewrite t_root_eq. unfold same in Hroot. now rewrite Nat.eqb_sym.
    - unfold get_xpath. unfold is_in_tree, dmem in Hin. destruct (dget (addr x) (t_xpath t)); [discriminate|auto].
    - unfold get_parent_info. now rewrite t_root_eq, Hroot, Hpi.
    - unfold get_ancestors. now rewrite Hag.
    - unfold get_first_ancestor_of_type. now rewrite Hag.
    - unfold depth. cbn [get_depth]. now rewrite Hgp.
    - unfold depth. cbn [get_depth]. destruct chk; [now rewrite Hia|now rewrite Hgp].
  Qed.
End Queries.

Lemma path_functional root l : forall x1 x2, path root l x1 -> path root l x2 -> x1 = x2.
Proof.
  intros x1 x2 H1. revert x2. induction H1; intros x2 H2.
  - apply path_nil_inv in H2. auto.
  - inv H2. auto.
Qed.

(* the example tree of Model/TreeQ.v satisfies the premises *)
Lemma nodup_of_nodupb (l : list nat) :
  (fix nd (l : list nat) : bool := match l with [] => true | a :: r => negb (existsb (Nat.eqb a) r) && nd r end) l = true
  -> NoDup l.
Proof.
  induction l as [|a l IH]; intros H; constructor.
  - apply andb_prop in H as [H _]. intro Hin. apply negb_true_iff in H.
    assert (existsb (Nat.eqb a) l = true) by (apply existsb_exists; exists a; split; auto; apply Nat.eqb_refl).
    congruence.
  - apply IH. now apply andb_prop in H as [_ H].
Qed.
Lemma foreign_by_addr root x : ~ In (addr x) (addr root :: map key (P root)) -> foreign root x.
Proof.
  intros Hn l y Hp E. apply Hn. rewrite <- E. destruct l as [|ti l _] using rev_ind.
  - apply path_nil_inv in Hp. subst. simpl; auto.
  - apply path_last_in_P in Hp as (Hin & ->). right. now apply (in_map key).
Qed.
Lemma premises_inhabited :
  wf_node ex_ct ex_root = true /\ nodup_tree ex_root /\
  path ex_root [ {| ti_node := ex_p 2 (ex_leaf 3 "L") []; ti_parent := ex_root; ti_field := lit "child"; ti_index := None |};
                 {| ti_node := ex_leaf 3 "L"; ti_parent := ex_p 2 (ex_leaf 3 "L") []; ti_field := lit "child"; ti_index := None |} ]
       (ex_leaf 3 "L") /\
  foreign ex_root (ex_leaf 9 "L").
Proof.
  split; [vm_compute; reflexivity|]. split; [apply nodup_of_nodupb; vm_compute; reflexivity|]. split.
  - econstructor; [vm_compute; auto|]. econstructor; [vm_compute; auto|]. constructor.
  - apply foreign_by_addr. vm_compute. intuition congruence.
Qed.
