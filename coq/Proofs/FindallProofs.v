(* Proofs for C07, part 3: the work-list loop of findall below the synthetic root computes, for every element prefix,
   exactly the nodes whose chain satisfies R; results carry no node object twice. *)
From Oak Require Import Spec.PathSem Proofs.TraverseProofs Proofs.TreeQProofs Proofs.XpathProofs.
From Coq Require Import Lia.

Lemma addr_le_max n : addr n <= max_addr n.
Proof. destruct n; simpl; lia. Qed.
Lemma list_max_in x l : In x l -> x <= list_max l.
Proof.
  intros H. pose proof (proj1 (list_max_le l (list_max l)) (le_n _)) as F.
  rewrite Forall_forall in F. now apply F.
Qed.
Lemma direct_max n ti : In ti (direct_infos n) -> max_addr (ti_node ti) <= max_addr n.
Proof.
  intros H. apply direct_infos_nodes_in in H as (k & Hk & Hx). destruct n as [a c o ps ks]. simpl in *.
  assert (max_addr (ti_node ti) <= list_max (map max_addr (snd (snd k)))) by (apply list_max_in; now apply in_map).
  assert (list_max (map max_addr (snd (snd k))) <= list_max (map (fun k => list_max (map max_addr (snd (snd k)))) ks)).
  { apply list_max_in. apply in_map_iff. exists k. auto. }
  lia.
Qed.
Lemma path_max n l x : path n l x -> max_addr x <= max_addr n.
Proof. induction 1; auto. apply direct_max in H. lia. Qed.

Lemma nodup_map_on {A B} (f : A -> B) l : (forall a b, In a l -> In b l -> f a = f b -> a = b) -> NoDup l -> NoDup (map f l).
Proof.
  induction l as [|x l IH]; intros Hi Hn; simpl; constructor; inv Hn.
  - intro Hin. apply in_map_iff in Hin as (y & E & Hy). assert (y = x) by (apply Hi; simpl; auto). subst. auto.
  - apply IH; auto. intros a b Ha Hb. apply Hi; simpl; auto.
Qed.

Lemma opt_eqb_refl {A} (eqb : A -> A -> bool) (o : option A) : (forall x, eqb x x = true) -> opt_eqb eqb o o = true.
Proof. destruct o; simpl; auto. Qed.
Lemma winfo_eqb_refl c : winfo_eqb c c = true.
Proof.
  unfold winfo_eqb, same. rewrite Nat.eqb_refl. simpl.
  rewrite !opt_eqb_refl; auto using Nat.eqb_refl, pystr_eqb_refl.
Qed.

Section Ins.
  Variables (ct : ctable) (e : element).
  Definition ins (nw : list winfo) (c : winfo) : list winfo := if w_match ct c e then oset_add c nw else nw.

  Lemma oset_add_old c nw x : In x nw -> In x (oset_add c nw).
  Proof. unfold oset_add. destruct (existsb _ _); auto. intro. apply in_or_app; auto. Qed.
  Lemma ins_old cs : forall nw x, In x nw -> In x (fold_left ins cs nw).
  Proof.
    induction cs as [|c cs IH]; simpl; auto. intros nw x H. apply IH. unfold ins.
    destruct (w_match ct c e); auto. now apply oset_add_old.
  Qed.
  Lemma ins_inv cs : forall nw x, In x (fold_left ins cs nw) -> In x nw \/ (In x cs /\ w_match ct x e = true).
  Proof.
    induction cs as [|c cs IH]; simpl; auto. intros nw x H. apply IH in H as [H|[H1 H2]]; auto.
    unfold ins in H. destruct (w_match ct c e) eqn:Em; auto. unfold oset_add in H.
    destruct (existsb _ _); auto. apply in_app_or in H as [H|[<-|[]]]; auto.
  Qed.
  Lemma ins_new cs : forall nw x,
    (forall a b, In a (nw ++ cs) -> In b (nw ++ cs) -> winfo_eqb a b = true -> a = b) ->
    In x cs -> w_match ct x e = true -> In x (fold_left ins cs nw).
  Proof.
    induction cs as [|c cs IH]; simpl; [tauto|]. intros nw x Hv [->|Hin] Hm.
    - apply ins_old. unfold ins. rewrite Hm. unfold oset_add. destruct (existsb _ _) eqn:Ex.
      + apply existsb_exists in Ex as (y & Hy & Ey). assert (x = y).
        { apply Hv; auto; apply in_or_app; simpl; auto. }
        subst. auto.
      + apply in_or_app. simpl; auto.
    - apply IH; auto. intros a b Ha Hb. apply Hv.
      + apply in_app_or in Ha as [Ha|Ha]; [|apply in_or_app; simpl; auto].
        unfold ins in Ha. destruct (w_match ct c e); [|apply in_or_app; auto].
        unfold oset_add in Ha. destruct (existsb _ _); [apply in_or_app; auto|].
        apply in_app_or in Ha as [Ha|[<-|[]]]; apply in_or_app; simpl; auto.
      + apply in_app_or in Hb as [Hb|Hb]; [|apply in_or_app; simpl; auto].
        unfold ins in Hb. destruct (w_match ct c e); [|apply in_or_app; auto].
        unfold oset_add in Hb. destruct (existsb _ _); [apply in_or_app; auto|].
        apply in_app_or in Hb as [Hb|[<-|[]]]; apply in_or_app; simpl; auto.
  Qed.
  Lemma ins_nodup cs : forall nw, NoDup nw -> NoDup (fold_left ins cs nw).
  Proof.
    induction cs as [|c cs IH]; simpl; auto. intros nw Hn. apply IH. unfold ins.
    destruct (w_match ct c e); auto. unfold oset_add. destruct (existsb _ _) eqn:Ex; auto.
    apply nodup_app_single; auto. intro Hin.
    assert (existsb (winfo_eqb c) nw = true) by (apply existsb_exists; exists c; split; auto; apply winfo_eqb_refl).
    congruence.
  Qed.
End Ins.

Section Findall.
  Variables (ct : ctable) (root : node).
  Hypothesis W : wf_node ct root = true.
  Hypothesis ND : nodup_tree root.
  Let D := mk_dummy root.
  Let di := dummy_info D root.

  Lemma direct_D : direct_infos D = [di].
  Proof. reflexivity. Qed.
  Lemma P_D : P D = di :: P root.
  Proof. rewrite P_unfold, direct_D. simpl. now rewrite app_nil_r. Qed.
  Lemma tree_addr_lt l x : path root l x -> addr x < addr D.
  Proof. intros H. apply path_max in H. pose proof (addr_le_max x). simpl. lia. Qed.
  Lemma dpath_inv L y : path D L y -> (L = [] /\ y = D) \/ exists l, L = di :: l /\ path root l y.
  Proof.
    intros H. inv H; auto. right. rewrite direct_D in H0. destruct H0 as [<-|[]]. eauto.
  Qed.
  Lemma dpath_of l y : path root l y -> path D (di :: l) y.
  Proof. intros H. econstructor; eauto. rewrite direct_D. simpl; auto. Qed.
  Lemma ND_D : nodup_tree D.
  Proof.
    unfold nodup_tree. rewrite P_D. cbn [map]. constructor; [|exact ND].
    intros [E|Hin].
    - pose proof (tree_addr_lt [] root (path_nil root)). simpl in *. lia.
    - rewrite map_map in Hin. apply in_map_iff in Hin as (ti & E & Hin). apply in_P_iff in Hin as (l & Hp & Hd).
      pose proof (tree_addr_lt _ _ (path_snoc _ _ _ _ Hp Hd)). simpl in *. lia.
  Qed.
  Lemma wf_path n l x : wf_node ct n = true -> path n l x -> wf_node ct x = true.
  Proof. intros Hw H. induction H; auto. apply IHpath. eapply wf_direct; eauto. Qed.

  Lemma child_in_tree L y ti : path D L y -> In ti (direct_infos y) -> exists l, path root l (ti_node ti).
  Proof.
    intros H Hd. pose proof (path_snoc _ _ _ _ H Hd) as H2. apply dpath_inv in H2 as [[E _]|(l & E & Hp)].
    - destruct L; discriminate.
    - eauto.
  Qed.
  Lemma children_ok L y : path D L y -> w_children ct D root y = direct_infos y.
  Proof.
    intros H. unfold w_children. apply dpath_inv in H as [[_ ->]|(l & _ & Hp)].
    - unfold same. now rewrite Nat.eqb_refl.
    - pose proof (tree_addr_lt _ _ Hp). unfold same. destruct (Nat.eqb_spec (addr y) (addr D)); [lia|].
      apply infos_direct. eapply wf_path; eauto.
  Qed.
  Lemma dfs_ok L y : path D L y -> w_dfs ct D root y = Some (P y).
  Proof.
    intros H. unfold w_dfs. rewrite (children_ok _ _ H). rewrite dfs_td_spec.
    - simpl. unfold P. now rewrite pre_unfold.
    - intros ti Hti. destruct (child_in_tree _ _ _ H Hti) as (l & Hp). eapply wf_path; eauto.
    - pose proof (work_direct y). apply path_size in H. simpl in H. lia.
  Qed.

  Definition wdummy : winfo := {| w_node := D; w_parent := None; w_field := None; w_index := None |}.
  Definition wi (L : list tinfo) : winfo := match plast L with None => wdummy | Some ti => to_winfo D ti end.
  Definition wpos (w : winfo) : pos := (w_node w, w_field w, w_index w).
  Definition dpos (ti : tinfo) : pos := wpos (to_winfo D ti).

  Lemma to_winfo_node ti : w_node (to_winfo D ti) = ti_node ti.
  Proof. unfold to_winfo. now destruct (same _ _). Qed.
  Lemma wi_node L y : path D L y -> w_node (wi L) = y.
  Proof.
    intros H. unfold wi. destruct L as [|ti L _] using rev_ind.
    - apply path_nil_inv in H. now subst.
    - rewrite plast_snoc, to_winfo_node. now apply path_snoc_inv in H as (_ & _ & ->).
  Qed.
  Lemma w_match_sat c e : w_match ct c e = sat ct (wpos c) e.
  Proof. reflexivity. Qed.

  (* valid work items are determined by the node object *)
  Definition valid (c : winfo) : Prop := exists L y, path D L y /\ c = wi L.
  Lemma valid_eq a b : valid a -> valid b -> addr (w_node a) = addr (w_node b) -> a = b.
  Proof.
    intros (L1 & y1 & H1 & ->) (L2 & y2 & H2 & ->) E.
    rewrite (wi_node _ _ H1), (wi_node _ _ H2) in E.
    destruct (path_unique D ND_D _ _ _ _ H1 H2 E) as (-> & _). reflexivity.
  Qed.
  Lemma valid_eqb a b : valid a -> valid b -> winfo_eqb a b = true -> a = b.
  Proof.
    intros Ha Hb E. apply valid_eq; auto. unfold winfo_eqb in E.
    apply andb_prop in E as [E _]. apply andb_prop in E as [E _]. apply andb_prop in E as [E _].
    now apply Nat.eqb_eq in E.
  Qed.

  Definition Inv (es : list element) (Wk : list winfo) : Prop :=
    forall c, In c Wk <-> exists L y, path D L y /\ c = wi L /\ R ct es (map dpos L).

  Definition cf (e : element) (w : winfo) : list tinfo :=
    if e_any e then P (w_node w) else direct_infos (w_node w).

  Lemma cands_ok e Wk : (forall c, In c Wk -> valid c) ->
    forall w, In w Wk -> fa_cands ct D root e w = Some (cf e w).
  Proof.
    intros V w Hw. destruct (V w Hw) as (L & y & H & ->). unfold fa_cands, cf. rewrite (wi_node _ _ H).
    destruct (e_any e); [now apply (dfs_ok L)|]. f_equal. now apply (children_ok L).
  Qed.

  Lemma fa_insert_eq e cs : forall nw, fa_insert ct D e cs nw = fold_left (ins ct e) (map (to_winfo D) cs) nw.
  Proof. unfold fa_insert. induction cs as [|c cs IH]; simpl; auto. Qed.

  Lemma fa_step_eq e Wk : (forall w, In w Wk -> fa_cands ct D root e w = Some (cf e w)) ->
    fa_step ct D root Wk e = Some (fold_left (ins ct e) (flat_map (fun w => map (to_winfo D) (cf e w)) Wk) []).
  Proof.
    unfold fa_step. generalize (@nil winfo) as acc. induction Wk as [|w Wk IH]; intros acc Hc; simpl; auto.
    rewrite (Hc w) by (simpl; auto). rewrite fa_insert_eq, fold_left_app. apply IH.
    intros w' Hw'. apply Hc. simpl; auto.
  Qed.

  (* candidates below a valid work item are valid *)
  Lemma cand_valid e w ti : valid w -> In ti (cf e w) ->
    exists L1 y1 L2, path D L1 y1 /\ w = wi L1 /\ path y1 L2 (ti_parent ti) /\ In ti (direct_infos (ti_parent ti))
                     /\ (e_any e = false -> L2 = []).
  Proof.
    intros (L1 & y1 & H1 & ->) Hti. unfold cf in Hti. rewrite (wi_node _ _ H1) in Hti.
    exists L1, y1. destruct (e_any e).
    - apply in_P_iff in Hti as (L2 & H2 & Hd). exists L2. repeat split; auto. discriminate.
    - exists []. rewrite (direct_parent _ _ Hti). repeat split; auto. constructor.
  Qed.

  Lemma step_inv es e Wk : Inv es Wk ->
    exists Wk', fa_step ct D root Wk e = Some Wk' /\ Inv (es ++ [e]) Wk' /\ (NoDup Wk -> NoDup Wk').
  Proof.
    intros I.
    assert (V : forall c, In c Wk -> valid c).
    { intros c Hc. apply I in Hc as (L & y & H & -> & _). exists L, y. auto. }
    rewrite (fa_step_eq e Wk (cands_ok e Wk V)). eexists. split; [reflexivity|]. split.
    2:{ intros _. apply ins_nodup. constructor. }
    set (CS := flat_map (fun w => map (to_winfo D) (cf e w)) Wk).
    assert (VC : forall c, In c CS -> exists L' ti y, c = to_winfo D ti /\ path D (L' ++ [ti]) y /\
                 exists L1 L2, L' = L1 ++ L2 /\ In (wi L1) Wk /\ (e_any e = false -> L2 = [])).
    { intros c Hc. unfold CS in Hc. apply in_flat_map in Hc as (w & Hw & Hc).
      apply in_map_iff in Hc as (ti & <- & Hti).
      destruct (cand_valid e w ti (V w Hw) Hti) as (L1 & y1 & L2 & H1 & -> & H2 & Hd & Hany).
      exists (L1 ++ L2), ti, (ti_node ti). repeat split.
      - eapply path_snoc; eauto. eapply path_app; eauto.
      - exists L1, L2. auto. }
    assert (VV : forall c, In c CS -> valid c).
    { intros c Hc. destruct (VC c Hc) as (L' & ti & y & -> & Hp & _). exists (L' ++ [ti]), y. split; auto.
      unfold wi. now rewrite plast_snoc. }
    intros c. split.
    - intros Hc. apply ins_inv in Hc as [[]|[Hc Hm]].
      destruct (VC c Hc) as (L' & ti & y & -> & Hp & L1 & L2 & -> & HW & Hany).
      exists ((L1 ++ L2) ++ [ti]), y. repeat split; auto.
      + unfold wi. now rewrite plast_snoc.
      + rewrite map_app. simpl. apply R_snoc_any. split; [exact Hm|].
        exists (map dpos L1), (map dpos L2). rewrite map_app. repeat split.
        * destruct (e_any e); auto. right. now rewrite Hany.
        * apply I in HW as (L0 & y0 & H0 & E0 & R0).
          assert (L0 = L1).
          { apply path_app_inv in Hp as (y1 & Hp1 & _). apply path_app_inv in Hp1 as (y2 & Hp2 & _).
            assert (Ew : wi L1 = wi L0) by auto.
            pose proof (f_equal (fun w => addr (w_node w)) Ew) as Ea. simpl in Ea.
            rewrite (wi_node _ _ Hp2), (wi_node _ _ H0) in Ea.
            now destruct (path_unique D ND_D _ _ _ _ H0 Hp2 (eq_sym Ea)). }
          now subst.
    - intros (L & y & Hp & -> & HR).
      destruct L as [|ti L' _] using rev_ind.
      { simpl in HR. destruct es; simpl in HR; inv HR. }
      rewrite map_app in HR. simpl in HR. apply R_snoc_any in HR as (Hm & ps1 & ps2 & E & Hany & HR).
      apply map_eq_app in E as (L1 & L2 & -> & <- & <-).
      rewrite <- app_assoc in Hp. pose proof Hp as Hp'.
      apply path_app_inv in Hp' as (y1 & Hp1 & Hp2).
      assert (HW : In (wi L1) Wk) by (apply I; eauto).
      assert (Hc : In (to_winfo D ti) CS).
      { unfold CS. apply in_flat_map. exists (wi L1). split; auto. apply in_map. unfold cf.
        rewrite (wi_node _ _ Hp1). apply path_snoc_inv in Hp2 as (Hq & Hd & _). destruct (e_any e).
        - apply in_P_iff. eauto.
        - destruct Hany as [|Hany]; [discriminate|]. destruct L2; [|discriminate].
          apply path_nil_inv in Hq. now rewrite Hq in Hd. }
      unfold wi. rewrite plast_snoc. apply ins_new; auto.
      intros a b Ha Hb. simpl in Ha, Hb. apply valid_eqb; auto.
  Qed.

  Lemma loop_inv : forall els es Wk, Inv es Wk -> NoDup Wk ->
    exists Wk', fold_left (fun wk e => match wk with None => None | Some w => fa_step ct D root w e end) els (Some Wk)
                = Some Wk' /\ Inv (es ++ els) Wk' /\ NoDup Wk'.
  Proof.
    induction els as [|e els IH]; intros es Wk I Hn; simpl.
    - exists Wk. rewrite app_nil_r. auto.
    - destruct (step_inv es e Wk I) as (Wk1 & -> & I1 & N1).
      destruct (IH (es ++ [e]) Wk1 I1 (N1 Hn)) as (Wk' & E & I' & N'). exists Wk'.
      rewrite <- app_assoc in I'. auto.
  Qed.

  Lemma inv_start : Inv [] [wdummy].
  Proof.
    intros c. split.
    - intros [<-|[]]. exists [], D. repeat split; constructor.
    - intros (L & y & H & -> & HR). destruct L; [simpl; auto|inv HR].
  Qed.

  Lemma dpos_tree n l y : path n l y -> (exists l0, path root l0 n) -> map dpos l = map ipos l.
  Proof.
    intros H. induction H; intros (l0 & Hr0); simpl; auto. f_equal.
    - unfold dpos, to_winfo, ipos, wpos. rewrite (direct_parent _ _ H).
      assert (Hn : same n D = false); [|now rewrite Hn].
      unfold same. apply Nat.eqb_neq. pose proof (tree_addr_lt _ _ Hr0). lia.
    - apply IHpath. exists (l0 ++ [ti]). eapply path_snoc; eauto.
  Qed.

  Lemma dpos_di : dpos di = rpos root.
  Proof. unfold dpos, to_winfo, di, dummy_info, same. cbn [ti_parent]. rewrite Nat.eqb_refl. reflexivity. Qed.

  Theorem findall_ok els : els <> [] ->
    exists res, findall ct root els = Some res
      /\ (forall x, In x res <-> exists l, path root l x /\ R ct els (chain root l))
      /\ NoDup (map addr res).
  Proof.
    intros Hne. unfold findall. destruct els as [|e0 els0] eqn:Eels; [congruence|]. rewrite <- Eels in *. clear Eels e0 els0.
    unfold fa_work. fold D. fold wdummy.
    destruct (loop_inv els [] [wdummy] inv_start) as (Wk & -> & I & N).
    { constructor; [simpl; tauto|constructor]. }
    simpl in I. eexists. split; [reflexivity|]. split.
    - intros x. rewrite in_map_iff. split.
      + intros (c & <- & Hc). apply I in Hc as (L & y & Hp & -> & HR). rewrite (wi_node _ _ Hp).
        apply dpath_inv in Hp as [[-> _]|(l & -> & Hp)].
        * simpl in HR. destruct els; [congruence|inv HR].
        * exists l. split; auto. simpl in HR. rewrite (dpos_tree _ _ _ Hp), dpos_di in HR by (exists []; constructor).
          exact HR.
      + intros (l & Hp & HR). exists (wi (di :: l)). split.
        * apply wi_node. now apply dpath_of.
        * apply I. exists (di :: l), x. repeat split; [now apply dpath_of|].
          simpl. rewrite (dpos_tree _ _ _ Hp), dpos_di by (exists []; constructor). exact HR.
    - rewrite map_map. apply nodup_map_on; auto. intros a b Ha Hb E.
      apply I in Ha as (La & ya & Hpa & -> & _). apply I in Hb as (Lb & yb & Hpb & -> & _).
      apply valid_eq; auto; eexists _, _; eauto.
  Qed.
End Findall.

Theorem findall_sem ct root els : wf_node ct root = true -> nodup_tree root -> els <> [] ->
  exists res, findall ct root els = Some res /\ (forall x, In x res <-> sem ct els root x) /\ NoDup (map addr res).
Proof. intros W ND Hne. exact (findall_ok ct root W ND els Hne). Qed.

Theorem findall_match ct root els : wf_node ct root = true -> nodup_tree root -> els <> [] ->
  exists res, findall ct root els = Some res /\ NoDup (map addr res) /\
    forall l x, path root l x -> (In x res <-> xmatch ct root els x = Some (Ok true)).
Proof.
  intros W ND Hne. destruct (findall_ok ct root W ND els Hne) as (res & E & Hin & Hn).
  exists res. repeat split; auto.
  - intros Hx. apply Hin in Hx as (l' & Hp' & HR).
    destruct (path_unique root ND _ _ _ _ Hp' H eq_refl) as (-> & _).
    destruct (xmatch_sem ct root els l x W ND Hne H) as (b & -> & Hb). do 2 f_equal. now apply Hb.
  - intros Hm. destruct (xmatch_sem ct root els l x W ND Hne H) as (b & E2 & Hb).
    rewrite E2 in Hm. injection Hm as ->. apply Hin. exists l. split; auto. now apply Hb.
Qed.
