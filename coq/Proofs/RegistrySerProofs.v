(* The registry effect of as_obj.  Since the third round AsDict / AsObj are operations of `step` (Model/Registry.v) and the
   lemmas the step proofs need live in Proofs/RegistryProofs.v (section "as_dict / as_obj": force_inv, deser_inv,
   deser_spec, deser_never_evicts, deser_no_fuel, ser_total, deser_hpre).  This file re-exports them and adds the
   corollaries about membership, the step `x = Cls.as_obj(d)`, and the witnesses of the pre-repair behaviour.
   For every H, every validation. *)
From Oak Require Import Model.RegistrySer.
From Oak Require Export Proofs.RegistryProofs.
From Oak Require Import Proofs.RegistryReach.

Section DeserCor.
  Variable H : pystr -> pystr.
  Variable ct : ctable.
  Variable late : st -> nat -> bool.

  (* the step "x = Cls.as_obj(d)" followed by the collection that ends every step (either variant) *)
  Corollary deser_step_inv fx fuel s v dst : RInv s ->
    match deser H ct late fx fuel s v with
    | DOk s' a => RInv (gc (set_var s' dst (Some a)))
    | DLate s' => RInv (gc s')
    | DFuel => True
    end.
  Proof.
    intros [Hs _]. pose proof (deser_inv H ct late fx fuel s v Hs) as M. destruct (deser H ct late fx fuel s v) as [s' a|s'|]; auto.
    - destruct M as [Hs' [_ Ha]]. apply gc_inv. apply set_var_inv; auto. intros a0 [= <-]. auto.
    - apply gc_inv. apply M.
  Qed.

  (* C10: the code in /repo changes the registry membership of NO node that existed before the call: an existing node is
     found under an id afterwards exactly when it was found under it before *)
  Theorem deser_membership fuel s v s' : Inv0 s ->
    (deser H ct late true fuel s v = DLate s' \/ exists a, deser H ct late true fuel s v = DOk s' a) ->
    forall j b, b < length (heap s) -> (get_any s' j = Some b <-> get_any s j = Some b).
  Proof.
    intros Hs Hr j b Hb. pose proof (deser_spec H ct late s Hs fuel s v (DP_refl s Hs)) as M.
    assert (Hd : DP s s') by (destruct Hr as [E|[a E]]; rewrite E in M; apply M).
    unfold get_any. split; intro E.
    - apply lookup_in in E. destruct (dp_sup _ _ Hd _ E) as [Hin|Hge]; [|simpl in Hge; lia].
      apply in_lookup; auto. apply (I_fun _ Hs).
    - apply lookup_in in E. apply (dp_sub _ _ Hd) in E. apply in_lookup; auto. apply (I_fun _ (dp_inv _ _ Hd)).
  Qed.

  Lemma gc_lookup s2 j b : NoDup (keys (reg s2)) -> In (j, b) (reg s2) -> reachable s2 b = true ->
    get_any (gc s2) j = Some b.
  Proof.
    intros Hn Hin Hr. unfold get_any. apply in_lookup; [now apply filter_keys_nodup|].
    simpl. apply filter_In. split; auto.
  Qed.

  (* as a step: whatever the call does (the very same objects come back, a part is rebuilt, the serialized id is forced
     or not, a class rejects a node half-way), a node that was found under its id before and is still referenced after
     is found under that id after *)
  Theorem asobj_step_never_evicts s slot dst s' r : RInv s -> step H ct late true s (AsObj slot dst) = (s', r) ->
    forall j b, get_any s j = Some b -> reachable s' b = true -> get_any s' j = Some b.
  Proof.
    intros [Hs Hreach]. unfold step. pose proof (step_raw_inv H ct late s (AsObj slot dst) Hs) as Hi.
    destruct (step_raw H ct late true s (AsObj slot dst)) as [s2 r2] eqn:Er. intros [= <- <-] j b E Hr.
    simpl in Hi. apply gc_lookup; [apply (J_fun _ Hi)| |exact Hr].
    apply lookup_in in E. revert Er. simpl.
    destruct (negb _); [intros [= <- _]; auto|]. destruct (slot_get slot (slots s)) as [v|]; [|intros [= <- _]; auto].
    pose proof (deser_spec H ct late s Hs (S (sdepth v)) s v (DP_refl s Hs)) as M. unfold asobj.
    destruct (deser H ct late true (S (sdepth v)) s v) as [t a|t|]; simpl; intros [= <- _]; auto.
    - simpl. apply (dp_sub _ _ (proj1 M)). exact E.
    - apply (dp_sub _ _ (proj1 M)). exact E.
  Qed.
End DeserCor.

(* ================= what the code did BEFORE the repair when the serialized id is taken over DURING the reading ===== *)
(* digest with collisions (one character); x = A(1) is detached, p = B((x,)) is then built and - its digest colliding
   with x's - is given x's id; d = p.as_dict(); everything is dropped; p2 = B.as_obj(d): the child is re-created
   under the shared id, then the parent's fresh id differs from the serialized one and is forced - over the live
   child's entry.  The re-created child is referenced, was never detached by the program, and is not found. *)
Definition evict_H (s : pystr) : pystr := lit "d".
Definition evict_ops : list op :=
  [ex_leaf 0 1; DetachSelf (0, 0); New 1 (lit "B") ONo [] [(lit "xs", (ShMany, [(0, 0)]))]].
Definition evict_s0 : st := run evict_H ex_ct no_late true (init_st 2) evict_ops.
Definition evict_d : option sval := ser_st evict_s0 1.
Definition evict_s1 : st := run evict_H ex_ct no_late true evict_s0 [Drop 0; Drop 1].
Definition evict_res (fx : bool) : dres nat :=
  match evict_d with Some d => deser evict_H ex_ct no_late fx 3 evict_s1 d | None => DFuel end.

Lemma refuted_forced_id_evicts_child :
  exists s' p, evict_res false = DOk s' p /\ reg evict_s1 = [] /\
    let s2 := gc (set_var s' 0 (Some p)) in
    tree_of s2 p = [3; 2] /\ reachable s2 2 = true /\
    option_map k_id (cell_at s2 2) = Some (lit "d") /\ option_map k_id (cell_at s2 3) = Some (lit "d") /\
    get_any s2 (lit "d") = Some 3 /\ In 2 (det s2) /\ det evict_s1 = [0].
Proof. eexists _, _. split; [vm_compute; reflexivity|]. vm_compute. intuition. Qed.

(* the code in /repo on the same input: the re-created child keeps the shared id and is found under it, the parent keeps
   the unique id it was given (d_1) and is found under that; nobody is marked detached *)
Lemma repaired_forced_id_keeps_child :
  exists s' p, evict_res true = DOk s' p /\
    let s2 := gc (set_var s' 0 (Some p)) in
    tree_of s2 p = [3; 2] /\
    option_map k_id (cell_at s2 2) = Some (lit "d") /\ option_map k_id (cell_at s2 3) = Some (lit "d_1") /\
    get_any s2 (lit "d") = Some 2 /\ get_any s2 (lit "d_1") = Some 3 /\ det s2 = det evict_s1.
Proof. eexists _, _. split; [vm_compute; reflexivity|]. vm_compute. intuition. Qed.

(* the same two facts as HISTORIES of the machine (AsDict / AsObj are operations of `run`) *)
Definition evict_hist : list op := evict_ops ++ [AsDict (1, 0) 0; Drop 0; Drop 1; AsObj 0 0].
Lemma refuted_forced_id_history :
  let s := run evict_H ex_ct no_late false (init_st 2) evict_hist in
  vars s = [Some 3; None] /\ tree_of s 3 = [3; 2] /\ get_any s (lit "d") = Some 3 /\ In 2 (det s) /\ reachable s 2 = true.
Proof. vm_compute. intuition. Qed.
Lemma repaired_forced_id_history :
  let s := run evict_H ex_ct no_late true (init_st 2) evict_hist in
  vars s = [Some 3; None] /\ tree_of s 3 = [3; 2] /\ get_any s (lit "d") = Some 2 /\ get_any s (lit "d_1") = Some 3 /\ det s = [0].
Proof. vm_compute. intuition. Qed.
