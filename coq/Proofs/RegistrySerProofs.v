(* The registry effect of as_obj (Model/RegistrySer.v): the invariant of C03 survives the forced-id path, with the
   library's own eviction (forcing an id over a live entry) recorded in the ghost `det`.  For every H, every validation. *)
From Oak Require Import Model.RegistrySer Proofs.RegistryProofs.

Lemma set_nth_length {A} (x : A) : forall l n, length (set_nth n x l) = length l.
Proof. induction l as [|y l IH]; intros [|n]; simpl; auto. Qed.
Lemma set_nth_same {A} (x : A) : forall l n, n < length l -> nth_error (set_nth n x l) n = Some x.
Proof. induction l as [|y l IH]; intros [|n] Hn; simpl in *; try lia; auto. apply IH. lia. Qed.
Lemma set_nth_other {A} (x : A) : forall l n m, n <> m -> nth_error (set_nth n x l) m = nth_error l m.
Proof. induction l as [|y l IH]; intros [|n] [|m] Hne; simpl; auto; try congruence. Qed.

Section SerProofs.
  Variable H : pystr -> pystr.
  Variable ct : ctable.
  Variable late : st -> nat -> bool.

  (* an id that is registered is answered by the registered node - the original if it is still alive, or whichever
     node has meanwhile taken the id over (the premise "no other live node has taken over its id" of C04) *)
  Theorem deser_registered fuel s i c o ps ks b : lookup i (reg s) = Some b ->
    deser H ct late (S fuel) s (SNode i c o ps ks) = DOk s b.
  Proof. intro E. simpl. now rewrite E. Qed.

  (* forcing the serialized id onto the node just built *)
  Theorem force_inv s a cl i : Inv0 s -> cell_at s a = Some cl -> In (k_id cl, a) (reg s) -> k_id cl <> i ->
    Inv0 (force_id s a cl i).
  Proof.
    intros Hs Hc Hin Hne. pose proof Hs as [Hf Hok Hall Hdet Hb Hh Hro].
    assert (Ha : a < length (heap s)) by (eapply cell_at_lt; eauto).
    set (r1 := remove_id (k_id cl) (reg s)).
    assert (Hr1 : forall j x, In (j, x) r1 <-> In (j, x) (reg s) /\ j <> k_id cl) by (intros; apply remove_in).
    assert (Hn1 : NoDup (keys r1)) by now apply remove_nodup.
    assert (Hcell : forall x, x <> a -> cell_at (force_id s a cl i) x = cell_at s x).
    { intros x Hx. unfold cell_at; simpl. apply set_nth_other. congruence. }
    assert (Hcella : cell_at (force_id s a cl i) a = Some (with_id cl i)).
    { unfold cell_at; simpl. now apply set_nth_same. }
    assert (Hown : forall j, In (j, a) (reg s) -> j = k_id cl).
    { intros j Hj. destruct (Hok _ _ Hj) as [c' [Hc' <-]]. rewrite Hc in Hc'. now injection Hc' as <-. }
    assert (Hdet' : forall x, In x (det (force_id s a cl i)) -> In x (det s) \/ In (i, x) r1).
    { intros x. unfold force_id; simpl. fold r1. destruct (lookup i r1) as [b|] eqn:El; auto.
      intros [<-|Hx]; auto. right. now apply lookup_in. }
    constructor.
    - simpl. fold r1. constructor; [|now apply remove_nodup]. intro Hk. apply remove_keys in Hk as [_ Hk]. congruence.
    - intros j x. simpl. fold r1. intros [E|Hx].
      + injection E as <- <-. exists (with_id cl i). auto.
      + apply remove_in in Hx as [Hx Hji]. apply Hr1 in Hx as [Hx Hjc].
        destruct (Nat.eq_dec x a) as [->|Hxa]; [apply Hown in Hx; congruence|].
        rewrite (Hcell _ Hxa). now apply Hok.
    - intros x cx Hx Hxd Hxg. simpl. fold r1. destruct (Nat.eq_dec x a) as [->|Hxa].
      + rewrite Hcella in Hx. injection Hx as <-. left. reflexivity.
      + rewrite (Hcell _ Hxa) in Hx. right. apply remove_in.
        assert (Hd0 : ~ In x (det s)).
        { intro Hd. apply Hxd. unfold force_id; simpl. fold r1. destruct (lookup i r1); simpl; auto. }
        pose proof (Hall _ _ Hx Hd0 Hxg) as Hreg.
        assert (Hkc : k_id cx <> k_id cl).
        { intro E. rewrite E in Hreg. apply Hxa. apply (in_lookup _ _ _ Hf) in Hreg. apply (in_lookup _ _ _ Hf) in Hin. congruence. }
        split; [apply Hr1; auto|]. intro E. apply Hxd. unfold force_id; simpl. fold r1.
        assert (Hl : lookup i r1 = Some x) by (apply in_lookup; auto; apply Hr1; rewrite <- E; auto).
        rewrite Hl. simpl. auto.
    - intros j x. simpl. fold r1. intros [E|Hx].
      + injection E as <- <-. destruct (Hdet _ _ Hin) as [Hd Hg]. split; auto. intro Hd'.
        apply Hdet' in Hd' as [Hd'|Hd']; auto. apply Hr1 in Hd' as [Hd' _]. apply Hown in Hd'. congruence.
      + apply remove_in in Hx as [Hx Hji]. apply Hr1 in Hx as [Hx Hjc]. destruct (Hdet _ _ Hx) as [Hd Hg]. split; auto.
        intro Hd'. apply Hdet' in Hd' as [Hd'|Hd']; auto. apply Hr1 in Hd' as [Hd' _].
        destruct (Hok _ _ Hx) as [c1 [Hc1 E1]]. destruct (Hok _ _ Hd') as [c2 [Hc2 E2]]. rewrite Hc1 in Hc2.
        injection Hc2 as <-. congruence.
    - intros x [Hx|Hx]; simpl; rewrite set_nth_length.
      + apply Hdet' in Hx as [Hx|Hx]; [apply Hb; auto|]. apply Hr1 in Hx as [Hx _].
        destruct (Hok _ _ Hx) as [c1 [Hc1 _]]. eapply cell_at_lt; eauto.
      + apply Hb; auto.
    - intros x cx Hx k Hk. destruct (Nat.eq_dec x a) as [->|Hxa].
      + rewrite Hcella in Hx. injection Hx as <-. eapply Hh; eauto.
      + rewrite (Hcell _ Hxa) in Hx. eapply Hh; eauto.
    - intros r Hr. simpl. rewrite set_nth_length. now apply Hro.
  Qed.

  (* when nothing has taken the serialized id (the premise of the property), nobody is evicted: `det` is as it was *)
  Theorem force_no_takeover s a cl i : lookup i (remove_id (k_id cl) (reg s)) = None ->
    det (force_id s a cl i) = det s /\ get_any (force_id s a cl i) i = Some a.
  Proof. intro E. unfold force_id, get_any; simpl. rewrite E, pystr_eqb_refl. auto. Qed.

  (* no existing node is modified: only the node just built has its id overwritten *)
  Theorem force_frame s a cl i x : x <> a -> cell_at (force_id s a cl i) x = cell_at s x.
  Proof. intro Hx. unfold cell_at; simpl. apply set_nth_other. congruence. Qed.
End SerProofs.

Section DeserInv.
  Variable H : pystr -> pystr.
  Variable ct : ctable.
  Variable late : st -> nat -> bool.

  Definition len_le (s s' : st) : Prop := length (heap s) <= length (heap s').

  (* as_obj - returning, or rejected half-way by a class's own validation - keeps the invariant of C03 *)
  Theorem deser_inv : forall fuel s v, Inv0 s ->
    match deser H ct late fuel s v with
    | DOk s' a => Inv0 s' /\ len_le s s' /\ a < length (heap s')
    | DLate s' => Inv0 s' /\ len_le s s'
    | DFuel => True
    end.
  Proof.
    induction fuel as [|f IH]; intros s v Hs; simpl; [exact I|]. destruct v as [i c o ps ks].
    destruct (lookup i (reg s)) as [b|] eqn:El.
    - split; auto. split; [unfold len_le; lia|]. apply lookup_in in El.
      destruct (I_ok _ Hs _ _ El) as [cb [Hcb _]]. eapply cell_at_lt; eauto.
    - pose (Q := fun (t : st) (y : nat) => y < length (heap t)).
      pose (Q' := fun (t : st) (k : pystr * (kshape * list nat)) => Forall (Q t) (snd (snd k))).
      assert (Rrefl : forall t, len_le t t) by (intro; unfold len_le; lia).
      assert (Rtrans : forall a b c, len_le a b -> len_le b c -> len_le a c) by (unfold len_le; intros; lia).
      assert (Qmono : forall t t' y, Q t y -> len_le t t' -> Q t' y) by (unfold Q, len_le; intros; lia).
      assert (Q'mono : forall t t' y, Q' t y -> len_le t t' -> Q' t' y).
      { intros t t' y Hq G. unfold Q' in *. eapply Forall_impl; [|exact Hq]. intros z Hz. eapply Qmono; eauto. }
      assert (Hinner : forall t x, Inv0 t -> match deser H ct late f t x with
                                              | DOk t' y => Inv0 t' /\ len_le t t' /\ Q t' y
                                              | DLate t' => Inv0 t' /\ len_le t t'
                                              | DFuel => True
                                              end) by (intros t x Ht; exact (IH t x Ht)).
      assert (Houter : forall t k, Inv0 t ->
         match (match mapM_d (deser H ct late f) t (snd (snd k)) with
                | DOk t' l => DOk t' (fst k, (fst (snd k), l))
                | DLate t' => DLate t'
                | DFuel => DFuel
                end) with
         | DOk t' y => Inv0 t' /\ len_le t t' /\ Q' t' y
         | DLate t' => Inv0 t' /\ len_le t t'
         | DFuel => True
         end).
      { intros t k Ht. pose proof (mapM_d_spec _ Inv0 len_le Q Rrefl Rtrans Qmono Hinner (snd (snd k)) t Ht) as M.
        destruct (mapM_d (deser H ct late f) t (snd (snd k))) as [t1 l|t1|]; auto. }
      pose proof (mapM_d_spec _ Inv0 len_le Q' Rrefl Rtrans Q'mono Houter ks s Hs) as M.
      destruct (mapM_d _ s ks) as [s1 ks'|s1|]; auto.
      destruct M as [Hs1 [G1 Hq]].
      assert (Hbelow : kids_below (length (heap s1)) ks').
      { intros k Hin. apply in_flat_map in Hin as [e [He Hk]]. rewrite Forall_forall in Hq.
        specialize (Hq _ He). unfold Q' in Hq. rewrite Forall_forall in Hq. apply Hq. auto. }
      destruct (construct H ct late s1 c o ps ks') as [s2 a|s2|] eqn:Eco; auto.
      + apply construct_ok in Eco as [Ea _]. pose proof (alloc_inv H ct _ _ _ _ _ _ _ Hs1 Hbelow Ea) as Hs2.
        pose proof Ea as Esh. apply alloc_shape in Esh as [i' [_ [Ha [_ Esh]]]].
        assert (Hl2 : length (heap s2) = S (length (heap s1))) by (rewrite Esh; simpl; rewrite app_length; simpl; lia).
        assert (Hc2 : cell_at s2 a = Some (mkcell H ct c o ps ks' i' (heap s1))).
        { rewrite Esh, Ha. unfold cell_at; simpl. rewrite nth_error_app2, Nat.sub_diag by lia. reflexivity. }
        rewrite Hc2. cbn [k_id mkcell]. destruct (pystr_eqb_spec i' i) as [->|Hne].
        * split; auto. unfold len_le in *. split; lia.
        * split; [apply force_inv; auto; rewrite Esh, Ha; simpl; auto|].
          unfold len_le in *. simpl. rewrite set_nth_length. split; lia.
      + apply construct_late in Eco as [a [Ea _]]. pose proof (alloc_inv H ct _ _ _ _ _ _ _ Hs1 Hbelow Ea) as Hs2.
        split; auto. apply alloc_shape in Ea as [i' [_ [_ [_ ->]]]]. unfold len_le in *. simpl. rewrite app_length. lia.
  Qed.

  (* ... and so does the step "x = Cls.as_obj(d)" followed by the collection that ends every step *)
  Corollary deser_step_inv fuel s v dst : RInv s ->
    match deser H ct late fuel s v with
    | DOk s' a => RInv (gc (set_var s' dst (Some a)))
    | DLate s' => RInv (gc s')
    | DFuel => True
    end.
  Proof.
    intros [Hs _]. pose proof (deser_inv fuel s v Hs) as M. destruct (deser H ct late fuel s v) as [s' a|s'|]; auto.
    - destruct M as [Hs' [_ Ha]]. apply gc_inv. apply set_var_inv; auto. intros a0 [= <-]. auto.
    - apply gc_inv. apply M.
  Qed.
End DeserInv.

(* ================= what the code does when the serialized id is taken over DURING the reading ================= *)
(* digest with collisions (one character); x = A(1) is detached, p = B((x,)) is then built and - its digest colliding
   with x's - is given x's id; d = p.as_dict(); everything is dropped; p2 = B.as_obj(d): the child is re-created
   under the shared id, then the parent's fresh id differs from the serialized one and is forced - over the live
   child's entry.  The re-created child is referenced, was never detached by the program, and is not found. *)
Definition evict_H (s : pystr) : pystr := lit "d".
Definition evict_ops : list op :=
  [ex_leaf 0 1; DetachSelf (0, 0); New 1 (lit "B") ONo [] [(lit "xs", (ShMany, [(0, 0)]))]].
Definition evict_s0 : st := run evict_H ex_ct no_late true (init_st 2) evict_ops.
Definition evict_d : option sval := ser_st evict_s0 1.
Definition evict_s1 : st := run evict_H ex_ct no_late true evict_s0 [Drop 0; Drop 1].
Definition evict_res : dres nat :=
  match evict_d with Some d => deser evict_H ex_ct no_late 3 evict_s1 d | None => DFuel end.

Lemma refuted_forced_id_evicts_child :
  exists s' p, evict_res = DOk s' p /\ reg evict_s1 = [] /\
    let s2 := gc (set_var s' 0 (Some p)) in
    tree_of s2 p = [3; 2] /\ reachable s2 2 = true /\
    option_map k_id (cell_at s2 2) = Some (lit "d") /\ option_map k_id (cell_at s2 3) = Some (lit "d") /\
    get_any s2 (lit "d") = Some 3 /\ In 2 (det s2) /\ det evict_s1 = [0].
Proof. eexists _, _. split; [vm_compute; reflexivity|]. vm_compute. intuition. Qed.
