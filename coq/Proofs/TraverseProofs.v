From Oak Require Import Spec.TraverseSpec Proofs.AccessProofs.
From Coq Require Import Permutation.

(* ================= class-table facts: merged field names are pairwise different ================= *)
Lemma existsb_name_false f l :
  existsb (fun g => pystr_eqb (fd_name g) (fd_name f)) l = false -> ~ In (fd_name f) (map fd_name l).
Proof.
  induction l as [|g l IH]; simpl; auto.
  intros E. apply orb_false_elim in E as [E1 E2]. intros [H|H].
  - rewrite H, pystr_eqb_refl in E1. discriminate.
  - now apply IH.
Qed.

Lemma nodup_app_single {A} (l : list A) x : NoDup l -> ~ In x l -> NoDup (l ++ [x]).
Proof.
  induction 1 as [|y l Hy Hl IH]; simpl; intros Hx.
  - repeat constructor. auto.
  - constructor.
    + rewrite in_app_iff. simpl. intuition.
    + apply IH. intuition.
Qed.

Lemma upsert_nodup f l : NoDup (map fd_name l) -> NoDup (map fd_name (upsert f l)).
Proof.
  intros H. rewrite upsert_names.
  destruct (existsb _ l) eqn:E; auto.
  apply nodup_app_single; auto. now apply existsb_name_false.
Qed.

Lemma merge_nodup own acc : NoDup (map fd_name acc) -> NoDup (map fd_name (merge_fields acc own)).
Proof.
  unfold merge_fields. revert acc. induction own as [|f own IH]; simpl; intros acc H; auto.
  apply IH. now apply upsert_nodup.
Qed.

Lemma fields_of_nodup ct c : NoDup (map fd_name (fields_of ct c)).
Proof.
  unfold fields_of. destruct (find_class ct c) as [d|]; [|constructor].
  generalize (rev (cd_name d :: cd_bases d)) as cs.
  assert (G : forall cs acc, NoDup (map fd_name acc) ->
              NoDup (map fd_name (fold_left (fun acc b => merge_fields acc (own_of ct b)) cs acc))).
  { induction cs as [|b cs IH]; simpl; intros acc H; auto. apply IH. now apply merge_nodup. }
  intros cs. apply G. constructor.
Qed.

Lemma nodup_map_filter {A B} (g : A -> B) (p : A -> bool) l : NoDup (map g l) -> NoDup (map g (filter p l)).
Proof.
  induction l as [|x l IH]; simpl; intros H; auto. inversion H as [|? ? Hx Hl]; subst.
  destruct (p x); simpl; auto. constructor; auto.
  intros Hin. apply Hx. apply in_map_iff in Hin as (y & Ey & Hy). apply filter_In in Hy as [Hy _].
  apply in_map_iff. eauto.
Qed.

Lemma child_fields_nodup ct c : NoDup (map fd_name (child_fields ct c)).
Proof. apply nodup_map_filter, fields_of_nodup. Qed.

(* ================= a conforming node stores its child fields exactly as the class lists them ================= *)
Lemma zip_ok_names {B} (p : fdecl -> pystr * B -> bool) fs (ks : list (pystr * B)) :
  (forall f k, p f k = true -> fd_name f = fst k) -> zip_ok p fs ks = true -> map fd_name fs = map fst ks.
Proof.
  intros Hp. revert ks. induction fs as [|f fs IH]; intros [|k ks]; simpl; try discriminate; auto.
  intros H. apply andb_prop in H as [H1 H2]. f_equal; auto.
Qed.

Lemma assoc_nodup {B} (ks : list (pystr * B)) k v : NoDup (map fst ks) -> In (k, v) ks -> assoc k ks = Some v.
Proof.
  induction ks as [|[k' v'] ks IH]; simpl; intros Hn Hin; [tauto|].
  inversion Hn as [|? ? Hk Hl]; subst.
  destruct Hin as [E|Hin].
  - injection E as -> ->. now rewrite pystr_eqb_refl.
  - destruct (pystr_eqb_spec k' k) as [->|N]; auto.
    exfalso. apply Hk. apply in_map_iff. exists (k, v). auto.
Qed.

Lemma fields_lookup_all {B} (ks : list (pystr * (kshape * list B))) fs :
  map fd_name fs = map fst ks -> NoDup (map fst ks) ->
  map (fun f => (fd_name f, field_value ks f)) fs = ks.
Proof.
  intros Hn Hd.
  assert (G : forall fs' ks', map fd_name fs' = map fst ks' -> (forall k, In k ks' -> In k ks) ->
              map (fun f => (fd_name f, field_value ks f)) fs' = ks').
  { induction fs' as [|f fs' IH]; intros [|[n v] ks']; simpl; try discriminate; auto.
    intros E Hsub. injection E as E1 E2. f_equal.
    - unfold field_value. rewrite E1. rewrite (assoc_nodup ks n v); auto; apply Hsub; simpl; auto.
    - apply IH; auto. }
  apply G; auto.
Qed.

Section Facts.
  Variable ct : ctable.

  Lemma wf_child_names n : wf_node ct n = true -> map fd_name (child_fields ct (cls n)) = map fst (nkids n).
  Proof.
    destruct n as [a c o ps ks]. simpl. intros H.
    apply andb_prop in H as [H _]. apply andb_prop in H as [_ H].
    eapply zip_ok_names; [|exact H]. intros f k Hp. apply andb_prop in Hp as [Hp _].
    now apply pystr_eqb_eq.
  Qed.

  Lemma wf_kids n : wf_node ct n = true ->
    forall k, In k (nkids n) -> forall x, In x (snd (snd k)) -> wf_node ct x = true.
  Proof.
    destruct n as [a c o ps ks]. simpl. intros H k Hk x Hx.
    apply andb_prop in H as [_ H]. rewrite forallb_forall in H. specialize (H k Hk).
    rewrite forallb_forall in H. now apply H.
  Qed.

  (* infos read through the class table = the positions stored in the node *)
  Lemma infos_direct n : wf_node ct n = true -> infos ct n = direct_infos n.
  Proof.
    intros W. unfold infos, get_child_nodes_with_field, edges_view, direct_infos, kid_fields.
    pose proof (wf_child_names n W) as Hn.
    assert (Hd : NoDup (map fst (nkids n))) by (rewrite <- Hn; apply child_fields_nodup).
    pose proof (fields_lookup_all (nkids n) (child_fields ct (cls n)) Hn Hd) as E.
    set (KS := nkids n) in *. set (FS := child_fields ct (cls n)) in *.
    transitivity (flat_map (fun k => map (fun ci => {| ti_node := fst ci; ti_parent := n; ti_field := fst k; ti_index := snd ci |})
                                         (field_children (snd k)))
                           (map (fun f => (fd_name f, field_value KS f)) FS)).
    2: { rewrite E. reflexivity. }
    clear E Hn Hd. induction FS as [|f fs IH]; simpl; auto.
    rewrite map_app, IH. f_equal. rewrite !map_map. reflexivity.
  Qed.

  Lemma direct_infos_nodes_in n ti : In ti (direct_infos n) ->
    exists k, In k (nkids n) /\ In (ti_node ti) (snd (snd k)).
  Proof.
    unfold direct_infos. rewrite in_flat_map. intros (k & Hk & Hti). exists k; split; auto.
    apply in_map_iff in Hti as (ci & <- & Hci). simpl.
    destruct (snd k) as [sh l]. simpl in *. destruct sh; simpl in Hci.
    - tauto.
    - apply in_map_iff in Hci as (x & <- & Hx). simpl. destruct l; simpl in Hx; [tauto|]. destruct Hx as [->|[]]. simpl; auto.
    - apply in_map_iff in Hci as ([x i] & <- & Hx). simpl.
      assert (In x (map fst (number_from 0 l))) by (apply in_map_iff; exists (x, i); auto).
      now rewrite number_from_fst in H.
  Qed.

  Lemma wf_direct n : wf_node ct n = true -> forall ti, In ti (direct_infos n) -> wf_node ct (ti_node ti) = true.
  Proof.
    intros W ti Hti. destruct (direct_infos_nodes_in n ti Hti) as (k & Hk & Hx). eapply wf_kids; eauto.
  Qed.
End Facts.

(* ================= sizes: the work below a position ================= *)
Definition work (st : list tinfo) : nat := list_sum (map (fun ti => size (ti_node ti)) st).

Lemma size_pos n : 1 <= size n. Proof. destruct n; simpl; lia. Qed.
Lemma work_app a b : work (a ++ b) = work a + work b.
Proof. unfold work. rewrite map_app. induction (map _ a); simpl; lia. Qed.
Lemma work_rev a : work (rev a) = work a.
Proof. induction a as [|x a IH]; simpl; auto. rewrite work_app, IH. unfold work; simpl. lia. Qed.
Lemma work_nil_iff st : work st = 0 -> st = [].
Proof. destruct st as [|ti st]; auto. unfold work; simpl. pose proof (size_pos (ti_node ti)). lia. Qed.
Lemma work_length st : length st <= work st.
Proof. induction st as [|ti st IH]; simpl; auto. unfold work in *; simpl. pose proof (size_pos (ti_node ti)). lia. Qed.

Lemma work_field_children p f (v : kshape * list node) :
  work (map (fun ci => {| ti_node := fst ci; ti_parent := p; ti_field := f; ti_index := snd ci |}) (field_children v))
  <= list_sum (map size (snd v)).
Proof.
  destruct v as [sh l]. unfold work. rewrite map_map. simpl. destruct sh; simpl.
  - lia.
  - destruct l; simpl; lia.
  - rewrite map_map. simpl.
    rewrite <- (map_map fst size), number_from_fst. lia.
Qed.

Lemma work_direct n : work (direct_infos n) <= size n - 1.
Proof.
  destruct n as [a c o ps ks]. unfold direct_infos. simpl. rewrite Nat.sub_0_r.
  generalize (Node a c o ps ks) as P. intros P.
  induction ks as [|k ks IH]; simpl; auto.
  rewrite work_app. pose proof (work_field_children P (fst k) (snd k)). lia.
Qed.

(* ================= the recursive orders unfold along direct_infos ================= *)
Section Orders.
  Variables (prune filt : tinfo -> bool).

  Definition pre_info (ti : tinfo) : list tinfo :=
    keep filt ti ++ (if prune ti then [] else pre prune filt (ti_node ti)).
  Definition post_info (ti : tinfo) : list tinfo :=
    (if prune ti then [] else post prune filt (ti_node ti)) ++ keep filt ti.

  Lemma pre_unfold p : pre prune filt p = flat_map pre_info (direct_infos p).
  Proof.
    destruct p as [a c o ps ks]. unfold direct_infos. cbn [nkids pre].
    generalize (Node a c o ps ks) as P. intros P.
    induction ks as [|[f [sh l]] ks IH]; [reflexivity|].
    cbn [flat_map]. rewrite flat_map_app. rewrite <- IH. f_equal.
    cbn [fst snd]. destruct sh; cbn [field_children].
    - reflexivity.
    - destruct l as [|x l]; [reflexivity|]. cbn. unfold pre_info. cbn. now rewrite app_nil_r.
    - rewrite map_map. cbn [fst snd].
      generalize 0 as i. induction l as [|x l IHl]; intros i; [reflexivity|].
      cbn [number_from map flat_map]. rewrite <- IHl. reflexivity.
  Qed.

  Lemma post_unfold p : post prune filt p = flat_map post_info (direct_infos p).
  Proof.
    destruct p as [a c o ps ks]. unfold direct_infos. cbn [nkids post].
    generalize (Node a c o ps ks) as P. intros P.
    induction ks as [|[f [sh l]] ks IH]; [reflexivity|].
    cbn [flat_map]. rewrite flat_map_app. rewrite <- IH. f_equal.
    cbn [fst snd]. destruct sh; cbn [field_children].
    - reflexivity.
    - destruct l as [|x l]; [reflexivity|]. cbn. unfold post_info. cbn. now rewrite app_nil_r.
    - rewrite map_map. cbn [fst snd].
      generalize 0 as i. induction l as [|x l IHl]; intros i; [reflexivity|].
      cbn [number_from map flat_map]. rewrite <- IHl. reflexivity.
  Qed.
End Orders.

(* ================= the machines compute the orders ================= *)
Section Machines.
  Variable ct : ctable.
  Variables (prune filt : tinfo -> bool).

  Definition wfs (st : list tinfo) : Prop := forall ti, In ti st -> wf_node ct (ti_node ti) = true.

  Lemma wfs_app a b : wfs a -> wfs b -> wfs (a ++ b).
  Proof. intros Ha Hb ti H. apply in_app_or in H as [H|H]; auto. Qed.
  Lemma wfs_infos ti : wf_node ct (ti_node ti) = true -> wfs (infos ct (ti_node ti)).
  Proof. intros W x Hx. rewrite infos_direct in Hx by auto. eapply wf_direct; eauto. Qed.

  Theorem dfs_td_spec : forall fuel st acc, wfs st -> work st <= fuel ->
    dfs_td ct prune filt fuel st acc = Some (rev acc ++ flat_map (pre_info prune filt) st).
  Proof.
    induction fuel as [|f IH]; intros st acc Hw Hf.
    - apply Nat.le_0_r in Hf. apply work_nil_iff in Hf. subst. simpl. now rewrite app_nil_r.
    - destruct st as [|ti st]; simpl; [now rewrite app_nil_r|].
      assert (Wti : wf_node ct (ti_node ti) = true) by (apply Hw; simpl; auto).
      assert (Hst : wfs st) by (intros x Hx; apply Hw; simpl; auto).
      unfold work in Hf. simpl in Hf. fold (work st) in Hf.
      pose proof (size_pos (ti_node ti)) as Hp.
      unfold pre_info at 1. unfold keep.
      destruct (prune ti) eqn:Ep.
      + rewrite IH by (auto; lia).
        destruct (filt ti); simpl; rewrite ?app_nil_r, <- ?app_assoc; reflexivity.
      + rewrite IH.
        * rewrite flat_map_app. rewrite infos_direct by auto. rewrite <- pre_unfold.
          destruct (filt ti); simpl; rewrite <- ?app_assoc; reflexivity.
        * apply wfs_app; auto. now apply wfs_infos.
        * rewrite work_app, infos_direct by auto. pose proof (work_direct (ti_node ti)). lia.
  Qed.

  Theorem dfs_bu_spec : forall fuel st acc, wfs st -> work st <= fuel ->
    dfs_bu ct prune filt fuel st acc = Some (flat_map (post_info prune filt) (rev st) ++ acc).
  Proof.
    induction fuel as [|f IH]; intros st acc Hw Hf.
    - apply Nat.le_0_r in Hf. apply work_nil_iff in Hf. subst. reflexivity.
    - destruct st as [|ti st]; [reflexivity|]. cbn [dfs_bu].
      assert (Wti : wf_node ct (ti_node ti) = true) by (apply Hw; simpl; auto).
      assert (Hst : wfs st) by (intros x Hx; apply Hw; simpl; auto).
      unfold work in Hf. simpl in Hf. fold (work st) in Hf.
      pose proof (size_pos (ti_node ti)) as Hp.
      cbn [rev]. rewrite flat_map_app. cbn [flat_map]. rewrite app_nil_r.
      unfold post_info at 2. unfold keep.
      destruct (prune ti) eqn:Ep.
      + rewrite IH by (auto; lia).
        destruct (filt ti); simpl; rewrite <- ?app_assoc; reflexivity.
      + rewrite IH.
        * rewrite rev_app_distr, rev_involutive, flat_map_app.
          rewrite infos_direct by auto. rewrite <- post_unfold.
          destruct (filt ti); simpl; rewrite <- ?app_assoc; simpl; rewrite ?app_nil_r; reflexivity.
        * apply wfs_app; auto. intros x Hx. apply in_rev in Hx. now apply (wfs_infos ti Wti).
        * rewrite work_app, work_rev, infos_direct by auto. pose proof (work_direct (ti_node ti)). lia.
  Qed.

  Theorem dfs_pre n : wf_node ct n = true -> dfs ct prune filt (size n) false n = Some (pre prune filt n).
  Proof.
    intros W. unfold dfs. rewrite dfs_td_spec.
    - simpl. now rewrite infos_direct, <- pre_unfold by auto.
    - intros x Hx. rewrite infos_direct in Hx by auto. eapply wf_direct; eauto.
    - rewrite infos_direct by auto. pose proof (work_direct n). lia.
  Qed.

  Theorem dfs_post n : wf_node ct n = true -> dfs ct prune filt (size n) true n = Some (post prune filt n).
  Proof.
    intros W. unfold dfs. rewrite dfs_bu_spec.
    - rewrite rev_involutive, app_nil_r. now rewrite infos_direct, <- post_unfold by auto.
    - intros x Hx. apply in_rev in Hx. rewrite infos_direct in Hx by auto. eapply wf_direct; eauto.
    - rewrite work_rev, infos_direct by auto. pose proof (work_direct n). lia.
  Qed.

  (* ---------- bfs ---------- *)
  Lemma bfs_level : forall l fuel nx acc, length l <= fuel -> wfs l ->
    bfs_run ct prune filt fuel (l ++ nx) acc =
    bfs_run ct prune filt (fuel - length l) (nx ++ next_level prune l) (rev (filter filt l) ++ acc).
  Proof.
    induction l as [|ti l IH]; intros fuel nx acc Hf Hw.
    - simpl. now rewrite Nat.sub_0_r, app_nil_r.
    - destruct fuel as [|f]; [simpl in Hf; lia|].
      assert (Wti : wf_node ct (ti_node ti) = true) by (apply Hw; simpl; auto).
      assert (Hl : wfs l) by (intros x Hx; apply Hw; simpl; auto).
      cbn [app bfs_run length Nat.sub]. simpl in Hf.
      unfold next_level. cbn [flat_map]. fold (next_level prune l).
      destruct (prune ti) eqn:Ep.
      + rewrite IH by (auto; lia). cbn [app].
        destruct (filt ti) eqn:Ef; cbn [filter]; rewrite Ef; cbn [rev]; rewrite <- ?app_assoc; reflexivity.
      + rewrite <- app_assoc. rewrite IH by (auto; lia).
        rewrite infos_direct by auto. rewrite <- app_assoc.
        destruct (filt ti) eqn:Ef; cbn [filter]; rewrite Ef; cbn [rev]; rewrite <- ?app_assoc; reflexivity.
  Qed.

  Lemma wfs_next_level l : wfs l -> wfs (next_level prune l).
  Proof.
    intros Hl x Hx. unfold next_level in Hx. apply in_flat_map in Hx as (ti & Hti & Hx).
    destruct (prune ti); [destruct Hx|]. eapply wf_direct; eauto.
  Qed.

  Lemma work_next_level l : work (next_level prune l) + length l <= work l.
  Proof.
    induction l as [|ti l IH]; simpl; auto.
    unfold next_level. cbn [flat_map]. fold (next_level prune l). rewrite work_app.
    unfold work at 3. simpl. fold (work l).
    pose proof (size_pos (ti_node ti)). pose proof (work_direct (ti_node ti)).
    destruct (prune ti); unfold work at 1; simpl; fold (work (direct_infos (ti_node ti))); lia.
  Qed.

  Lemma levels_from_nil d : levels_from prune filt d [] = [].
  Proof. induction d; simpl; auto. Qed.

  Theorem bfs_run_spec : forall d l fuel acc, wfs l -> work l <= d -> work l <= fuel ->
    bfs_run ct prune filt fuel l acc = Some (rev acc ++ levels_from prune filt d l).
  Proof.
    induction d as [|d IH]; intros l fuel acc Hw Hd Hf.
    - apply Nat.le_0_r in Hd. apply work_nil_iff in Hd. subst. destruct fuel; simpl; now rewrite app_nil_r.
    - destruct l as [|ti l0] eqn:El.
      + destruct fuel; simpl; rewrite levels_from_nil; now rewrite app_nil_r.
      + assert (Hl1 : 1 <= length l) by (rewrite El; simpl; lia).
        rewrite <- El in *. clear El.
        pose proof (work_length l) as Hlen. pose proof (work_next_level l) as Hnl.
        rewrite <- (app_nil_r l) at 1. rewrite bfs_level by (auto; lia). cbn [app].
        rewrite IH.
        * cbn [levels_from]. rewrite rev_app_distr, rev_involutive, <- app_assoc. reflexivity.
        * now apply wfs_next_level.
        * lia.
        * lia.
  Qed.

  Theorem bfs_levels n : wf_node ct n = true ->
    bfs ct prune filt (size n) n = Some (levels_from prune filt (size n) (direct_infos n)).
  Proof.
    intros W. unfold bfs. rewrite infos_direct by auto.
    rewrite (bfs_run_spec (size n)); auto.
    - intros x Hx. eapply wf_direct; eauto.
    - pose proof (work_direct n). lia.
    - pose proof (work_direct n). lia.
  Qed.
End Machines.

(* ================= consequences ================= *)
Lemma size_induction (P : node -> Prop) :
  (forall n, (forall m, size m < size n -> P m) -> P n) -> forall n, P n.
Proof.
  intros H n. remember (size n) as k eqn:E. revert n E.
  induction k as [k IH] using lt_wf_ind. intros n E. apply H. intros m Hm. apply (IH (size m)); auto. lia.
Qed.

Lemma direct_smaller n ti : In ti (direct_infos n) -> size (ti_node ti) < size n.
Proof.
  intros H. pose proof (work_direct n) as W.
  assert (size (ti_node ti) <= work (direct_infos n)).
  { clear W. induction (direct_infos n) as [|x l IH]; [destruct H|].
    unfold work; simpl. fold (work l). destruct H as [->|H]; [lia|]. specialize (IH H). lia. }
  pose proof (size_pos n). lia.
Qed.

Section Consequences.
  Variable ct : ctable.
  Variables (prune filt : tinfo -> bool).

  (* everything yielded is a position directly below the start node or below a conforming descendant *)
  Lemma pre_all (Q : tinfo -> Prop) :
    (forall p, wf_node ct p = true -> forall ti, In ti (direct_infos p) -> Q ti) ->
    forall n, wf_node ct n = true -> forall ti, In ti (pre prune filt n) -> Q ti.
  Proof.
    intros HQ. induction n as [n IH] using size_induction. intros W ti Hti.
    rewrite pre_unfold in Hti. apply in_flat_map in Hti as (t & Ht & Hti).
    unfold pre_info, keep in Hti. apply in_app_or in Hti as [Hti|Hti].
    - destruct (filt t); [|destruct Hti]. destruct Hti as [<-|[]]. eapply HQ; eauto.
    - destruct (prune t); [destruct Hti|].
      eapply (IH (ti_node t)); eauto using direct_smaller. eapply wf_direct; eauto.
  Qed.

  Lemma post_all (Q : tinfo -> Prop) :
    (forall p, wf_node ct p = true -> forall ti, In ti (direct_infos p) -> Q ti) ->
    forall n, wf_node ct n = true -> forall ti, In ti (post prune filt n) -> Q ti.
  Proof.
    intros HQ. induction n as [n IH] using size_induction. intros W ti Hti.
    rewrite post_unfold in Hti. apply in_flat_map in Hti as (t & Ht & Hti).
    unfold post_info, keep in Hti. apply in_app_or in Hti as [Hti|Hti].
    - destruct (prune t); [destruct Hti|].
      eapply (IH (ti_node t)); eauto using direct_smaller. eapply wf_direct; eauto.
    - destruct (filt t); [|destruct Hti]. destruct Hti as [<-|[]]. eapply HQ; eauto.
  Qed.

  (* the start node is never yielded: every yielded node is strictly smaller than the start node *)
  Lemma pre_smaller n ti : In ti (pre prune filt n) -> size (ti_node ti) < size n.
  Proof.
    revert ti. induction n as [n IH] using size_induction. intros ti Hti.
    rewrite pre_unfold in Hti. apply in_flat_map in Hti as (t & Ht & Hti).
    pose proof (direct_smaller n t Ht).
    unfold pre_info, keep in Hti. apply in_app_or in Hti as [Hti|Hti].
    - destruct (filt t); [|destruct Hti]. destruct Hti as [<-|[]]. auto.
    - destruct (prune t); [destruct Hti|]. specialize (IH (ti_node t) H ti Hti). lia.
  Qed.

  Lemma number_from_nth {A} (l : list A) i x k : In (x, k) (number_from i l) -> i <= k /\ nth_error l (k - i) = Some x.
  Proof.
    revert i. induction l as [|y l IH]; simpl; intros i H; [tauto|].
    destruct H as [E|H].
    - injection E as -> ->. rewrite Nat.sub_diag. auto.
    - apply IH in H as [H1 H2]. split; [lia|]. replace (k - i) with (S (k - S i)) by lia. exact H2.
  Qed.

  (* every yielded (node, parent, field, index): parent's field (at that index for tuples, None otherwise) is that node *)
  Lemma direct_sound p : wf_node ct p = true -> forall ti, In ti (direct_infos p) ->
    ti_parent ti = p /\ child_at p (ti_field ti) (ti_index ti) = Some (ti_node ti).
  Proof.
    intros W ti Hti.
    assert (Hd : NoDup (map fst (nkids p))) by (rewrite <- (wf_child_names ct p W); apply child_fields_nodup).
    unfold direct_infos in Hti. apply in_flat_map in Hti as ([f [sh l]] & Hk & Hti).
    apply in_map_iff in Hti as (ci & <- & Hci). cbn [ti_parent ti_field ti_index ti_node fst snd] in *.
    split; auto. unfold child_at. rewrite (assoc_nodup _ f (sh, l) Hd Hk).
    destruct sh; simpl in Hci.
    - destruct Hci.
    - destruct l as [|x l]; simpl in Hci; [destruct Hci|]. destruct Hci as [<-|[]]. reflexivity.
    - apply in_map_iff in Hci as ([x k] & <- & Hx). simpl.
      apply number_from_nth in Hx as [_ Hx]. now rewrite Nat.sub_0_r in Hx.
  Qed.

  Theorem info_sound n : wf_node ct n = true -> forall ti, In ti (pre prune filt n) ->
    child_at (ti_parent ti) (ti_field ti) (ti_index ti) = Some (ti_node ti).
  Proof.
    intros W. apply (pre_all (fun ti => child_at (ti_parent ti) (ti_field ti) (ti_index ti) = Some (ti_node ti))); auto.
    intros p Wp ti Hti. destruct (direct_sound p Wp ti Hti) as [-> H]. exact H.
  Qed.
  Theorem info_sound_post n : wf_node ct n = true -> forall ti, In ti (post prune filt n) ->
    child_at (ti_parent ti) (ti_field ti) (ti_index ti) = Some (ti_node ti).
  Proof.
    intros W. apply (post_all (fun ti => child_at (ti_parent ti) (ti_field ti) (ti_index ti) = Some (ti_node ti))); auto.
    intros p Wp ti Hti. destruct (direct_sound p Wp ti Hti) as [-> H]. exact H.
  Qed.
End Consequences.

(* filtering commutes with traversal: the filter never affects descent *)
Lemma filter_flat_map {A B} (p : B -> bool) (g : A -> list B) l :
  filter p (flat_map g l) = flat_map (fun x => filter p (g x)) l.
Proof. induction l as [|x l IH]; simpl; auto. now rewrite filter_app, IH. Qed.

Lemma flat_map_ext_in {A B} (f g : A -> list B) l : (forall x, In x l -> f x = g x) -> flat_map f l = flat_map g l.
Proof. induction l as [|x l IH]; simpl; intros H; auto. rewrite H, IH; auto. Qed.

Theorem filter_commutes prune filt n :
  pre prune filt n = filter filt (pre prune (fun _ => true) n).
Proof.
  induction n as [n IH] using size_induction.
  rewrite !pre_unfold, filter_flat_map. apply flat_map_ext_in. intros t Ht.
  unfold pre_info, keep. rewrite filter_app. simpl.
  destruct (prune t).
  - destruct (filt t); reflexivity.
  - rewrite <- IH by (now apply direct_smaller). destruct (filt t); reflexivity.
Qed.

Theorem filter_commutes_post prune filt n :
  post prune filt n = filter filt (post prune (fun _ => true) n).
Proof.
  induction n as [n IH] using size_induction.
  rewrite !post_unfold, filter_flat_map. apply flat_map_ext_in. intros t Ht.
  unfold post_info, keep. rewrite filter_app. simpl.
  destruct (prune t).
  - destruct (filt t); reflexivity.
  - rewrite <- IH by (now apply direct_smaller). destruct (filt t); reflexivity.
Qed.

(* without prune and filter every stored child position below n is yielded: the count is size n - 1 for
   conforming nodes (an absent optional holds nothing, a single field exactly one node) *)
Lemma shapes_exact ct n : wf_node ct n = true ->
  forall k, In k (nkids n) -> match snd k with (ShNone, l) => l = [] | (ShOne, l) => length l = 1 | (ShMany, _) => True end.
Proof.
  destruct n as [a c o ps ks]. simpl. intros H.
  apply andb_prop in H as [H _]. apply andb_prop in H as [_ H].
  revert H. generalize (child_fields ct c) as fs. induction ks as [|k ks IH]; intros fs H k' Hk'; [destruct Hk'|].
  destruct fs as [|f fs]; simpl in H; [discriminate|]. apply andb_prop in H as [H1 H2].
  destruct Hk' as [<-|Hk']; [|eapply IH; eauto].
  apply andb_prop in H1 as [_ H1]. unfold shape_ok in H1.
  destruct (child_kind f) as [[|]|]; destruct (snd k) as [[| |] [|x [|y l]]]; try discriminate; auto.
Qed.

Lemma work_direct_exact ct n : wf_node ct n = true -> work (direct_infos n) = size n - 1.
Proof.
  intros W. pose proof (shapes_exact ct n W) as Hs. clear W.
  destruct n as [a c o ps ks]. unfold direct_infos. simpl in *. rewrite Nat.sub_0_r.
  generalize (Node a c o ps ks) as P. intros P.
  induction ks as [|k ks IH]; simpl; auto.
  rewrite work_app, IH by (intros; apply Hs; simpl; auto). f_equal.
  specialize (Hs k (or_introl eq_refl)). destruct k as [f [sh l]]. simpl in *.
  unfold work. rewrite map_map. simpl. destruct sh; simpl.
  - subst. reflexivity.
  - destruct l as [|x [|y l]]; simpl in *; try discriminate; lia.
  - rewrite map_map. simpl. rewrite <- (map_map fst size), number_from_fst. reflexivity.
Qed.

Theorem visits_all ct n : wf_node ct n = true ->
  length (pre (fun _ => false) (fun _ => true) n) = size n - 1.
Proof.
  induction n as [n IH] using size_induction. intros W.
  rewrite pre_unfold. rewrite <- (work_direct_exact ct n W).
  assert (G : forall l, (forall t, In t l -> In t (direct_infos n)) ->
     length (flat_map (pre_info (fun _ => false) (fun _ => true)) l) = work l).
  { induction l as [|t l IHl]; intros Hsub; [reflexivity|].
    cbn [flat_map]. rewrite app_length, IHl by (intros; apply Hsub; simpl; auto).
    unfold work at 2. simpl. fold (work l). f_equal.
    unfold pre_info, keep. simpl.
    assert (Ht : In t (direct_infos n)) by (apply Hsub; simpl; auto).
    rewrite IH; [|now apply direct_smaller|eapply wf_direct; eauto].
    pose proof (size_pos (ti_node t)). lia. }
  apply G. auto.
Qed.

(* gather = the pre-order stream restricted to the class filter and the extra filter *)
Theorem gather_spec ct classes exact extra prune n : wf_node ct n = true ->
  gather ct (size n) classes exact extra prune n =
  Some (map ti_node (pre prune (fun ti => class_filter ct classes exact ti && extra ti) n)).
Proof. intros W. unfold gather. rewrite dfs_pre by auto. reflexivity. Qed.
