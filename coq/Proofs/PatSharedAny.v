(* C08, D9 before its repair: AnyMatcher was a process-wide singleton (AnyMatcher.__new__ returned one object and the
   dataclass __init__ overwrote its name), so every "@f", "@f -> c", "*" and "* -> t" of every compiled pattern was
   the same object carrying the capture name of the LAST one constructed.  The one mutable cell is modelled by its
   final content: [anys] lists the names given to AnyMatcher in construction order (= left to right, rule by rule),
   [share o] makes every AnyMatcher of a matcher read the cell [o]. *)
From Oak Require Import Model.Pattern Spec.PatSem Proofs.PatternProofs.
From Coq Require Import List Bool.
Import ListNotations.

Fixpoint anys (m : matcher) : list (option pystr) :=
  match m with
  | MAny n => [n]
  | MSeq _ ms tail => flat_map anys ms ++ (match tail with Some t => anys t | None => [] end)
  | MNode _ _ content => flat_map (fun fc => anys (snd fc)) content
  | _ => []
  end.
Fixpoint share (o : option pystr) (m : matcher) : matcher :=
  match m with
  | MAny _ => MAny o
  | MSeq n ms tail => MSeq n (map (share o) ms) (match tail with Some t => Some (share o t) | None => None end)
  | MNode n ty content => MNode n ty (map (fun fc => (fst fc, share o (snd fc))) content)
  | other => other
  end.
(* the rules of a MultiPatternMatcher after all of them were compiled (fresh cache) under the singleton *)
Definition shared_rules (crules : list (pystr * matcher)) : list (pystr * matcher) :=
  match rev (flat_map (fun r => anys (snd r)) crules) with
  | [] => crules
  | cell :: _ => map (fun r => (fst r, share cell (snd r))) crules
  end.

Definition d9_rules : list (pystr * pat) :=
  [(lit "r1", PTree (Some [lit "A"]) [(lit "x", FAny (Some (lit "v")))]); (lit "r2", PTree (Some [lit "B"]) [(lit "x", FAny None)])].
Definition d9_rules2 : list (pystr * pat) :=
  [(lit "r1", PTree (Some [lit "B"]) [(lit "x", FAny None)]); (lit "r2", PTree (Some [lit "A"]) [(lit "x", FAny (Some (lit "w")))])].
Definition compile_rules (rules : list (pystr * pat)) : list (pystr * matcher) :=
  flat_map (fun r => match compile wit_ct (fun _ => true) true (snd r) with inl m => [(fst r, m)] | inr _ => [] end) rules.

(* the capture v of the first rule is dropped; a rule without captures captures under the name of a later rule *)
Lemma refuted_D9_shared_any :
  compiled wit_ct (fun _ => true) d9_rules (compile_rules d9_rules) /\
  multi_match idH wit_ct any_re no_repr true (shared_rules (compile_rules d9_rules)) (XN (nA 1 "a")) = Some (lit "r1", ROk []) /\
  pm_multi idH wit_ct any_re no_repr d9_rules (XN (nA 1 "a")) = Some (lit "r1", ROk [(lit "v", XP (VStr (lit "a")))]) /\
  multi_match idH wit_ct any_re no_repr true (compile_rules d9_rules) (XN (nA 1 "a")) = Some (lit "r1", ROk [(lit "v", XP (VStr (lit "a")))]) /\
  multi_match idH wit_ct any_re no_repr true (shared_rules (compile_rules d9_rules2)) (XN (nB 1 "b"))
    = Some (lit "r1", ROk [(lit "w", XP (VStr (lit "b")))]) /\
  pm_multi idH wit_ct any_re no_repr d9_rules2 (XN (nB 1 "b")) = Some (lit "r1", ROk []).
Proof.
  split; [repeat constructor|]. vm_compute. repeat split; reflexivity.
Qed.
