(* C01, soundness direction and independence: content-equal nodes have one content_id, for every digest H. *)
From Oak Require Import Spec.CEq Proofs.AccessProofs Proofs.TraverseProofs.
From Coq Require Import Sorted.

(* ================= order facts on strings ================= *)
Lemma pystr_leb_refl a : pystr_leb a a = true.
Proof. induction a as [|x a IH]; simpl; auto. rewrite Nat.ltb_irrefl. exact IH. Qed.

Lemma nat_of_ascii_inj x y : nat_of_ascii x = nat_of_ascii y -> x = y.
Proof. intros E. rewrite <- (ascii_nat_embedding x), <- (ascii_nat_embedding y), E. reflexivity. Qed.

Lemma pystr_leb_antisym a b : pystr_leb a b = true -> pystr_leb b a = true -> a = b.
Proof.
  revert b. induction a as [|x a IH]; intros [|y b]; simpl; try discriminate; auto.
  destruct (Nat.ltb_spec (nat_of_ascii x) (nat_of_ascii y)) as [L1|L1];
    destruct (Nat.ltb_spec (nat_of_ascii y) (nat_of_ascii x)) as [L2|L2]; try discriminate; try lia.
  intros H1 H2. assert (x = y) by (apply nat_of_ascii_inj; lia). subst. f_equal. auto.
Qed.

Lemma pystr_leb_trans a b c : pystr_leb a b = true -> pystr_leb b c = true -> pystr_leb a c = true.
Proof.
  revert b c. induction a as [|x a IH]; intros [|y b] [|z c]; simpl; try discriminate; auto.
  destruct (Nat.ltb_spec (nat_of_ascii x) (nat_of_ascii y)) as [L1|L1];
    destruct (Nat.ltb_spec (nat_of_ascii y) (nat_of_ascii z)) as [L2|L2];
    destruct (Nat.ltb_spec (nat_of_ascii x) (nat_of_ascii z)) as [L3|L3]; auto; try lia;
    destruct (Nat.ltb_spec (nat_of_ascii y) (nat_of_ascii x)) as [L4|L4]; try discriminate; try lia;
    destruct (Nat.ltb_spec (nat_of_ascii z) (nat_of_ascii y)) as [L5|L5]; try discriminate; try lia;
    destruct (Nat.ltb_spec (nat_of_ascii z) (nat_of_ascii x)) as [L6|L6]; try discriminate; try lia.
  apply IH.
Qed.

(* ================= sorting is a function of the multiset ================= *)
Section SortUnique.
  Context {A : Type} (leb : A -> A -> bool).
  Hypothesis total : forall a b, leb a b = false -> leb b a = true.
  Hypothesis trans : forall a b c, leb a b = true -> leb b c = true -> leb a c = true.
  Hypothesis antisym : forall a b, leb a b = true -> leb b a = true -> a = b.

  Lemma insert_comm x y l :
    insert_sorted leb x (insert_sorted leb y l) = insert_sorted leb y (insert_sorted leb x l).
  Proof.
    induction l as [|z l IH]; cbn [insert_sorted].
    - destruct (leb x y) eqn:Exy, (leb y x) eqn:Eyx; auto.
      + rewrite (antisym x y); auto.
      + apply total in Exy. congruence.
    - destruct (leb y z) eqn:Eyz, (leb x z) eqn:Exz; cbn [insert_sorted]; rewrite ?Eyz, ?Exz.
      + destruct (leb x y) eqn:Exy, (leb y x) eqn:Eyx; auto.
        * rewrite (antisym x y); auto.
        * apply total in Exy. congruence.
      + destruct (leb x y) eqn:Exy; auto.
        rewrite (trans x y z) in Exz; auto. discriminate.
      + destruct (leb y x) eqn:Eyx; auto.
        rewrite (trans y x z) in Eyz; auto. discriminate.
      + rewrite IH. reflexivity.
  Qed.

  Lemma isort_perm_eq l l' : Permutation l l' -> isort leb l = isort leb l'.
  Proof.
    induction 1 as [| x l l' _ IH | x y l | l l' l'' _ IH1 _ IH2]; simpl; auto.
    - now rewrite IH.
    - apply insert_comm.
    - congruence.
  Qed.
End SortUnique.

Lemma isort_strings_perm l l' : Permutation l l' -> isort pystr_leb l = isort pystr_leb l'.
Proof.
  apply isort_perm_eq.
  - apply pystr_leb_total.
  - apply pystr_leb_trans.
  - apply pystr_leb_antisym.
Qed.

(* ================= values ================= *)
Lemma veq_ind' (P : pval -> pval -> Prop) :
  P VNone VNone -> (forall b, P (VBool b) (VBool b)) -> (forall z, P (VInt z) (VInt z)) ->
  (forall s, P (VStr s) (VStr s)) ->
  (forall c m p, P (VEnum c m p) (VEnum c m p)) ->
  (forall r, P (VFloat r) (VFloat r)) -> (forall p, P (VPath p) (VPath p)) ->
  (forall l l', Forall2 veq l l' -> Forall2 P l l' -> P (VTuple l) (VTuple l')) ->
  (forall l l' l'', Permutation l' l'' -> Forall2 veq l l'' -> Forall2 P l l'' -> P (VFset l) (VFset l')) ->
  forall v v', veq v v' -> P v v'.
Proof.
  intros H1 H2 H3 H4 H5 H6 H7 H8 H9. fix IH 3. intros v v' H.
  destruct H as [| | | | | | | l l' Hl | l l' l'' Hp Hl].
  - apply H1.
  - apply H2.
  - apply H3.
  - apply H4.
  - apply H5.
  - apply H6.
  - apply H7.
  - apply H8; auto.
    revert l l' Hl. fix go 3. intros l l' Hl.
    destruct Hl; constructor; [apply IH; assumption | apply go; assumption].
  - apply (H9 l l' l''); auto. clear Hp.
    revert l l'' Hl. fix go 3. intros l l'' Hl.
    destruct Hl; constructor; [apply IH; assumption | apply go; assumption].
Qed.

Lemma Forall2_map_eq {A B C} (f : A -> C) (g : B -> C) l l' : Forall2 (fun a b => f a = g b) l l' -> map f l = map g l'.
Proof. induction 1; simpl; congruence. Qed.

Lemma Forall2_impl {A B} (R S : A -> B -> Prop) l l' : (forall a b, R a b -> S a b) -> Forall2 R l l' -> Forall2 S l l'.
Proof. intros HRS. induction 1; constructor; auto. Qed.

Lemma Forall2_singleton {A B} (R : A -> B -> Prop) l l' (x y : pystr) : Forall2 R l l' ->
  (match l with [_] => x | _ => y end) = (match l' with [_] => x | _ => y end).
Proof. intros H. destruct H as [|a b l l' _ H]; auto. destruct H; auto. Qed.

(* equal values have the same type tag, the same stable repr and the same stable str *)
Definition same_render (v v' : pval) : Prop :=
  tytag v = tytag v' /\ stable_repr v = stable_repr v' /\ stable_str v = stable_str v'.

Lemma veq_same_render v v' : veq v v' -> same_render v v'.
Proof.
  intros H. induction H as [| | | | | | | l l' Hl IH | l l' l'' Hp Hl IH] using veq_ind'; unfold same_render; auto.
  - assert (E : map stable_repr l = map stable_repr l').
    { apply Forall2_map_eq. apply (Forall2_impl same_render); [|exact IH]. intros a b (_ & E & _). exact E. }
    assert (R : stable_repr (VTuple l) = stable_repr (VTuple l')).
    { cbn [stable_repr]. rewrite E. erewrite (Forall2_singleton _ l l'); [reflexivity | exact Hl]. }
    repeat split; auto.
  - assert (E : map stable_repr l = map stable_repr l'').
    { apply Forall2_map_eq. apply (Forall2_impl same_render); [|exact IH]. intros a b (_ & E & _). exact E. }
    assert (R : stable_repr (VFset l) = stable_repr (VFset l')).
    { cbn [stable_repr]. rewrite E.
      rewrite (isort_strings_perm (map stable_repr l'') (map stable_repr l')); auto.
      apply Permutation_map. now apply Permutation_sym. }
    repeat split; auto.
Qed.

Lemma veq_refl v : veq v v.
Proof.
  revert v. fix IH 1. intros v. destruct v; try constructor.
  - induction l; constructor; auto.
  - apply (veq_fset l l l); auto. induction l; constructor; auto.
Qed.

(* ================= views of the child fields ================= *)
Definition map_view {A B} (g : A -> B) (ks : list (pystr * (kshape * list A))) : list (pystr * (kshape * list B)) :=
  map (fun k => (fst k, (fst (snd k), map g (snd (snd k))))) ks.

Lemma assoc_map_view {A B} (g : A -> B) ks f :
  assoc f (map_view g ks) = option_map (fun v => (fst v, map g (snd v))) (assoc f ks).
Proof. induction ks as [|[n [sh l]] ks IH]; simpl; auto. destruct (pystr_eqb n f); auto. Qed.

Lemma number_from_map {A B} (g : A -> B) l i :
  number_from i (map g l) = map (fun p => (g (fst p), snd p)) (number_from i l).
Proof. revert i; induction l; simpl; intros; f_equal; auto. Qed.

Lemma field_children_map {A B} (g : A -> B) sh l :
  field_children (sh, map g l) = map (fun ci => (g (fst ci), snd ci)) (field_children (sh, l)).
Proof.
  destruct sh; simpl; auto.
  - destruct l; simpl; auto.
  - rewrite number_from_map, !map_map. reflexivity.
Qed.

Lemma edges_view_map {A B} (g : A -> B) fs ks :
  edges_view fs (map_view g ks) = map (fun e => (g (fst (fst e)), snd (fst e), snd e)) (edges_view fs ks).
Proof.
  unfold edges_view. induction fs as [|f fs IH]; simpl; auto.
  rewrite map_app, IH. f_equal.
  unfold field_value. rewrite assoc_map_view. destruct (assoc (fd_name f) ks) as [[sh l]|]; cbn [option_map fst snd]; [|reflexivity].
  rewrite field_children_map, !map_map. reflexivity.
Qed.

Section Sound.
  Variable H : pystr -> pystr.
  Variable ct : ctable.
  Variable vr : variant.
  Hypothesis stable : v_stable vr = true.

  (* the child part of the content preimage reads the children through their content ids only *)
  Definition kids_cid_only (c : pystr) (kv : list (pystr * (kshape * list pystr))) : pystr :=
    flat_map (fun e => match e with (d, f, i) => lit ":" ++ f ++ lit "[" ++ ridx i ++ lit "]=" ++ d end)
             (edges_view (kid_fields ct c true) kv).

  Lemma kids_cid_data_view c (kd : kid_digests) : kids_cid_data ct c kd = kids_cid_only c (map_view fst kd).
  Proof.
    unfold kids_cid_data, kids_cid_only. rewrite edges_view_map.
    rewrite (flat_map_concat_map _ (map _ _)), map_map, <- flat_map_concat_map.
    apply flat_map_ext. intros [[d f] i]. reflexivity.
  Qed.

  Lemma digests_view n : map_view fst (digests_of H ct vr n) = map_view (content_id H ct vr) (nkids n).
  Proof.
    unfold digests_of, map_view. rewrite map_map. apply map_ext. intros [f [sh l]]. simpl.
    rewrite map_map. reflexivity.
  Qed.

  Lemma content_id_unfold n :
    content_id H ct vr n = H (cls n ++ props_data ct vr true (cls n) (nprops n)
                                    ++ kids_cid_only (cls n) (map_view (content_id H ct vr) (nkids n))).
  Proof.
    destruct n as [a c o ps ks]. cbn [content_id cls nprops nkids]. unfold cid_data_of.
    rewrite kids_cid_data_view. f_equal. f_equal. f_equal. f_equal.
    unfold map_view. rewrite map_map. apply map_ext. intros [f [sh l]]. simpl. rewrite map_map. reflexivity.
  Qed.

  (* ---------- properties ---------- *)
  Lemma enc_field_comparable c f : In f (get_properties_fields true ct c enc_flags true) -> In f (comparable ct c).
  Proof.
    unfold get_properties_fields. rewrite filter_In. intros [Hin Hy].
    apply (Permutation_in _ (Permutation_sym (isort_perm by_name (all_props ct c)))) in Hin.
    unfold comparable. rewrite filter_In.
    unfold yields in Hy.
    destruct (pystr_eqb (fd_name f) (lit "id")) eqn:E1; [discriminate|].
    destruct (pystr_eqb (fd_name f) (lit "content_id")) eqn:E2; [discriminate|].
    destruct (pystr_eqb (fd_name f) (lit "origin")) eqn:E3; [discriminate|].
    cbn [enc_flags skip_non_compare skip_non_init negb] in Hy.
    unfold all_props in Hin. simpl in Hin.
    destruct Hin as [<-|[<-|[<-|Hin]]]; try (simpl in *; discriminate).
    split; auto. destruct (fd_compare f); auto.
  Qed.

  Lemma props_data_eq c ps ps' : props_eq ct c ps ps' -> props_data ct vr true c ps = props_data ct vr true c ps'.
  Proof.
    intros Hp. unfold props_data, enc_props.
    assert (G : forall fs, (forall f, In f fs -> In f (comparable ct c)) ->
      flat_map (fun p => prop_piece vr true (fst p) (snd p))
        (flat_map (fun f => match assoc (fd_name f) ps with Some v => [(fd_name f, v)] | None => [] end) fs) =
      flat_map (fun p => prop_piece vr true (fst p) (snd p))
        (flat_map (fun f => match assoc (fd_name f) ps' with Some v => [(fd_name f, v)] | None => [] end) fs)).
    { induction fs as [|f fs IH]; intros Hs; [reflexivity|].
      cbn [flat_map]. rewrite !flat_map_app, IH by (intros; apply Hs; simpl; auto). f_equal.
      specialize (Hp f (Hs f (or_introl eq_refl))).
      destruct (assoc (fd_name f) ps) as [v|], (assoc (fd_name f) ps') as [v'|]; try tauto.
      apply veq_same_render in Hp as (Ht & _ & Hs').
      simpl. rewrite !app_nil_r. unfold prop_piece, render. rewrite stable, Ht, Hs'. reflexivity. }
    apply G. intros f. apply enc_field_comparable.
  Qed.

  (* ---------- nodes ---------- *)
  Theorem ceq_sound : forall a b, ceq ct a b -> content_id H ct vr a = content_id H ct vr b.
  Proof.
    induction a as [a IH] using size_induction. intros b Hc.
    rewrite (content_id_unfold a), (content_id_unfold b).
    destruct a as [aa c o ps ks], b as [ab c' o' ps' ks']. cbn [cls nprops nkids].
    cbn [ceq] in Hc. destruct Hc as (<- & Hp & Hk).
    rewrite (props_data_eq c ps ps' Hp). f_equal. f_equal. f_equal. f_equal.
    assert (Hsz : forall k, In k ks -> forall x, In x (snd (snd k)) -> size x < size (Node aa c o ps ks)).
    { intros k Hk' x Hx. simpl. apply Nat.lt_succ_r.
      clear -Hk' Hx. induction ks as [|k0 ks IHk]; [destruct Hk'|]. simpl.
      destruct Hk' as [->|Hk'].
      - assert (size x <= list_sum (map size (snd (snd k)))).
        { clear -Hx. induction (snd (snd k)) as [|y l IHl]; [destruct Hx|]. simpl. destruct Hx as [->|Hx]; [lia|]. specialize (IHl Hx). lia. }
        lia.
      - specialize (IHk Hk'). lia. }
    assert (IH' : forall k, In k ks -> forall x, In x (snd (snd k)) -> forall y, ceq ct x y -> content_id H ct vr x = content_id H ct vr y).
    { intros k Hk' x Hx y Hxy. apply IH; auto. eapply Hsz; eauto. }
    clear IH Hsz Hp. revert ks' Hk IH'.
    induction ks as [|[f [sh l]] ks IHks]; intros [|[f' [sh' l']] ks'] Hk IH'; try tauto; try reflexivity.
    destruct Hk as (<- & <- & Hl & Hr). unfold map_view. cbn [map fst snd]. f_equal.
    - f_equal. f_equal.
      assert (IHl : forall x, In x l -> forall y, ceq ct x y -> content_id H ct vr x = content_id H ct vr y).
      { intros x Hx. apply (IH' (f, (sh, l))); simpl; auto. }
      clear IH' IHks Hr. revert l' Hl IHl. induction l as [|x l IHl']; intros [|y l'] Hl IHl; try tauto; try reflexivity.
      destruct Hl as [Hxy Hl]. simpl. f_equal.
      + apply IHl; simpl; auto.
      + apply IHl'; auto. intros z Hz. apply IHl. simpl; auto.
    - apply IHks; auto. intros k Hk'. apply IH'. simpl; auto.
  Qed.
End Sound.

(* ================= independence ================= *)
Section Indep.
  Variable H : pystr -> pystr.
  Variable ct : ctable.
  Variable vr : variant.
  Hypothesis stable : v_stable vr = true.

  Lemma props_eq_refl c ps : props_eq ct c ps ps.
  Proof. intros f _. destruct (assoc (fd_name f) ps); auto using veq_refl. Qed.

  (* object identities and origins, anywhere in the tree, never influence the content id *)
  Fixpoint retag (fa : nat -> nat) (fo : origin -> origin) (n : node) : node :=
    match n with
    | Node a c o ps ks =>
      Node (fa a) c (fo o) ps (map (fun k => (fst k, (fst (snd k), map (retag fa fo) (snd (snd k))))) ks)
    end.

  Lemma ceq_retag fa fo n : ceq ct n (retag fa fo n).
  Proof.
    induction n as [n IH] using size_induction.
    destruct n as [a c o ps ks]. cbn [retag ceq]. split; [reflexivity|]. split; [apply props_eq_refl|].
    assert (IH' : forall k, In k ks -> forall x, In x (snd (snd k)) -> ceq ct x (retag fa fo x)).
    { intros k Hk x Hx. apply IH. simpl. apply Nat.lt_succ_r.
      clear -Hk Hx. induction ks as [|k0 ks IHk]; [destruct Hk|]. simpl. destruct Hk as [->|Hk].
      - assert (size x <= list_sum (map size (snd (snd k)))).
        { clear -Hx. induction (snd (snd k)) as [|y l IHl]; [destruct Hx|]. simpl. destruct Hx as [->|Hx]; [lia|]. specialize (IHl Hx). lia. }
        lia.
      - specialize (IHk Hk). lia. }
    clear IH. induction ks as [|[f [sh l]] ks IHks]; cbn [map fst snd]; auto.
    repeat split; auto.
    - assert (IHl : forall x, In x l -> ceq ct x (retag fa fo x)) by (intros x Hx; apply (IH' (f, (sh, l))); simpl; auto).
      clear IH' IHks. induction l as [|x l IHl']; cbn [map]; auto. split; [apply IHl; simpl; auto|].
      apply IHl'. intros y Hy. apply IHl. simpl; auto.
    - apply IHks. intros k Hk. apply IH'. simpl; auto.
  Qed.

  Theorem indep_origin_identity fa fo n : content_id H ct vr (retag fa fo n) = content_id H ct vr n.
  Proof. symmetry. apply ceq_sound; auto. apply ceq_retag. Qed.

  Lemma ceq_refl n : ceq ct n n.
  Proof.
    assert (E : retag (fun a => a) (fun o => o) n = n).
    { induction n as [n IH] using size_induction. destruct n as [a c o ps ks]. cbn [retag]. f_equal.
      assert (IH' : forall k, In k ks -> forall x, In x (snd (snd k)) -> retag (fun a => a) (fun o => o) x = x).
      { intros k Hk x Hx. apply IH. simpl. apply Nat.lt_succ_r.
        clear -Hk Hx. induction ks as [|k0 ks IHk]; [destruct Hk|]. simpl. destruct Hk as [->|Hk].
        - assert (size x <= list_sum (map size (snd (snd k)))).
          { clear -Hx. induction (snd (snd k)) as [|y l IHl]; [destruct Hx|]. simpl. destruct Hx as [->|Hx]; [lia|]. specialize (IHl Hx). lia. }
          lia.
        - specialize (IHk Hk). lia. }
      clear IH. induction ks as [|[f [sh l]] ks IHks]; cbn [map fst snd]; auto. f_equal.
      - f_equal. f_equal. assert (IHl : forall x, In x l -> retag (fun a => a) (fun o => o) x = x) by (intros x Hx; apply (IH' (f, (sh, l))); simpl; auto).
        clear IH' IHks. induction l as [|x l IHl']; cbn [map]; auto. f_equal; [apply IHl; simpl; auto|]. apply IHl'. intros y Hy. apply IHl. simpl; auto.
      - apply IHks. intros k Hk. apply IH'. simpl; auto. }
    rewrite <- E at 2. apply ceq_retag.
  Qed.

  (* non-comparable properties never influence the content id *)
  Theorem indep_noncompare a a' c o o' ps ps' ks :
    (forall f, In f (comparable ct c) -> assoc (fd_name f) ps = assoc (fd_name f) ps') ->
    content_id H ct vr (Node a c o ps ks) = content_id H ct vr (Node a' c o' ps' ks).
  Proof.
    intros Hps. apply ceq_sound; auto.
    pose proof (ceq_refl (Node a c o ps ks)) as R. cbn [ceq] in R |- *. destruct R as (_ & _ & R).
    split; auto. split; auto.
    intros f Hf. rewrite <- (Hps f Hf). destruct (assoc (fd_name f) ps); auto using veq_refl.
  Qed.

  (* is_equal is class identity plus content id *)
  Theorem is_equal_char a b :
    is_equal H ct vr a b = true <-> cls a = cls b /\ content_id H ct vr a = content_id H ct vr b.
  Proof. unfold is_equal. rewrite andb_true_iff, !pystr_eqb_eq. tauto. Qed.

  Theorem is_equal_sound a b : ceq ct a b -> is_equal H ct vr a b = true.
  Proof.
    intros Hc. apply is_equal_char. split; [|now apply ceq_sound].
    destruct a, b. cbn [ceq] in Hc. simpl. tauto.
  Qed.
End Indep.

(* ================= the pre-repair encodings, refuted ================= *)
Definition d1_ct : ctable :=
  [ {| cd_name := lit "Leaf"; cd_bases := [];
       cd_own := [ {| fd_name := lit "a"; fd_role := RProp; fd_compare := true; fd_init := true; fd_kwonly := false |};
                   {| fd_name := lit "b"; fd_role := RProp; fd_compare := true; fd_init := true; fd_kwonly := false |} ] |} ].
Definition d1_a : node := Node 0 (lit "Leaf") ONo [(lit "a", VStr (lit "1):b=<class 'str'>(2")); (lit "b", VStr (lit "3"))] [].
Definition d1_b : node := Node 1 (lit "Leaf") ONo [(lit "a", VStr (lit "1")); (lit "b", VStr (lit "2):b=<class 'str'>(3"))] [].

(* D1: with unframed values two nodes that are not content-equal have the same preimage, hence the same
   content_id for every digest; the framed encoding separates them *)
Lemma refuted_unframed :
  ~ ceq d1_ct d1_a d1_b
  /\ (forall H, content_id H d1_ct legacy_enc d1_a = content_id H d1_ct legacy_enc d1_b)
  /\ cid_data (fun x => x) d1_ct current d1_a <> cid_data (fun x => x) d1_ct current d1_b.
Proof.
  split; [|split].
  - intros (_ & Hp & _).
    specialize (Hp {| fd_name := lit "a"; fd_role := RProp; fd_compare := true; fd_init := true; fd_kwonly := false |}).
    assert (Hin : In {| fd_name := lit "a"; fd_role := RProp; fd_compare := true; fd_init := true; fd_kwonly := false |}
                     (comparable d1_ct (lit "Leaf"))) by (vm_compute; auto).
    specialize (Hp Hin). vm_compute in Hp. inversion Hp.
  - intros H. unfold content_id, d1_a, d1_b. f_equal.
  - vm_compute. discriminate.
Qed.

(* D2: str() of a frozenset depends on the iteration order; the stable rendering does not *)
Lemma refuted_set_order :
  veq (VFset [VInt 8; VInt 16; VInt 0]) (VFset [VInt 16; VInt 8; VInt 0])
  /\ render legacy_enc (VFset [VInt 8; VInt 16; VInt 0]) <> render legacy_enc (VFset [VInt 16; VInt 8; VInt 0])
  /\ render current (VFset [VInt 8; VInt 16; VInt 0]) = render current (VFset [VInt 16; VInt 8; VInt 0]).
Proof.
  split; [|split].
  - apply (veq_fset _ _ [VInt 8; VInt 16; VInt 0]); [apply perm_swap | repeat constructor].
  - vm_compute. discriminate.
  - vm_compute. reflexivity.
Qed.
