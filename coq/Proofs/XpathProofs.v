(* Proofs for C07.  Part 1 (chains): the bottom-up recursion of _match_node_xpath (M) and the top-down recursion
   findall's work list collapses to (G) both decide the two-rule relation R of Spec/PathSem.v (port of the round-0
   sketch notes/sketches/Xp.v).  Part 2: match over the Tree model = M on the node's chain.  Part 3: the work-list
   loop with the synthetic root = R on the chains of the tree's nodes. *)
From Oak Require Import Spec.PathSem Proofs.TraverseProofs Proofs.TreeQProofs.
From Coq Require Import Lia.

Section Chains.
  Variable ct : ctable.
  Notation el := element.
  Notation match_el p e := (sat ct p e).
  Notation R := (PathSem.R ct).

  (* ---- findall, seen from one chain: top-down, root-first (work list collapsed onto the chain) ---- *)
  Fixpoint G (es : list el) (ps : list pos) {struct es} : bool :=
    match es with
    | [] => match ps with [] => true | _ => false end
    | e :: es' =>
      (fix scan (ps : list pos) : bool :=
         match ps with
         | [] => false
         | p :: rest => (match_el p e && G es' rest) || (e_any e && scan rest)
         end) ps
    end.

  Lemma G_R es : forall ps, G es ps = true <-> R es ps.
  Proof.
    induction es as [|e es IH]; intros ps.
    - destruct ps; simpl; split; intro H; try constructor; try discriminate; inversion H.
    - induction ps as [|p rest IHp].
      + simpl. split; intro H; [discriminate|inversion H].
      + change (G (e :: es) (p :: rest)) with ((match_el p e && G es rest) || (e_any e && G (e :: es) rest)).
        rewrite orb_true_iff, !andb_true_iff, IH, IHp. split.
        * intros [[Hm Hr]|[Ha Hr]]; [now apply R_step | now apply R_skip].
        * intro H; inversion H; subst; auto.
  Qed.

  (* ---- match(): bottom-up, leaf-first lists (elements reversed, chain reversed) ---- *)
  Definition is_nil {A} (l : list A) := match l with [] => true | _ => false end.
  Fixpoint suffixes {A} (l : list A) : list (list A) :=   (* non-empty suffixes = node's ancestors chains *)
    match l with [] => [] | x :: r => (x :: r) :: suffixes r end.

  Fixpoint M (res : list el) (rc : list pos) {struct res} : bool :=
    match res, rc with
    | e :: tail, p :: up =>
      match_el p e &&
      match tail with
      | [] => e_any e || is_nil up
      | _ :: _ => match up with
                  | [] => false
                  | _ :: _ => if e_any e then existsb (fun suf => M tail suf) (suffixes up) else M tail up
                  end
      end
    | _, _ => false
    end.

  (* leaf-first reading of the same semantics *)
  Inductive R' : list el -> list pos -> Prop :=
  | R'_one e p up : match_el p e = true -> (e_any e = true \/ up = []) -> R' [e] (p :: up)
  | R'_cons e e2 tail p up suf :
      match_el p e = true -> In suf (suffixes up) -> (e_any e = true \/ suf = up) ->
      R' (e2 :: tail) suf -> R' (e :: e2 :: tail) (p :: up).

  Lemma suffixes_self {A} (l : list A) : l <> [] -> In l (suffixes l).
  Proof. destruct l; [congruence|simpl; auto]. Qed.


  Lemma M_R' res : forall rc, M res rc = true <-> R' res rc.
  Proof.
    induction res as [|e tail IH]; intros rc.
    - simpl. split; [discriminate|intro H; inversion H].
    - destruct rc as [|p up].
      + simpl. split; [discriminate|intro H; inversion H].
      + cbn [M]. rewrite andb_true_iff. destruct tail as [|e2 tail].
        * rewrite orb_true_iff. split.
          -- intros [Hm [Ha|Hn]]; constructor; auto. right. destruct up; [auto|discriminate].
          -- intro H; inv H. split; auto.
             match goal with Hd : _ \/ _ |- _ => destruct Hd as [Ha| ->]; auto end.
        * destruct up as [|q up].
          -- split; [intros [_ H]; discriminate|]. intro H; inv H.
             match goal with Hi : In _ (suffixes []) |- _ => simpl in Hi; contradiction end.
          -- destruct (e_any e) eqn:Ea.
             ++ rewrite existsb_exists. split.
                ** intros [Hm [suf [Hin Hs]]]. apply IH in Hs. eapply R'_cons; eauto.
                ** intro H; inv H. split; auto. exists suf. split; auto. now apply IH.
             ++ rewrite IH. split.
                ** intros [Hm Hs]. eapply R'_cons with (suf := q :: up); eauto. simpl; auto.
                ** intro H; inv H. split; auto.
                   match goal with Hd : _ \/ _ |- _ => destruct Hd as [Hd| ->]; [congruence|assumption] end.
  Qed.

  (* ---- the two readings coincide: R es ps <-> R' (rev es) (rev ps), for non-empty es ---- *)
  (* snoc view of R *)
  Lemma R_app_skip e es : forall ps p, e_any e = true -> R (e :: es) ps -> R (e :: es) (p :: ps).
  Proof. intros; now apply R_skip. Qed.

  Lemma suffixes_rev_prefix {A} (l suf : list A) :
    In suf (suffixes l) <-> exists pre, l = pre ++ suf /\ suf <> [].
  Proof.
    induction l as [|x l IH]; simpl.
    - split; [tauto|]. intros [pre [E Hn]]. destruct pre; simpl in E; [subst; congruence|discriminate].
    - split.
      + intros [<-|H]. { exists []. split; auto. discriminate. }
        apply IH in H as [pre [-> Hn]]. exists (x :: pre). auto.
      + intros [pre [E Hn]]. destruct pre as [|y pre]; simpl in E.
        * left. auto.
        * injection E as -> ->. right. apply IH. eauto.
  Qed.

  (* inversion lemmas, so that proofs never depend on generated names *)
  Lemma R_nil_inv ps : R [] ps -> ps = [].
  Proof. intro H; inversion H; auto. Qed.
  Lemma R_cons_nil e es : ~ R (e :: es) [].
  Proof. intro H; inversion H. Qed.
  Lemma R_cons_inv e es p rest : R (e :: es) (p :: rest) ->
    (match_el p e = true /\ R es rest) \/ (e_any e = true /\ R (e :: es) rest).
  Proof. intro H; inversion H; subst; auto. Qed.

  (* R, last element / last position exposed *)
  Lemma R_snoc_one e : forall ps p, R [e] (ps ++ [p]) <-> match_el p e = true /\ (e_any e = true \/ ps = []).
  Proof.
    induction ps as [|q ps IH]; intros p; simpl.
    - split.
      + intro H. apply R_cons_inv in H as [[Hm _]|[_ Hr]]; [auto|]. now apply R_cons_nil in Hr.
      + intros [Hm _]. apply R_step; auto. constructor.
    - split.
      + intro H. apply R_cons_inv in H as [[Hm Hr]|[Ha Hr]].
        * apply R_nil_inv in Hr. destruct ps; discriminate.
        * apply IH in Hr as [Hm _]. auto.
      + intros [Hm [Ha|Hn]]; [|discriminate]. apply R_skip; auto. apply IH. auto.
  Qed.

  Lemma R_snoc es : forall e0 e ps p,
    R ((e0 :: es) ++ [e]) (ps ++ [p]) <->
    match_el p e = true /\ exists ps1 ps2, ps = ps1 ++ ps2 /\ ps1 <> [] /\ (e_any e = true \/ ps2 = []) /\ R (e0 :: es) ps1.
  Proof.
    induction es as [|e1 es IH]; intros e0 e ps p.
    - (* two elements e0, e *)
      simpl. revert p. induction ps as [|q ps IHp]; intros p; simpl.
      + split.
        * intro H. apply R_cons_inv in H as [[_ Hr]|[_ Hr]]; now apply R_cons_nil in Hr.
        * intros [_ [ps1 [ps2 [E [Hn _]]]]]. destruct ps1; [congruence|discriminate].
      + split.
        * intro H. apply R_cons_inv in H as [[Hm0 Hr]|[Ha Hr]].
          -- apply R_snoc_one in Hr as [Hm Hd]. split; auto.
             exists [q], ps. repeat split; auto; try discriminate. apply R_step; auto. constructor.
          -- apply IHp in Hr as [Hm [ps1 [ps2 [-> [Hn [Hd Hr]]]]]]. split; auto.
             exists (q :: ps1), ps2. repeat split; auto; try discriminate. now apply R_skip.
        * intros [Hm [ps1 [ps2 [E [Hn [Hd Hr]]]]]]. destruct ps1 as [|q' ps1]; [congruence|].
          simpl in E. injection E as <- ->.
          apply R_cons_inv in Hr as [[Hm0 Hr]|[Ha Hr]].
          -- apply R_nil_inv in Hr. subst ps1. simpl. apply R_step; auto. apply R_snoc_one. auto.
          -- apply R_skip; auto. apply IHp. split; auto. exists ps1, ps2. repeat split; auto.
             intro; subst. now apply R_cons_nil in Hr.
    - simpl. revert p. induction ps as [|q ps IHp]; intros p; simpl.
      + split.
        * intro H. apply R_cons_inv in H as [[_ Hr]|[_ Hr]]; [|now apply R_cons_nil in Hr].
          destruct es; simpl in Hr; now apply R_cons_nil in Hr.
        * intros [_ [ps1 [ps2 [E [Hn _]]]]]. destruct ps1; [congruence|discriminate].
      + split.
        * intro H. apply R_cons_inv in H as [[Hm0 Hr]|[Ha Hr]].
          -- apply (IH e1 e ps p) in Hr as [Hm [ps1 [ps2 [-> [Hn [Hd Hr]]]]]]. split; auto.
             exists (q :: ps1), ps2. repeat split; auto; try discriminate. now apply R_step.
          -- apply IHp in Hr as [Hm [ps1 [ps2 [-> [Hn [Hd Hr]]]]]]. split; auto.
             exists (q :: ps1), ps2. repeat split; auto; try discriminate. now apply R_skip.
        * intros [Hm [ps1 [ps2 [E [Hn [Hd Hr]]]]]]. destruct ps1 as [|q' ps1]; [congruence|].
          simpl in E. injection E as <- ->.
          apply R_cons_inv in Hr as [[Hm0 Hr]|[Ha Hr]].
          -- apply R_step; auto. apply (IH e1 e). split; auto. exists ps1, ps2. repeat split; auto.
             intro; subst. now apply R_cons_nil in Hr.
          -- apply R_skip; auto. apply IHp. split; auto. exists ps1, ps2. repeat split; auto.
             intro; subst. now apply R_cons_nil in Hr.
  Qed.

  Lemma R'_one_inv e p up : R' [e] (p :: up) -> match_el p e = true /\ (e_any e = true \/ up = []).
  Proof. intro H; inversion H; subst; auto. Qed.
  Lemma R'_cons_inv e e2 tail p up : R' (e :: e2 :: tail) (p :: up) ->
    match_el p e = true /\ exists suf, In suf (suffixes up) /\ (e_any e = true \/ suf = up) /\ R' (e2 :: tail) suf.
  Proof. intro H; inversion H; subst; eauto 6. Qed.
  Lemma R'_nil_r res : ~ R' res [].
  Proof. intro H; inversion H. Qed.

  Lemma rev_nil_inv {A} (l : list A) : rev l = [] -> l = [].
  Proof. intro E. apply (f_equal (@rev A)) in E. now rewrite rev_involutive in E. Qed.

  Theorem R_R' : forall es ps, es <> [] -> (R es ps <-> R' (rev es) (rev ps)).
  Proof.
    intros es. induction es as [|e es IH] using rev_ind; [congruence|]. intros ps _.
    destruct ps as [|p ps] using rev_ind.
    - simpl. split.
      + intro H. destruct es; simpl in H; now apply R_cons_nil in H.
      + intro H. now apply R'_nil_r in H.
    - clear IHps. rewrite !rev_app_distr. simpl.
      destruct es as [|e0 es].
      + simpl. rewrite R_snoc_one. split.
        * intros [Hm Hd]. constructor; auto. destruct Hd as [Ha| ->]; auto.
        * intro H. apply R'_one_inv in H as [Hm [Ha|Hn]]; split; auto.
          right. now apply rev_nil_inv.
      + rewrite R_snoc.
        assert (Hne : e0 :: es <> []) by discriminate.
        destruct (rev (e0 :: es)) as [|e2 tail] eqn:Erev.
        { apply (f_equal (@length el)) in Erev. rewrite rev_length in Erev. discriminate. }
        split.
        * intros [Hm [ps1 [ps2 [-> [Hn [Hd Hr]]]]]].
          apply (IH ps1 Hne) in Hr. rewrite rev_app_distr.
          eapply R'_cons with (suf := rev ps1); eauto.
          -- apply suffixes_rev_prefix. exists (rev ps2). split; auto.
             intro E. now apply rev_nil_inv in E.
          -- destruct Hd as [Ha| ->]; auto.
        * intro H. apply R'_cons_inv in H as [Hm [suf [Hin [Hd Hr]]]]. split; auto.
          apply suffixes_rev_prefix in Hin as [pre [E Hn]].
          exists (rev suf), (rev pre).
          assert (Eps : ps = rev suf ++ rev pre).
          { rewrite <- rev_app_distr, <- E. now rewrite rev_involutive. }
          repeat split; auto.
          -- intro E2. now apply rev_nil_inv in E2.
          -- destruct Hd as [Ha|Hs]; auto. right. subst suf.
             destruct pre; auto. apply (f_equal (@length pos)) in E. rewrite app_length in E. simpl in E. lia.
          -- apply (IH (rev suf) Hne). rewrite rev_involutive. auto.
  Qed.


  Theorem M_rev_R es ps : es <> [] -> (M (rev es) (rev ps) = true <-> R es ps).
  Proof. intro Hn. rewrite M_R'. symmetry. now apply R_R'. Qed.

  (* R with the last element / last position exposed, for any (possibly empty) prefix of elements *)
  Lemma R_snoc_any es e ps p :
    R (es ++ [e]) (ps ++ [p]) <->
    match_el p e = true /\ exists ps1 ps2, ps = ps1 ++ ps2 /\ (e_any e = true \/ ps2 = []) /\ R es ps1.
  Proof.
    destruct es as [|e0 es].
    - simpl. rewrite R_snoc_one. split.
      + intros [Hm Hd]. split; auto. exists [], ps. repeat split; auto. constructor.
      + intros [Hm (ps1 & ps2 & -> & Hd & Hr)]. apply R_nil_inv in Hr. subst. simpl. auto.
    - rewrite R_snoc. split.
      + intros [Hm (ps1 & ps2 & E & Hn & Hd & Hr)]. split; auto. exists ps1, ps2. auto.
      + intros [Hm (ps1 & ps2 & E & Hd & Hr)]. split; auto. exists ps1, ps2. repeat split; auto.
        intro; subst. now apply R_cons_nil in Hr.
  Qed.
End Chains.

(* ================= Part 2: _match_node_xpath over the Tree = M on the node's chain ================= *)
Definition rchain (root : node) (l : list tinfo) : list pos := rev (chain root l).   (* leaf first *)
Lemma rchain_nil root : rchain root [] = [rpos root]. Proof. reflexivity. Qed.
Lemma rchain_snoc root l ti : rchain root (l ++ [ti]) = ipos ti :: rchain root l.
Proof. unfold rchain, chain. rewrite map_app. simpl. rewrite app_comm_cons, rev_app_distr. reflexivity. Qed.
Lemma rchain_nonempty root l : exists q r, rchain root l = q :: r.
Proof.
  destruct l as [|ti l _] using rev_ind.
  - eexists _, _. apply rchain_nil.
  - eexists _, _. apply rchain_snoc.
Qed.

Section MatchTree.
  Variables (ct : ctable) (root : node).
  Hypothesis W : wf_node ct root = true.
  Hypothesis ND : nodup_tree root.
  Variable t : ptree.
  Hypothesis T : is_tree root t.

  Lemma anc_suffixes tail :
    (forall l x, path root l x -> match_node_xpath ct t x tail = Some (Ok (M ct tail (rchain root l)))) ->
    forall l p, path root l p ->
      any_res (fun a => match_node_xpath ct t a tail) (p :: ups l) false
      = Some (Ok (existsb (M ct tail) (suffixes (rchain root l)))).
  Proof.
    intros IHt. induction l as [|ti l IH] using rev_ind; intros p H.
    - rewrite ups_nil, rchain_nil. cbn [any_res suffixes existsb]. rewrite (IHt _ _ H), rchain_nil.
      destruct (M ct tail [rpos root]); reflexivity.
    - rewrite ups_snoc, rchain_snoc. cbn [suffixes existsb]. cbn [any_res]. rewrite (IHt _ _ H), rchain_snoc.
      apply path_snoc_inv in H as (Hp & _ & _).
      destruct (M ct tail (ipos ti :: rchain root l)); [reflexivity|].
      cbn [orb]. now apply IH.
  Qed.

  Lemma match_M : forall els, els <> [] -> forall l x, path root l x ->
    match_node_xpath ct t x els = Some (Ok (M ct els (rchain root l))).
  Proof.
    induction els as [|e tail IH]; intros Hne l x H; [congruence|].
    cbn [match_node_xpath]. rewrite (parent_info_path root ND t T _ _ H).
    destruct l as [|ti l _] using rev_ind.
    - apply path_nil_inv in H. subst x. rewrite plast_nil, rchain_nil. cbn [option_map M].
      unfold sat, rpos. destruct (match_node_element ct root None None e); cbn [negb andb];
        [|reflexivity]. destruct tail; cbn; [now rewrite orb_true_r|reflexivity].
    - rewrite plast_snoc, rchain_snoc. cbn [option_map].
      pose proof H as H'. apply path_snoc_inv in H' as (Hp & _ & ->).
      destruct (rchain_nonempty root l) as (q & r & Eq).
      cbn [M]. unfold sat at 1. unfold ipos at 1.
      destruct (match_node_element ct (ti_node ti) (Some (ti_field ti)) (ti_index ti) e); cbn [negb andb];
        [|reflexivity].
      destruct tail as [|e2 tl].
      + rewrite Eq. cbn. now rewrite orb_false_r.
      + assert (Hn2 : e2 :: tl <> []) by discriminate.
        rewrite Eq. rewrite <- Eq.
        destruct (e_any e).
        * rewrite (ancestors_gen_path root ND t T _ _ H), ups_snoc.
          rewrite (anc_suffixes (e2 :: tl) (IH Hn2) _ _ Hp). reflexivity.
        * now rewrite (IH Hn2 _ _ Hp).
  Qed.
End MatchTree.

Theorem xmatch_M ct root els l x : wf_node ct root = true -> nodup_tree root -> els <> [] -> path root l x ->
  xmatch ct root els x = Some (Ok (M ct (rev els) (rchain root l))).
Proof.
  intros W ND Hne H. unfold xmatch. destruct (build_ok ct root W ND) as (t & -> & T).
  assert (Hin : is_in_tree t x = true) by (apply (in_tree_iff root t T); eauto).
  rewrite Hin. apply (match_M ct root ND t T); auto.
  intro E. apply Hne. apply (f_equal (@rev element)) in E. now rewrite rev_involutive in E.
Qed.

Theorem xmatch_sem ct root els l x : wf_node ct root = true -> nodup_tree root -> els <> [] -> path root l x ->
  exists b, xmatch ct root els x = Some (Ok b) /\ (b = true <-> R ct els (chain root l)).
Proof.
  intros W ND Hne H. eexists. split; [eapply xmatch_M; eauto|]. unfold rchain. now apply M_rev_R.
Qed.

Theorem xmatch_foreign ct root els x : wf_node ct root = true -> nodup_tree root -> foreign root x ->
  xmatch ct root els x = Some ValueError.
Proof.
  intros W ND F. unfold xmatch. destruct (build_ok ct root W ND) as (t & -> & T).
  destruct (foreign_keyerror ct root t T x [] false x false F) as (-> & _). reflexivity.
Qed.

Theorem match_eq_G ct es ps : es <> [] -> M ct (rev es) (rev ps) = G ct es ps.
Proof. intro Hn. apply eq_true_iff_eq. rewrite M_R', G_R. symmetry. now apply R_R'. Qed.

Theorem find_first ct root els : find ct root els = option_map (@hd_error node) (findall ct root els).
Proof. reflexivity. Qed.

(* a well-formed xpath always compiles to a non-empty element list *)
Lemma tx_nonempty rargs : forall acc, acc <> [] -> exists els, tx rargs acc = Some els /\ els <> [].
Proof.
  induction rargs as [|[[pf pi] [c|]] rest IH]; intros acc Hn; simpl.
  - eauto.
  - apply IH. discriminate.
  - destruct acc as [|e r]; [congruence|]. simpl. apply IH. discriminate.
Qed.
Theorem to_elements_ok x : well_formed x = true -> exists els, to_elements x = Some els /\ els <> [].
Proof.
  unfold well_formed, to_elements. intros H.
  rewrite map_app, rev_app_distr. rewrite <- map_rev.
  destruct (rev (xp_steps x)) as [|s r]; [discriminate|]. destruct (st_class s) as [c|] eqn:Ec; [|discriminate].
  simpl. unfold tr_element at 1. rewrite Ec.
  destruct (st_field s), (st_index s); simpl; apply tx_nonempty; discriminate.
Qed.

Lemma c07_inhabited :
  wf_node ex_ct ex_root = true /\ nodup_tree ex_root /\
  R ex_ct [ {| e_cls := lit "P"; e_field := None; e_index := None; e_any := true |};
            {| e_cls := lit "L"; e_field := Some (lit "items"); e_index := Some 2; e_any := false |} ]
       (chain ex_root [ {| ti_node := ex_leaf 6 "L"; ti_parent := ex_root; ti_field := lit "items"; ti_index := Some 2 |} ]).
Proof.
  destruct premises_inhabited as (W & ND & _). repeat split; auto.
  apply R_step; [vm_compute; reflexivity|]. apply R_step; [vm_compute; reflexivity|]. constructor.
Qed.
