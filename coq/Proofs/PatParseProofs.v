(* C17, pattern half: the three entry points agree, the cache does not matter, and a parsed pattern is accepted
   exactly when it is well-formed. *)
From Oak Require Import Model.Pattern Model.PatParse Spec.PatSem Spec.PatWf Proofs.PatternProofs.
From Coq Require Import List Bool Arith.
Import ListNotations.

Section Entry.
  Variable ct : ctable.
  Variable re_ok : pystr -> bool.
  Notation ctext := (compile_text ct re_ok).
  Notation reach ks := (after pystr matcher perr pystr_eqb ctext ks).

  Lemma pystr_keq : forall a b, pystr_eqb a b = true -> a = b.
  Proof. intros a b. apply pystr_eqb_eq. Qed.

  (* cached or not: from_pattern returns what a fresh compilation of the text returns *)
  Lemma recompile_same ks s : snd (from_pattern ct re_ok (reach ks) s) = ctext s.
  Proof. unfold from_pattern. apply history_free. exact pystr_keq. Qed.

  Lemma entry_points_agree ks name s :
    (forall e, validate_pattern ct re_ok s = Some e <-> snd (from_pattern ct re_ok (reach ks) s) = inr e) /\
    (validate_pattern ct re_ok s = None <-> exists m, snd (from_pattern ct re_ok (reach ks) s) = inl m) /\
    (validate_pattern ct re_ok s = None <-> exists l, snd (multi_new ct re_ok (reach ks) [(name, s)]) = inl l) /\
    (forall e, validate_pattern ct re_ok s = Some e <->
               snd (multi_new ct re_ok (reach ks) [(name, s)]) = inr (MIncorrect [(name, e)])).
  Proof.
    pose proof (recompile_same ks s) as Hr. unfold validate_pattern.
    assert (Hm : snd (multi_new ct re_ok (reach ks) [(name, s)]) =
                 match ctext s with inl m => inl [(name, m)] | inr e => inr (MIncorrect [(name, e)]) end).
    { unfold multi_new. simpl. destruct (from_pattern ct re_ok (reach ks) s) as [c1 res] eqn:Ef.
      simpl in Hr. subst res. destruct (ctext s); reflexivity. }
    rewrite Hm, Hr. destruct (ctext s) as [m|e0].
    - repeat split; intros; try discriminate; eauto.
    - repeat split; intros; try discriminate; try congruence;
        try (match goal with Hx : exists _, _ |- _ => destruct Hx as [x Hx]; discriminate end).
  Qed.
End Entry.

(* ------------------------------------------------------------------ accepted = well-formed *)
Section Wf.
  Variable ct : ctable.
  Variable re_ok : pystr -> bool.
  Notation c_pat := (c_pat ct re_ok true).
  Notation c_fspec := (c_fspec ct re_ok true).
  Notation c_vpat := (c_vpat ct re_ok true).
  Notation ev_check := (ev_check ct re_ok).

  Definition agree {A} (r : cres A) (o : option (list pystr)) : Prop :=
    match r, o with
    | COk _ s, Some s' => s = s'
    | CErr _, None => True
    | _, _ => False
    end.

  Lemma ev_check_app a b seen :
    ev_check (a ++ b) seen = match ev_check a seen with Some s => ev_check b s | None => None end.
  Proof.
    revert seen. induction a as [|e a IH]; intros seen; simpl; [reflexivity|].
    destruct e; simpl.
    - destruct (cls_kind ct c) as [[|]|]; auto.
    - destruct (re_ok r); auto.
    - destruct (mem c seen); auto.
    - destruct (mem x seen); auto.
  Qed.

  Lemma classes_events l seen :
    ev_check (map EvCls l) seen = match check_classes ct l with None => Some seen | Some _ => None end.
  Proof.
    induction l as [|c l IH]; simpl; [reflexivity|]. unfold check_class.
    destruct (cls_kind ct c) as [[|]|]; auto.
  Qed.

  Lemma take_capture_agree cap seen : agree (take_capture cap seen) (ev_check (ev_cap cap) seen).
  Proof. destruct cap as [c|]; simpl; [destruct (mem c seen); simpl; auto|reflexivity]. Qed.

  Lemma replace_total m c : mnormal m -> exists m', replace_name true m (Some c) = Some m'.
  Proof.
    destruct m; simpl; eauto. intros Hn. unfold seq_post. destruct tail as [t|].
    - destruct ms; eauto.
    - destruct Hn as [Hc|[Hne Hl]]; [congruence|]. destruct ms; [congruence|]. rewrite Hl. eauto.
  Qed.

  Lemma attach_agree m cap seen : mnormal m -> agree (attach true m cap seen) (ev_check (ev_cap cap) seen).
  Proof.
    intros Hn. unfold attach. destruct cap as [c|]; simpl.
    - destruct (mem c seen); simpl; [exact I|]. destruct (replace_total m c Hn) as [m' ->]. reflexivity.
    - reflexivity.
  Qed.

  Lemma seq_post_normal all : all <> [] -> exists m, seq_post None all None = Some m /\ mnormal m.
  Proof.
    intros Hne. unfold seq_post. destruct all as [|a l]; [congruence|].
    destruct (is_any (last (a :: l) (MAny None))) eqn:E.
    - eexists; split; [reflexivity|]. left; discriminate.
    - eexists; split; [reflexivity|]. right; split; [discriminate|exact E].
  Qed.

  Lemma c_list_agree {A B} (f : A -> list pystr -> cres B) (g : A -> list pev) l :
    Forall (fun x => forall seen, agree (f x seen) (ev_check (g x) seen)) l ->
    forall seen, agree (c_list f l seen) (ev_check (flat_map g l) seen).
  Proof.
    induction 1 as [|x r Hx _ IH]; intros seen; simpl; [reflexivity|].
    rewrite ev_check_app. specialize (Hx seen).
    destruct (f x seen) as [y s1|e]; destruct (ev_check (g x) seen) as [s1'|]; simpl in Hx; try contradiction; [|exact I].
    subst s1'. specialize (IH s1).
    destruct (c_list f r s1) as [ys s2|e]; destruct (ev_check (flat_map g r) s1) as [s2'|]; simpl in IH; try contradiction; simpl; auto.
  Qed.

  (* the shape facts proved with the semantics theorem: values compile to unnamed, non-sequence matchers *)
  Lemma vpat_shape vp seen m seen' : c_vpat vp seen = COk m seen' -> mnormal m.
  Proof.
    intros E.
    destruct (run_sem_vpat_shape ct re_ok vp seen m seen' E) as [_ Hs]. apply simple_normal. exact Hs.
  Qed.

  Definition Apat (p : pat) : Prop := forall seen, agree (c_pat p seen) (ev_check (ev_pat p) seen).
  Definition Afspec (s : fspec) : Prop := forall seen, agree (c_fspec s seen) (ev_check (ev_fspec s) seen).
  Definition Avpat (v : vpat) : Prop := forall seen, agree (c_vpat v seen) (ev_check (ev_vpat v) seen).

  Lemma agree_T cls fs : Forall (fun f => Afspec (snd f)) fs -> Apat (PTree cls fs).
  Proof.
    intros HF seen. rewrite (c_pat_eq ct re_ok). cbn [ev_pat]. rewrite ev_check_app.
    assert (Hc : ev_check (match cls with None => [] | Some l => map EvCls l end) seen =
                 match (match cls with None => None | Some l => check_classes ct l end) with None => Some seen | Some _ => None end).
    { destruct cls; [apply classes_events|reflexivity]. }
    rewrite Hc. destruct (match cls with None => None | Some l => check_classes ct l end); [exact I|].
    match goal with |- context [c_list ?f fs seen] =>
      pose proof (c_list_agree f (fun fs0 : pystr * fspec => ev_fspec (snd fs0)) fs) as HL end.
    assert (HF' : Forall (fun x : pystr * fspec => forall seen0,
                    agree (match c_fspec (snd x) seen0 with CErr e => CErr e | COk m seen1 => COk (fst x, m) seen1 end)
                          (ev_check (ev_fspec (snd x)) seen0)) fs).
    { clear - HF. induction HF as [|x r Hx _ IH]; constructor; auto.
      intros s0. specialize (Hx s0). destruct (c_fspec (snd x) s0); exact Hx. }
    specialize (HL HF' seen).
    match goal with |- context [c_list ?f fs seen] => destruct (c_list f fs seen) end;
      destruct (ev_check (flat_map (fun fs0 : pystr * fspec => ev_fspec (snd fs0)) fs) seen); simpl in *; auto.
  Qed.

  Lemma agree_A cap : Afspec (FAny cap).
  Proof.
    intros seen. rewrite (c_fany_eq ct re_ok). cbn [ev_fspec]. pose proof (take_capture_agree cap seen) as Ht.
    destruct (take_capture cap seen); destruct (ev_check (ev_cap cap) seen); simpl in *; auto.
  Qed.

  Lemma agree_V v cap : Avpat v -> Afspec (FVal v cap).
  Proof.
    intros HV seen. rewrite (c_fval_eq ct re_ok). cbn [ev_fspec]. rewrite ev_check_app. specialize (HV seen).
    destruct (c_vpat v seen) as [m s1|e] eqn:E; destruct (ev_check (ev_vpat v) seen) as [s1'|]; simpl in HV; try contradiction; [|exact I].
    subst s1'. apply attach_agree. eapply vpat_shape; eauto.
  Qed.

  Lemma agree_S items tail cap : Forall (fun i => Avpat (fst i)) items -> Afspec (FSeq items tail cap).
  Proof.
    intros HF seen. rewrite (c_fseq_eq ct re_ok). cbn [ev_fspec]. rewrite !ev_check_app.
    match goal with |- context [c_list ?f items seen] =>
      pose proof (c_list_agree f (fun it : vpat * option pystr => ev_vpat (fst it) ++ ev_cap (snd it)) items) as HL end.
    assert (HF' : Forall (fun x : vpat * option pystr => forall seen0,
                    agree (match c_vpat (fst x) seen0 with CErr e => CErr e | COk m seen1 => attach true m (snd x) seen1 end)
                          (ev_check (ev_vpat (fst x) ++ ev_cap (snd x)) seen0)) items).
    { clear - HF. induction HF as [|x r Hx _ IH]; constructor; auto.
      intros s0. rewrite ev_check_app. specialize (Hx s0).
      destruct (c_vpat (fst x) s0) as [m s1|e] eqn:E; destruct (ev_check (ev_vpat (fst x)) s0) as [s1'|]; simpl in Hx; try contradiction; [|exact I].
      subst s1'. apply attach_agree. eapply vpat_shape; eauto. }
    specialize (HL HF' seen).
    match goal with |- context [c_list ?f items seen] => destruct (c_list f items seen) as [ms s1|e] end;
      destruct (ev_check (flat_map (fun it : vpat * option pystr => ev_vpat (fst it) ++ ev_cap (snd it)) items) seen) as [s1'|];
      simpl in HL; try contradiction; [|exact I].
    subst s1'.
    destruct tail as [tc|].
    - rewrite ev_check_app. pose proof (take_capture_agree tc s1) as Ht.
      destruct (take_capture tc s1) as [n s2|e]; destruct (ev_check (ev_cap tc) s1) as [s2'|]; simpl in Ht; try contradiction; [|exact I].
      subst s2'.
      destruct (ms ++ [MAny n]) as [|a l] eqn:Eapp; [destruct ms; discriminate|].
      destruct (seq_post_normal (a :: l)) as [m [Hp Hn]]; [discriminate|]. rewrite Hp. apply attach_agree. exact Hn.
    - simpl. destruct ms as [|a l].
      + apply attach_agree. exact I.
      + destruct (seq_post_normal (a :: l)) as [m [Hp Hn]]; [discriminate|]. rewrite Hp. apply attach_agree. exact Hn.
  Qed.

  Lemma agree_VT p : Apat p -> Avpat (VTree p).
  Proof. intros HP seen. rewrite (c_vpat_eq ct re_ok). exact (HP seen). Qed.
  Lemma agree_VV x : Avpat (VVar x).
  Proof. intros seen. rewrite (c_vpat_eq ct re_ok). simpl. destruct (mem x seen); simpl; auto. Qed.
  Lemma agree_VN : Avpat VNoneP.
  Proof. intros seen. rewrite (c_vpat_eq ct re_ok). reflexivity. Qed.
  Lemma agree_VR r : Avpat (VRegex r).
  Proof. intros seen. rewrite (c_vpat_eq ct re_ok). simpl. destruct (re_ok r); simpl; auto. Qed.

  Lemma agree_pat p : Apat p.
  Proof. exact (pat_ind' Apat Afspec Avpat agree_T agree_A agree_V agree_S agree_VT agree_VV agree_VN agree_VR p). Qed.

  Theorem accept_iff_wellformed p :
    (exists m, compile ct re_ok true p = inl m) <-> wellformed ct re_ok p = true.
  Proof.
    unfold compile, wellformed. pose proof (agree_pat p []) as Ha.
    destruct (c_pat p []) as [m s|e]; destruct (ev_check (ev_pat p) []) as [s'|]; simpl in Ha; try contradiction.
    - split; eauto.
    - split; [intros [m Hm]; discriminate|discriminate].
  Qed.
End Wf.

(* ------------------------------------------------------------------ totality and sample round trips *)
Lemma pattern_total ct re_ok s : validate_pattern ct re_ok s = None \/ exists e, validate_pattern ct re_ok s = Some e.
Proof. destruct (validate_pattern ct re_ok s); eauto. Qed.

Definition sample_text : pystr := lit "(A|B @x=[(B)->a $a ""r\""s"" None *->t]->c @y @z=$c)".
Definition sample_padded : pystr :=
  [" "%char] ++ lit "( A | B" ++ [ascii_of_nat 10] ++ lit "@ x = [ ( B ) -> a $ a ""r\""s"" None * -> t ] -> c" ++ [ascii_of_nat 9]
  ++ lit "@y @ z = $ c ) ".
Definition sample_ast : pat :=
  PTree (Some [lit "A"; lit "B"])
    [(lit "x", FSeq [(VTree (PTree (Some [lit "B"]) []), Some (lit "a")); (VVar (lit "a"), None);
                     (VRegex (lit "r\""s"), None); (VNoneP, None)] (Some (Some (lit "t"))) (Some (lit "c")));
     (lit "y", FAny None); (lit "z", FVal (VVar (lit "c")) None)].
Lemma sample_parses : parse_pattern sample_text = Some sample_ast /\ parse_pattern sample_padded = Some sample_ast.
Proof. split; vm_compute; reflexivity. Qed.
Lemma sample_rejects :
  parse_pattern (lit "(A @x -> ab_)") = None /\ parse_pattern (lit "(A @x - > v)") = None /\
  parse_pattern (lit "(*|A)") = None /\ parse_pattern (lit "(A @x=""a\"")") = None /\ parse_pattern (lit "(A @x=[[*]])") = None.
Proof. repeat split; vm_compute; reflexivity. Qed.
