From Oak Require Import Model.Equality Spec.CEq Spec.TraverseSpec Proofs.TraverseProofs Proofs.EncodeSound.

(* ================= origin equality is an equivalence ================= *)
Lemma source_ind' (P : source -> Prop) :
  P SNo -> (forall u t, P (SText u t)) -> (forall u r, P (SMem u r)) -> (forall p, P (SFile p)) ->
  (forall l, Forall P l -> P (SSet l)) -> forall s, P s.
Proof.
  intros H1 H2 H3 H4 H5. fix IH 1. intros [| | | |l]; [apply H1|apply H2|apply H3|apply H4|].
  apply H5. revert l. fix go 1. intros [|x l]; constructor; [apply IH|apply go].
Qed.
Lemma origin_ind' (P : origin -> Prop) :
  P ONo -> (forall s r, P (OCode s r)) -> (forall s, P (OGen s)) -> (forall s p, P (OXml s p)) ->
  (forall s, P (OEntire s)) -> (forall l, Forall P l -> P (OMulti l)) -> forall o, P o.
Proof.
  intros H1 H2 H3 H4 H5 H6. fix IH 1. intros [| | | | |l]; [apply H1|apply H2|apply H3|apply H4|apply H5|].
  apply H6. revert l. fix go 1. intros [|x l]; constructor; [apply IH|apply go].
Qed.

Definition list_eqb {A} (p : A -> A -> bool) := fix go (x y : list A) : bool :=
  match x, y with [], [] => true | a :: x', b :: y' => p a b && go x' y' | _, _ => false end.

Lemma source_eqb_set l l' : source_eqb (SSet l) (SSet l') = list_eqb source_eqb l l'.
Proof. reflexivity. Qed.
Lemma origin_eqb_multi l l' : origin_eqb (OMulti l) (OMulti l') = list_eqb origin_eqb l l'.
Proof. reflexivity. Qed.

Section ListEq.
  Context {A : Type} (p : A -> A -> bool).
  Lemma list_eqb_refl l : Forall (fun a => p a a = true) l -> list_eqb p l l = true.
  Proof. induction 1; simpl; auto. rewrite H. auto. Qed.
  Lemma list_eqb_sym l : Forall (fun a => forall b, p a b = p b a) l -> forall l', list_eqb p l l' = list_eqb p l' l.
  Proof. induction 1 as [|a l Ha _ IH]; intros [|b l']; simpl; auto. rewrite Ha, IH. reflexivity. Qed.
  Lemma list_eqb_trans l : Forall (fun a => forall b c, p a b = true -> p b c = true -> p a c = true) l ->
    forall l' l'', list_eqb p l l' = true -> list_eqb p l' l'' = true -> list_eqb p l l'' = true.
  Proof.
    induction 1 as [|a l Ha _ IH]; intros [|b l'] [|c l'']; simpl; try discriminate; auto.
    intros H1 H2. apply andb_prop in H1 as [H1 H1']. apply andb_prop in H2 as [H2 H2'].
    rewrite (Ha b c H1 H2), (IH l' l'' H1' H2'). reflexivity.
  Qed.
End ListEq.

Lemma pystr_eqb_sym a b : pystr_eqb a b = pystr_eqb b a.
Proof. destruct (pystr_eqb_spec a b), (pystr_eqb_spec b a); congruence. Qed.
Lemma pystr_eqb_trans a b c : pystr_eqb a b = true -> pystr_eqb b c = true -> pystr_eqb a c = true.
Proof. rewrite !pystr_eqb_eq. congruence. Qed.

Lemma source_eqb_refl s : source_eqb s s = true.
Proof.
  induction s as [|u t|u r|p|l IH] using source_ind'; simpl; rewrite ?pystr_eqb_refl; auto.
  apply (list_eqb_refl source_eqb). exact IH.
Qed.
Lemma source_eqb_sym s : forall s', source_eqb s s' = source_eqb s' s.
Proof.
  induction s as [|u t|u r|p|l IH] using source_ind'; intros [|u' t'|u' r'|p'|l']; try reflexivity.
  - simpl. now rewrite (pystr_eqb_sym u), (pystr_eqb_sym t).
  - simpl. now rewrite pystr_eqb_sym.
  - simpl. now rewrite pystr_eqb_sym.
  - rewrite !source_eqb_set. apply list_eqb_sym. exact IH.
Qed.
Lemma source_eqb_trans s : forall s' s'', source_eqb s s' = true -> source_eqb s' s'' = true -> source_eqb s s'' = true.
Proof.
  induction s as [|u t|u r|p|l IH] using source_ind'; intros [|u' t'|u' r'|p'|l'] [|u'' t''|u'' r''|p''|l'']; simpl; try discriminate; auto.
  - intros H1 H2. apply andb_prop in H1 as [A1 A2]. apply andb_prop in H2 as [B1 B2].
    rewrite (pystr_eqb_trans _ _ _ A1 B1), (pystr_eqb_trans _ _ _ A2 B2). reflexivity.
  - apply pystr_eqb_trans.
  - apply pystr_eqb_trans.
  - intros H1 H2. change (list_eqb source_eqb l l'' = true). eapply list_eqb_trans; eauto.
Qed.

Lemma point_eqb_refl p : point_eqb p p = true.
Proof. unfold point_eqb. rewrite !Z.eqb_refl. reflexivity. Qed.
Lemma point_eqb_sym p q : point_eqb p q = point_eqb q p.
Proof. unfold point_eqb. now rewrite (Z.eqb_sym (p_idx p)), (Z.eqb_sym (p_line p)), (Z.eqb_sym (p_col p)). Qed.
Lemma point_eqb_trans p q r : point_eqb p q = true -> point_eqb q r = true -> point_eqb p r = true.
Proof. unfold point_eqb. rewrite !andb_true_iff, !Z.eqb_eq. intuition congruence. Qed.
Lemma range_eqb_refl r : range_eqb r r = true.
Proof. unfold range_eqb. now rewrite !point_eqb_refl. Qed.
Lemma range_eqb_sym p q : range_eqb p q = range_eqb q p.
Proof. unfold range_eqb. now rewrite (point_eqb_sym (r_start p)), (point_eqb_sym (r_end p)). Qed.
Lemma range_eqb_trans p q r : range_eqb p q = true -> range_eqb q r = true -> range_eqb p r = true.
Proof. unfold range_eqb. rewrite !andb_true_iff. intros [A B] [C D]. eauto using point_eqb_trans. Qed.

Lemma origin_eqb_refl o : origin_eqb o o = true.
Proof.
  induction o as [|s r|s|s p|s|l IH] using origin_ind'; simpl;
    rewrite ?source_eqb_refl, ?range_eqb_refl, ?pystr_eqb_refl; auto.
  apply (list_eqb_refl origin_eqb). exact IH.
Qed.
Lemma origin_eqb_sym o : forall o', origin_eqb o o' = origin_eqb o' o.
Proof.
  induction o as [|s r|s|s p|s|l IH] using origin_ind'; intros [|s' r'|s'|s' p'|s'|l']; try reflexivity; simpl.
  - now rewrite source_eqb_sym, range_eqb_sym.
  - apply source_eqb_sym.
  - now rewrite source_eqb_sym, pystr_eqb_sym.
  - apply source_eqb_sym.
  - change (list_eqb origin_eqb l l' = list_eqb origin_eqb l' l). apply list_eqb_sym. exact IH.
Qed.
Lemma origin_eqb_trans o : forall o' o'', origin_eqb o o' = true -> origin_eqb o' o'' = true -> origin_eqb o o'' = true.
Proof.
  induction o as [|s r|s|s p|s|l IH] using origin_ind';
    intros [|s' r'|s'|s' p'|s'|l'] [|s'' r''|s''|s'' p''|s''|l'']; simpl; try discriminate; auto.
  - rewrite !andb_true_iff. intros [A B] [C D]. eauto using source_eqb_trans, range_eqb_trans.
  - apply source_eqb_trans.
  - rewrite !andb_true_iff. intros [A B] [C D]. eauto using source_eqb_trans, pystr_eqb_trans.
  - apply source_eqb_trans.
  - intros H1 H2. change (list_eqb origin_eqb l l'' = true). eapply list_eqb_trans; eauto.
Qed.

(* position-wise origin equality of two origin lists *)
Lemma forallb2_refl l : forallb2 origin_eqb l l = true.
Proof. induction l; simpl; auto. now rewrite origin_eqb_refl. Qed.
Lemma forallb2_sym l : forall l', forallb2 origin_eqb l l' = forallb2 origin_eqb l' l.
Proof. induction l as [|x l IH]; intros [|y l']; simpl; auto. now rewrite origin_eqb_sym, IH. Qed.
Lemma forallb2_trans l : forall l' l'', forallb2 origin_eqb l l' = true -> forallb2 origin_eqb l' l'' = true ->
  forallb2 origin_eqb l l'' = true.
Proof.
  induction l as [|x l IH]; intros [|y l'] [|z l'']; simpl; try discriminate; auto.
  rewrite !andb_true_iff. intros [A B] [C D]. eauto using origin_eqb_trans.
Qed.

Lemma zip_strict_same_length l : forall l', length l = length l' -> zip_strict l l' = Some (forallb2 origin_eqb l l').
Proof.
  induction l as [|x l IH]; intros [|y l']; simpl; try discriminate; auto.
  intros E. injection E as E. destruct (origin_eqb x y); simpl; auto.
Qed.

(* ================= the origin stream of dfs is the declarative pre-order list of positions ================= *)
Lemma all_origins_unfold n :
  all_origins n = norigin n :: flat_map (fun ti => all_origins (ti_node ti)) (direct_infos n).
Proof.
  destruct n as [a c o ps ks]. unfold direct_infos. cbn [nkids all_origins norigin]. f_equal.
  generalize (Node a c o ps ks) as P. intros P.
  induction ks as [|[f [sh l]] ks IH]; [reflexivity|].
  cbn [flat_map]. rewrite flat_map_app. rewrite <- IH. f_equal.
  cbn [fst snd]. destruct sh; cbn [field_children].
  - reflexivity.
  - destruct l as [|x l]; [reflexivity|]. cbn. now rewrite app_nil_r.
  - rewrite map_map. cbn [fst snd].
    generalize 0 as i. induction l as [|x l IHl]; intros i; [reflexivity|].
    cbn [number_from map flat_map]. cbn [ti_node fst]. rewrite <- IHl. reflexivity.
Qed.

Lemma pre_origins n :
  map (fun ti => norigin (ti_node ti)) (pre (fun _ => false) (fun _ => true) n) = tl (all_origins n).
Proof.
  induction n as [n IH] using size_induction.
  rewrite all_origins_unfold, pre_unfold. cbn [tl].
  assert (G : forall l, (forall t, In t l -> In t (direct_infos n)) ->
    map (fun ti => norigin (ti_node ti)) (flat_map (pre_info (fun _ => false) (fun _ => true)) l) =
    flat_map (fun ti => all_origins (ti_node ti)) l).
  { induction l as [|t l IHl]; intros Hs; [reflexivity|].
    cbn [flat_map]. rewrite map_app, IHl by (intros; apply Hs; simpl; auto). f_equal.
    unfold pre_info, keep. cbn. rewrite IH by (apply direct_smaller, Hs; simpl; auto).
    rewrite (all_origins_unfold (ti_node t)). reflexivity. }
  apply G. auto.
Qed.

(* ================= content-equal trees have the same shape ================= *)
Section Shape.
  Variable ct : ctable.

  Definition kids_rel (R : node -> node -> Prop) (ks ks' : list (pystr * (kshape * list node))) : Prop :=
    Forall2 (fun k k' => fst k = fst k' /\ fst (snd k) = fst (snd k') /\ Forall2 R (snd (snd k)) (snd (snd k'))) ks ks'.

  Lemma ceq_unfold a b :
    ceq ct a b <-> cls a = cls b /\ props_eq ct (cls a) (nprops a) (nprops b) /\ kids_rel (ceq ct) (nkids a) (nkids b).
  Proof.
    assert (K : forall ks ks',
      ((fix kids (ks ks' : list (pystr * (kshape * list node))) : Prop :=
         match ks, ks' with
         | [], [] => True
         | (f, (sh, l)) :: r, (f', (sh', l')) :: r' =>
           f = f' /\ sh = sh' /\
           (fix all (l l' : list node) : Prop :=
              match l, l' with
              | [], [] => True
              | x :: t, y :: t' => ceq ct x y /\ all t t'
              | _, _ => False
              end) l l' /\ kids r r'
         | _, _ => False
         end) ks ks') <-> kids_rel (ceq ct) ks ks').
    { induction ks as [|[f [sh l]] ks IH]; intros [|[f' [sh' l']] ks']; unfold kids_rel; try (split; [tauto | intros X; inversion X]).
      - split; auto; constructor.
      - rewrite IH. split.
        + intros (E1 & E2 & Hl & Hr). constructor; auto. cbn [fst snd]. repeat split; auto.
          clear -Hl. revert l' Hl. induction l as [|x l IHl]; intros [|y l'] Hl; try tauto; constructor; try tauto. apply IHl. tauto.
        + intros X. inversion X as [|? ? ? ? (E1 & E2 & Hl) Hr]; subst. cbn [fst snd] in *. repeat split; auto.
          clear -Hl. induction Hl; auto. }
    destruct a as [aa c o ps ks], b as [ab c' o' ps' ks']. cbn [ceq cls nprops nkids].
    rewrite K. tauto.
  Qed.

  Lemma all_origins_length a : forall b, ceq ct a b -> length (all_origins a) = length (all_origins b).
  Proof.
    induction a as [a IH] using size_induction. intros b Hc.
    apply ceq_unfold in Hc as (_ & _ & Hk).
    rewrite (all_origins_unfold a), (all_origins_unfold b). cbn [length]. f_equal.
    unfold direct_infos.
    assert (IH' : forall k, In k (nkids a) -> forall x, In x (snd (snd k)) -> forall y, ceq ct x y ->
                  length (all_origins x) = length (all_origins y)).
    { intros k Hk' x Hx y Hxy. apply IH; auto.
      destruct a as [aa c o ps ks]. simpl in *. apply Nat.lt_succ_r.
      clear -Hk' Hx. induction ks as [|k0 ks IHk]; [destruct Hk'|]. simpl. destruct Hk' as [->|Hk'].
      - assert (size x <= list_sum (map size (snd (snd k)))).
        { clear -Hx. induction (snd (snd k)) as [|y l IHl]; [destruct Hx|]. simpl. destruct Hx as [->|Hx]; [lia|]. specialize (IHl Hx). lia. }
        lia.
      - specialize (IHk Hk'). lia. }
    clear IH. remember (nkids a) as ks eqn:Eks. remember (nkids b) as ks' eqn:Eks'. clear Eks Eks'. revert IH'.
    induction Hk as [|[f [sh l]] [f' [sh' l']] ks ks' (E1 & E2 & Hl) _ IHk]; intros IH'; [reflexivity|].
    cbn [flat_map fst snd] in *. subst f' sh'. rewrite !flat_map_app, !app_length. f_equal.
    - assert (IHl : forall x, In x l -> forall y, ceq ct x y -> length (all_origins x) = length (all_origins y))
        by (intros x Hx; apply (IH' (f, (sh, l))); simpl; auto).
      clear IH' IHk. destruct sh; cbn [field_children].
      + reflexivity.
      + destruct Hl as [|x y l l' Hxy _]; [reflexivity|]. cbn. rewrite !app_nil_r. apply IHl; simpl; auto.
      + rewrite !map_map. cbn [fst snd].
        generalize 0 as i. induction Hl as [|x y l l' Hxy _ IHl']; intros i; [reflexivity|].
        cbn [number_from map flat_map ti_node fst]. rewrite !app_length. f_equal.
        * apply IHl; simpl; auto.
        * apply IHl'. intros z Hz. apply IHl. simpl; auto.
    - apply IHk. intros k Hk'. apply IH'. simpl; auto.
  Qed.
End Shape.

(* ================= __eq__ ================= *)
Section EqChar.
  Variable H : pystr -> pystr.
  Variable ct : ctable.
  Variable vr : variant.
  Hypothesis stable : v_stable vr = true.

  Lemma stream_origins_wf n : wf_node ct n = true -> stream_origins ct n = Some (tl (all_origins n)).
  Proof. intros W. unfold stream_origins. rewrite dfs_pre by auto. cbn [option_map]. now rewrite pre_origins. Qed.

  (* position-wise equality of origins, the roots included *)
  Definition origins_eq (a b : node) : bool := forallb2 origin_eqb (all_origins a) (all_origins b).

  Lemma origins_eq_split a b :
    origins_eq a b = origin_eqb (norigin a) (norigin b) && forallb2 origin_eqb (tl (all_origins a)) (tl (all_origins b)).
  Proof. unfold origins_eq. rewrite (all_origins_unfold a), (all_origins_unfold b). reflexivity. Qed.

  (* on content-equal trees == never raises and is exactly position-wise origin equality *)
  Theorem eq_of_ceq a b : wf_node ct a = true -> wf_node ct b = true -> ceq ct a b ->
    eqn H ct vr a b = if origins_eq a b then EqTrue else EqFalse.
  Proof.
    intros Wa Wb Hc. unfold eqn.
    pose proof (ceq_sound H ct vr stable a b Hc) as Ecid.
    assert (Ecls : cls a = cls b) by (apply ceq_unfold in Hc; tauto).
    rewrite Ecls, Ecid, !pystr_eqb_refl. cbn [andb].
    rewrite origins_eq_split.
    destruct (origin_eqb (norigin a) (norigin b)); cbn [andb]; [|reflexivity].
    rewrite !stream_origins_wf by auto.
    rewrite zip_strict_same_length.
    - destruct (forallb2 _ _ _); reflexivity.
    - pose proof (all_origins_length ct a b Hc) as L.
      rewrite (all_origins_unfold a), (all_origins_unfold b) in L |- *. cbn [tl length] in *. lia.
  Qed.

  (* the converse direction of C01 enters as a hypothesis here; Props/C02.v instantiates it *)
  (* [Good] = whatever side conditions the converse of C01 needs on the two trees *)
  Variable Good : node -> Prop.
  Variable complete : forall a b, Good a -> Good b -> wf_node ct a = true -> wf_node ct b = true ->
    cls a = cls b -> content_id H ct vr a = content_id H ct vr b -> ceq ct a b.

  Theorem eq_char a b : Good a -> Good b -> wf_node ct a = true -> wf_node ct b = true ->
    (eqn H ct vr a b = EqTrue <-> cls a = cls b /\ ceq ct a b /\ origins_eq a b = true).
  Proof.
    intros Ga Gb Wa Wb. split.
    - intros E.
      destruct (pystr_eqb_spec (cls a) (cls b)) as [Ec|Nc].
      2:{ unfold eqn in E. apply pystr_eqb_neq in Nc. rewrite Nc in E. discriminate. }
      destruct (pystr_eqb_spec (content_id H ct vr a) (content_id H ct vr b)) as [Ed|Nd].
      2:{ unfold eqn in E. rewrite Ec, pystr_eqb_refl in E. apply pystr_eqb_neq in Nd. rewrite Nd in E. discriminate. }
      assert (Hc : ceq ct a b) by (apply complete; auto).
      rewrite eq_of_ceq in E by auto. destruct (origins_eq a b); [auto|discriminate].
    - intros (_ & Hc & Ho). rewrite eq_of_ceq, Ho; auto.
  Qed.

  Theorem eq_total a b : Good a -> Good b -> wf_node ct a = true -> wf_node ct b = true ->
    eqn H ct vr a b = EqTrue \/ eqn H ct vr a b = EqFalse.
  Proof.
    intros Ga Gb Wa Wb.
    destruct (pystr_eqb_spec (cls a) (cls b)) as [Ec|Nc].
    - destruct (pystr_eqb_spec (content_id H ct vr a) (content_id H ct vr b)) as [Ed|Nd].
      + rewrite eq_of_ceq by (auto using complete). destruct (origins_eq a b); auto.
      + right. unfold eqn. rewrite Ec, pystr_eqb_refl. apply pystr_eqb_neq in Nd. now rewrite Nd.
    - right. unfold eqn. apply pystr_eqb_neq in Nc. now rewrite Nc.
  Qed.

  Theorem eq_refl_ a : wf_node ct a = true -> eqn H ct vr a a = EqTrue.
  Proof.
    intros W. rewrite eq_of_ceq by (auto using ceq_refl). unfold origins_eq. now rewrite forallb2_refl.
  Qed.

  Theorem neq_negation a b : Good a -> Good b -> wf_node ct a = true -> wf_node ct b = true ->
    (neqn H ct vr a b = EqTrue <-> eqn H ct vr a b = EqFalse) /\ (neqn H ct vr a b = EqFalse <-> eqn H ct vr a b = EqTrue).
  Proof.
    intros Ga Gb Wa Wb. unfold neqn. destruct (eq_total a b Ga Gb Wa Wb) as [E|E]; rewrite E; split; split; congruence.
  Qed.

  Theorem eq_other_class a b : cls a <> cls b -> eqn H ct vr a b = EqFalse.
  Proof. intros N. unfold eqn. apply pystr_eqb_neq in N. now rewrite N. Qed.

  Theorem eq_sym a b : Good a -> Good b -> wf_node ct a = true -> wf_node ct b = true -> eqn H ct vr a b = eqn H ct vr b a.
  Proof.
    intros Ga Gb Wa Wb.
    destruct (pystr_eqb_spec (cls a) (cls b)) as [Ec|Nc].
    2:{ rewrite !eq_other_class; auto. }
    destruct (pystr_eqb_spec (content_id H ct vr a) (content_id H ct vr b)) as [Ed|Nd].
    - rewrite (eq_of_ceq a b), (eq_of_ceq b a) by (auto using complete).
      unfold origins_eq. now rewrite forallb2_sym.
    - unfold eqn. rewrite Ec, pystr_eqb_refl.
      assert (N1 := Nd). apply pystr_eqb_neq in N1. rewrite N1.
      assert (N2 : content_id H ct vr b <> content_id H ct vr a) by congruence. apply pystr_eqb_neq in N2. now rewrite N2.
  Qed.

  Theorem eq_trans a b c : Good a -> Good b -> Good c -> wf_node ct a = true -> wf_node ct b = true -> wf_node ct c = true ->
    eqn H ct vr a b = EqTrue -> eqn H ct vr b c = EqTrue -> eqn H ct vr a c = EqTrue.
  Proof.
    intros Ga Gb Gc Wa Wb Wc E1 E2.
    apply eq_char in E1 as (C1 & H1 & O1); auto. apply eq_char in E2 as (C2 & H2 & O2); auto.
    apply eq_char; auto. split; [congruence|]. split.
    - apply complete; auto; [congruence|].
      rewrite (ceq_sound H ct vr stable a b H1). apply (ceq_sound H ct vr stable b c H2).
    - unfold origins_eq in *. eapply forallb2_trans; eauto.
  Qed.
End EqChar.
