(* C01, completeness direction: the content preimage is an injective encoding of the content, so that a
   collision-free, hex-valued digest separates nodes that are not content-equal.
   Part 0: declaration-order independence (warm-up).
   Part 1: string tools (terminated splits, the framing lemma).
   Part 2: the framing theorem  content_id a = content_id b -> ceq_r a b  (values related by rendering).
   Part 3: value-level injectivity of the rendering (scalars; flat tuples / frozensets of atoms). *)
From Oak Require Import Spec.CEq Proofs.AccessProofs Proofs.TraverseProofs Proofs.EncodeSound.
From Coq Require Import Sorted.
Local Open Scope char_scope.

(* ===================================================================================================== *)
(* Part 0: sorting a list with pairwise different keys is a function of the set of its elements         *)
(* ===================================================================================================== *)
Section SortUniqueOn.
  Context {A : Type} (leb : A -> A -> bool).
  Hypothesis total : forall a b, leb a b = false -> leb b a = true.
  Hypothesis trans : forall a b c, leb a b = true -> leb b c = true -> leb a c = true.

  Lemma insert_comm_on x y l :
    (leb x y = true -> leb y x = true -> x = y) ->
    insert_sorted leb x (insert_sorted leb y l) = insert_sorted leb y (insert_sorted leb x l).
  Proof.
    intros antisym.
    induction l as [|z l IH]; cbn [insert_sorted].
    - destruct (leb x y) eqn:Exy, (leb y x) eqn:Eyx; auto.
      + rewrite antisym; auto.
      + apply total in Exy. congruence.
    - destruct (leb y z) eqn:Eyz, (leb x z) eqn:Exz; cbn [insert_sorted]; rewrite ?Eyz, ?Exz.
      + destruct (leb x y) eqn:Exy, (leb y x) eqn:Eyx; auto.
        * rewrite antisym; auto.
        * apply total in Exy. congruence.
      + destruct (leb x y) eqn:Exy; auto.
        rewrite (trans x y z) in Exz; auto. discriminate.
      + destruct (leb y x) eqn:Eyx; auto.
        rewrite (trans y x z) in Eyz; auto. discriminate.
      + rewrite IH. reflexivity.
  Qed.

  Lemma isort_perm_eq_on l l' : Permutation l l' ->
    (forall a b, In a l -> In b l -> leb a b = true -> leb b a = true -> a = b) ->
    isort leb l = isort leb l'.
  Proof.
    induction 1 as [| x l l' _ IH | x y l | l l' l'' P1 IH1 _ IH2]; simpl; intros AS; auto.
    - rewrite IH; [reflexivity|]. intros a b Ha Hb. apply AS; simpl; auto.
    - apply insert_comm_on. apply AS; simpl; auto.
    - rewrite IH1 by auto. apply IH2.
      intros a b Ha Hb. apply AS; eapply Permutation_in; try apply Permutation_sym; eauto.
  Qed.
End SortUniqueOn.

Lemma nodup_map_inj {A B} (g : A -> B) l a b : NoDup (map g l) -> In a l -> In b l -> g a = g b -> a = b.
Proof.
  induction l as [|x l IH]; simpl; intros Hn Ha Hb E; [tauto|].
  inversion Hn as [|? ? Hx Hl]; subst.
  destruct Ha as [->|Ha], Hb as [->|Hb]; auto.
  - exfalso. apply Hx. rewrite E. now apply in_map.
  - exfalso. apply Hx. rewrite <- E. now apply in_map.
Qed.

Lemma sort_fields_perm l l' : NoDup (map fd_name l) -> Permutation l l' -> sort_fields l = sort_fields l'.
Proof.
  intros Hn Hp. unfold sort_fields. apply isort_perm_eq_on; auto.
  - intros a b. apply pystr_leb_total.
  - intros a b c. apply pystr_leb_trans.
  - intros a b Ha Hb L1 L2. apply (nodup_map_inj fd_name l); auto. now apply pystr_leb_antisym.
Qed.

Lemma perm_filter {A} (p : A -> bool) l l' : Permutation l l' -> Permutation (filter p l) (filter p l').
Proof.
  induction 1 as [| x l l' _ IH | x y l | l l' l'' _ IH1 _ IH2]; simpl; auto.
  - destruct (p x); auto.
  - destruct (p x), (p y); auto. apply perm_swap.
  - eapply perm_trans; eauto.
Qed.

Lemma builtin_names_nodup l :
  NoDup (map fd_name l) -> (forall f, In f l -> builtin f = false) ->
  NoDup (map fd_name (f_id :: f_cid :: f_origin :: l)).
Proof.
  intros Hn Hb.
  assert (G : forall s, (s = lit "id" \/ s = lit "content_id" \/ s = lit "origin") -> ~ In s (map fd_name l)).
  { intros s Hs Hin. apply in_map_iff in Hin as (f & <- & Hf). specialize (Hb f Hf). unfold builtin in Hb.
    apply orb_false_elim in Hb as [Hb H3]. apply orb_false_elim in Hb as [H1 H2].
    apply pystr_eqb_neq in H1, H2, H3. tauto. }
  cbn [map]. constructor; [|constructor; [|constructor]]; auto.
  - cbn [In f_id f_cid f_origin fd_name]. intros [E|[E|E]]; try discriminate. revert E. apply G; auto.
  - cbn [In f_cid f_origin fd_name]. intros [E|E]; try discriminate. revert E. apply G; auto.
Qed.

Section FieldOrder.
  Variables ct1 ct2 : ctable.
  Hypothesis perm : forall c, Permutation (fields_of ct1 c) (fields_of ct2 c).
  Hypothesis user : forall c f, In f (fields_of ct1 c) -> builtin f = false.

  Lemma enc_fields_perm c fl :
    get_properties_fields true ct1 c fl true = get_properties_fields true ct2 c fl true.
  Proof.
    unfold get_properties_fields. f_equal. apply sort_fields_perm.
    - unfold all_props. apply builtin_names_nodup.
      + unfold prop_fields. apply nodup_map_filter, fields_of_nodup.
      + intros f Hf. apply (user c). unfold prop_fields in Hf. now apply filter_In in Hf as [Hf _].
    - unfold all_props, prop_fields. repeat apply perm_skip. apply perm_filter, perm.
  Qed.

  Lemma kid_fields_perm c : kid_fields ct1 c true = kid_fields ct2 c true.
  Proof.
    unfold kid_fields. apply sort_fields_perm.
    - apply child_fields_nodup.
    - unfold child_fields. apply perm_filter, perm.
  Qed.

  Theorem indep_field_order H vr : v_stable vr = true ->
    forall n, content_id H ct1 vr n = content_id H ct2 vr n.
  Proof.
    intros _. induction n as [n IH] using size_induction.
    rewrite !content_id_unfold. f_equal. f_equal. f_equal.
    - unfold props_data, enc_props. rewrite enc_fields_perm. reflexivity.
    - unfold kids_cid_only. rewrite kid_fields_perm. f_equal. f_equal.
      unfold map_view. apply map_ext_in. intros [f [sh l]] Hk. cbn [fst snd]. f_equal. f_equal.
      apply map_ext_in. intros x Hx. apply IH.
      destruct n as [a c o ps ks]. cbn [nkids] in Hk. simpl. apply Nat.lt_succ_r.
      clear -Hk Hx. induction ks as [|k0 ks IHk]; [destruct Hk|]. simpl. destruct Hk as [->|Hk].
      + cbn [snd]. assert (size x <= list_sum (map size l)).
        { clear -Hx. induction l as [|y l IHl]; [destruct Hx|]. simpl. destruct Hx as [->|Hx]; [lia|]. specialize (IHl Hx). lia. }
        lia.
      + specialize (IHk Hk). lia.
  Qed.
End FieldOrder.

(* ===================================================================================================== *)
(* Part 1: string tools                                                                                  *)
(* ===================================================================================================== *)
Definition nochar (k c : ascii) : bool := negb (Ascii.eqb c k).
Definition free_of (k : ascii) (s : pystr) : bool := forallb (nochar k) s.

(* x is empty or starts with a character outside P *)
Definition stops (P : ascii -> bool) (x : pystr) : Prop :=
  match x with [] => True | c :: _ => P c = false end.

(* a maximal P-run is determined: "terminated by a non-P character or the end" *)
Lemma split_term (P : ascii -> bool) : forall a b x y : pystr,
  forallb P a = true -> forallb P b = true -> stops P x -> stops P y ->
  a ++ x = b ++ y -> a = b /\ x = y.
Proof.
  induction a as [|c a IH]; intros b x y Ha Hb Sx Sy E.
  - destruct b as [|d b]; cbn [app] in *; auto.
    subst x. cbn [stops forallb] in *. apply andb_prop in Hb as [Hd _]. congruence.
  - destruct b as [|d b]; cbn [app] in *.
    + subst y. cbn [stops forallb] in *. apply andb_prop in Ha as [Hc _]. congruence.
    + injection E as -> E. cbn [forallb] in *. apply andb_prop in Ha as [_ Ha]. apply andb_prop in Hb as [_ Hb].
      destruct (IH b x y Ha Hb Sx Sy E) as [-> ->]. auto.
Qed.

Lemma frame_eq s : frame s = dec (cplen s) ++ ":" :: s.
Proof. reflexivity. Qed.

(* the framing lemma (notes/sketches/Frame.v): a length-framed value followed by ')' is uniquely readable *)
Lemma frame_unique s s' r r' :
  frame s ++ ")" :: r = frame s' ++ ")" :: r' -> s = s' /\ r = r'.
Proof.
  rewrite !frame_eq. rewrite <- !app_assoc. cbn [app].
  intros E.
  assert (Hc : is_digit ":" = false) by reflexivity.
  destruct (split_unique is_digit ":" Hc _ _ _ _ (dec_digits _) (dec_digits _) E) as [Hd E'].
  apply dec_inj in Hd.
  destruct (app_eq_prefix _ _ _ _ E') as [[t [Ht Hx]]|[t [Ht Hx]]].
  - destruct t as [|c t].
    + rewrite app_nil_r in Ht. subst s'. cbn [app] in Hx. injection Hx as ->. auto.
    + cbn [app] in Hx. injection Hx as <- _. subst s'. rewrite cplen_app in Hd. cbn in Hd. lia.
  - destruct t as [|c t].
    + rewrite app_nil_r in Ht. subst s. cbn [app] in Hx. injection Hx as ->. auto.
    + cbn [app] in Hx. injection Hx as <- _. subst s. rewrite cplen_app in Hd. cbn in Hd. lia.
Qed.

(* strings that are empty or start with ':' *)
Definition colon_start (s : pystr) : Prop := s = [] \/ exists t, s = ":" :: t.

Lemma colon_start_app a b : colon_start a -> colon_start b -> colon_start (a ++ b).
Proof.
  intros [->|[t ->]] Hb; auto. right. exists (t ++ b). reflexivity.
Qed.

Lemma colon_start_flat_map {A} (g : A -> pystr) l : (forall x, colon_start (g x)) -> colon_start (flat_map g l).
Proof. intros Hg. induction l as [|x l IH]; cbn [flat_map]; [left; auto|]. apply colon_start_app; auto. Qed.

Lemma colon_start_stops P s : P ":" = false -> colon_start s -> stops P s.
Proof. intros HP [->|[t ->]]; cbn; auto. Qed.

Lemma flat_map_flat_map {A B C} (g : B -> list C) (h : A -> list B) l :
  flat_map g (flat_map h l) = flat_map (fun x => flat_map g (h x)) l.
Proof. induction l as [|x l IH]; cbn [flat_map]; auto. now rewrite flat_map_app, IH. Qed.

Lemma Forall2_map_same {A B} (R : B -> B -> Prop) (g h : A -> B) l :
  (forall x, In x l -> R (g x) (h x)) -> Forall2 R (map g l) (map h l).
Proof. induction l as [|x l IH]; cbn [map]; intros Hx; constructor; [apply Hx|apply IH; intros; apply Hx]; simpl; auto. Qed.

Lemma map_eq_Forall2 {A B} (g : A -> B) l l' : map g l = map g l' -> Forall2 (fun x y => g x = g y) l l'.
Proof.
  revert l'. induction l as [|x l IH]; intros [|y l'] E; cbn [map] in E; try discriminate; constructor.
  - now injection E.
  - apply IH. now injection E.
Qed.

Lemma Forall2_impl_in {A B} (R S : A -> B -> Prop) l l' :
  (forall a b, In a l -> In b l' -> R a b -> S a b) -> Forall2 R l l' -> Forall2 S l l'.
Proof.
  intros HRS H. induction H as [|a b l l' Hab H IH]; constructor.
  - apply HRS; simpl; auto.
  - apply IH. intros x y Hx Hy. apply HRS; simpl; auto.
Qed.

(* ===================================================================================================== *)
(* Part 2: the spec with values related by an arbitrary relation R; ceq = ceq_gen veq                    *)
(* ===================================================================================================== *)
Definition render_eq (v v' : pval) : Prop := tytag v = tytag v' /\ stable_str v = stable_str v'.

Section CEqGen.
  Variable R : pval -> pval -> Prop.
  Variable ct : ctable.

  Definition props_rel (c : pystr) (ps ps' : list (pystr * pval)) : Prop :=
    forall f, In f (comparable ct c) ->
      match assoc (fd_name f) ps, assoc (fd_name f) ps' with
      | Some v, Some v' => R v v'
      | None, None => True
      | _, _ => False
      end.

  Fixpoint ceq_gen (a b : node) : Prop :=
    match a, b with
    | Node _ c _ ps ks, Node _ c' _ ps' ks' =>
      c = c' /\ props_rel c ps ps' /\
      (fix kids (ks ks' : list (pystr * (kshape * list node))) : Prop :=
         match ks, ks' with
         | [], [] => True
         | (f, (sh, l)) :: r, (f', (sh', l')) :: r' =>
           f = f' /\ sh = sh' /\
           (fix all (l l' : list node) : Prop :=
              match l, l' with
              | [], [] => True
              | x :: t, y :: t' => ceq_gen x y /\ all t t'
              | _, _ => False
              end) l l' /\ kids r r'
         | _, _ => False
         end) ks ks'
    end.

  Definition krel (Q : node -> node -> Prop) (k k' : pystr * (kshape * list node)) : Prop :=
    fst k = fst k' /\ fst (snd k) = fst (snd k') /\ Forall2 Q (snd (snd k)) (snd (snd k')).

  Lemma ceq_gen_unfold a c o ps ks a' c' o' ps' ks' :
    ceq_gen (Node a c o ps ks) (Node a' c' o' ps' ks') <->
    c = c' /\ props_rel c ps ps' /\ Forall2 (krel ceq_gen) ks ks'.
  Proof.
    cbn [ceq_gen].
    assert (L : forall l l', (fix all (l l' : list node) : Prop :=
              match l, l' with
              | [], [] => True
              | x :: t, y :: t' => ceq_gen x y /\ all t t'
              | _, _ => False
              end) l l' <-> Forall2 ceq_gen l l').
    { induction l as [|x l IH]; intros [|y l']; split; intros H;
        try (now inversion H); try (now constructor); try (exfalso; exact H).
      - destruct H as [H1 H2]. constructor; [assumption|]. apply IH. assumption.
      - inversion H; subst. split; [assumption|]. apply IH. assumption. }
    assert (K : forall ks ks', (fix kids (ks ks' : list (pystr * (kshape * list node))) : Prop :=
         match ks, ks' with
         | [], [] => True
         | (f, (sh, l)) :: r, (f', (sh', l')) :: r' =>
           f = f' /\ sh = sh' /\
           (fix all (l l' : list node) : Prop :=
              match l, l' with
              | [], [] => True
              | x :: t, y :: t' => ceq_gen x y /\ all t t'
              | _, _ => False
              end) l l' /\ kids r r'
         | _, _ => False
         end) ks ks' <-> Forall2 (krel ceq_gen) ks ks').
    { clear ks ks'. induction ks as [|[f [sh l]] ks IH]; intros [|[f' [sh' l']] ks']; split; intros H;
        try (now inversion H); try (now constructor); try (exfalso; exact H).
      - destruct H as (H1 & H2 & H3 & H4). constructor.
        + unfold krel. cbn [fst snd]. repeat split; auto. now apply L.
        + now apply IH.
      - inversion H as [|? ? ? ? Hk Hr]; subst. unfold krel in Hk. cbn [fst snd] in Hk.
        destruct Hk as (H1 & H2 & H3). repeat split; auto.
        + now apply L.
        + now apply IH. }
    rewrite K. tauto.
  Qed.
End CEqGen.

Definition ceq_r : ctable -> node -> node -> Prop := ceq_gen render_eq.

Lemma ceq_gen_veq ct a b : ceq_gen veq ct a b <-> ceq ct a b.
Proof. reflexivity. Qed.

(* a predicate on (class name, property value) holding at every node of a tree *)
Fixpoint node_all (Pc : pystr -> Prop) (Pv : pval -> Prop) (n : node) : Prop :=
  match n with
  | Node _ c _ ps ks =>
    Pc c /\ (forall q, In q ps -> Pv (snd q)) /\
    (fix kids (ks : list (pystr * (kshape * list node))) : Prop :=
       match ks with
       | [] => True
       | k :: r => (fix all (l : list node) : Prop :=
                      match l with [] => True | x :: t => node_all Pc Pv x /\ all t end) (snd (snd k)) /\ kids r
       end) ks
  end.

Lemma node_all_cls Pc Pv n : node_all Pc Pv n -> Pc (cls n).
Proof. destruct n. cbn. tauto. Qed.
Lemma node_all_props Pc Pv n : node_all Pc Pv n -> forall q, In q (nprops n) -> Pv (snd q).
Proof. destruct n. cbn. tauto. Qed.
Lemma node_all_kids Pc Pv n : node_all Pc Pv n ->
  forall k, In k (nkids n) -> forall x, In x (snd (snd k)) -> node_all Pc Pv x.
Proof.
  destruct n as [a c o ps ks]. cbn [node_all nkids]. intros (_ & _ & H).
  induction ks as [|k0 ks IH]; intros k Hk x Hx; [destruct Hk|].
  destruct H as [H1 H2]. destruct Hk as [->|Hk]; [|eapply IH; eauto].
  clear -H1 Hx. induction (snd (snd k)) as [|y l IHl]; [destruct Hx|].
  destruct H1 as [H1 H2]. destruct Hx as [->|Hx]; auto.
Qed.

Lemma kid_smaller n k x : In k (nkids n) -> In x (snd (snd k)) -> size x < size n.
Proof.
  destruct n as [a c o ps ks]. cbn [nkids]. intros Hk Hx. simpl. apply Nat.lt_succ_r.
  induction ks as [|k0 ks IHk]; [destruct Hk|]. simpl. destruct Hk as [->|Hk].
  - assert (size x <= list_sum (map size (snd (snd k)))).
    { clear -Hx. induction (snd (snd k)) as [|y l IHl]; [destruct Hx|]. simpl. destruct Hx as [->|Hx]; [lia|]. specialize (IHl Hx). lia. }
    lia.
  - specialize (IHk Hk). lia.
Qed.

(* monotonicity: the value relation may be strengthened on the values that occur *)
Lemma ceq_gen_mono (R S : pval -> pval -> Prop) (P : pval -> Prop) ct :
  (forall v v', P v -> P v' -> R v v' -> S v v') ->
  forall a b, node_all (fun _ => True) P a -> node_all (fun _ => True) P b -> ceq_gen R ct a b -> ceq_gen S ct a b.
Proof.
  intros HRS. induction a as [a IH] using size_induction. intros b Pa Pb Hc.
  destruct a as [aa c o ps ks], b as [ab c' o' ps' ks'].
  apply ceq_gen_unfold in Hc as (<- & Hp & Hk). apply ceq_gen_unfold. split; [reflexivity|]. split.
  - intros f Hf. specialize (Hp f Hf).
    destruct (assoc (fd_name f) ps) as [v|] eqn:E1, (assoc (fd_name f) ps') as [v'|] eqn:E2; auto.
    assert (G : forall (l : list (pystr * pval)) k w, assoc k l = Some w -> exists q, In q l /\ snd q = w).
    { induction l as [|[k0 w0] l IHl]; simpl; intros k w E; [discriminate|].
      destruct (pystr_eqb k0 k); [injection E as <-; exists (k0, w0); auto|].
      destruct (IHl _ _ E) as (q & Hq & Eq). exists q; auto. }
    apply G in E1 as (q & Hq & <-). apply G in E2 as (q' & Hq' & <-).
    apply HRS; auto.
    + apply (node_all_props _ _ _ Pa q Hq).
    + apply (node_all_props _ _ _ Pb q' Hq').
  - assert (KA : forall k, In k ks -> forall x, In x (snd (snd k)) -> size x < size (Node aa c o ps ks) /\ node_all (fun _ => True) P x).
    { intros k Hk0 x Hx. split; [eapply kid_smaller; eauto | eapply (node_all_kids _ _ _ Pa); eauto]. }
    assert (KB : forall k, In k ks' -> forall x, In x (snd (snd k)) -> node_all (fun _ => True) P x).
    { intros k Hk0 x Hx. eapply (node_all_kids _ _ _ Pb); eauto. }
    clear Pa Pb Hp. set (N := size (Node aa c o ps ks)) in *. clearbody N.
    induction Hk as [|k k' ks ks' (H1 & H2 & H3) Hr IHk]; constructor.
    + repeat split; auto.
      apply (Forall2_impl_in (ceq_gen R ct)); [|exact H3].
      intros x y Hx Hy Hxy. destruct (KA k (or_introl eq_refl) x Hx) as [Hs Px].
      apply IH; auto. apply (KB k' (or_introl eq_refl) y Hy).
    + apply IHk.
      * intros k0 Hk0 x Hx. apply (KA k0 (or_intror Hk0) x Hx).
      * intros k0 Hk0. apply KB. simpl; auto.
Qed.

(* ===================================================================================================== *)
(* Part 2a: the property pieces                                                                          *)
(* ===================================================================================================== *)
Lemma prop_piece_eq name v :
  prop_piece current true name v = ":" :: name ++ "=" :: tytag v ++ "(" :: frame (stable_str v) ++ [")"].
Proof. reflexivity. Qed.

(* the type tag of a value contains no '(' as soon as an enum's class name contains none *)
Definition tag_ok (v : pval) : Prop :=
  match v with VEnum c _ _ => free_of "(" c = true | _ => True end.

Lemma tytag_no_lparen v : tag_ok v -> forallb (nochar "(") (tytag v) = true.
Proof.
  destruct v; cbn [tag_ok tytag]; intros Hc; try reflexivity.
  rewrite !forallb_app. unfold free_of in Hc. rewrite Hc. reflexivity.
Qed.

Ltac norm_in E := repeat (progress (rewrite <- ?app_assoc in E; cbn [app] in E)).

Lemma prop_piece_inj name v v' r r' : tag_ok v -> tag_ok v' ->
  prop_piece current true name v ++ r = prop_piece current true name v' ++ r' -> render_eq v v' /\ r = r'.
Proof.
  intros Tv Tv'. rewrite !prop_piece_eq. intros E. norm_in E. injection E as E.
  apply app_inv_head in E. injection E as E.
  assert (Hs : nochar "(" "(" = false) by reflexivity.
  destruct (split_unique (nochar "(") "(" Hs _ _ _ _ (tytag_no_lparen v Tv) (tytag_no_lparen v' Tv') E) as [Et E'].
  apply frame_unique in E' as [Es Er]. unfold render_eq. auto.
Qed.

Section Complete.
  Variable H : pystr -> pystr.
  Variable ct : ctable.
  Hypothesis H_inj : forall x y, H x = H y -> x = y.
  Hypothesis H_hex : forall x, forallb is_hex (H x) = true.

  Notation cid := (content_id H ct current).

  Lemma cid_hex n : forallb is_hex (cid n) = true.
  Proof. rewrite content_id_unfold. apply H_hex. Qed.

  (* peeling the property pieces off two preimages of the same class *)
  Lemma props_peel (fs : list fdecl) ps ps' r r' :
    (forall f, In f fs -> exists v v', assoc (fd_name f) ps = Some v /\ assoc (fd_name f) ps' = Some v' /\ tag_ok v /\ tag_ok v') ->
    flat_map (fun p => prop_piece current true (fst p) (snd p))
      (flat_map (fun f => match assoc (fd_name f) ps with Some v => [(fd_name f, v)] | None => [] end) fs) ++ r =
    flat_map (fun p => prop_piece current true (fst p) (snd p))
      (flat_map (fun f => match assoc (fd_name f) ps' with Some v => [(fd_name f, v)] | None => [] end) fs) ++ r' ->
    (forall f, In f fs -> match assoc (fd_name f) ps, assoc (fd_name f) ps' with
                          | Some v, Some v' => render_eq v v' | None, None => True | _, _ => False end)
    /\ r = r'.
  Proof.
    induction fs as [|f fs IH]; intros Hs E.
    - cbn [flat_map app] in E. split; auto. intros f [].
    - destruct (Hs f (or_introl eq_refl)) as (v & v' & E1 & E2 & T1 & T2).
      cbn [flat_map] in E. rewrite E1, E2 in E. cbn [app flat_map fst snd] in E.
      rewrite <- !app_assoc in E.
      apply (prop_piece_inj _ v v' _ _ T1 T2) in E as [Hr E].
      assert (Hs' : forall g, In g fs -> exists v v', assoc (fd_name g) ps = Some v /\ assoc (fd_name g) ps' = Some v' /\ tag_ok v /\ tag_ok v')
        by (intros g Hg; apply Hs; simpl; auto).
      destruct (IH Hs' E) as [Hall Er].
      split; [|exact Er]. intros g [<-|Hg]; [rewrite E1, E2; exact Hr | exact (Hall g Hg)].
  Qed.
End Complete.
