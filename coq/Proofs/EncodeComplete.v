(* C01, completeness direction: the content preimage is an injective encoding of the content, so that a
   collision-free, hex-valued digest separates nodes that are not content-equal.
   Part 0: declaration-order independence (warm-up).
   Part 1: string tools (terminated splits, the framing lemma).
   Part 2: the framing theorem  content_id a = content_id b -> ceq_r a b  (values related by rendering).
   Part 3: value-level injectivity of the rendering on scalars; completeness for scalar-valued trees.
   Part 4: the premises are satisfiable (example).
   Part 5/6: repr of arbitrarily nested values is self-delimiting and injective (str escapes and quote choice
           inverted, sorted frozenset rendering); completeness and the iff for all values of the model. *)
From Oak Require Import Spec.CEq Proofs.AccessProofs Proofs.TraverseProofs Proofs.EncodeSound.
From Coq Require Import Sorted DecimalString DecimalPos DecimalZ.
Local Open Scope char_scope.

(* ===================================================================================================== *)
(* Part 0: sorting a list with pairwise different keys is a function of the set of its elements         *)
(* ===================================================================================================== *)
Section SortUniqueOn.
  Context {A : Type} (leb : A -> A -> bool).
  Hypothesis total : forall a b, leb a b = false -> leb b a = true.
  Hypothesis trans : forall a b c, leb a b = true -> leb b c = true -> leb a c = true.

  Lemma insert_comm_on x y l :
    (leb x y = true -> leb y x = true -> x = y) ->
    insert_sorted leb x (insert_sorted leb y l) = insert_sorted leb y (insert_sorted leb x l).
  Proof.
    intros antisym.
    induction l as [|z l IH]; cbn [insert_sorted].
    - destruct (leb x y) eqn:Exy, (leb y x) eqn:Eyx; auto.
      + rewrite antisym; auto.
      + apply total in Exy. congruence.
    - destruct (leb y z) eqn:Eyz, (leb x z) eqn:Exz; cbn [insert_sorted]; rewrite ?Eyz, ?Exz.
      + destruct (leb x y) eqn:Exy, (leb y x) eqn:Eyx; auto.
        * rewrite antisym; auto.
        * apply total in Exy. congruence.
      + destruct (leb x y) eqn:Exy; auto.
        rewrite (trans x y z) in Exz; auto. discriminate.
      + destruct (leb y x) eqn:Eyx; auto.
        rewrite (trans y x z) in Eyz; auto. discriminate.
      + rewrite IH. reflexivity.
  Qed.

  Lemma isort_perm_eq_on l l' : Permutation l l' ->
    (forall a b, In a l -> In b l -> leb a b = true -> leb b a = true -> a = b) ->
    isort leb l = isort leb l'.
  Proof.
    induction 1 as [| x l l' _ IH | x y l | l l' l'' P1 IH1 _ IH2]; simpl; intros AS; auto.
    - rewrite IH; [reflexivity|]. intros a b Ha Hb. apply AS; simpl; auto.
    - apply insert_comm_on. apply AS; simpl; auto.
    - rewrite IH1 by auto. apply IH2.
      intros a b Ha Hb. apply AS; eapply Permutation_in; try apply Permutation_sym; eauto.
  Qed.
End SortUniqueOn.

Lemma nodup_map_inj {A B} (g : A -> B) l a b : NoDup (map g l) -> In a l -> In b l -> g a = g b -> a = b.
Proof.
  induction l as [|x l IH]; simpl; intros Hn Ha Hb E; [tauto|].
  inversion Hn as [|? ? Hx Hl]; subst.
  destruct Ha as [->|Ha], Hb as [->|Hb]; auto.
  - exfalso. apply Hx. rewrite E. now apply in_map.
  - exfalso. apply Hx. rewrite <- E. now apply in_map.
Qed.

Lemma sort_fields_perm l l' : NoDup (map fd_name l) -> Permutation l l' -> sort_fields l = sort_fields l'.
Proof.
  intros Hn Hp. unfold sort_fields. apply isort_perm_eq_on; auto.
  - intros a b. apply pystr_leb_total.
  - intros a b c. apply pystr_leb_trans.
  - intros a b Ha Hb L1 L2. apply (nodup_map_inj fd_name l); auto. now apply pystr_leb_antisym.
Qed.

Lemma perm_filter {A} (p : A -> bool) l l' : Permutation l l' -> Permutation (filter p l) (filter p l').
Proof.
  induction 1 as [| x l l' _ IH | x y l | l l' l'' _ IH1 _ IH2]; simpl; auto.
  - destruct (p x); auto.
  - destruct (p x), (p y); auto. apply perm_swap.
  - eapply perm_trans; eauto.
Qed.

Lemma builtin_names_nodup l :
  NoDup (map fd_name l) -> (forall f, In f l -> builtin f = false) ->
  NoDup (map fd_name (f_id :: f_cid :: f_origin :: l)).
Proof.
  intros Hn Hb.
  assert (G : forall s, (s = lit "id" \/ s = lit "content_id" \/ s = lit "origin") -> ~ In s (map fd_name l)).
  { intros s Hs Hin. apply in_map_iff in Hin as (f & <- & Hf). specialize (Hb f Hf). unfold builtin in Hb.
    apply orb_false_elim in Hb as [Hb H3]. apply orb_false_elim in Hb as [H1 H2].
    apply pystr_eqb_neq in H1, H2, H3. tauto. }
  cbn [map]. constructor; [|constructor; [|constructor]]; auto.
  - cbn [In f_id f_cid f_origin fd_name]. intros [E|[E|E]]; try discriminate. revert E. apply G; auto.
  - cbn [In f_cid f_origin fd_name]. intros [E|E]; try discriminate. revert E. apply G; auto.
Qed.

Section FieldOrder.
  Variables ct1 ct2 : ctable.
  Hypothesis perm : forall c, Permutation (fields_of ct1 c) (fields_of ct2 c).
  Hypothesis user : forall c f, In f (fields_of ct1 c) -> builtin f = false.

  Lemma enc_fields_perm c fl :
    get_properties_fields true ct1 c fl true = get_properties_fields true ct2 c fl true.
  Proof.
    unfold get_properties_fields. f_equal. apply sort_fields_perm.
    - unfold all_props. apply builtin_names_nodup.
      + unfold prop_fields. apply nodup_map_filter, fields_of_nodup.
      + intros f Hf. apply (user c). unfold prop_fields in Hf. now apply filter_In in Hf as [Hf _].
    - unfold all_props, prop_fields. repeat apply perm_skip. apply perm_filter, perm.
  Qed.

  Lemma kid_fields_perm c : kid_fields ct1 c true = kid_fields ct2 c true.
  Proof.
    unfold kid_fields. apply sort_fields_perm.
    - apply child_fields_nodup.
    - unfold child_fields. apply perm_filter, perm.
  Qed.

  Theorem indep_field_order H vr : v_stable vr = true ->
    forall n, content_id H ct1 vr n = content_id H ct2 vr n.
  Proof.
    intros _. induction n as [n IH] using size_induction.
    rewrite !content_id_unfold. f_equal. f_equal. f_equal.
    - unfold props_data, enc_props. rewrite enc_fields_perm. reflexivity.
    - unfold kids_cid_only. rewrite kid_fields_perm. f_equal. f_equal.
      unfold map_view. apply map_ext_in. intros [f [sh l]] Hk. cbn [fst snd]. f_equal. f_equal.
      apply map_ext_in. intros x Hx. apply IH.
      destruct n as [a c o ps ks]. cbn [nkids] in Hk. simpl. apply Nat.lt_succ_r.
      clear -Hk Hx. induction ks as [|k0 ks IHk]; [destruct Hk|]. simpl. destruct Hk as [->|Hk].
      + cbn [snd]. assert (size x <= list_sum (map size l)).
        { clear -Hx. induction l as [|y l IHl]; [destruct Hx|]. simpl. destruct Hx as [->|Hx]; [lia|]. specialize (IHl Hx). lia. }
        lia.
      + specialize (IHk Hk). lia.
  Qed.
End FieldOrder.

(* ===================================================================================================== *)
(* Part 1: string tools                                                                                  *)
(* ===================================================================================================== *)
Definition nochar (k c : ascii) : bool := negb (Ascii.eqb c k).
Definition free_of (k : ascii) (s : pystr) : bool := forallb (nochar k) s.

(* x is empty or starts with a character outside P *)
Definition stops (P : ascii -> bool) (x : pystr) : Prop :=
  match x with [] => True | c :: _ => P c = false end.

(* a maximal P-run is determined: "terminated by a non-P character or the end" *)
Lemma split_term (P : ascii -> bool) : forall a b x y : pystr,
  forallb P a = true -> forallb P b = true -> stops P x -> stops P y ->
  a ++ x = b ++ y -> a = b /\ x = y.
Proof.
  induction a as [|c a IH]; intros b x y Ha Hb Sx Sy E.
  - destruct b as [|d b]; cbn [app] in *; auto.
    subst x. cbn [stops forallb] in *. apply andb_prop in Hb as [Hd _]. congruence.
  - destruct b as [|d b]; cbn [app] in *.
    + subst y. cbn [stops forallb] in *. apply andb_prop in Ha as [Hc _]. congruence.
    + injection E as -> E. cbn [forallb] in *. apply andb_prop in Ha as [_ Ha]. apply andb_prop in Hb as [_ Hb].
      destruct (IH b x y Ha Hb Sx Sy E) as [-> ->]. auto.
Qed.

Lemma frame_eq s : frame s = dec (cplen s) ++ ":" :: s.
Proof. reflexivity. Qed.

(* the framing lemma (notes/sketches/Frame.v): a length-framed value followed by ')' is uniquely readable *)
Lemma frame_unique s s' r r' :
  frame s ++ ")" :: r = frame s' ++ ")" :: r' -> s = s' /\ r = r'.
Proof.
  rewrite !frame_eq. rewrite <- !app_assoc. cbn [app].
  intros E.
  assert (Hc : is_digit ":" = false) by reflexivity.
  destruct (split_unique is_digit ":" Hc _ _ _ _ (dec_digits _) (dec_digits _) E) as [Hd E'].
  apply dec_inj in Hd.
  destruct (app_eq_prefix _ _ _ _ E') as [[t [Ht Hx]]|[t [Ht Hx]]].
  - destruct t as [|c t].
    + rewrite app_nil_r in Ht. subst s'. cbn [app] in Hx. injection Hx as ->. auto.
    + cbn [app] in Hx. injection Hx as <- _. subst s'. rewrite cplen_app in Hd. cbn in Hd. lia.
  - destruct t as [|c t].
    + rewrite app_nil_r in Ht. subst s. cbn [app] in Hx. injection Hx as ->. auto.
    + cbn [app] in Hx. injection Hx as <- _. subst s. rewrite cplen_app in Hd. cbn in Hd. lia.
Qed.

(* strings that are empty or start with ':' *)
Definition colon_start (s : pystr) : Prop := s = [] \/ exists t, s = ":" :: t.

Lemma colon_start_app a b : colon_start a -> colon_start b -> colon_start (a ++ b).
Proof.
  intros [->|[t ->]] Hb; auto. right. exists (t ++ b). reflexivity.
Qed.

Lemma colon_start_flat_map {A} (g : A -> pystr) l : (forall x, colon_start (g x)) -> colon_start (flat_map g l).
Proof. intros Hg. induction l as [|x l IH]; cbn [flat_map]; [left; auto|]. apply colon_start_app; auto. Qed.

Lemma colon_start_stops P s : P ":" = false -> colon_start s -> stops P s.
Proof. intros HP [->|[t ->]]; cbn; auto. Qed.

Lemma flat_map_flat_map {A B C} (g : B -> list C) (h : A -> list B) l :
  flat_map g (flat_map h l) = flat_map (fun x => flat_map g (h x)) l.
Proof. induction l as [|x l IH]; cbn [flat_map]; auto. now rewrite flat_map_app, IH. Qed.

Lemma Forall2_map_same {A B} (R : B -> B -> Prop) (g h : A -> B) l :
  (forall x, In x l -> R (g x) (h x)) -> Forall2 R (map g l) (map h l).
Proof. induction l as [|x l IH]; cbn [map]; intros Hx; constructor; [apply Hx|apply IH; intros; apply Hx]; simpl; auto. Qed.

Lemma map_eq_Forall2 {A B} (g : A -> B) l l' : map g l = map g l' -> Forall2 (fun x y => g x = g y) l l'.
Proof.
  revert l'. induction l as [|x l IH]; intros [|y l'] E; cbn [map] in E; try discriminate; constructor.
  - now injection E.
  - apply IH. now injection E.
Qed.

Lemma Forall2_impl_in {A B} (R S : A -> B -> Prop) l l' :
  (forall a b, In a l -> In b l' -> R a b -> S a b) -> Forall2 R l l' -> Forall2 S l l'.
Proof.
  intros HRS H. induction H as [|a b l l' Hab H IH]; constructor.
  - apply HRS; simpl; auto.
  - apply IH. intros x y Hx Hy. apply HRS; simpl; auto.
Qed.

(* ===================================================================================================== *)
(* Part 2: the spec with values related by an arbitrary relation R; ceq = ceq_gen veq                    *)
(* ===================================================================================================== *)
Definition render_eq (v v' : pval) : Prop := tytag v = tytag v' /\ stable_str v = stable_str v'.

Section CEqGen.
  Variable R : pval -> pval -> Prop.
  Variable ct : ctable.

  Definition props_rel (c : pystr) (ps ps' : list (pystr * pval)) : Prop :=
    forall f, In f (comparable ct c) ->
      match assoc (fd_name f) ps, assoc (fd_name f) ps' with
      | Some v, Some v' => R v v'
      | None, None => True
      | _, _ => False
      end.

  Fixpoint ceq_gen (a b : node) : Prop :=
    match a, b with
    | Node _ c _ ps ks, Node _ c' _ ps' ks' =>
      c = c' /\ props_rel c ps ps' /\
      (fix kids (ks ks' : list (pystr * (kshape * list node))) : Prop :=
         match ks, ks' with
         | [], [] => True
         | (f, (sh, l)) :: r, (f', (sh', l')) :: r' =>
           f = f' /\ sh = sh' /\
           (fix all (l l' : list node) : Prop :=
              match l, l' with
              | [], [] => True
              | x :: t, y :: t' => ceq_gen x y /\ all t t'
              | _, _ => False
              end) l l' /\ kids r r'
         | _, _ => False
         end) ks ks'
    end.

  Definition krel (Q : node -> node -> Prop) (k k' : pystr * (kshape * list node)) : Prop :=
    fst k = fst k' /\ fst (snd k) = fst (snd k') /\ Forall2 Q (snd (snd k)) (snd (snd k')).

  Lemma ceq_gen_unfold a c o ps ks a' c' o' ps' ks' :
    ceq_gen (Node a c o ps ks) (Node a' c' o' ps' ks') <->
    c = c' /\ props_rel c ps ps' /\ Forall2 (krel ceq_gen) ks ks'.
  Proof.
    cbn [ceq_gen].
    assert (L : forall l l', (fix all (l l' : list node) : Prop :=
              match l, l' with
              | [], [] => True
              | x :: t, y :: t' => ceq_gen x y /\ all t t'
              | _, _ => False
              end) l l' <-> Forall2 ceq_gen l l').
    { induction l as [|x l IH]; intros [|y l']; split; intros H;
        try (now inversion H); try (now constructor); try (exfalso; exact H).
      - destruct H as [H1 H2]. constructor; [assumption|]. apply IH. assumption.
      - inversion H; subst. split; [assumption|]. apply IH. assumption. }
    assert (K : forall ks ks', (fix kids (ks ks' : list (pystr * (kshape * list node))) : Prop :=
         match ks, ks' with
         | [], [] => True
         | (f, (sh, l)) :: r, (f', (sh', l')) :: r' =>
           f = f' /\ sh = sh' /\
           (fix all (l l' : list node) : Prop :=
              match l, l' with
              | [], [] => True
              | x :: t, y :: t' => ceq_gen x y /\ all t t'
              | _, _ => False
              end) l l' /\ kids r r'
         | _, _ => False
         end) ks ks' <-> Forall2 (krel ceq_gen) ks ks').
    { clear ks ks'. induction ks as [|[f [sh l]] ks IH]; intros [|[f' [sh' l']] ks']; split; intros H;
        try (now inversion H); try (now constructor); try (exfalso; exact H).
      - destruct H as (H1 & H2 & H3 & H4). constructor.
        + unfold krel. cbn [fst snd]. repeat split; auto. now apply L.
        + now apply IH.
      - inversion H as [|? ? ? ? Hk Hr]; subst. unfold krel in Hk. cbn [fst snd] in Hk.
        destruct Hk as (H1 & H2 & H3). repeat split; auto.
        + now apply L.
        + now apply IH. }
    rewrite K. tauto.
  Qed.
End CEqGen.

Definition ceq_r : ctable -> node -> node -> Prop := ceq_gen render_eq.

Lemma ceq_gen_veq ct a b : ceq_gen veq ct a b <-> ceq ct a b.
Proof. reflexivity. Qed.

(* a predicate on class names and on (class name, field name, property value) holding at every node of a tree *)
Fixpoint node_all (Pc : pystr -> Prop) (Pv : pystr -> pystr -> pval -> Prop) (n : node) : Prop :=
  match n with
  | Node _ c _ ps ks =>
    Pc c /\ (forall q, In q ps -> Pv c (fst q) (snd q)) /\
    (fix kids (ks : list (pystr * (kshape * list node))) : Prop :=
       match ks with
       | [] => True
       | k :: r => (fix all (l : list node) : Prop :=
                      match l with [] => True | x :: t => node_all Pc Pv x /\ all t end) (snd (snd k)) /\ kids r
       end) ks
  end.

(* P holds of the values of the comparable properties (the only ones the digest reads) *)
Definition on_comparable (ct : ctable) (P : pval -> Prop) (c name : pystr) (v : pval) : Prop :=
  (exists f, In f (comparable ct c) /\ fd_name f = name) -> P v.

Lemma assoc_in {A} (l : list (pystr * A)) k w : assoc k l = Some w -> In (k, w) l.
Proof.
  induction l as [|[k0 w0] l IH]; simpl; intros E; [discriminate|].
  destruct (pystr_eqb_spec k0 k) as [->|N]; [injection E as <-; auto|auto].
Qed.

Lemma node_all_cls Pc Pv n : node_all Pc Pv n -> Pc (cls n).
Proof. destruct n. cbn. tauto. Qed.
Lemma node_all_props Pc Pv n : node_all Pc Pv n -> forall q, In q (nprops n) -> Pv (cls n) (fst q) (snd q).
Proof. destruct n. cbn. tauto. Qed.
Lemma node_all_kids Pc Pv n : node_all Pc Pv n ->
  forall k, In k (nkids n) -> forall x, In x (snd (snd k)) -> node_all Pc Pv x.
Proof.
  destruct n as [a c o ps ks]. cbn [node_all nkids]. intros (_ & _ & H).
  induction ks as [|k0 ks IH]; intros k Hk x Hx; [destruct Hk|].
  destruct H as [H1 H2]. destruct Hk as [->|Hk]; [|eapply IH; eauto].
  clear -H1 Hx. induction (snd (snd k)) as [|y l IHl]; [destruct Hx|].
  destruct H1 as [H1 H2]. destruct Hx as [->|Hx]; auto.
Qed.

Lemma kid_smaller n k x : In k (nkids n) -> In x (snd (snd k)) -> size x < size n.
Proof.
  destruct n as [a c o ps ks]. cbn [nkids]. intros Hk Hx. simpl. apply Nat.lt_succ_r.
  induction ks as [|k0 ks IHk]; [destruct Hk|]. simpl. destruct Hk as [->|Hk].
  - assert (size x <= list_sum (map size (snd (snd k)))).
    { clear -Hx. induction (snd (snd k)) as [|y l IHl]; [destruct Hx|]. simpl. destruct Hx as [->|Hx]; [lia|]. specialize (IHl Hx). lia. }
    lia.
  - specialize (IHk Hk). lia.
Qed.

(* monotonicity: the value relation may be strengthened on the comparable values that occur *)
Lemma node_all_impl (Pc Qc : pystr -> Prop) (Pv Qv : pystr -> pystr -> pval -> Prop) :
  (forall c, Pc c -> Qc c) -> (forall c n v, Pv c n v -> Qv c n v) ->
  forall n, node_all Pc Pv n -> node_all Qc Qv n.
Proof.
  intros HC HPQ. fix IH 1. intros [a c o ps ks]. cbn [node_all]. intros (H1 & H2 & H3).
  split; [exact (HC _ H1)|]. split; [intros q Hq; apply HPQ, H2, Hq|].
  induction ks as [|k ks IHk]; [exact I|]. destruct H3 as [H3 H4]. split; [|apply IHk, H4].
  clear -IH H3. induction (snd (snd k)) as [|x l IHl]; [exact I|]. destruct H3 as [H3 H5].
  split; [apply IH, H3|apply IHl, H5].
Qed.

Lemma ceq_gen_mono (R S : pval -> pval -> Prop) (P : pval -> Prop) ct :
  (forall v v', P v -> P v' -> R v v' -> S v v') ->
  forall a b, node_all (fun _ => True) (on_comparable ct P) a -> node_all (fun _ => True) (on_comparable ct P) b ->
  ceq_gen R ct a b -> ceq_gen S ct a b.
Proof.
  intros HRS. induction a as [a IH] using size_induction. intros b Pa Pb Hc.
  destruct a as [aa c o ps ks], b as [ab c' o' ps' ks'].
  apply ceq_gen_unfold in Hc as (<- & Hp & Hk). apply ceq_gen_unfold. split; [reflexivity|]. split.
  - intros f Hf. specialize (Hp f Hf).
    destruct (assoc (fd_name f) ps) as [v|] eqn:E1, (assoc (fd_name f) ps') as [v'|] eqn:E2; auto.
    apply assoc_in in E1, E2.
    apply HRS; auto.
    + apply (node_all_props _ _ _ Pa _ E1). exists f. auto.
    + apply (node_all_props _ _ _ Pb _ E2). exists f. auto.
  - assert (KA : forall k, In k ks -> forall x, In x (snd (snd k)) -> size x < size (Node aa c o ps ks) /\ node_all (fun _ => True) (on_comparable ct P) x).
    { intros k Hk0 x Hx. split; [eapply kid_smaller; eauto | eapply (node_all_kids _ _ _ Pa); eauto]. }
    assert (KB : forall k, In k ks' -> forall x, In x (snd (snd k)) -> node_all (fun _ => True) (on_comparable ct P) x).
    { intros k Hk0 x Hx. eapply (node_all_kids _ _ _ Pb); eauto. }
    clear Pa Pb Hp. set (N := size (Node aa c o ps ks)) in *. clearbody N.
    induction Hk as [|k k' ks ks' (H1 & H2 & H3) Hr IHk]; constructor.
    + repeat split; auto.
      apply (Forall2_impl_in (ceq_gen R ct)); [|exact H3].
      intros x y Hx Hy Hxy. destruct (KA k (or_introl eq_refl) x Hx) as [Hs Px].
      apply IH; auto. apply (KB k' (or_introl eq_refl) y Hy).
    + apply IHk.
      * intros k0 Hk0 x Hx. apply (KA k0 (or_intror Hk0) x Hx).
      * intros k0 Hk0. apply KB. simpl; auto.
Qed.

(* ===================================================================================================== *)
(* Part 2a: the property pieces                                                                          *)
(* ===================================================================================================== *)
Lemma prop_piece_eq name v :
  prop_piece current true name v = ":" :: name ++ "=" :: tytag v ++ "(" :: frame (stable_str v) ++ [")"].
Proof. reflexivity. Qed.

(* the type tag of a value contains no '(' as soon as an enum's class name contains none *)
Definition tag_ok (v : pval) : Prop :=
  match v with VEnum c _ _ => free_of "(" c = true | _ => True end.

Lemma tytag_no_lparen v : tag_ok v -> forallb (nochar "(") (tytag v) = true.
Proof.
  destruct v; cbn [tag_ok tytag]; intros Hc; try reflexivity.
  rewrite !forallb_app. unfold free_of in Hc. rewrite Hc. reflexivity.
Qed.

Ltac norm_in E := repeat (progress (rewrite <- ?app_assoc in E; cbn [app] in E)).

Lemma prop_piece_inj name v v' r r' : tag_ok v -> tag_ok v' ->
  prop_piece current true name v ++ r = prop_piece current true name v' ++ r' -> render_eq v v' /\ r = r'.
Proof.
  intros Tv Tv'. rewrite !prop_piece_eq. intros E. norm_in E. injection E as E.
  apply app_inv_head in E. injection E as E.
  assert (Hs : nochar "(" "(" = false) by reflexivity.
  destruct (split_unique (nochar "(") "(" Hs _ _ _ _ (tytag_no_lparen v Tv) (tytag_no_lparen v' Tv') E) as [Et E'].
  apply frame_unique in E' as [Es Er]. unfold render_eq. auto.
Qed.

Section Complete.
  Variable H : pystr -> pystr.
  Variable ct : ctable.
  Hypothesis H_inj : forall x y, H x = H y -> x = y.
  Hypothesis H_hex : forall x, forallb is_hex (H x) = true.

  Notation cid := (content_id H ct current).

  Lemma cid_hex n : forallb is_hex (cid n) = true.
  Proof. rewrite content_id_unfold. apply H_hex. Qed.

  (* peeling the property pieces off two preimages of the same class *)
  Lemma props_peel (fs : list fdecl) ps ps' r r' :
    (forall f, In f fs -> exists v v', assoc (fd_name f) ps = Some v /\ assoc (fd_name f) ps' = Some v' /\ tag_ok v /\ tag_ok v') ->
    flat_map (fun p => prop_piece current true (fst p) (snd p))
      (flat_map (fun f => match assoc (fd_name f) ps with Some v => [(fd_name f, v)] | None => [] end) fs) ++ r =
    flat_map (fun p => prop_piece current true (fst p) (snd p))
      (flat_map (fun f => match assoc (fd_name f) ps' with Some v => [(fd_name f, v)] | None => [] end) fs) ++ r' ->
    (forall f, In f fs -> match assoc (fd_name f) ps, assoc (fd_name f) ps' with
                          | Some v, Some v' => render_eq v v' | None, None => True | _, _ => False end)
    /\ r = r'.
  Proof.
    induction fs as [|f fs IH]; intros Hs E.
    - cbn [flat_map app] in E. split; auto. intros f [].
    - destruct (Hs f (or_introl eq_refl)) as (v & v' & E1 & E2 & T1 & T2).
      cbn [flat_map] in E. rewrite E1, E2 in E. cbn [app flat_map fst snd] in E.
      rewrite <- !app_assoc in E.
      apply (prop_piece_inj _ v v' _ _ T1 T2) in E as [Hr E].
      assert (Hs' : forall g, In g fs -> exists v v', assoc (fd_name g) ps = Some v /\ assoc (fd_name g) ps' = Some v' /\ tag_ok v /\ tag_ok v')
        by (intros g Hg; apply Hs; simpl; auto).
      destruct (IH Hs' E) as [Hall Er].
      split; [|exact Er]. intros g [<-|Hg]; [rewrite E1, E2; exact Hr | exact (Hall g Hg)].
  Qed.
End Complete.

(* ===================================================================================================== *)
(* Part 2b: the child pieces                                                                             *)
(* ===================================================================================================== *)
Definition kp (f : pystr) (i : option nat) (d : pystr) : pystr := ":" :: f ++ "[" :: ridx i ++ "]" :: "=" :: d.

Fixpoint many (f : pystr) (i : nat) (l : list pystr) : pystr :=
  match l with [] => [] | d :: r => kp f (Some i) d ++ many f (S i) r end.

(* what one field contributes to the preimage *)
Definition blk (f : pystr) (v : kshape * list pystr) : pystr :=
  match v with
  | (ShNone, _) => []
  | (ShOne, l) => match l with [] => [] | d :: _ => kp f None d end
  | (ShMany, l) => many f 0 l
  end.

Lemma kids_cid_only_blk ct c kv :
  kids_cid_only ct c kv = flat_map (fun f => blk (fd_name f) (field_value kv f)) (kid_fields ct c true).
Proof.
  unfold kids_cid_only, edges_view. rewrite flat_map_flat_map. apply flat_map_ext. intros f.
  destruct (field_value kv f) as [sh l]. destruct sh; cbn [field_children blk].
  - reflexivity.
  - destruct l as [|d l]; [reflexivity|]. cbn [firstn map flat_map fst snd]. rewrite app_nil_r. reflexivity.
  - rewrite map_map. cbn [fst snd]. generalize 0 as i.
    induction l as [|d l IH]; intros i; [reflexivity|].
    cbn [number_from map flat_map many fst snd]. rewrite IH. reflexivity.
Qed.

(* the rest of a preimage after the pieces of field f: empty, or the piece of another field *)
Definition other_start (f : pystr) (r : pystr) : Prop :=
  r = [] \/ exists g z, r = ":" :: g ++ "[" :: z /\ g <> f /\ free_of "[" g = true.

Lemma other_start_colon f r : other_start f r -> colon_start r.
Proof. intros [->|(g & z & -> & _)]; [left|right]; eauto. Qed.

Lemma other_start_clash f r z : free_of "[" f = true -> other_start f r -> r = ":" :: f ++ "[" :: z -> False.
Proof.
  intros Hf [->|(g & y & -> & Hn & Hg)] E; [discriminate|].
  injection E as E.
  assert (Hs : nochar "[" "[" = false) by reflexivity.
  destruct (split_unique (nochar "[") "[" Hs _ _ _ _ Hg Hf E) as [Eg _]. auto.
Qed.

Lemma kp_start f i d : kp f i d = ":" :: f ++ "[" :: (ridx i ++ "]" :: "=" :: d).
Proof. reflexivity. Qed.

Lemma blks_other_start (kv : list (pystr * (kshape * list pystr))) f fs :
  (forall g, In g fs -> fd_name g <> f /\ free_of "[" (fd_name g) = true) ->
  other_start f (flat_map (fun g => blk (fd_name g) (field_value kv g)) fs).
Proof.
  induction fs as [|g fs IH]; intros Hg; cbn [flat_map]; [left; reflexivity|].
  assert (IH' := IH (fun g' Hg' => Hg g' (or_intror Hg'))). clear IH.
  destruct (Hg g (or_introl eq_refl)) as [Hn Hb].
  destruct (field_value kv g) as [sh l]. destruct sh; cbn [blk app].
  - exact IH'.
  - destruct l as [|d l]; [exact IH'|]. right. rewrite kp_start. cbn [app]. rewrite <- app_assoc. cbn [app]. eauto.
  - destruct l as [|d l]; [exact IH'|]. right. cbn [many]. rewrite kp_start. cbn [app]. rewrite <- !app_assoc. cbn [app]. eauto.
Qed.

(* shapes allowed by the declared kind of a field (on digest views) *)
Definition shape_okd {A} (k : ckind) (v : kshape * list A) : Prop :=
  match k, v with
  | KOpt _, (ShNone, []) => True
  | KOpt _, (ShOne, [_]) => True
  | KTup, (ShMany, _) => True
  | _, _ => False
  end.

Definition hexes (l : list pystr) : Prop := forall d, In d l -> forallb is_hex d = true.

Lemma hex_tail d d' r r' : forallb is_hex d = true -> forallb is_hex d' = true ->
  colon_start r -> colon_start r' -> d ++ r = d' ++ r' -> d = d' /\ r = r'.
Proof.
  intros Hd Hd' Hr Hr'. apply (split_term is_hex); auto; apply colon_start_stops; auto.
Qed.

Lemma kp_inj f i d d' r r' : forallb is_hex d = true -> forallb is_hex d' = true ->
  colon_start r -> colon_start r' -> kp f i d ++ r = kp f i d' ++ r' -> d = d' /\ r = r'.
Proof.
  intros Hd Hd' Hr Hr' E. unfold kp in E. norm_in E. injection E as E.
  apply app_inv_head in E. injection E as E. apply app_inv_head in E. injection E as E.
  apply hex_tail; auto.
Qed.

Lemma many_colon f i l : colon_start (many f i l).
Proof. destruct l; cbn [many]; [left; auto|right]. unfold kp. cbn [app]. eauto. Qed.

Lemma many_inj f : free_of "[" f = true -> forall l l' i r r', hexes l -> hexes l' ->
  other_start f r -> other_start f r' -> many f i l ++ r = many f i l' ++ r' -> l = l' /\ r = r'.
Proof.
  intros Hf. induction l as [|d l IH]; intros [|d' l'] i r r' Hl Hl' Hr Hr' E; cbn [many app] in E.
  - auto.
  - exfalso. rewrite kp_start in E. norm_in E. eapply (other_start_clash f r); eauto.
  - exfalso. rewrite kp_start in E. norm_in E. symmetry in E. eapply (other_start_clash f r'); eauto.
  - rewrite <- !app_assoc in E. apply kp_inj in E as [-> E].
    + apply IH in E as [-> ->]; auto; intros x Hx; [apply Hl|apply Hl']; simpl; auto.
    + apply Hl; simpl; auto.
    + apply Hl'; simpl; auto.
    + apply colon_start_app; [apply many_colon|eapply other_start_colon; eauto].
    + apply colon_start_app; [apply many_colon|eapply other_start_colon; eauto].
Qed.

Lemma blk_inj f k v v' r r' : free_of "[" f = true -> shape_okd k v -> shape_okd k v' ->
  hexes (snd v) -> hexes (snd v') -> other_start f r -> other_start f r' ->
  blk f v ++ r = blk f v' ++ r' -> v = v' /\ r = r'.
Proof.
  intros Hf Sv Sv' Hv Hv' Hr Hr' E.
  destruct v as [sh l], v' as [sh' l']. cbn [snd] in *.
  destruct k as [opt|].
  - destruct sh, l as [|d [|? ?]]; cbn [shape_okd] in Sv; try tauto;
      destruct sh', l' as [|d' [|? ?]]; cbn [shape_okd] in Sv'; try tauto; cbn [blk app] in E; try tauto.
    + exfalso. rewrite kp_start in E. norm_in E. eapply (other_start_clash f r); eauto.
    + exfalso. rewrite kp_start in E. norm_in E. symmetry in E. eapply (other_start_clash f r'); eauto.
    + apply kp_inj in E as [-> ->]; auto.
      * apply Hv; simpl; auto.
      * apply Hv'; simpl; auto.
      * eapply other_start_colon; eauto.
      * eapply other_start_colon; eauto.
  - destruct sh; cbn [shape_okd] in Sv; try tauto. destruct sh'; cbn [shape_okd] in Sv'; try tauto.
    cbn [blk] in E. apply many_inj in E as [-> ->]; auto.
Qed.

Lemma blks_inj (kv kv' : list (pystr * (kshape * list pystr))) fs :
  NoDup (map fd_name fs) ->
  (forall g, In g fs -> free_of "[" (fd_name g) = true) ->
  (forall g, In g fs -> exists k, shape_okd k (field_value kv g) /\ shape_okd k (field_value kv' g)) ->
  (forall g, In g fs -> hexes (snd (field_value kv g)) /\ hexes (snd (field_value kv' g))) ->
  flat_map (fun g => blk (fd_name g) (field_value kv g)) fs = flat_map (fun g => blk (fd_name g) (field_value kv' g)) fs ->
  forall g, In g fs -> field_value kv g = field_value kv' g.
Proof.
  induction fs as [|f fs IH]; intros Hn Hb Hs Hh E g Hg; [destruct Hg|].
  inversion Hn as [|? ? Hf Hn']; subst. cbn [flat_map] in E.
  assert (Ho : forall kv0, other_start (fd_name f) (flat_map (fun g => blk (fd_name g) (field_value kv0 g)) fs)).
  { intros kv0. apply blks_other_start. intros g' Hg'. split; [|apply Hb; simpl; auto].
    intros En. apply Hf. rewrite <- En. now apply in_map. }
  destruct (Hs f (or_introl eq_refl)) as (k & S1 & S2).
  destruct (Hh f (or_introl eq_refl)) as (X1 & X2).
  apply (blk_inj (fd_name f) k) in E as [Ev Er]; auto; [|apply Hb; simpl; auto].
  destruct Hg as [<-|Hg]; auto.
  apply IH; auto; intros g' Hg'; [apply Hb|apply Hs|apply Hh]; simpl; auto.
Qed.

(* ===================================================================================================== *)
(* Part 2c: what a conforming node stores                                                                *)
(* ===================================================================================================== *)
Lemma assoc_some {A} (l : list (pystr * A)) k : In k (map fst l) -> exists w, assoc k l = Some w.
Proof.
  induction l as [|[k0 w0] l IH]; simpl; intros Hin; [tauto|].
  destruct (pystr_eqb_spec k0 k) as [->|N]; eauto. destruct Hin as [E|Hin]; [congruence|auto].
Qed.

Lemma zip_ok_in {A B} (p : A -> B -> bool) fs ks : zip_ok p fs ks = true ->
  forall f, In f fs -> exists k, In k ks /\ p f k = true.
Proof.
  revert ks. induction fs as [|f0 fs IH]; intros [|k0 ks] Hz f Hf; simpl in *; try discriminate; [tauto|].
  apply andb_prop in Hz as [H1 H2]. destruct Hf as [<-|Hf]; eauto.
  destruct (IH ks H2 f Hf) as (k & Hk & Hp). eauto.
Qed.

Lemma field_value_map_view {A B} (g : A -> B) ks f :
  field_value (map_view g ks) f = (fst (field_value ks f), map g (snd (field_value ks f))).
Proof. unfold field_value. rewrite assoc_map_view. destruct (assoc (fd_name f) ks) as [[sh l]|]; reflexivity. Qed.

Lemma field_value_in {A} (ks : list (pystr * (kshape * list A))) f x :
  In x (snd (field_value ks f)) -> exists k, In k ks /\ In x (snd (snd k)).
Proof.
  unfold field_value. destruct (assoc (fd_name f) ks) as [v|] eqn:E; [|intros []].
  intros Hx. apply assoc_in in E. exists (fd_name f, v). auto.
Qed.

Section Conform.
  Variable ct : ctable.

  Lemma wf_prop_values n : wf_node ct n = true ->
    forall f, In f (prop_fields ct (cls n)) -> exists v, assoc (fd_name f) (nprops n) = Some v.
  Proof.
    destruct n as [a c o ps ks]. cbn [wf_node cls nprops]. intros W f Hf.
    apply andb_prop in W as [W _]. apply andb_prop in W as [W _].
    apply assoc_some. erewrite <- (zip_ok_names _ _ _ _ W). now apply in_map.
    Unshelve. intros g k Hp. now apply pystr_eqb_eq.
  Qed.

  Lemma wf_child_shape n : wf_node ct n = true ->
    forall f, In f (child_fields ct (cls n)) -> shape_ok (child_kind f) (field_value (nkids n) f) = true.
  Proof.
    intros W f Hf.
    pose proof (wf_child_names ct n W) as Hn.
    assert (Hd : NoDup (map fst (nkids n))) by (rewrite <- Hn; apply child_fields_nodup).
    destruct n as [a c o ps ks]. cbn [wf_node cls nkids] in *.
    apply andb_prop in W as [W _]. apply andb_prop in W as [_ W].
    destruct (zip_ok_in _ _ _ W f Hf) as ([kn kv] & Hk & Hp).
    apply andb_prop in Hp as [Hp1 Hp2]. apply pystr_eqb_eq in Hp1. cbn [fst snd] in *.
    unfold field_value. rewrite Hp1. rewrite (assoc_nodup ks kn kv Hd Hk). exact Hp2.
  Qed.

  Lemma shape_ok_okd {B} (g : node -> B) k v : shape_ok k v = true -> shape_okd k (fst v, map g (snd v)).
  Proof.
    destruct v as [sh l]. cbn [fst snd].
    destruct k as [[|]|], sh, l as [|x [|y l]]; cbn; try discriminate; auto.
  Qed.

  (* every comparable user property is read by the encoder as soon as no user field shadows a built-in one *)
  Lemma comparable_enc c f : builtin f = false -> In f (comparable ct c) ->
    In f (get_properties_fields true ct c enc_flags true).
  Proof.
    intros Hb Hf. unfold comparable in Hf. apply filter_In in Hf as [Hf Hc].
    unfold get_properties_fields. apply filter_In. split.
    - apply (Permutation_in _ (isort_perm by_name (all_props ct c))). unfold all_props. simpl. auto.
    - unfold builtin in Hb. apply orb_false_elim in Hb as [Hb H3]. apply orb_false_elim in Hb as [H1 H2].
      unfold yields. rewrite H1, H2, H3, Hc. cbn. now rewrite orb_true_r.
  Qed.

  Lemma kid_fields_in c f : In f (kid_fields ct c true) <-> In f (child_fields ct c).
  Proof.
    unfold kid_fields, sort_fields. split; apply Permutation_in;
      [apply Permutation_sym|]; apply isort_perm.
  Qed.

  Lemma kid_fields_nodup c : NoDup (map fd_name (kid_fields ct c true)).
  Proof.
    apply (Permutation_NoDup (l := map fd_name (child_fields ct c))); [|apply child_fields_nodup].
    apply Permutation_map. unfold kid_fields, sort_fields. apply isort_perm.
  Qed.
End Conform.

Lemma blk_colon f v : colon_start (blk f v).
Proof.
  destruct v as [[| |] l]; cbn [blk]; [left; auto| |apply many_colon].
  destruct l; [left; auto|right]. unfold kp. eauto.
Qed.

(* ===================================================================================================== *)
(* Part 2d: the framing theorem                                                                          *)
(* ===================================================================================================== *)
(* Hypotheses on names (all of them hold when names are Python identifiers):
   - no user field is called id / content_id / origin (such a property would be comparable for the spec but
     is never read by the encoder);
   - child field names contain no '[' (used to tell an absent optional / a shorter tuple from the next field). *)
Definition names_ok (ct : ctable) : Prop :=
  forall c f, In f (fields_of ct c) -> builtin f = false /\ (is_child f = true -> free_of "[" (fd_name f) = true).

(* Hypotheses on the nodes of a tree: class names contain no ':' (the class name is the unframed head of the
   preimage) and the class name of an enum-valued property contains no '(' (it is part of the unframed type tag). *)
Definition node_values_ok (ct : ctable) (n : node) : Prop :=
  node_all (fun c => free_of ":" c = true) (on_comparable ct tag_ok) n.

(* a simpler sufficient condition: every property value, comparable or not, has a '('-free tag *)
Lemma node_values_ok_all ct n :
  node_all (fun c => free_of ":" c = true) (fun _ _ v => tag_ok v) n -> node_values_ok ct n.
Proof. apply node_all_impl; [auto|]. intros c name v Hv _. exact Hv. Qed.

Section Complete2.
  Variable H : pystr -> pystr.
  Variable ct : ctable.
  Hypothesis H_inj : forall x y, H x = H y -> x = y.
  Hypothesis H_hex : forall x, forallb is_hex (H x) = true.
  Hypothesis NO : names_ok ct.

  Notation cid := (content_id H ct current).

  Lemma tail_colon c ps kv : colon_start (props_data ct current true c ps ++ kids_cid_only ct c kv).
  Proof.
    apply colon_start_app.
    - unfold props_data. apply colon_start_flat_map. intros p. right. rewrite prop_piece_eq. eauto.
    - rewrite kids_cid_only_blk. apply colon_start_flat_map. intros f. apply blk_colon.
  Qed.

  Theorem complete_framing_strong : forall a b,
    wf_node ct a = true -> wf_node ct b = true -> node_values_ok ct a -> node_values_ok ct b ->
    cid a = cid b -> ceq_r ct a b.
  Proof.
    induction a as [a IH] using size_induction. intros b Wa Wb Oa Ob E. unfold node_values_ok in *.
    rewrite (content_id_unfold H ct current a), (content_id_unfold H ct current b) in E. apply H_inj in E.
    assert (Hn : nochar ":" ":" = false) by reflexivity.
    destruct (split_term (nochar ":") _ _ _ _
                (node_all_cls _ _ _ Oa) (node_all_cls _ _ _ Ob)
                (colon_start_stops _ _ Hn (tail_colon _ _ _)) (colon_start_stops _ _ Hn (tail_colon _ _ _)) E) as [Ec E1].
    clear E.
    pose proof (wf_prop_values ct a Wa) as PA. pose proof (wf_prop_values ct b Wb) as PB.
    pose proof (wf_child_shape ct a Wa) as SA. pose proof (wf_child_shape ct b Wb) as SB.
    pose proof (wf_child_names ct a Wa) as NA. pose proof (wf_child_names ct b Wb) as NB.
    pose proof (node_all_props _ _ _ Oa) as TA. pose proof (node_all_props _ _ _ Ob) as TB.
    assert (KA : forall k, In k (nkids a) -> forall x, In x (snd (snd k)) ->
                 size x < size a /\ wf_node ct x = true /\ node_values_ok ct x).
    { intros k Hk x Hx. split; [exact (kid_smaller a k x Hk Hx)|]. split; [exact (wf_kids ct a Wa k Hk x Hx)|].
      exact (node_all_kids _ _ _ Oa k Hk x Hx). }
    assert (KB : forall k, In k (nkids b) -> forall x, In x (snd (snd k)) -> wf_node ct x = true /\ node_values_ok ct x).
    { intros k Hk x Hx. split; [exact (wf_kids ct b Wb k Hk x Hx)|]. exact (node_all_kids _ _ _ Ob k Hk x Hx). }
    clear Wa Wb Oa Ob.
    destruct a as [aa c o ps ks], b as [ab c' o' ps' ks']. cbn [cls nprops nkids] in *. subst c'.
    (* properties *)
    unfold props_data, enc_props in E1.
    apply props_peel in E1 as [Hprops Ekids].
    2:{ intros f Hf. apply enc_field_comparable in Hf. assert (Hc := Hf).
        unfold comparable in Hf. apply filter_In in Hf as [Hf _].
        destruct (PA f Hf) as [v Ev]. destruct (PB f Hf) as [v' Ev']. exists v, v'. repeat split; auto.
        - apply assoc_in in Ev. apply (TA _ Ev). exists f. auto.
        - apply assoc_in in Ev'. apply (TB _ Ev'). exists f. auto. }
    (* children *)
    rewrite !kids_cid_only_blk in Ekids.
    assert (FV : forall g, In g (kid_fields ct c true) ->
              field_value (map_view cid ks) g = field_value (map_view cid ks') g).
    { apply blks_inj; auto.
      - apply kid_fields_nodup.
      - intros g Hg. apply kid_fields_in in Hg. unfold child_fields in Hg. apply filter_In in Hg as [Hg Hc].
        apply (NO c g Hg); auto.
      - intros g Hg. apply kid_fields_in in Hg. exists (child_kind g). rewrite !field_value_map_view.
        split; apply shape_ok_okd; auto.
      - intros g Hg. rewrite !field_value_map_view. cbn [snd].
        split; intros d Hd; apply in_map_iff in Hd as (x & <- & _); apply cid_hex; auto. }
    apply ceq_gen_unfold. split; [reflexivity|]. split.
    - intros f Hf. apply Hprops. apply comparable_enc; auto.
      unfold comparable in Hf. apply filter_In in Hf as [Hf _]. unfold prop_fields in Hf. apply filter_In in Hf as [Hf _].
      apply (NO c f Hf).
    - assert (Hd : NoDup (map fst ks)) by (rewrite <- NA; apply child_fields_nodup).
      assert (Hd' : NoDup (map fst ks')) by (rewrite <- NB; apply child_fields_nodup).
      rewrite <- (fields_lookup_all ks (child_fields ct c) NA Hd).
      rewrite <- (fields_lookup_all ks' (child_fields ct c) NB Hd').
      apply Forall2_map_same. intros f Hf. unfold krel. cbn [fst snd]. split; [reflexivity|].
      specialize (FV f (proj2 (kid_fields_in ct c f) Hf)). rewrite !field_value_map_view in FV.
      injection FV as Esh Emap. split; [exact Esh|].
      apply map_eq_Forall2 in Emap. apply (Forall2_impl_in (fun x y => cid x = cid y)); [|exact Emap].
      intros x y Hx Hy Exy.
      apply field_value_in in Hx as (k & Hk & Hx). apply field_value_in in Hy as (k' & Hk' & Hy).
      destruct (KA k Hk x Hx) as (Hs & Wx & Ox). destruct (KB k' Hk' y Hy) as (Wy & Oy).
      apply IH; auto.
  Qed.

  (* the statement with the class test of is_equal as a (redundant) premise *)
  Theorem complete_framing : forall a b,
    wf_node ct a = true -> wf_node ct b = true -> node_values_ok ct a -> node_values_ok ct b ->
    cls a = cls b -> cid a = cid b -> ceq_r ct a b.
  Proof. intros a b Wa Wb Oa Ob _. now apply complete_framing_strong. Qed.

  Theorem is_equal_complete_framing : forall a b,
    wf_node ct a = true -> wf_node ct b = true -> node_values_ok ct a -> node_values_ok ct b ->
    is_equal H ct current a b = true -> ceq_r ct a b.
  Proof. intros a b Wa Wb Oa Ob E. apply is_equal_char in E as [_ E]. now apply complete_framing_strong. Qed.

  (* the class name alone is already determined by the digest *)
  Corollary cid_determines_class : forall a b,
    wf_node ct a = true -> wf_node ct b = true -> node_values_ok ct a -> node_values_ok ct b ->
    cid a = cid b -> cls a = cls b.
  Proof.
    intros a b Wa Wb Oa Ob E. pose proof (complete_framing_strong a b Wa Wb Oa Ob E) as C.
    destruct a, b. apply ceq_gen_unfold in C. cbn. tauto.
  Qed.
End Complete2.

(* ===================================================================================================== *)
(* Part 3: value-level injectivity of the rendering                                                      *)
(* ===================================================================================================== *)
Lemma decZ_int z : decZ z = lit (DecimalString.NilZero.string_of_int (Z.to_int z)).
Proof. destruct z; reflexivity. Qed.

Lemma decZ_inj z z' : decZ z = decZ z' -> z = z'.
Proof.
  rewrite !decZ_int. intros E. apply lit_inj in E.
  apply (f_equal DecimalString.NilZero.int_of_string) in E.
  assert (N : forall z, Z.to_int z <> Decimal.Pos Decimal.Nil /\ Z.to_int z <> Decimal.Neg Decimal.Nil).
  { intros [| p | p]; cbn; split; try discriminate; intros [= E0]; exact (DecimalPos.Unsigned.to_uint_nonnil p E0). }
  rewrite !DecimalString.NilZero.isi in E by apply N.
  injection E as E. now apply DecimalZ.to_int_inj.
Qed.

(* The scalar fragment: None, bools, ints, strings, floats (by their repr), paths and enum members.
   The rendering of an enum member shows its class and member name only; in a real enum the payload is a
   function of (class, member): [et] is that function, and an enum value is well formed when it carries the
   payload [et] assigns to it.  No identifier condition is needed at this level: the class name is read off the
   type tag and cancelled from "Class.member". *)
Definition scalar (et : pystr -> pystr -> pval) (v : pval) : Prop :=
  match v with
  | VTuple _ | VFset _ => False
  | VEnum c m p => et c m = p
  | _ => True
  end.

Theorem render_inj_scalar et v v' :
  scalar et v -> scalar et v' -> tytag v = tytag v' -> stable_str v = stable_str v' -> veq v v'.
Proof.
  intros Sv Sv' Et Es.
  destruct v, v'; cbn [scalar] in Sv, Sv'; try tauto; cbn [tytag] in Et;
    try (vm_compute in Et; discriminate Et); cbn [stable_str py_str py_repr] in Es.
  - constructor.
  - destruct b, b0; try (vm_compute in Es; discriminate Es); constructor.
  - apply decZ_inj in Es. subst. constructor.
  - subst. constructor.
  - apply app_inv_head in Et. apply app_inv_tail in Et. subst cls0.
    apply app_inv_head in Es. apply app_inv_head in Es. subst. constructor.
  - subst. constructor.
  - subst. constructor.
Qed.

Section CompleteScalar.
  Variable H : pystr -> pystr.
  Variable ct : ctable.
  Variable et : pystr -> pystr -> pval.
  Hypothesis H_inj : forall x y, H x = H y -> x = y.
  Hypothesis H_hex : forall x, forallb is_hex (H x) = true.
  Hypothesis NO : names_ok ct.

  Definition node_scalar (n : node) : Prop := node_all (fun _ => True) (on_comparable ct (scalar et)) n.

  Theorem complete_scalar : forall a b,
    wf_node ct a = true -> wf_node ct b = true -> node_values_ok ct a -> node_values_ok ct b ->
    node_scalar a -> node_scalar b ->
    content_id H ct current a = content_id H ct current b -> ceq ct a b.
  Proof.
    intros a b Wa Wb Oa Ob Sa Sb E. apply ceq_gen_veq.
    apply (ceq_gen_mono render_eq veq (scalar et) ct); [|exact Sa|exact Sb|].
    - intros v v' Sv Sv' [Et Es]. now apply (render_inj_scalar et).
    - now apply (complete_framing_strong H ct H_inj H_hex NO).
  Qed.
End CompleteScalar.

(* ===================================================================================================== *)
(* Part 4: the premises are satisfiable (a collision-free hex-valued "digest", a class table, two trees)  *)
(* ===================================================================================================== *)
Lemma tohex_char c :
  match hexval (hexdigit (nat_of_ascii c / 16)), hexval (hexdigit (nat_of_ascii c mod 16)) with
  | Some x, Some y => ascii_of_nat (16 * x + y) = c
  | _, _ => False
  end.
Proof. destruct c as [[] [] [] [] [] [] [] []]; vm_compute; reflexivity. Qed.

Lemma unhex_tohex s : unhex (tohex s) = Some s.
Proof.
  induction s as [|c s IH]; [reflexivity|].
  cbn [tohex unhex]. rewrite IH. pose proof (tohex_char c) as Hc.
  destruct (hexval (hexdigit (nat_of_ascii c / 16))); [|tauto].
  destruct (hexval (hexdigit (nat_of_ascii c mod 16))); [|tauto]. now rewrite Hc.
Qed.

Lemma tohex_inj x y : tohex x = tohex y -> x = y.
Proof. intros E. apply (f_equal unhex) in E. rewrite !unhex_tohex in E. now injection E. Qed.

Lemma tohex_hex x : forallb is_hex (tohex x) = true.
Proof.
  induction x as [|c x IH]; [reflexivity|]. cbn [tohex forallb]. rewrite IH.
  pose proof (tohex_char c) as Hc. unfold is_hex.
  destruct (hexval (hexdigit (nat_of_ascii c / 16))); [|tauto].
  destruct (hexval (hexdigit (nat_of_ascii c mod 16))); [|tauto]. reflexivity.
Qed.

Definition ex_fd (name : string) (role : frole) (cmp : bool) : fdecl :=
  {| fd_name := lit name; fd_role := role; fd_compare := cmp; fd_init := true; fd_kwonly := false |}.
Definition ex_ct : ctable :=
  [ {| cd_name := lit "Leaf"; cd_bases := [];
       cd_own := [ ex_fd "name" RProp true; ex_fd "note" RProp false ] |};
    {| cd_name := lit "Pair"; cd_bases := [];
       cd_own := [ ex_fd "kind" RProp true; ex_fd "left" (RChild (KOpt true)) true;
                   ex_fd "one" (RChild (KOpt false)) true; ex_fd "items" (RChild KTup) true ] |} ].
Definition ex_et (c m : pystr) : pval := VInt 1.
Definition ex_leaf (a : nat) (s note : string) : node :=
  Node a (lit "Leaf") ONo [(lit "name", VStr (lit s)); (lit "note", VStr (lit note))] [].
Definition ex_pair (a : nat) (note : string) : node :=
  Node a (lit "Pair") ONo [(lit "kind", VEnum (lit "Color") (lit "RED") (VInt 1))]
       [ (lit "left", (ShNone, []));
         (lit "one", (ShOne, [ex_leaf (a + 1) "a):b" note]));
         (lit "items", (ShMany, [ex_leaf (a + 2) "x" note; ex_leaf (a + 3) "y:[0]=" note])) ].
Definition ex_a : node := ex_pair 0 "first".
Definition ex_b : node := ex_pair 10 "second".

Lemma ex_names_ok : names_ok ex_ct.
Proof.
  intros c f Hf. unfold fields_of, ex_ct in Hf. cbn [find_class cd_name] in Hf.
  destruct (pystr_eqb_spec (lit "Leaf") c) as [<-|N1].
  - vm_compute in Hf. destruct Hf as [<-|[<-|[]]]; vm_compute; split; auto; discriminate.
  - destruct (pystr_eqb_spec (lit "Pair") c) as [<-|N2]; [|destruct Hf].
    vm_compute in Hf. destruct Hf as [<-|[<-|[<-|[<-|[]]]]]; vm_compute; split; auto; discriminate.
Qed.

Lemma ex_values_all n : n = ex_a \/ n = ex_b ->
  node_all (fun c => free_of ":" c = true) (fun _ _ v => tag_ok v /\ scalar ex_et v) n.
Proof.
  intros [->| ->]; cbn -[free_of lit]; repeat split; try reflexivity;
    try (match goal with Hq : _ \/ _ |- _ =>
           repeat (destruct Hq as [<-|Hq]; [cbn; try reflexivity; exact I|]); destruct Hq end).
Qed.

Lemma complete_premises :
  (forall x y, tohex x = tohex y -> x = y) /\ (forall x, forallb is_hex (tohex x) = true) /\
  names_ok ex_ct /\ wf_node ex_ct ex_a = true /\ wf_node ex_ct ex_b = true /\
  node_values_ok ex_ct ex_a /\ node_values_ok ex_ct ex_b /\
  node_scalar ex_ct ex_et ex_a /\ node_scalar ex_ct ex_et ex_b /\
  cls ex_a = cls ex_b /\ content_id tohex ex_ct current ex_a = content_id tohex ex_ct current ex_b /\
  ex_a <> ex_b /\ size ex_a = 4.
Proof.
  split; [exact tohex_inj|]. split; [exact tohex_hex|]. split; [exact ex_names_ok|].
  split; [vm_compute; reflexivity|]. split; [vm_compute; reflexivity|].
  split; [|split; [|split; [|split]]].
  - apply node_values_ok_all. eapply node_all_impl; [| |apply (ex_values_all ex_a); auto]; cbn; tauto.
  - apply node_values_ok_all. eapply node_all_impl; [| |apply (ex_values_all ex_b); auto]; cbn; tauto.
  - eapply node_all_impl; [| |apply (ex_values_all ex_a); auto]; [auto|]. intros c n v [_ Hs] _. exact Hs.
  - eapply node_all_impl; [| |apply (ex_values_all ex_b); auto]; [auto|]. intros c n v [_ Hs] _. exact Hs.
  - split; [reflexivity|]. split; [vm_compute; reflexivity|]. split; [discriminate|reflexivity].
Qed.

(* ===================================================================================================== *)
(* Part 5: characters and joins used by the reprs of collections                                         *)
(* ===================================================================================================== *)
(* characters that cannot end an int / float literal: anything but the three the collection syntax uses *)
Definition pch (c : ascii) : bool := nochar "," c && nochar ")" c && nochar "}" c.
Lemma comma_sp : lit ", " = ["," ; " "]. Proof. reflexivity. Qed.

Lemma join1 sep x : join_with sep [x] = x.
Proof. reflexivity. Qed.
Lemma join2 sep x y r : join_with sep (x :: y :: r) = x ++ sep ++ join_with sep (y :: r).
Proof. reflexivity. Qed.

Definition trail {A} (l : list A) : pystr := match l with [_] => [","] | _ => [] end.

Definition zch (c : ascii) : bool := is_digit c || Ascii.eqb c "-".

Lemma zdigits d : forallb is_digit (lit (NilZero.string_of_uint d)) = true.
Proof. unfold NilZero.string_of_uint. destruct d; try reflexivity; apply (digits_string_of_uint (_ _)). Qed.

Lemma forallb_impl {A} (p q : A -> bool) l : (forall x, p x = true -> q x = true) -> forallb p l = true -> forallb q l = true.
Proof. intros Hpq. induction l as [|x l IH]; cbn; auto. intros E. apply andb_prop in E as [E1 E2]. rewrite Hpq, IH; auto. Qed.

Lemma decZ_chars z : forallb zch (decZ z) = true /\ decZ z <> [].
Proof.
  assert (D : forall d, forallb zch (lit (NilZero.string_of_uint d)) = true).
  { intros d. apply (forallb_impl is_digit); [|apply zdigits]. intros x Hx. unfold zch. now rewrite Hx. }
  destruct z as [|p|p]; cbn [decZ].
  - split; [reflexivity|discriminate].
  - split; [apply D|]. pose proof (DecimalPos.Unsigned.to_uint_nonnil p).
    unfold NilZero.string_of_uint. destruct (Pos.to_uint p); try congruence; discriminate.
  - split; [|discriminate]. cbn [forallb]. rewrite D. reflexivity.
Qed.

Lemma zch_pch c : zch c = true -> pch c = true.
Proof. destruct c as [[] [] [] [] [] [] [] []]; vm_compute; intros E; try discriminate E; auto. Qed.

Lemma trail_map {A B} (f : A -> B) l : trail (map f l) = trail l.
Proof. destruct l as [|? [|? ?]]; reflexivity. Qed.

(* ===================================================================================================== *)
(* Part 6: arbitrarily nested values                                                                     *)
(* ===================================================================================================== *)
(* ---------- 6a: repr of a string is uniquely readable (escapes and quote choice inverted) ---------- *)
Definition unesc1 (s : pystr) : option (ascii * pystr) :=
  match s with
  | [] => None
  | c :: rest =>
    if Ascii.eqb c "\" then
      match rest with
      | [] => None
      | k :: rest' =>
        if Ascii.eqb k "x" then
          match rest' with
          | h1 :: h2 :: rest'' =>
            match hexval h1, hexval h2 with
            | Some a, Some b => Some (ascii_of_nat (16 * a + b), rest'')
            | _, _ => None
            end
          | _ => None
          end
        else if Ascii.eqb k "n" then Some (ascii_of_nat 10, rest')
        else if Ascii.eqb k "r" then Some (ascii_of_nat 13, rest')
        else if Ascii.eqb k "t" then Some (ascii_of_nat 9, rest')
        else Some (k, rest')
      end
    else Some (c, rest)
  end.

Definition is_quote (q : ascii) : Prop := q = "'" \/ q = """".

Lemma unesc1_esc q c X : is_quote q -> unesc1 (esc_char q c ++ X) = Some (c, X).
Proof. intros [-> | ->]; destruct c as [[] [] [] [] [] [] [] []]; reflexivity. Qed.

Lemma esc_head q c : is_quote q -> exists h t, esc_char q c = h :: t /\ h <> q.
Proof.
  intros [-> | ->]; destruct c as [[] [] [] [] [] [] [] []];
    (eexists; eexists; split; [reflexivity|discriminate]).
Qed.

Lemma body_inj q : is_quote q -> forall s s' r r',
  flat_map (esc_char q) s ++ q :: r = flat_map (esc_char q) s' ++ q :: r' -> s = s' /\ r = r'.
Proof.
  intros Hq. induction s as [|c s IH]; intros [|c' s'] r r' E; cbn [flat_map app] in E.
  - injection E as ->. auto.
  - exfalso. destruct (esc_head q c' Hq) as (h & t & Eh & Nh). rewrite Eh in E. cbn [app] in E. injection E as E _. congruence.
  - exfalso. destruct (esc_head q c Hq) as (h & t & Eh & Nh). rewrite Eh in E. cbn [app] in E. injection E as E _. congruence.
  - rewrite <- !app_assoc in E. apply (f_equal unesc1) in E. rewrite !unesc1_esc in E by assumption.
    injection E as -> E. apply IH in E as [-> ->]. auto.
Qed.

Lemma str_repr_quote s : exists q, is_quote q /\ str_repr s = q :: flat_map (esc_char q) s ++ [q].
Proof. unfold str_repr, is_quote. destruct (has_char "'" s && negb (has_char """" s)); eauto. Qed.

Lemma str_repr_prefix s s' r r' : str_repr s ++ r = str_repr s' ++ r' -> s = s' /\ r = r'.
Proof.
  destruct (str_repr_quote s) as (q & Hq & ->). destruct (str_repr_quote s') as (q' & Hq' & ->).
  intros E. cbn [app] in E. injection E as <- E. rewrite <- !app_assoc in E. cbn [app] in E.
  now apply (body_inj q Hq) in E.
Qed.

(* ---------- 6b: joins of self-delimiting elements ---------- *)
Definition sdelim (x y : pystr) : Prop :=
  forall r r', stops pch r -> stops pch r' -> x ++ r = y ++ r' -> x = y /\ r = r'.
Definition phead (x : pystr) : Prop := exists c t, x = c :: t /\ pch c = true.

Lemma join_inj_g (t : ascii) : pch t = false -> t <> "," ->
  forall xs ys r r', (forall x y, In x xs -> In y ys -> sdelim x y) -> xs <> [] -> ys <> [] ->
  join_with (lit ", ") xs ++ t :: r = join_with (lit ", ") ys ++ t :: r' -> xs = ys /\ r = r'.
Proof.
  intros Ht Htc. rewrite comma_sp.
  assert (Hcomma : pch "," = false) by reflexivity.
  induction xs as [|x xs IH]; intros ys r r' D Nx Ny E; [congruence|].
  destruct ys as [|y ys]; [congruence|].
  assert (Dxy : sdelim x y) by (apply D; simpl; auto).
  destruct xs as [|x2 xs], ys as [|y2 ys].
  - rewrite !join1 in E. destruct (Dxy (t :: r) (t :: r') Ht Ht E) as [-> E']. injection E' as ->. auto.
  - rewrite join1, (join2 _ y y2 ys) in E. norm_in E.
    destruct (Dxy (t :: r) ("," :: _) Ht Hcomma E) as [_ E']. injection E' as E' _. congruence.
  - rewrite join1, (join2 _ x x2 xs) in E. norm_in E.
    destruct (Dxy ("," :: _) (t :: r') Hcomma Ht E) as [_ E']. injection E' as E' _. congruence.
  - rewrite (join2 _ x x2 xs), (join2 _ y y2 ys) in E. norm_in E.
    destruct (Dxy ("," :: _) ("," :: _) Hcomma Hcomma E) as [-> E']. injection E' as E'.
    destruct (IH (y2 :: ys) r r') as [E1 E2]; try discriminate; [|exact E'|].
    + intros a b Ha Hb. apply D; simpl; auto.
    + rewrite E1. auto.
Qed.

Lemma tuple_inj_g xs ys r r' : (forall x y, In x xs -> In y ys -> sdelim x y) ->
  Forall phead xs -> Forall phead ys ->
  join_with (lit ", ") xs ++ trail xs ++ ")" :: r = join_with (lit ", ") ys ++ trail ys ++ ")" :: r' ->
  xs = ys /\ r = r'.
Proof.
  assert (Hr : pch ")" = false) by reflexivity. assert (Hc : pch "," = false) by reflexivity.
  intros D Fx Fy E.
  destruct xs as [|x [|x2 xs]], ys as [|y [|y2 ys]];
    rewrite ?join1, ?(join2 _ x x2 xs), ?(join2 _ y y2 ys), ?comma_sp in E; cbn [join_with trail] in E; norm_in E.
  - cbn [app] in E. injection E as ->. auto.
  - exfalso. inversion Fy as [|? ? (c & y' & -> & Pc) _]; subst. cbn [app] in E. injection E as <- _. congruence.
  - exfalso. inversion Fy as [|? ? (c & y' & -> & Pc) _]; subst. cbn [app] in E. injection E as <- _. congruence.
  - exfalso. inversion Fx as [|? ? (c & x' & -> & Pc) _]; subst. cbn [app] in E. injection E as -> _. congruence.
  - destruct (D x y (or_introl eq_refl) (or_introl eq_refl) ("," :: _) ("," :: _) Hc Hc E) as [-> E']. injection E' as ->. auto.
  - exfalso. destruct (D x y (or_introl eq_refl) (or_introl eq_refl) ("," :: _) ("," :: _) Hc Hc E) as [_ E']. discriminate.
  - exfalso. inversion Fx as [|? ? (c & x' & -> & Pc) _]; subst. cbn [app] in E. injection E as -> _. congruence.
  - exfalso. destruct (D x y (or_introl eq_refl) (or_introl eq_refl) ("," :: _) ("," :: _) Hc Hc E) as [_ E']. discriminate.
  - assert (E2 : join_with (lit ", ") (x :: x2 :: xs) ++ ")" :: r = join_with (lit ", ") (y :: y2 :: ys) ++ ")" :: r').
    { rewrite (join2 _ x x2 xs), (join2 _ y y2 ys), comma_sp. rewrite <- !app_assoc. cbn [app]. exact E. }
    apply (join_inj_g ")" Hr) in E2; auto; discriminate.
Qed.

Lemma fset_inj_g xs ys r r' : (forall x y, In x xs -> In y ys -> sdelim x y) ->
  Forall phead xs -> Forall phead ys ->
  join_with (lit ", ") xs ++ "}" :: ")" :: r = join_with (lit ", ") ys ++ "}" :: ")" :: r' ->
  xs = ys /\ r = r'.
Proof.
  assert (Hr : pch "}" = false) by reflexivity.
  intros D Fx Fy E. destruct xs as [|x xs], ys as [|y ys].
  - cbn [join_with app] in E. injection E as ->. auto.
  - exfalso. inversion Fy as [|? ? (c & y' & -> & Pc) _]; subst.
    destruct ys as [|y2 ys]; rewrite ?join1, ?(join2 _ (c :: y') y2 ys) in E; cbn [join_with app] in E; injection E as <- _; congruence.
  - exfalso. inversion Fx as [|? ? (c & x' & -> & Pc) _]; subst.
    destruct xs as [|x2 xs]; rewrite ?join1, ?(join2 _ (c :: x') x2 xs) in E; cbn [join_with app] in E; injection E as -> _; congruence.
  - apply (join_inj_g "}" Hr) in E as [E1 E2]; auto; try discriminate. injection E2 as ->. auto.
Qed.

(* ---------- 6c: well-formed nested values, first characters ---------- *)
(* a float repr: characters of  0-9 - + . e i n f a , starts like a number / inf / nan, is not an int literal *)
Definition fch (c : ascii) : bool :=
  zch c || Ascii.eqb c "." || Ascii.eqb c "e" || Ascii.eqb c "+" || Ascii.eqb c "i" || Ascii.eqb c "n"
  || Ascii.eqb c "f" || Ascii.eqb c "a".
Definition numhead (c : ascii) : bool := zch c || Ascii.eqb c "i" || Ascii.eqb c "n".
Definition float_ok (r : pystr) : Prop :=
  forallb fch r = true /\ forallb zch r = false /\ match r with [] => False | c :: _ => numhead c = true end.

(* values allowed as elements of tuples / frozensets (at any depth): any string, path, int, bool, None; floats
   with a float-like repr; enum members of the table et whose class name has no '.' and member name no ':' *)
Fixpoint nested_ok (et : pystr -> pystr -> pval) (v : pval) : Prop :=
  match v with
  | VNone | VBool _ | VInt _ | VStr _ | VPath _ => True
  | VFloat r => float_ok r
  | VEnum c m p => free_of "." c = true /\ free_of ":" m = true /\ et c m = p
  | VTuple l | VFset l =>
      (fix all (l : list pval) : Prop := match l with [] => True | x :: t => nested_ok et x /\ all t end) l
  end.

Lemma nested_ok_list et l :
  (fix all (l : list pval) : Prop := match l with [] => True | x :: t => nested_ok et x /\ all t end) l
  <-> Forall (nested_ok et) l.
Proof.
  induction l as [|x l IH]; split; intros Hl.
  - constructor.
  - exact I.
  - destruct Hl as [Hx Hl]. constructor; [exact Hx|]. apply IH. exact Hl.
  - inversion Hl as [|? ? Hx Hl']; subst. split; [exact Hx|]. apply IH. exact Hl'.
Qed.

Lemma pval_ind_deep (P : pval -> Prop) :
  P VNone -> (forall b, P (VBool b)) -> (forall z, P (VInt z)) -> (forall s, P (VStr s)) ->
  (forall c m p, P p -> P (VEnum c m p)) -> (forall r, P (VFloat r)) -> (forall p, P (VPath p)) ->
  (forall l, Forall P l -> P (VTuple l)) -> (forall l, Forall P l -> P (VFset l)) ->
  forall v, P v.
Proof.
  intros H1 H2 H3 H4 H5 H6 H7 H8 H9. fix IH 1. intros [| b | z | s | c m p | r | p | l | l].
  - exact H1.
  - apply H2.
  - apply H3.
  - apply H4.
  - apply H5. apply IH.
  - apply H6.
  - apply H7.
  - apply H8. revert l. fix go 1. intros [|x t]; constructor; [apply IH|apply go].
  - apply H9. revert l. fix go 1. intros [|x t]; constructor; [apply IH|apply go].
Qed.

Definition kind (v : pval) : nat :=
  match v with
  | VNone => 0 | VBool _ => 1 | VInt _ => 2 | VFloat _ => 2 | VStr _ => 3 | VEnum _ _ _ => 4
  | VPath _ => 5 | VTuple _ => 6 | VFset _ => 7
  end.
Definition hclass (c : ascii) : nat :=
  if Ascii.eqb c "N" then 0
  else if Ascii.eqb c "T" || Ascii.eqb c "F" then 1
  else if numhead c then 2
  else if Ascii.eqb c "'" || Ascii.eqb c """" then 3
  else if Ascii.eqb c "<" then 4
  else if Ascii.eqb c "P" then 5
  else if Ascii.eqb c "(" then 6
  else if Ascii.eqb c "f" then 7
  else 8.

Lemma numhead_class c : numhead c = true -> hclass c = 2 /\ pch c = true.
Proof. destruct c as [[] [] [] [] [] [] [] []]; vm_compute; intros E; try discriminate E; auto. Qed.

Lemma fch_pch c : fch c = true -> pch c = true.
Proof. destruct c as [[] [] [] [] [] [] [] []]; vm_compute; intros E; try discriminate E; auto. Qed.

Lemma repr_head et v : nested_ok et v -> exists h t, stable_repr v = h :: t /\ hclass h = kind v /\ pch h = true.
Proof.
  destruct v as [| b | z | s | c m p | r | p | l | l]; cbn [nested_ok stable_repr py_repr kind]; intros Hv.
  - eexists; eexists; split; [reflexivity|split; reflexivity].
  - destruct b; (eexists; eexists; split; [reflexivity|split; reflexivity]).
  - destruct (decZ_chars z) as [Hc Hn]. destruct (decZ z) as [|h t]; [congruence|].
    cbn [forallb] in Hc. apply andb_prop in Hc as [Hh _].
    exists h, t. split; auto. apply numhead_class. unfold numhead. now rewrite Hh.
  - destruct (str_repr_quote s) as (q & [-> | ->] & ->); (eexists; eexists; split; [reflexivity|split; reflexivity]).
  - eexists; eexists; split; [reflexivity|split; reflexivity].
  - destruct Hv as (_ & _ & Hh). destruct r as [|h t]; [tauto|]. exists h, t. split; auto. now apply numhead_class.
  - eexists; eexists; split; [reflexivity|split; reflexivity].
  - eexists; eexists; split; [reflexivity|split; reflexivity].
  - eexists; eexists; split; [reflexivity|split; reflexivity].
Qed.

Lemma kind_eq et v v' r r' : nested_ok et v -> nested_ok et v' ->
  stable_repr v ++ r = stable_repr v' ++ r' -> kind v = kind v'.
Proof.
  intros Hv Hv' E. destruct (repr_head et v Hv) as (h & t & Eh & <- & _). destruct (repr_head et v' Hv') as (h' & t' & Eh' & <- & _).
  rewrite Eh, Eh' in E. cbn [app] in E. injection E as -> _. reflexivity.
Qed.

(* ---------- 6d: the repr of a nested value is self-delimiting and injective ---------- *)
Definition Dv (et : pystr -> pystr -> pval) (v : pval) : Prop :=
  forall v' r r', nested_ok et v' -> stops pch r -> stops pch r' ->
    stable_repr v ++ r = stable_repr v' ++ r' -> veq v v' /\ r = r'.

Lemma Dv_sdelim et a b : Dv et a -> nested_ok et b -> sdelim (stable_repr a) (stable_repr b).
Proof.
  intros Da Hb r r' Sr Sr' E. destruct (Da b r r' Hb Sr Sr' E) as [Hv Hr]. split; auto.
  apply veq_same_render in Hv as (_ & Hv & _). exact Hv.
Qed.

Lemma Dv_inj et a b : Dv et a -> nested_ok et b -> stable_repr a = stable_repr b -> veq a b.
Proof.
  intros Da Hb E. apply (Da b [] []); cbn; auto. now rewrite !app_nil_r.
Qed.

Lemma reprs_delim et l l' : Forall (fun a => nested_ok et a -> Dv et a) l -> Forall (nested_ok et) l -> Forall (nested_ok et) l' ->
  forall x y, In x (map stable_repr l) -> In y (map stable_repr l') -> sdelim x y.
Proof.
  intros IH Hl Hl' x y Hx Hy. apply in_map_iff in Hx as (a & <- & Ha). apply in_map_iff in Hy as (b & <- & Hb).
  rewrite Forall_forall in IH, Hl, Hl'. apply (Dv_sdelim et); [apply IH|]; auto.
Qed.

Lemma reprs_phead et l : Forall (nested_ok et) l -> Forall phead (map stable_repr l).
Proof.
  induction 1 as [|a l Ha _ IH]; cbn [map]; constructor; auto.
  destruct (repr_head et a Ha) as (h & t & E & _ & P). exists h, t. auto.
Qed.

Lemma reprs_veq et l l' : Forall (fun a => nested_ok et a -> Dv et a) l -> Forall (nested_ok et) l -> Forall (nested_ok et) l' ->
  map stable_repr l = map stable_repr l' -> Forall2 veq l l'.
Proof.
  intros IH Hl Hl' E. apply map_eq_Forall2 in E.
  apply (Forall2_impl_in (fun a b => stable_repr a = stable_repr b)); [|exact E].
  intros a b Ha Hb Eab. rewrite Forall_forall in IH, Hl, Hl'. apply (Dv_inj et); [apply IH| |]; auto.
Qed.

Lemma decZ_pch z : forallb pch (decZ z) = true.
Proof. apply (forallb_impl zch); [apply zch_pch|apply decZ_chars]. Qed.

Lemma nested_delim et : forall v, nested_ok et v -> Dv et v.
Proof.
  induction v as [| b | z | s | c m p _ | fr | p | l IH | l IH] using pval_ind_deep;
    intros Hv v' r r' Hv' Sr Sr' E; pose proof (kind_eq et _ _ _ _ Hv Hv' E) as K;
    destruct v' as [| b' | z' | s' | c' m' p' | fr' | p' | l' | l']; cbn [kind] in K; try discriminate K; clear K.
  - (* None *) cbn [stable_repr py_repr] in E. apply app_inv_head in E. split; [constructor|exact E].
  - (* bool *) destruct b, b'; cbn [stable_repr py_repr] in E; try discriminate E; apply app_inv_head in E; split; auto; constructor.
  - (* int / int *) cbn [stable_repr py_repr] in E.
    destruct (split_term pch _ _ _ _ (decZ_pch z) (decZ_pch z') Sr Sr' E) as [Ez Er].
    apply decZ_inj in Ez. subst. split; auto. constructor.
  - (* int / float *) exfalso. cbn [stable_repr py_repr nested_ok] in *. destruct Hv' as (Hf & Hz & _).
    destruct (split_term pch _ _ _ _ (decZ_pch z) (forallb_impl _ _ _ fch_pch Hf) Sr Sr' E) as [Ez _].
    rewrite <- Ez in Hz. destruct (decZ_chars z) as [Hc _]. congruence.
  - (* str *) cbn [stable_repr py_repr] in E. apply str_repr_prefix in E as [-> ->]. split; auto. constructor.
  - (* enum *) cbn [stable_repr py_repr nested_ok] in *. destruct Hv as (Hc & Hm & Hp). destruct Hv' as (Hc' & Hm' & Hp').
    norm_in E. injection E as E.
    assert (S1 : nochar "." "." = false) by reflexivity. assert (S2 : nochar ":" ":" = false) by reflexivity.
    destruct (split_unique (nochar ".") "." S1 _ _ _ _ Hc Hc' E) as [-> E1].
    destruct (split_unique (nochar ":") ":" S2 _ _ _ _ Hm Hm' E1) as [-> E2].
    rewrite Hp in Hp'. subst p'. injection E2 as E2. apply app_inv_head in E2. injection E2 as ->.
    split; auto. constructor.
  - (* float / int *) exfalso. cbn [stable_repr py_repr nested_ok] in *. destruct Hv as (Hf & Hz & _).
    destruct (split_term pch _ _ _ _ (forallb_impl _ _ _ fch_pch Hf) (decZ_pch z') Sr Sr' E) as [Ez _].
    rewrite Ez in Hz. destruct (decZ_chars z') as [Hc _]. congruence.
  - (* float / float *) cbn [stable_repr py_repr nested_ok] in *. destruct Hv as (Hf & _). destruct Hv' as (Hf' & _).
    destruct (split_term pch _ _ _ _ (forallb_impl _ _ _ fch_pch Hf) (forallb_impl _ _ _ fch_pch Hf') Sr Sr' E) as [-> ->].
    split; auto. constructor.
  - (* path *) cbn [stable_repr py_repr] in E. rewrite <- !app_assoc in E. apply app_inv_head in E.
    apply str_repr_prefix in E as [-> E]. apply app_inv_head in E. split; auto. constructor.
  - (* tuple *) cbn [nested_ok] in Hv, Hv'. apply nested_ok_list in Hv, Hv'.
    cbn [stable_repr] in E.
    change (match l with [_] => lit "," | _ => [] end) with (trail l) in E.
    change (match l' with [_] => lit "," | _ => [] end) with (trail l') in E.
    rewrite <- (trail_map stable_repr l), <- (trail_map stable_repr l') in E.
    rewrite <- !app_assoc in E. apply app_inv_head in E. change (lit ")") with [")"] in E. cbn [app] in E.
    apply tuple_inj_g in E as [Em Er].
    + split; auto. constructor. now apply (reprs_veq et).
    + now apply (reprs_delim et).
    + now apply (reprs_phead et).
    + now apply (reprs_phead et).
  - (* frozenset *) cbn [nested_ok] in Hv, Hv'. apply nested_ok_list in Hv, Hv'.
    cbn [stable_repr] in E. rewrite <- !app_assoc in E. apply app_inv_head in E.
    change (lit "})") with ["}"; ")"] in E. cbn [app] in E.
    assert (PI : forall m, Permutation (map stable_repr m) (isort pystr_leb (map stable_repr m))) by (intros; apply isort_perm).
    apply fset_inj_g in E as [Em Er].
    + split; auto.
      assert (Pm : Permutation (map stable_repr l) (map stable_repr l')).
      { eapply perm_trans; [apply PI|]. rewrite Em. apply Permutation_sym, PI. }
      apply Permutation_map_inv in Pm as (l'' & Em' & Pl).
      assert (Hl'' : Forall (nested_ok et) l'') by (eapply Permutation_Forall; eauto).
      apply (veq_fset l l' l''); auto. now apply (reprs_veq et).
    + intros x y Hx Hy. apply (reprs_delim et l l'); auto.
      * eapply Permutation_in; [apply Permutation_sym, PI|exact Hx].
      * eapply Permutation_in; [apply Permutation_sym, PI|exact Hy].
    + eapply Permutation_Forall; [apply PI|]. now apply (reprs_phead et).
    + eapply Permutation_Forall; [apply PI|]. now apply (reprs_phead et).
Qed.

(* ---------- 6e: value-level injectivity and completeness for nested values ---------- *)
(* a property value: a scalar, or a tuple / frozenset whose elements are well-formed nested values *)
Definition deep (et : pystr -> pystr -> pval) (v : pval) : Prop :=
  match v with VTuple l | VFset l => Forall (nested_ok et) l | _ => scalar et v end.

Theorem render_inj_deep et v v' :
  deep et v -> deep et v' -> tytag v = tytag v' -> stable_str v = stable_str v' -> veq v v'.
Proof.
  intros Fv Fv' Et Es.
  assert (G : forall w w', nested_ok et w -> nested_ok et w' -> stable_repr w = stable_repr w' -> veq w w').
  { intros w w' Hw Hw' E. apply (Dv_inj et); auto. now apply nested_delim. }
  destruct v as [| | | | | | | l | l], v' as [| | | | | | | l' | l'];
    try (apply (render_inj_scalar et); auto; fail);
    try (exfalso; cbn [tytag] in Et; vm_compute in Et; discriminate Et); cbn [deep] in Fv, Fv'.
  - apply G; auto; cbn [nested_ok]; now apply nested_ok_list.
  - apply G; auto; cbn [nested_ok]; now apply nested_ok_list.
Qed.

Section CompleteDeep.
  Variable H : pystr -> pystr.
  Variable ct : ctable.
  Variable et : pystr -> pystr -> pval.
  Hypothesis H_inj : forall x y, H x = H y -> x = y.
  Hypothesis H_hex : forall x, forallb is_hex (H x) = true.
  Hypothesis NO : names_ok ct.

  Definition node_deep (n : node) : Prop := node_all (fun _ => True) (on_comparable ct (deep et)) n.

  Theorem complete_deep : forall a b,
    wf_node ct a = true -> wf_node ct b = true -> node_values_ok ct a -> node_values_ok ct b ->
    node_deep a -> node_deep b ->
    content_id H ct current a = content_id H ct current b -> ceq ct a b.
  Proof.
    intros a b Wa Wb Oa Ob Sa Sb E. apply ceq_gen_veq.
    apply (ceq_gen_mono render_eq veq (deep et) ct); [|exact Sa|exact Sb|].
    - intros v v' Sv Sv' [Et Es]. now apply (render_inj_deep et).
    - now apply (complete_framing_strong H ct H_inj H_hex NO).
  Qed.

  (* content_id / is_equal is exactly structural content equality *)
  Theorem cid_iff_ceq : forall a b,
    wf_node ct a = true -> wf_node ct b = true -> node_values_ok ct a -> node_values_ok ct b ->
    node_deep a -> node_deep b ->
    (content_id H ct current a = content_id H ct current b <-> ceq ct a b).
  Proof.
    intros a b Wa Wb Oa Ob Sa Sb. split; [now apply complete_deep|]. now apply ceq_sound.
  Qed.

  Theorem is_equal_iff_ceq : forall a b,
    wf_node ct a = true -> wf_node ct b = true -> node_values_ok ct a -> node_values_ok ct b ->
    node_deep a -> node_deep b ->
    (is_equal H ct current a b = true <-> ceq ct a b).
  Proof.
    intros a b Wa Wb Oa Ob Sa Sb. split.
    - intros E. apply is_equal_char in E as [_ E]. now apply complete_deep.
    - now apply is_equal_sound.
  Qed.
End CompleteDeep.

(* ---------- 6f: the premises are satisfiable with nested values ---------- *)
Definition ex_ct2 : ctable :=
  [ {| cd_name := lit "Box"; cd_bases := [];
       cd_own := [ ex_fd "t" RProp true; ex_fd "s" RProp true ] |} ].
Definition ex_red : pval := VEnum (lit "Color") (lit "RED") (VInt 1).
Definition ex_elems : list pval :=
  [VInt (-12); VStr (lit "a, b'c)"); VTuple [VNone; VBool true]; VFloat (lit "2.5"); ex_red;
   VPath (lit "/tmp/x"); VFset [VStr (lit "q""'")]].
Definition ex_tuple : pval := VTuple ex_elems.
Definition ex_box (a : nat) (s : list pval) : node :=
  Node a (lit "Box") ONo [(lit "t", ex_tuple); (lit "s", VFset s)] [].
Definition ex_a2 : node := ex_box 0 [VStr (lit "x"); VInt 3; VTuple []].
Definition ex_b2 : node := ex_box 1 [VTuple []; VStr (lit "x"); VInt 3].

Lemma ex_names_ok2 : names_ok ex_ct2.
Proof.
  intros c f Hf. unfold fields_of, ex_ct2 in Hf. cbn [find_class cd_name] in Hf.
  destruct (pystr_eqb_spec (lit "Box") c) as [<-|N1]; [|destruct Hf].
  vm_compute in Hf. destruct Hf as [<-|[<-|[]]]; vm_compute; split; auto; discriminate.
Qed.

Lemma ex_nested_tuple : nested_ok ex_et ex_tuple.
Proof. cbn. repeat split; reflexivity. Qed.

Lemma ex_deep n : n = ex_a2 \/ n = ex_b2 ->
  node_all (fun c => free_of ":" c = true) (fun _ _ v => tag_ok v /\ deep ex_et v) n.
Proof.
  pose proof (proj1 (nested_ok_list ex_et ex_elems) ex_nested_tuple) as T.
  intros [->| ->]; cbn -[free_of lit ex_tuple]; (split; [reflexivity|]); (split; [|exact I]);
    intros q [<-|[<-|[]]]; cbn [snd]; (split; [exact I|]); try exact T;
    cbn [deep]; repeat constructor.
Qed.

Lemma complete_premises_nested :
  names_ok ex_ct2 /\ wf_node ex_ct2 ex_a2 = true /\ wf_node ex_ct2 ex_b2 = true /\
  node_values_ok ex_ct2 ex_a2 /\ node_values_ok ex_ct2 ex_b2 /\
  node_deep ex_ct2 ex_et ex_a2 /\ node_deep ex_ct2 ex_et ex_b2 /\
  content_id tohex ex_ct2 current ex_a2 = content_id tohex ex_ct2 current ex_b2 /\
  nprops ex_a2 <> nprops ex_b2.
Proof.
  split; [exact ex_names_ok2|].
  split; [vm_compute; reflexivity|]. split; [vm_compute; reflexivity|].
  split; [|split; [|split; [|split]]].
  - apply node_values_ok_all. eapply node_all_impl; [| |apply (ex_deep ex_a2); auto]; cbn; tauto.
  - apply node_values_ok_all. eapply node_all_impl; [| |apply (ex_deep ex_b2); auto]; cbn; tauto.
  - eapply node_all_impl; [| |apply (ex_deep ex_a2); auto]; [auto|]. intros c n v [_ Hs] _. exact Hs.
  - eapply node_all_impl; [| |apply (ex_deep ex_b2); auto]; [auto|]. intros c n v [_ Hs] _. exact Hs.
  - split; [vm_compute; reflexivity|discriminate].
Qed.
