(* C18 round 2: small lemmas about the heap / registry update functions of Model/Legacy.v, the "parent frame"
   relation (two states that differ only in parent slots, _xpath and the registry), and the fuel / skeleton
   independence of tree_cid under Rank. *)
From Oak Require Import Spec.LegacySpec Spec.LegacySpec2 Proofs.LegacyInv.
From Coq Require Import List String Ascii ZArith Bool Arith Lia.
Import ListNotations.

(* ---------- cells ---------- *)
Lemma cell_eta c : with_xp (c_xp c) (with_parent (c_pid c) (c_pf c) (c_pi c) c) = c.
Proof. destruct c; reflexivity. Qed.

Lemma live_cell_at s a : live s a -> cell_at s a = Some (cellD s a).
Proof.
  unfold live, cell_at, cellD. intros Hl. apply nth_error_nth'. exact Hl.
Qed.
Lemma dead_cellD s a : ~ live s a -> cellD s a = dummy.
Proof. unfold live, cellD. intros Hl. apply nth_overflow. lia. Qed.

Lemma cellD_upd s a f b :
  cellD (upd s a f) b = if Nat.eqb a b && Nat.ltb a (List.length (heap s)) then f (cellD s b) else cellD s b.
Proof.
  unfold upd, cell_at, cellD.
  destruct (nth_error (heap s) a) as [c|] eqn:E.
  - simpl. rewrite nth_set_nth.
    assert (Hl : a < List.length (heap s)) by (apply nth_error_Some; congruence).
    apply Nat.ltb_lt in Hl. rewrite Hl.
    destruct (Nat.eqb a b) eqn:Ek; simpl; [|reflexivity].
    apply Nat.eqb_eq in Ek; subst b. rewrite (nth_error_nth _ _ dummy E). reflexivity.
  - apply nth_error_None in E.
    assert (Hl : Nat.ltb a (List.length (heap s)) = false) by (apply Nat.ltb_ge; exact E).
    rewrite Hl, andb_false_r. reflexivity.
Qed.
Lemma heap_len_upd s a f : List.length (heap (upd s a f)) = List.length (heap s).
Proof. unfold upd. destruct (cell_at s a); simpl; [apply length_set_nth | reflexivity]. Qed.
Lemma reg_upd s a f : reg (upd s a f) = reg s.
Proof. unfold upd. destruct (cell_at s a); reflexivity. Qed.
Lemma reg_get_upd s a f i : reg_get (upd s a f) i = reg_get s i.
Proof. unfold reg_get. rewrite reg_upd. reflexivity. Qed.

Lemma assoc_set_key {A} k (v : A) i l : assoc i (set_key k v l) = if pystr_eqb i k then Some v else assoc i l.
Proof.
  induction l as [|[j w] l IH]; simpl.
  - destruct (pystr_eqb i k); reflexivity.
  - destruct (pystr_eqb k j) eqn:Ekj; simpl.
    + apply pystr_eqb_eq in Ekj; subst j. destruct (pystr_eqb i k); reflexivity.
    + rewrite IH. destruct (pystr_eqb i j) eqn:Eij; [|reflexivity].
      apply pystr_eqb_eq in Eij; subst j.
      destruct (pystr_eqb i k) eqn:Eik; [|reflexivity].
      apply pystr_eqb_eq in Eik; subst k. rewrite pystr_eqb_refl in Ekj. discriminate.
Qed.
Lemma reg_get_reg_set s i a j : reg_get (reg_set s i a) j = if pystr_eqb j i then Some a else reg_get s j.
Proof. unfold reg_get, reg_set; simpl. apply assoc_set_key. Qed.
Lemma reg_get_reg_pop s i j : reg_get (reg_pop s i) j = if pystr_eqb j i then None else reg_get s j.
Proof. unfold reg_get, reg_pop; simpl. apply assoc_remove_key. Qed.

(* ---------- the parent frame ---------- *)
Definition pframe (s s' : st) : Prop :=
  List.length (heap s') = List.length (heap s) /\
  forall b, exists pid pf pi xp, cellD s' b = with_xp xp (with_parent pid pf pi (cellD s b)).

Lemma pframe_refl s : pframe s s.
Proof. split; [reflexivity|]. intros b. do 4 eexists. symmetry. apply cell_eta. Qed.
Lemma pframe_trans s1 s2 s3 : pframe s1 s2 -> pframe s2 s3 -> pframe s1 s3.
Proof.
  intros [L1 C1] [L2 C2]. split; [congruence|]. intros b.
  destruct (C1 b) as [p1 [f1 [i1 [x1 E1]]]]. destruct (C2 b) as [p2 [f2 [i2 [x2 E2]]]].
  exists p2, f2, i2, x2. rewrite E2, E1. reflexivity.
Qed.
Lemma pframe_heap s s' : heap s' = heap s -> pframe s s'.
Proof.
  intros E. split; [rewrite E; reflexivity|]. intros b. unfold cellD. rewrite E.
  do 4 eexists. symmetry. apply cell_eta.
Qed.
Lemma pframe_upd s a f :
  (forall c, exists pid pf pi xp, f c = with_xp xp (with_parent pid pf pi c)) -> pframe s (upd s a f).
Proof.
  intros Hf. split; [apply heap_len_upd|]. intros b. rewrite cellD_upd.
  destruct (Nat.eqb a b && Nat.ltb a (List.length (heap s))).
  - apply Hf.
  - do 4 eexists. symmetry. apply cell_eta.
Qed.
Lemma pframe_clear_parent s a : pframe s (clear_parent s a).
Proof. apply pframe_upd. intros c. exists None, None, None, None. reflexivity. Qed.
Lemma pframe_set_parent s a p f i : pframe s (set_parent s a p f i).
Proof.
  apply pframe_upd. intros c. exists (Some (id_of s p)), (Some f), i, (c_xp c). destruct c; reflexivity.
Qed.
Lemma pframe_reg_set s i a : pframe s (reg_set s i a).
Proof. apply pframe_heap. reflexivity. Qed.
Lemma pframe_reg_pop s i : pframe s (reg_pop s i).
Proof. apply pframe_heap. reflexivity. Qed.

Section PFrameFacts.
  Variables s s' : st.
  Hypothesis PF : pframe s s'.
  Lemma pf_len : List.length (heap s') = List.length (heap s). Proof. exact (proj1 PF). Qed.
  Lemma pf_live a : live s' a <-> live s a. Proof. unfold live. rewrite pf_len. tauto. Qed.
  Lemma pf_fuel : fuel_of s' = fuel_of s. Proof. unfold fuel_of. rewrite pf_len. reflexivity. Qed.
  Lemma pf_cls b : c_cls (cellD s' b) = c_cls (cellD s b).
  Proof. destruct (proj2 PF b) as [? [? [? [? E]]]]. rewrite E. reflexivity. Qed.
  Lemma pf_fs b : c_fs (cellD s' b) = c_fs (cellD s b).
  Proof. destruct (proj2 PF b) as [? [? [? [? E]]]]. rewrite E. reflexivity. Qed.
  Lemma pf_cid b : c_cid (cellD s' b) = c_cid (cellD s b).
  Proof. destruct (proj2 PF b) as [? [? [? [? E]]]]. rewrite E. reflexivity. Qed.
  Lemma pf_oid b : c_oid (cellD s' b) = c_oid (cellD s b).
  Proof. destruct (proj2 PF b) as [? [? [? [? E]]]]. rewrite E. reflexivity. Qed.
  Lemma pf_id b : id_of s' b = id_of s b.
  Proof. unfold id_of. destruct (proj2 PF b) as [? [? [? [? E]]]]. rewrite E. reflexivity. Qed.
  Lemma pf_skids_wf b : skids_wf s' b = skids_wf s b.
  Proof. unfold skids_wf, kids_wf. rewrite pf_fs. reflexivity. Qed.
  Lemma pf_skids b : skids s' b = skids s b.
  Proof. unfold skids, kids, kids_wf. rewrite pf_fs. reflexivity. Qed.
  Lemma pf_reach a d : reach s a d -> reach s' a d.
  Proof.
    induction 1; [apply reach_refl|]. eapply reach_step; [|eassumption]. rewrite pf_skids. assumption.
  Qed.
End PFrameFacts.
Lemma pframe_sym_reach s s' a d : pframe s s' -> reach s' a d -> reach s a d.
Proof.
  intros PF. induction 1; [apply reach_refl|]. eapply reach_step; [|eassumption].
  rewrite <- (pf_skids _ _ PF). assumption.
Qed.

(* ---------- reach ---------- *)
Lemma reach_trans s a b c : reach s a b -> reach s b c -> reach s a c.
Proof. induction 1; intros; [assumption|]. eapply reach_step; eauto. Qed.
Lemma reach_le s a d : Rank s -> reach s a d -> d <= a.
Proof. intros HR. induction 1; [lia|]. apply HR in H. lia. Qed.
Lemma reach_kid_lt s a k d : Rank s -> In k (skids s a) -> reach s k d -> d < a.
Proof. intros HR Hk Hr. apply (reach_le _ _ _ HR) in Hr. apply HR in Hk. lia. Qed.
Lemma reach_inv s a d : reach s a d -> a = d \/ exists k, In k (skids s a) /\ reach s k d.
Proof. destruct 1; [left; reflexivity | right; eauto]. Qed.
(* a proper descendant is a child of some node of the subtree *)
Lemma reach_last s a d : reach s a d -> a = d \/ exists p, reach s a p /\ In d (skids s p).
Proof.
  induction 1; [left; reflexivity|]. right.
  destruct IHreach as [->|[p [Hp Hd]]].
  - exists a. split; [apply reach_refl | assumption].
  - exists p. split; [eapply reach_step; eassumption | assumption].
Qed.

(* ---------- tree_cid: only the skeleton below the node matters, not the fuel ---------- *)
Section Sorted.
  Context {A : Type} (leb : A -> A -> bool).
  Lemma In_insert_sorted x y l : In x (insert_sorted leb y l) <-> x = y \/ In x l.
  Proof.
    induction l as [|z l IH]; simpl; [intuition|].
    destruct (leb y z); simpl; [intuition|]. rewrite IH. intuition.
  Qed.
  Lemma In_isort x l : In x (isort leb l) <-> In x l.
  Proof.
    induction l as [|y l IH]; simpl; [tauto|]. rewrite In_insert_sorted, IH. intuition.
  Qed.
End Sorted.

Lemma flat_map_ext_in {A B} (f g : A -> list B) l : (forall x, In x l -> f x = g x) -> flat_map f l = flat_map g l.
Proof.
  induction l as [|y l IH]; intros Hfg; simpl; [reflexivity|].
  rewrite Hfg by (left; reflexivity). rewrite IH; [reflexivity|]. intros x Hx. apply Hfg. right; assumption.
Qed.

Lemma kid_data_ext (v w : nat -> pystr) c : (forall k, In k (kids c) -> v k = w k) -> kid_data v c = kid_data w c.
Proof.
  intros Hvw. unfold kid_data. apply flat_map_ext_in. intros [[k f] i] Hin.
  rewrite Hvw; [reflexivity|]. unfold sorted_kids in Hin. apply In_isort in Hin.
  unfold kids. apply in_map_iff. exists (k, f, i). auto.
Qed.

Section TreeCid.
  Variable H : pystr -> pystr.
  Variable ct : ctable.

  Lemma tree_cid_local s s' : forall a,
    (forall b, b <= a -> c_cls (cellD s' b) = c_cls (cellD s b) /\ c_fs (cellD s' b) = c_fs (cellD s b)) ->
    (forall b k, b <= a -> In k (skids s b) -> k < b) ->
    forall f f', a < f -> a < f' -> tree_cid H ct f s' a = tree_cid H ct f' s a.
  Proof.
    induction a as [a IH] using lt_wf_ind. intros Hsk Hrk f f' Hf Hf'.
    destruct f as [|f]; [lia|]. destruct f' as [|f']; [lia|]. simpl.
    destruct (Hsk a (le_n _)) as [Hc Hfs]. rewrite Hc.
    unfold props_of. rewrite Hfs. f_equal. f_equal. f_equal.
    assert (Ek : kid_data (tree_cid H ct f s') (cellD s' a) = kid_data (tree_cid H ct f s') (cellD s a)).
    { unfold kid_data, sorted_kids, kids_wf. rewrite Hfs. reflexivity. }
    rewrite Ek. apply kid_data_ext. intros k Hk.
    assert (Hlt : k < a) by (apply (Hrk a k (le_n _)); exact Hk).
    apply IH; try lia.
    - intros b Hb. apply Hsk. lia.
    - intros b k' Hb. apply Hrk. lia.
  Qed.

  Lemma tree_cid_fuel s a f f' : Rank s -> a < f -> a < f' -> tree_cid H ct f s a = tree_cid H ct f' s a.
  Proof. intros HR. apply tree_cid_local; [auto | intros b k _; apply HR]. Qed.

  Lemma tree_cid_pframe s s' a : pframe s s' -> tree_cid H ct (fuel_of s') s' a = tree_cid H ct (fuel_of s) s a.
  Proof.
    intros PF. rewrite (pf_fuel _ _ PF). apply tree_cid_skel. intros b.
    split; [apply (pf_cls _ _ PF) | apply (pf_fs _ _ PF)].
  Qed.

  (* one unfolding: the stored digest of a node whose children carry their tree digests *)
  Lemma tree_cid_unfold s a : Rank s -> live s a ->
    tree_cid H ct (fuel_of s) s a =
    H (c_cls (cellD s a) ++ prop_data (filter (fun p => is_compare ct (c_cls (cellD s a)) (fst p)) (props_of (cellD s a)))
         ++ kid_data (tree_cid H ct (fuel_of s) s) (cellD s a)).
  Proof.
    intros HR Hl.
    assert (E : forall f, tree_cid H ct (S f) s a =
      H (c_cls (cellD s a) ++ prop_data (filter (fun p => is_compare ct (c_cls (cellD s a)) (fst p)) (props_of (cellD s a)))
         ++ kid_data (tree_cid H ct f s) (cellD s a))) by reflexivity.
    unfold fuel_of at 1. rewrite E. f_equal. f_equal. f_equal.
    apply kid_data_ext. intros k Hk. apply tree_cid_fuel; [assumption| |].
    - apply HR in Hk. unfold live in Hl. lia.
    - apply HR in Hk. unfold live, fuel_of in *. lia.
  Qed.
End TreeCid.
