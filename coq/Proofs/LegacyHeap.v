(* C18 round 2: small lemmas about the heap / registry update functions of Model/Legacy.v, the "parent frame"
   relation (two states that differ only in parent slots, _xpath and the registry), and the fuel / skeleton
   independence of tree_cid under Rank. *)
From Oak Require Import Spec.LegacySpec Spec.LegacySpec2 Proofs.LegacyInv.
From Coq Require Import List String Ascii ZArith Bool Arith Lia.
Import ListNotations.

(* ---------- cells ---------- *)
Lemma cell_eta c : with_xp (c_xp c) (with_parent (c_pid c) (c_pf c) (c_pi c) c) = c.
Proof. destruct c; reflexivity. Qed.

Lemma live_cell_at s a : live s a -> cell_at s a = Some (cellD s a).
Proof.
  unfold live, cell_at, cellD. intros Hl. apply nth_error_nth'. exact Hl.
Qed.
Lemma dead_cellD s a : ~ live s a -> cellD s a = dummy.
Proof. unfold live, cellD. intros Hl. apply nth_overflow. lia. Qed.

Lemma cellD_upd s a f b :
  cellD (upd s a f) b = if Nat.eqb a b && Nat.ltb a (List.length (heap s)) then f (cellD s b) else cellD s b.
Proof.
  unfold upd, cell_at, cellD.
  destruct (nth_error (heap s) a) as [c|] eqn:E.
  - simpl. rewrite nth_set_nth.
    assert (Hl : a < List.length (heap s)) by (apply nth_error_Some; congruence).
    apply Nat.ltb_lt in Hl. rewrite Hl.
    destruct (Nat.eqb a b) eqn:Ek; simpl; [|reflexivity].
    apply Nat.eqb_eq in Ek; subst b. rewrite (nth_error_nth _ _ dummy E). reflexivity.
  - apply nth_error_None in E.
    assert (Hl : Nat.ltb a (List.length (heap s)) = false) by (apply Nat.ltb_ge; exact E).
    rewrite Hl, andb_false_r. reflexivity.
Qed.
Lemma heap_len_upd s a f : List.length (heap (upd s a f)) = List.length (heap s).
Proof. unfold upd. destruct (cell_at s a); simpl; [apply length_set_nth | reflexivity]. Qed.
Lemma reg_upd s a f : reg (upd s a f) = reg s.
Proof. unfold upd. destruct (cell_at s a); reflexivity. Qed.
Lemma reg_get_upd s a f i : reg_get (upd s a f) i = reg_get s i.
Proof. unfold reg_get. rewrite reg_upd. reflexivity. Qed.

Lemma assoc_set_key {A} k (v : A) i l : assoc i (set_key k v l) = if pystr_eqb i k then Some v else assoc i l.
Proof.
  induction l as [|[j w] l IH]; simpl.
  - destruct (pystr_eqb i k); reflexivity.
  - destruct (pystr_eqb k j) eqn:Ekj; simpl.
    + apply pystr_eqb_eq in Ekj; subst j. destruct (pystr_eqb i k); reflexivity.
    + rewrite IH. destruct (pystr_eqb i j) eqn:Eij; [|reflexivity].
      apply pystr_eqb_eq in Eij; subst j.
      destruct (pystr_eqb i k) eqn:Eik; [|reflexivity].
      apply pystr_eqb_eq in Eik; subst k. rewrite pystr_eqb_refl in Ekj. discriminate.
Qed.
Lemma reg_get_reg_set s i a j : reg_get (reg_set s i a) j = if pystr_eqb j i then Some a else reg_get s j.
Proof. unfold reg_get, reg_set; simpl. apply assoc_set_key. Qed.
Lemma reg_get_reg_pop s i j : reg_get (reg_pop s i) j = if pystr_eqb j i then None else reg_get s j.
Proof. unfold reg_get, reg_pop; simpl. apply assoc_remove_key. Qed.

(* ---------- the parent frame ---------- *)
Definition pframe (s s' : st) : Prop :=
  List.length (heap s') = List.length (heap s) /\
  forall b, exists pid pf pi xp, cellD s' b = with_xp xp (with_parent pid pf pi (cellD s b)).

Lemma pframe_refl s : pframe s s.
Proof. split; [reflexivity|]. intros b. do 4 eexists. symmetry. apply cell_eta. Qed.
Lemma pframe_trans s1 s2 s3 : pframe s1 s2 -> pframe s2 s3 -> pframe s1 s3.
Proof.
  intros [L1 C1] [L2 C2]. split; [congruence|]. intros b.
  destruct (C1 b) as [p1 [f1 [i1 [x1 E1]]]]. destruct (C2 b) as [p2 [f2 [i2 [x2 E2]]]].
  exists p2, f2, i2, x2. rewrite E2, E1. reflexivity.
Qed.
Lemma pframe_heap s s' : heap s' = heap s -> pframe s s'.
Proof.
  intros E. split; [rewrite E; reflexivity|]. intros b. unfold cellD. rewrite E.
  do 4 eexists. symmetry. apply cell_eta.
Qed.
Lemma pframe_upd s a f :
  (forall c, exists pid pf pi xp, f c = with_xp xp (with_parent pid pf pi c)) -> pframe s (upd s a f).
Proof.
  intros Hf. split; [apply heap_len_upd|]. intros b. rewrite cellD_upd.
  destruct (Nat.eqb a b && Nat.ltb a (List.length (heap s))).
  - apply Hf.
  - do 4 eexists. symmetry. apply cell_eta.
Qed.
Lemma pframe_clear_parent s a : pframe s (clear_parent s a).
Proof. apply pframe_upd. intros c. exists None, None, None, None. reflexivity. Qed.
Lemma pframe_set_parent s a p f i : pframe s (set_parent s a p f i).
Proof.
  apply pframe_upd. intros c. exists (Some (id_of s p)), (Some f), i, (c_xp c). destruct c; reflexivity.
Qed.
Lemma pframe_reg_set s i a : pframe s (reg_set s i a).
Proof. apply pframe_heap. reflexivity. Qed.
Lemma pframe_reg_pop s i : pframe s (reg_pop s i).
Proof. apply pframe_heap. reflexivity. Qed.

Section PFrameFacts.
  Variables s s' : st.
  Hypothesis PF : pframe s s'.
  Lemma pf_len : List.length (heap s') = List.length (heap s). Proof. exact (proj1 PF). Qed.
  Lemma pf_live a : live s' a <-> live s a. Proof. unfold live. rewrite pf_len. tauto. Qed.
  Lemma pf_fuel : fuel_of s' = fuel_of s. Proof. unfold fuel_of. rewrite pf_len. reflexivity. Qed.
  Lemma pf_cls b : c_cls (cellD s' b) = c_cls (cellD s b).
  Proof. destruct (proj2 PF b) as [? [? [? [? E]]]]. rewrite E. reflexivity. Qed.
  Lemma pf_fs b : c_fs (cellD s' b) = c_fs (cellD s b).
  Proof. destruct (proj2 PF b) as [? [? [? [? E]]]]. rewrite E. reflexivity. Qed.
  Lemma pf_cid b : c_cid (cellD s' b) = c_cid (cellD s b).
  Proof. destruct (proj2 PF b) as [? [? [? [? E]]]]. rewrite E. reflexivity. Qed.
  Lemma pf_oid b : c_oid (cellD s' b) = c_oid (cellD s b).
  Proof. destruct (proj2 PF b) as [? [? [? [? E]]]]. rewrite E. reflexivity. Qed.
  Lemma pf_id b : id_of s' b = id_of s b.
  Proof. unfold id_of. destruct (proj2 PF b) as [? [? [? [? E]]]]. rewrite E. reflexivity. Qed.
  Lemma pf_skids_wf b : skids_wf s' b = skids_wf s b.
  Proof. unfold skids_wf, kids_wf. rewrite pf_fs. reflexivity. Qed.
  Lemma pf_skids b : skids s' b = skids s b.
  Proof. unfold skids, kids, kids_wf. rewrite pf_fs. reflexivity. Qed.
  Lemma pf_reach a d : reach s a d -> reach s' a d.
  Proof.
    induction 1; [apply reach_refl|]. eapply reach_step; [|eassumption]. rewrite pf_skids. assumption.
  Qed.
End PFrameFacts.
Lemma pframe_sym_reach s s' a d : pframe s s' -> reach s' a d -> reach s a d.
Proof.
  intros PF. induction 1; [apply reach_refl|]. eapply reach_step; [|eassumption].
  rewrite <- (pf_skids _ _ PF). assumption.
Qed.

(* ---------- reach ---------- *)
Lemma reach_trans s a b c : reach s a b -> reach s b c -> reach s a c.
Proof. induction 1; intros; [assumption|]. eapply reach_step; eauto. Qed.
Lemma reach_le s a d : AddrRank s -> reach s a d -> d <= a.
Proof. intros HR. induction 1; [lia|]. apply HR in H. lia. Qed.
Lemma reach_kid_lt s a k d : AddrRank s -> In k (skids s a) -> reach s k d -> d < a.
Proof. intros HR Hk Hr. apply (reach_le _ _ _ HR) in Hr. apply HR in Hk. lia. Qed.
Lemma reach_inv s a d : reach s a d -> a = d \/ exists k, In k (skids s a) /\ reach s k d.
Proof. destruct 1; [left; reflexivity | right; eauto]. Qed.
(* a proper descendant is a child of some node of the subtree *)
Lemma reach_last s a d : reach s a d -> a = d \/ exists p, reach s a p /\ In d (skids s p).
Proof.
  induction 1; [left; reflexivity|]. right.
  destruct IHreach as [->|[p [Hp Hd]]].
  - exists a. split; [apply reach_refl | assumption].
  - exists p. split; [eapply reach_step; eassumption | assumption].
Qed.

(* ---------- tree_cid: only the skeleton below the node matters, not the fuel ---------- *)
Section Sorted.
  Context {A : Type} (leb : A -> A -> bool).
  Lemma In_insert_sorted x y l : In x (insert_sorted leb y l) <-> x = y \/ In x l.
  Proof.
    induction l as [|z l IH]; simpl; [intuition|].
    destruct (leb y z); simpl; [intuition|]. rewrite IH. intuition.
  Qed.
  Lemma In_isort x l : In x (isort leb l) <-> In x l.
  Proof.
    induction l as [|y l IH]; simpl; [tauto|]. rewrite In_insert_sorted, IH. intuition.
  Qed.
End Sorted.

Lemma flat_map_ext_in {A B} (f g : A -> list B) l : (forall x, In x l -> f x = g x) -> flat_map f l = flat_map g l.
Proof.
  induction l as [|y l IH]; intros Hfg; simpl; [reflexivity|].
  rewrite Hfg by (left; reflexivity). rewrite IH; [reflexivity|]. intros x Hx. apply Hfg. right; assumption.
Qed.

Lemma kid_data_ext (v w : nat -> pystr) c : (forall k, In k (kids c) -> v k = w k) -> kid_data v c = kid_data w c.
Proof.
  intros Hvw. unfold kid_data. apply flat_map_ext_in. intros [[k f] i] Hin.
  rewrite Hvw; [reflexivity|]. unfold sorted_kids in Hin. apply In_isort in Hin.
  unfold kids. apply in_map_iff. exists (k, f, i). auto.
Qed.

Section TreeCid.
  Variable H : pystr -> pystr.
  Variable ct : ctable.

  Lemma tree_cid_local s s' : forall a,
    (forall b, b <= a -> c_cls (cellD s' b) = c_cls (cellD s b) /\ c_fs (cellD s' b) = c_fs (cellD s b)) ->
    (forall b k, b <= a -> In k (skids s b) -> k < b) ->
    forall f f', a < f -> a < f' -> tree_cid H ct f s' a = tree_cid H ct f' s a.
  Proof.
    induction a as [a IH] using lt_wf_ind. intros Hsk Hrk f f' Hf Hf'.
    destruct f as [|f]; [lia|]. destruct f' as [|f']; [lia|]. simpl.
    destruct (Hsk a (le_n _)) as [Hc Hfs]. rewrite Hc.
    unfold props_of. rewrite Hfs. f_equal. f_equal. f_equal.
    assert (Ek : kid_data (tree_cid H ct f s') (cellD s' a) = kid_data (tree_cid H ct f s') (cellD s a)).
    { unfold kid_data, sorted_kids, kids_wf. rewrite Hfs. reflexivity. }
    rewrite Ek. apply kid_data_ext. intros k Hk.
    assert (Hlt : k < a) by (apply (Hrk a k (le_n _)); exact Hk).
    apply IH; try lia.
    - intros b Hb. apply Hsk. lia.
    - intros b k' Hb. apply Hrk. lia.
  Qed.

  Lemma tree_cid_pframe s s' a : pframe s s' -> tree_cid H ct (fuel_of s') s' a = tree_cid H ct (fuel_of s) s a.
  Proof.
    intros PF. rewrite (pf_fuel _ _ PF). apply tree_cid_skel. intros b.
    split; [apply (pf_cls _ _ PF) | apply (pf_fs _ _ PF)].
  Qed.

End TreeCid.

(* ---------- Rank (round 3): every stored child exists, no node holds itself below one of its children.
   The few facts the proofs use: kids are live, strict descendants differ from the node, every downward chain is
   at most |heap| long (pigeonhole), hence induction over the stored child relation and fuel irrelevance of
   tree_cid for every fuel > |heap|. ---------- *)
Lemma kid_parent_live s a k : In k (skids s a) -> live s a.
Proof.
  intros Hk. destruct (Nat.lt_ge_cases a (List.length (heap s))) as [Hl|Hl]; [exact Hl|].
  exfalso. unfold skids in Hk. rewrite dead_cellD in Hk by (unfold live; lia). destruct Hk.
Qed.
Lemma addr_rank_rank s : AddrRank s -> Rank s.
Proof.
  intros HA. split.
  - intros a k Hk. assert (Hl := kid_parent_live _ _ _ Hk). apply HA in Hk. unfold live in *. lia.
  - intros a k Hk Hr. apply (reach_le _ _ _ HA) in Hr. apply HA in Hk. lia.
Qed.
Lemma rank_kid_live s a k : Rank s -> In k (skids s a) -> live s k.
Proof. intros [A _]. apply A. Qed.
Lemma rank_acyc s a k : Rank s -> In k (skids s a) -> reach s k a -> False.
Proof. intros [_ B] Hk Hr. exact (B a k Hk Hr). Qed.
Lemma reach_live s a x : Rank s -> live s a -> reach s a x -> live s x.
Proof. intros HK Hl Hr. induction Hr as [a|a k d Hk Hr IH]; [exact Hl|]. apply IH. eapply rank_kid_live; eassumption. Qed.
(* what lies below a child is not the node *)
Lemma reach_kid_ne s a k d : Rank s -> In k (skids s a) -> reach s k d -> d <> a.
Proof. intros HK Hk Hr ->. exact (rank_acyc _ _ _ HK Hk Hr). Qed.
Lemma reach_antisym s a b : Rank s -> reach s a b -> reach s b a -> a = b.
Proof.
  intros HK Hab Hba. destruct (reach_inv _ _ _ Hab) as [E|[k [Hk Hr]]]; [exact E|].
  exfalso. apply (rank_acyc _ _ _ HK Hk). eapply reach_trans; eassumption.
Qed.
Lemma rank_same_kids s s' :
  List.length (heap s') = List.length (heap s) -> (forall b, skids s' b = skids s b) -> Rank s -> Rank s'.
Proof.
  intros Hlen Hsk [A B].
  assert (Hr : forall a d, reach s' a d -> reach s a d).
  { intros a d. induction 1; [apply reach_refl|]. eapply reach_step; [|eassumption]. rewrite <- Hsk. assumption. }
  split.
  - intros a k Hk. rewrite Hsk in Hk. unfold live. rewrite Hlen. apply (A a k Hk).
  - intros a k Hk Hc. rewrite Hsk in Hk. apply (B a k Hk). apply Hr. exact Hc.
Qed.
(* child fields only lose entries *)
Lemma rank_sub_kids s s' :
  List.length (heap s) <= List.length (heap s') -> (forall b k, In k (skids s' b) -> In k (skids s b)) ->
  Rank s -> Rank s'.
Proof.
  intros Hlen Hsk [A B].
  assert (Hr : forall a d, reach s' a d -> reach s a d).
  { intros a d. induction 1; [apply reach_refl|]. eapply reach_step; [|eassumption]. apply Hsk. assumption. }
  split.
  - intros a k Hk. apply Hsk in Hk. apply A in Hk. unfold live in *. lia.
  - intros a k Hk Hc. apply Hsk in Hk. apply (B a k Hk). apply Hr. exact Hc.
Qed.

(* depth_le s n a: every chain of stored children from a has at most n links *)
Fixpoint depth_le (s : st) (n : nat) (a : nat) : Prop :=
  match n with
  | 0 => forall k, ~ In k (skids s a)
  | S m => forall k, In k (skids s a) -> depth_le s m k
  end.
Lemma depth_le_S s n a : depth_le s n a -> depth_le s (S n) a.
Proof.
  revert a. induction n; intros a Hd; simpl in *.
  - intros k Hk. exfalso. exact (Hd k Hk).
  - intros k Hk. apply IHn. apply Hd. exact Hk.
Qed.
Lemma depth_le_mono s n n' a : n <= n' -> depth_le s n a -> depth_le s n' a.
Proof. induction 1; [auto|]. intros Hd. apply depth_le_S. auto. Qed.
Lemma depth_le_same_kids s s' : (forall b, skids s' b = skids s b) -> forall n a, depth_le s n a -> depth_le s' n a.
Proof.
  intros Hsk. induction n; intros a Hd; simpl in *.
  - intros k. rewrite Hsk. apply Hd.
  - intros k Hk. rewrite Hsk in Hk. apply IHn. apply Hd. exact Hk.
Qed.

Lemma live_nodup_bound s (V : list nat) : NoDup V -> (forall v, In v V -> live s v) -> List.length V <= List.length (heap s).
Proof.
  intros Hn Hl. rewrite <- (seq_length (List.length (heap s)) 0). apply NoDup_incl_length; [exact Hn|].
  intros v Hv. apply in_seq. apply Hl in Hv. unfold live in Hv. lia.
Qed.

(* the pigeonhole: V = the chain of distinct nodes walked so far, all of them hold a below them *)
Lemma rank_depth_chain s : Rank s -> forall m V a,
  NoDup V -> (forall v, In v V -> live s v /\ reach s v a /\ v <> a) -> live s a ->
  List.length (heap s) <= List.length V + S m -> depth_le s m a.
Proof.
  intros HK.
  assert (Hstep : forall V a k, NoDup V -> (forall v, In v V -> live s v /\ reach s v a /\ v <> a) -> live s a ->
            In k (skids s a) ->
            NoDup (a :: V) /\ (forall v, In v (a :: V) -> live s v /\ reach s v k /\ v <> k) /\ live s k).
  { intros V a k Hn HV Hl Hk. split; [|split].
    - constructor; [|exact Hn]. intros Hin. destruct (HV a Hin) as [_ [_ Hne]]. apply Hne; reflexivity.
    - intros v [<-|Hv].
      + split; [exact Hl|]. split; [eapply reach_step; [exact Hk | apply reach_refl]|].
        intros ->. apply (rank_acyc _ _ _ HK Hk). apply reach_refl.
      + destruct (HV v Hv) as [Hlv [Hr Hne]]. split; [exact Hlv|].
        split; [eapply reach_trans; [exact Hr | eapply reach_step; [exact Hk | apply reach_refl]]|].
        intros ->. exact (rank_acyc _ _ _ HK Hk Hr).
    - eapply rank_kid_live; eassumption. }
  induction m; intros V a Hn HV Hl Hlen; simpl.
  - intros k Hk. destruct (Hstep V a k Hn HV Hl Hk) as [Hn' [HV' Hlk]].
    assert (Hn2 : NoDup (k :: a :: V)).
    { constructor; [|exact Hn']. intros Hin. destruct (HV' k Hin) as [_ [_ Hne]]. apply Hne; reflexivity. }
    assert (Hb := live_nodup_bound s (k :: a :: V) Hn2).
    simpl in Hb. assert (S (S (List.length V)) <= List.length (heap s)); [|lia].
    apply Hb. intros v [<-|Hv]; [exact Hlk | apply HV'; exact Hv].
  - intros k Hk. destruct (Hstep V a k Hn HV Hl Hk) as [Hn' [HV' Hlk]].
    apply (IHm (a :: V) k Hn' HV' Hlk). simpl. lia.
Qed.
Lemma rank_depth s a : Rank s -> depth_le s (List.length (heap s)) a.
Proof.
  intros HK. destruct (Nat.lt_ge_cases a (List.length (heap s))) as [Hl|Hl].
  - apply (rank_depth_chain s HK (List.length (heap s)) [] a); [constructor | intros ? [] | exact Hl | simpl; lia].
  - apply (depth_le_mono s 0); [lia|]. simpl. intros k Hk. apply kid_parent_live in Hk. unfold live in Hk. lia.
Qed.
(* a child's chains are one shorter *)
Lemma rank_depth_kid s a k : Rank s -> In k (skids s a) -> depth_le s (List.length (heap s) - 1) k.
Proof.
  intros HK Hk. assert (Hd := rank_depth s a HK). assert (Hl := kid_parent_live _ _ _ Hk). unfold live in Hl.
  destruct (List.length (heap s)) as [|n]; [lia|]. simpl in *. rewrite Nat.sub_0_r. apply Hd. exact Hk.
Qed.

(* induction over the stored child relation *)
Lemma rank_ind s (P : nat -> Prop) :
  Rank s -> (forall a, (forall k, In k (skids s a) -> P k) -> P a) -> forall a, P a.
Proof.
  intros HK Hstep.
  assert (Hn : forall n a, depth_le s n a -> P a).
  { induction n; intros a Hd; apply Hstep; intros k Hk; simpl in Hd.
    - exfalso. exact (Hd k Hk).
    - apply IHn. apply Hd. exact Hk. }
  intros a. apply (Hn _ a (rank_depth s a HK)).
Qed.

Section TreeCidRank.
  Variable H : pystr -> pystr.
  Variable ct : ctable.

  (* tree_cid reads only what the node reaches, and any fuel above the depth will do *)
  Lemma tree_cid_depth s s' : forall n a, depth_le s n a ->
    (forall y, reach s a y -> c_cls (cellD s' y) = c_cls (cellD s y) /\ c_fs (cellD s' y) = c_fs (cellD s y)) ->
    forall f f', n < f -> n < f' -> tree_cid H ct f s' a = tree_cid H ct f' s a.
  Proof.
    induction n; intros a Hd Hsk f f' Hf Hf';
      (destruct f as [|f]; [lia|]); (destruct f' as [|f']; [lia|]); simpl;
      destruct (Hsk a (reach_refl _ _)) as [Hc Hfs]; rewrite Hc; unfold props_of; rewrite Hfs; f_equal; f_equal; f_equal;
      (assert (Ek : kid_data (tree_cid H ct f s') (cellD s' a) = kid_data (tree_cid H ct f s') (cellD s a))
         by (unfold kid_data, sorted_kids, kids_wf; rewrite Hfs; reflexivity));
      rewrite Ek; apply kid_data_ext; intros k Hk.
    - exfalso. exact (Hd k Hk).
    - apply IHn; [apply Hd; exact Hk | | lia | lia].
      intros y Hy. apply Hsk. eapply reach_step; eassumption.
  Qed.
  Lemma tree_cid_reach_local s s' : Rank s -> forall a,
    (forall y, reach s a y -> c_cls (cellD s' y) = c_cls (cellD s y) /\ c_fs (cellD s' y) = c_fs (cellD s y)) ->
    forall f f', List.length (heap s) < f -> List.length (heap s) < f' -> tree_cid H ct f s' a = tree_cid H ct f' s a.
  Proof. intros HK a Hsk f f' Hf Hf'. eapply tree_cid_depth; [apply rank_depth; exact HK | exact Hsk | exact Hf | exact Hf']. Qed.
  Lemma tree_cid_fuel s a f f' :
    Rank s -> List.length (heap s) < f -> List.length (heap s) < f' -> tree_cid H ct f s a = tree_cid H ct f' s a.
  Proof. intros HK. apply tree_cid_reach_local; [exact HK | auto]. Qed.

  (* one unfolding: the stored digest of a node whose children carry their tree digests *)
  Lemma tree_cid_unfold s a : Rank s ->
    tree_cid H ct (fuel_of s) s a =
    H (c_cls (cellD s a) ++ prop_data (filter (fun p => is_compare ct (c_cls (cellD s a)) (fst p)) (props_of (cellD s a)))
         ++ kid_data (tree_cid H ct (fuel_of s) s) (cellD s a)).
  Proof.
    intros HR.
    assert (E : forall f, tree_cid H ct (S f) s a =
      H (c_cls (cellD s a) ++ prop_data (filter (fun p => is_compare ct (c_cls (cellD s a)) (fst p)) (props_of (cellD s a)))
         ++ kid_data (tree_cid H ct f s) (cellD s a))) by reflexivity.
    unfold fuel_of at 1. rewrite E. f_equal. f_equal. f_equal.
    apply kid_data_ext. intros k Hk.
    assert (Hd := rank_depth_kid s a k HR Hk). assert (Hl := kid_parent_live _ _ _ Hk). unfold live in Hl.
    eapply tree_cid_depth; [exact Hd | auto | lia | unfold fuel_of; lia].
  Qed.
End TreeCidRank.

(* the invariant of round 2 implies the invariant of round 3 *)
Lemma inv2_old_inv2 H ct s : Inv2_old H ct s -> Inv2 H ct s.
Proof. intros [A [B [C D]]]. split; [exact A | split; [apply addr_rank_rank; exact B | split; [exact C | exact D]]]. Qed.
