(* C08: the compiled matcher computes the documented semantics. *)
From Oak Require Import Model.Pattern Spec.PatSem.
From Coq Require Import List Bool Arith Lia ZArith.
Import ListNotations.

(* ------------------------------------------------------------------ induction over the three syntax sorts *)
Section PatInd.
  Variables (P : pat -> Prop) (Q : fspec -> Prop) (R : vpat -> Prop).
  Hypothesis HT : forall cls fs, Forall (fun f => Q (snd f)) fs -> P (PTree cls fs).
  Hypothesis HA : forall cap, Q (FAny cap).
  Hypothesis HV : forall v cap, R v -> Q (FVal v cap).
  Hypothesis HS : forall items tail cap, Forall (fun i => R (fst i)) items -> Q (FSeq items tail cap).
  Hypothesis HVT : forall p, P p -> R (VTree p).
  Hypothesis HVV : forall x, R (VVar x).
  Hypothesis HVN : R VNoneP.
  Hypothesis HVR : forall r, R (VRegex r).

  Fixpoint pat_ind' (p : pat) : P p :=
    match p with
    | PTree cls fs =>
      HT cls fs ((fix go (l : list (pystr * fspec)) : Forall (fun f => Q (snd f)) l :=
                    match l with
                    | [] => Forall_nil _
                    | x :: r => Forall_cons x (fspec_ind' (snd x)) (go r)
                    end) fs)
    end
  with fspec_ind' (s : fspec) : Q s :=
    match s with
    | FAny cap => HA cap
    | FVal v cap => HV v cap (vpat_ind' v)
    | FSeq items tail cap =>
      HS items tail cap ((fix go (l : list (vpat * option pystr)) : Forall (fun i => R (fst i)) l :=
                            match l with
                            | [] => Forall_nil _
                            | x :: r => Forall_cons x (vpat_ind' (fst x)) (go r)
                            end) items)
    end
  with vpat_ind' (v : vpat) : R v :=
    match v with
    | VTree p => HVT p (pat_ind' p)
    | VVar x => HVV x
    | VNoneP => HVN
    | VRegex r => HVR r
    end.
End PatInd.

(* ------------------------------------------------------------------ the loops *)
Lemma zip_loop_ext {A B} (f : A -> mval -> dict -> res) (g : B -> mval -> dict -> res) fin l1 l2 :
  Forall2 (fun a b => forall x c, f a x c = g b x c) l1 l2 ->
  forall items lctx ret, zip_loop f fin l1 items lctx ret = zip_loop g fin l2 items lctx ret.
Proof.
  induction 1 as [|a b l1 l2 Hab _ IH]; intros items lctx ret; simpl; [reflexivity|].
  destruct items as [|x items]; [reflexivity|].
  rewrite Hab. destruct (g b x lctx); auto.
Qed.

Lemma zip_loop_fin_ext {A} (f : A -> mval -> dict -> res) fin fin' l :
  (forall c r, fin c r = fin' c r) ->
  forall items lctx ret, zip_loop f fin l items lctx ret = zip_loop f fin' l items lctx ret.
Proof.
  intros Hf. induction l as [|a l IH]; intros items lctx ret; simpl; [apply Hf|].
  destruct items; [apply Hf|]. destruct (f a m lctx); auto.
Qed.

Lemma field_loop_ext {A B} (f : A -> mval -> dict -> res) (g : B -> mval -> dict -> res) getf l1 l2 :
  Forall2 (fun a b => fst a = fst b /\ forall x c, f (snd a) x c = g (snd b) x c) l1 l2 ->
  forall lctx ret, field_loop f getf l1 lctx ret = field_loop g getf l2 lctx ret.
Proof.
  induction 1 as [|a b l1 l2 [Hn Hab] _ IH]; intros lctx ret; simpl; [reflexivity|].
  rewrite Hn. destruct (getf (fst b)); [|reflexivity].
  rewrite Hab. destruct (g (snd b) m lctx); auto.
Qed.

(* ------------------------------------------------------------------ compile: list visits *)
Lemma c_list_ok {A B} (f : A -> list pystr -> cres B) l :
  forall seen ys seen', c_list f l seen = COk ys seen' ->
  Forall2 (fun a b => exists s s', f a s = COk b s') l ys.
Proof.
  induction l as [|x r IH]; intros seen ys seen' E; simpl in E.
  - inversion E; constructor.
  - destruct (f x seen) as [y s1|] eqn:E1; [|discriminate].
    destruct (c_list f r s1) as [ys' s2|] eqn:E2; [|discriminate].
    inversion E; subst. constructor; eauto.
Qed.

Lemma Forall2_length' {A B} (R : A -> B -> Prop) l1 l2 : Forall2 R l1 l2 -> length l1 = length l2.
Proof. induction 1; simpl; auto. Qed.

(* ------------------------------------------------------------------ names, replace *)
Definition msimple (m : matcher) : bool := match m with MAny _ | MSeq _ _ _ => false | _ => true end.
(* a sequence matcher on which __post_init__ has nothing left to do *)
Definition mnormal (m : matcher) : Prop :=
  match m with
  | MSeq _ ms tail => tail <> None \/ (ms <> [] /\ is_any (last ms (MAny None)) = false)
  | _ => True
  end.

Lemma named_none v r : named None v r = r.
Proof. destruct r; reflexivity. Qed.

Section Sem.
  Variable H : pystr -> pystr.
  Variable ct : ctable.
  Variable re_ok : pystr -> bool.
  Variable re_match : pystr -> pystr -> bool.
  Variable node_repr : node -> pystr.

  Notation run := (run H ct re_match node_repr true).
  Notation c_pat := (c_pat ct re_ok true).
  Notation c_fspec := (c_fspec ct re_ok true).
  Notation c_vpat := (c_vpat ct re_ok true).
  Notation pm_pat := (pm_pat H ct re_match node_repr).
  Notation pm_fspec := (pm_fspec H ct re_match node_repr).
  Notation pm_vpat := (pm_vpat H ct re_match node_repr).

  (* run of a matcher = its name applied to the run of the same matcher without a name *)
  Lemma run_replace m c m' :
    mname m = None -> mnormal m -> replace_name true m (Some c) = Some m' ->
    (forall v ctx, run m' v ctx = named (Some c) v (run m v ctx)) /\ is_any m' = is_any m.
  Proof.
    intros Hn Hnorm E. destruct m; simpl in *; subst; try (inversion E; subst; clear E).
    - split; [|reflexivity]. intros; simpl. reflexivity.
    - split; [|reflexivity]. intros; simpl. destruct k; rewrite named_none; reflexivity.
    - split; [|reflexivity]. intros; simpl. rewrite named_none; reflexivity.
    - split; [|reflexivity]. intros; simpl. rewrite named_none; reflexivity.
    - (* MSeq: post_init runs again and finds nothing to strip *)
      unfold seq_post in H1.
      destruct tail as [tm|].
      + destruct ms; inversion H1; subst; (split; [|reflexivity]); intros; simpl; rewrite named_none; reflexivity.
      + destruct Hnorm as [Hc|[Hne Hl]]; [congruence|].
        destruct ms as [|m0 ms]; [congruence|].
        rewrite Hl in H1. inversion H1; subst. split; [|reflexivity].
        intros; simpl. rewrite named_none; reflexivity.
    - split; [|reflexivity]. intros; simpl. rewrite named_none; reflexivity.
  Qed.

  Lemma attach_sem m cap seen m' seen' :
    mname m = None -> mnormal m -> attach true m cap seen = COk m' seen' ->
    (forall v ctx, run m' v ctx = named cap v (run m v ctx)) /\ is_any m' = is_any m.
  Proof.
    intros Hn Hnorm E. unfold attach, take_capture in E.
    destruct cap as [c|].
    - destruct (mem c seen); [discriminate|].
      destruct (replace_name true m (Some c)) as [m1|] eqn:E1; [|discriminate].
      inversion E; subst. eapply run_replace; eauto.
    - inversion E; subst. split; [|reflexivity]. intros. rewrite named_none. reflexivity.
  Qed.

  Lemma subclass_astnode c : subclass ct c astnode = true.
  Proof. unfold subclass. rewrite pystr_eqb_refl. reflexivity. Qed.

  Lemma last_not_any (ms : list matcher) d :
    ms <> [] -> Forall (fun m => is_any m = false) ms -> is_any (last ms d) = false.
  Proof.
    induction ms as [|m ms IH]; intros Hne Hall; [congruence|].
    inversion Hall; subst. destruct ms as [|m2 ms]; [assumption|].
    change (last (m :: m2 :: ms) d) with (last (m2 :: ms) d). apply IH; [discriminate|assumption].
  Qed.

  Lemma last_snoc {A} (l : list A) x d : last (l ++ [x]) d = x.
  Proof. induction l as [|a l IH]; simpl; auto. destruct (l ++ [x]) eqn:E; [destruct l; discriminate|]. exact IH. Qed.
  Lemma removelast_snoc {A} (l : list A) x : removelast (l ++ [x]) = l.
  Proof. rewrite removelast_app by discriminate. simpl. apply app_nil_r. Qed.

  Definition Ppat (p : pat) : Prop :=
    forall seen m seen', c_pat p seen = COk m seen' ->
      mname m = None /\ msimple m = true /\ forall v ctx, run m v ctx = pm_pat p v ctx.
  Definition Pfspec (s : fspec) : Prop :=
    forall seen m seen', c_fspec s seen = COk m seen' -> forall v ctx, run m v ctx = pm_fspec s v ctx.
  Definition Pvpat (vp : vpat) : Prop :=
    forall seen m seen', c_vpat vp seen = COk m seen' ->
      mname m = None /\ msimple m = true /\ forall v ctx, run m v ctx = pm_vpat vp v ctx.

  Lemma simple_normal m : msimple m = true -> mnormal m /\ is_any m = false.
  Proof. destruct m; simpl; intros; try discriminate; auto. Qed.

  (* unfolding equations (simpl does not unfold the mutual fixpoints) *)
  Lemma c_pat_eq cls fs seen :
    c_pat (PTree cls fs) seen =
    match (match cls with None => None | Some l => check_classes ct l end) with
    | Some e => CErr e
    | None =>
      match c_list (fun (fs : pystr * fspec) seen =>
                      match c_fspec (snd fs) seen with
                      | CErr e => CErr e
                      | COk m seen1 => COk (fst fs, m) seen1
                      end) fs seen with
      | CErr e => CErr e
      | COk content seen' => COk (MNode None (match cls with None => [astnode] | Some l => l end) content) seen'
      end
    end.
  Proof. reflexivity. Qed.
  Lemma c_fany_eq cap seen :
    c_fspec (FAny cap) seen = match take_capture cap seen with CErr e => CErr e | COk n seen' => COk (MAny n) seen' end.
  Proof. reflexivity. Qed.
  Lemma c_fval_eq v cap seen :
    c_fspec (FVal v cap) seen = match c_vpat v seen with CErr e => CErr e | COk m seen1 => attach true m cap seen1 end.
  Proof. reflexivity. Qed.
  Lemma c_fseq_eq items tail cap seen :
    c_fspec (FSeq items tail cap) seen =
      match c_list (fun (it : vpat * option pystr) seen =>
                      match c_vpat (fst it) seen with
                      | CErr e => CErr e
                      | COk m seen1 => attach true m (snd it) seen1
                      end) items seen with
      | CErr e => CErr e
      | COk ms seen1 =>
        match (match tail with
               | None => COk ms seen1
               | Some tc => match take_capture tc seen1 with
                            | CErr e => CErr e
                            | COk n seen2 => COk (ms ++ [MAny n]) seen2
                            end
               end) with
        | CErr e => CErr e
        | COk all seen2 =>
          match all with
          | [] => attach true (MValue None KEmpty) cap seen2
          | _ => match seq_post None all None with
                 | None => CErr EUnexpected
                 | Some m => attach true m cap seen2
                 end
          end
        end
      end.
  Proof. reflexivity. Qed.
  Lemma c_vpat_eq v seen :
    c_vpat v seen =
    match v with
    | VTree p => c_pat p seen
    | VVar x => if mem x seen then COk (MVar None x) seen else CErr EVarBefore
    | VNoneP => COk (MValue None KNone) seen
    | VRegex r => if re_ok r then COk (MRegex None r) seen else CErr EUnexpected
    end.
  Proof. destruct v; reflexivity. Qed.
  Lemma pm_pat_eq classes fs v ctx :
    pm_pat (PTree classes fs) v ctx =
    match v with
    | XN n =>
      if match classes with None => true | Some l => existsb (subclass ct (cls n)) l end
      then field_loop pm_fspec (attr H ct n) fs ctx []
      else RFail
    | _ => RFail
    end.
  Proof. reflexivity. Qed.
  Lemma pm_fany_eq cap v ctx : pm_fspec (FAny cap) v ctx = named cap v (ROk []).
  Proof. reflexivity. Qed.
  Lemma pm_fval_eq vp cap v ctx : pm_fspec (FVal vp cap) v ctx = named cap v (pm_vpat vp v ctx).
  Proof. reflexivity. Qed.
  Lemma pm_fseq_nil_eq cap v ctx :
    pm_fspec (FSeq [] None cap) v ctx = named cap v (if is_empty_tuple v then ROk [] else RFail).
  Proof. reflexivity. Qed.
  Lemma pm_fseq_eq items tail cap v ctx :
    (items <> [] \/ tail <> None) ->
    pm_fspec (FSeq items tail cap) v ctx =
    named cap v
      match seq_items v with
      | None => RFail
      | Some elems =>
        if match tail with
           | None => Nat.eqb (length elems) (length items)
           | Some _ => Nat.leb (length items) (length elems)
           end
        then zip_loop (fun (it : vpat * option pystr) e ctx => named (snd it) e (pm_vpat (fst it) e ctx))
               (fun _ caps => match tail with
                              | Some (Some t) => ROk (dupdate caps [(t, seq_drop (length items) v)])
                              | _ => ROk caps
                              end) items elems ctx []
        else RFail
      end.
  Proof. intros [Hn|Hn]; destruct items; try congruence; try reflexivity. destruct tail; [reflexivity|congruence]. Qed.
  Lemma pm_vpat_eq vp v ctx :
    pm_vpat vp v ctx =
    match vp with
    | VTree p => pm_pat p v ctx
    | VVar x => match dget x ctx with None => RRaise | Some w => if veq H ct w v then ROk [] else RFail end
    | VNoneP => if is_none v then ROk [] else RFail
    | VRegex r => if re_match r (mstr node_repr v) then ROk [] else RFail
    end.
  Proof. destruct vp; reflexivity. Qed.

  Lemma Forall2_flip_with {A B} (P : A -> Prop) (R : A -> B -> Prop) (S : B -> A -> Prop) l1 l2 :
    Forall2 R l1 l2 -> Forall P l1 -> (forall a b, P a -> R a b -> S b a) -> Forall2 S l2 l1.
  Proof.
    induction 1; intros HF HS; [constructor|]. inversion HF; subst. constructor; auto.
  Qed.

  Lemma case_T cls fs : Forall (fun f => Pfspec (snd f)) fs -> Ppat (PTree cls fs).
  Proof.
    intros HF seen m seen' E. rewrite c_pat_eq in E.
    destruct (match cls with None => None | Some l => check_classes ct l end); [discriminate|].
    match type of E with context [c_list ?f fs seen] => destruct (c_list f fs seen) as [content s1|] eqn:EL end; [|discriminate].
    inversion E; subst; clear E. split; [reflexivity|]. split; [reflexivity|].
    apply c_list_ok in EL.
    assert (HL : Forall2 (fun a b => fst a = fst b /\ forall x c, run (snd a) x c = pm_fspec (snd b) x c) content fs).
    { eapply Forall2_flip_with; [exact EL|exact HF|].
      intros a b Pa [s [s' Es]]. cbv beta in Es.
      destruct (c_fspec (snd a) s) as [m1 s2|] eqn:E1; [|discriminate]. inversion Es; subst. simpl. split; [reflexivity|].
      intros x c. eapply Pa; eauto. }
    intros v ctx. rewrite pm_pat_eq. simpl. rewrite named_none. destruct v as [pv|n|ns]; try reflexivity.
    destruct cls as [l|]; simpl.
    - destruct (existsb (subclass ct (Node.cls n)) l); simpl; [|reflexivity].
      apply field_loop_ext; exact HL.
    - apply field_loop_ext; exact HL.
  Qed.

  Lemma case_A cap : Pfspec (FAny cap).
  Proof.
    intros seen m seen' E v ctx. rewrite c_fany_eq in E. unfold take_capture in E. rewrite pm_fany_eq.
    destruct cap as [c|]; [destruct (mem c seen); [discriminate|]|]; inversion E; subst; reflexivity.
  Qed.

  Lemma case_V vp cap : Pvpat vp -> Pfspec (FVal vp cap).
  Proof.
    intros HV seen m seen' E v ctx. rewrite c_fval_eq in E. rewrite pm_fval_eq.
    destruct (c_vpat vp seen) as [m1 s1|] eqn:E1; [|discriminate].
    destruct (HV _ _ _ E1) as [Hn [Hs Hr]]. destruct (simple_normal _ Hs) as [Hnorm _].
    destruct (attach_sem _ _ _ _ _ Hn Hnorm E) as [Ha _]. rewrite Ha, Hr. reflexivity.
  Qed.

  Lemma case_S items tail cap : Forall (fun i => Pvpat (fst i)) items -> Pfspec (FSeq items tail cap).
  Proof.
    intros HF seen m seen' E v ctx. rewrite c_fseq_eq in E.
    match type of E with context [c_list ?f items seen] => destruct (c_list f items seen) as [ms s1|] eqn:EL end; [|discriminate].
    apply c_list_ok in EL.
    assert (HL : Forall2 (fun m (it : vpat * option pystr) =>
                            (forall x c, run m x c = named (snd it) x (pm_vpat (fst it) x c)) /\ is_any m = false) ms items).
    { eapply Forall2_flip_with; [exact EL|exact HF|].
      intros a b Pa [s [s' Es]]. cbv beta in Es.
      destruct (c_vpat (fst a) s) as [m1 s2|] eqn:E1; [|discriminate].
      destruct (Pa _ _ _ E1) as [Hn [Hs Hr]]. destruct (simple_normal _ Hs) as [Hnorm Hany].
      destruct (attach_sem _ _ _ _ _ Hn Hnorm Es) as [Ha Hb]. split.
      - intros x c. rewrite Ha, Hr. reflexivity.
      - rewrite Hb. exact Hany. }
    assert (Hlen : length ms = length items) by (eapply Forall2_length'; exact HL).
    assert (Hany : Forall (fun m => is_any m = false) ms).
    { clear - HL. induction HL as [|a b l1 l2 [_ Hb] _ IH]; constructor; auto. }
    assert (HZ : Forall2 (fun m (it : vpat * option pystr) =>
                            forall x c, run m x c = (fun (it : vpat * option pystr) e ctx => named (snd it) e (pm_vpat (fst it) e ctx)) it x c) ms items).
    { clear - HL. induction HL as [|a b l1 l2 [Ha _] _ IH]; constructor; auto. }
    destruct tail as [tc|].
    - (* with a '*' tail *)
      unfold take_capture in E.
      assert (E' : match seq_post None (ms ++ [MAny tc]) None with
                   | Some m0 => attach true m0 cap (match tc with Some c => c :: s1 | None => s1 end)
                   | None => CErr EUnexpected end = COk m seen').
      { destruct tc as [c|].
        - destruct (mem c s1); [discriminate|]. destruct (ms ++ [MAny (Some c)]) eqn:Eapp; [destruct ms; discriminate|]. exact E.
        - destruct (ms ++ [MAny None]) eqn:Eapp; [destruct ms; discriminate|]. exact E. }
      clear E.
      assert (Hpost : seq_post None (ms ++ [MAny tc]) None = Some (MSeq None ms (Some (MAny tc)))).
      { unfold seq_post. destruct (ms ++ [MAny tc]) eqn:Eapp; [destruct ms; discriminate|].
        rewrite <- Eapp. rewrite last_snoc. simpl. rewrite removelast_snoc. reflexivity. }
      rewrite Hpost in E'.
      assert (Hnorm : mnormal (MSeq None ms (Some (MAny tc)))) by (left; discriminate).
      destruct (attach_sem (MSeq None ms (Some (MAny tc))) _ _ _ _ eq_refl Hnorm E') as [Ha _]. rewrite Ha.
      rewrite pm_fseq_eq by (right; discriminate).
      f_equal. simpl. rewrite named_none.
      destruct (seq_items v) as [elems|]; [|reflexivity].
      unfold seq_len_ok. rewrite Hlen.
      destruct (Nat.leb (length items) (length elems)); simpl; [|reflexivity].
      rewrite (zip_loop_ext _ _ _ _ _ HZ).
      apply zip_loop_fin_ext. intros c r. destruct tc as [t|]; reflexivity.
    - (* no tail *)
      destruct ms as [|m0 ms'].
      + (* [] *)
        destruct items; [|discriminate]. simpl in E. rewrite pm_fseq_nil_eq.
        destruct (attach_sem (MValue None KEmpty) _ _ _ _ eq_refl I E) as [Ha _]. rewrite Ha. simpl. rewrite named_none. reflexivity.
      + assert (Hpost : seq_post None (m0 :: ms') None = Some (MSeq None (m0 :: ms') None)).
        { unfold seq_post. rewrite last_not_any; [reflexivity|discriminate|assumption]. }
        simpl app in E. cbv iota in E. rewrite Hpost in E.
        assert (Hnorm : mnormal (MSeq None (m0 :: ms') None)).
        { right. split; [discriminate|]. apply last_not_any; [discriminate|assumption]. }
        destruct (attach_sem (MSeq None (m0 :: ms') None) _ _ _ _ eq_refl Hnorm E) as [Ha _]. rewrite Ha.
        destruct items as [|i0 items']; [discriminate|].
        rewrite pm_fseq_eq by (left; discriminate).
        f_equal. cbn [Pattern.run]. rewrite named_none.
        destruct (seq_items v) as [elems|]; [|reflexivity].
        unfold seq_len_ok. rewrite Hlen.
        destruct (Nat.eqb (length elems) (length (i0 :: items'))); simpl negb; cbv iota; [|reflexivity].
        rewrite (zip_loop_ext _ _ _ _ _ HZ). reflexivity.
  Qed.

  Lemma case_VT p : Ppat p -> Pvpat (VTree p).
  Proof.
    intros HP seen m seen' E. rewrite c_vpat_eq in E. destruct (HP _ _ _ E) as [A [B C]].
    split; [exact A|]. split; [exact B|]. intros v ctx. rewrite pm_vpat_eq. apply C.
  Qed.
  Lemma case_VV x : Pvpat (VVar x).
  Proof.
    intros seen m seen' E. rewrite c_vpat_eq in E. destruct (mem x seen); [|discriminate]. inversion E; subst.
    split; [reflexivity|]. split; [reflexivity|]. intros v ctx. rewrite pm_vpat_eq. simpl. rewrite named_none. reflexivity.
  Qed.
  Lemma case_VN : Pvpat VNoneP.
  Proof.
    intros seen m seen' E. rewrite c_vpat_eq in E. inversion E; subst.
    split; [reflexivity|]. split; [reflexivity|]. intros v ctx. rewrite pm_vpat_eq. simpl. rewrite named_none. reflexivity.
  Qed.
  Lemma case_VR r : Pvpat (VRegex r).
  Proof.
    intros seen m seen' E. rewrite c_vpat_eq in E. destruct (re_ok r); [|discriminate]. inversion E; subst.
    split; [reflexivity|]. split; [reflexivity|]. intros v ctx. rewrite pm_vpat_eq. simpl. rewrite named_none. reflexivity.
  Qed.

  Lemma run_sem_pat p : Ppat p.
  Proof. exact (pat_ind' Ppat Pfspec Pvpat case_T case_A case_V case_S case_VT case_VV case_VN case_VR p). Qed.
  Lemma run_sem_fspec s : Pfspec s.
  Proof. exact (fspec_ind' Ppat Pfspec Pvpat case_T case_A case_V case_S case_VT case_VV case_VN case_VR s). Qed.

  Lemma run_sem_vpat vp : Pvpat vp.
  Proof. exact (vpat_ind' Ppat Pfspec Pvpat case_T case_A case_V case_S case_VT case_VV case_VN case_VR vp). Qed.

  (* the core theorem *)
  Theorem run_sem p m :
    compile ct re_ok true p = inl m -> forall v ctx, run m v ctx = pm_pat p v ctx.
  Proof.
    unfold compile. intros E. destruct (c_pat p []) as [m1 s1|] eqn:E1; [|discriminate].
    inversion E; subst. exact (proj2 (proj2 (run_sem_pat p _ _ _ E1))).
  Qed.
End Sem.

(* what compile produces for a value: an unnamed matcher that is neither AnyMatcher nor SequenceMatcher *)
Lemma run_sem_vpat_shape ct re_ok vp seen m seen' :
  c_vpat ct re_ok true vp seen = COk m seen' -> mname m = None /\ msimple m = true.
Proof.
  intros E. destruct (run_sem_vpat (fun s => s) ct re_ok (fun _ _ => true) (fun _ => []) vp seen m seen' E) as [A [B _]].
  split; assumption.
Qed.

(* ------------------------------------------------------------------ MultiPatternMatcher *)
Section Multi.
  Variable H : pystr -> pystr.
  Variable ct : ctable.
  Variable re_ok : pystr -> bool.
  Variable re_match : pystr -> pystr -> bool.
  Variable node_repr : node -> pystr.

  (* rules compiled one by one (each with a fresh interpreter) *)
  Definition compiled (rules : list (pystr * pat)) (crules : list (pystr * matcher)) : Prop :=
    Forall2 (fun r cr => fst r = fst cr /\ compile ct re_ok true (snd r) = inl (snd cr)) rules crules.

  Lemma multi_sem rules crules v :
    compiled rules crules ->
    multi_match H ct re_match node_repr true crules v = pm_multi H ct re_match node_repr rules v.
  Proof.
    induction 1 as [|r cr rules crules [Hn Hc] _ IH]; [reflexivity|].
    destruct r as [name p], cr as [name' m]; simpl in *; subst.
    rewrite (run_sem H ct re_ok re_match node_repr p m Hc). rewrite IH. reflexivity.
  Qed.

  (* the chosen rule is the first one, in the given order, that does not fail *)
  Lemma multi_first rules v name r :
    pm_multi H ct re_match node_repr rules v = Some (name, r) <->
    exists pre p post, rules = pre ++ (name, p) :: post
      /\ Forall (fun q => pm_pat H ct re_match node_repr (snd q) v [] = RFail) pre
      /\ pm_pat H ct re_match node_repr p v [] = r /\ r <> RFail.
  Proof.
    split.
    - induction rules as [|[n p] rules IH]; simpl; [discriminate|].
      destruct (pm_pat H ct re_match node_repr p v []) eqn:E.
      + intros Hm. destruct (IH Hm) as [pre [p' [post [E1 [E2 [E3 E4]]]]]].
        exists ((n, p) :: pre), p', post. subst. repeat split; auto.
      + intros Hm; inversion Hm; subst. exists [], p, rules. repeat split; auto. discriminate.
      + intros Hm; inversion Hm; subst. exists [], p, rules. repeat split; auto. discriminate.
    - intros [pre [p [post [E1 [E2 [E3 E4]]]]]]. subst rules.
      induction pre as [|[n q] pre IH]; simpl.
      + rewrite E3. destruct r; congruence.
      + inversion E2; subst. simpl in H2. rewrite H2. apply IH. assumption.
  Qed.

  Lemma multi_none rules v :
    pm_multi H ct re_match node_repr rules v = None <->
    Forall (fun q => pm_pat H ct re_match node_repr (snd q) v [] = RFail) rules.
  Proof.
    induction rules as [|[n p] rules IH]; simpl; [split; auto|].
    destruct (pm_pat H ct re_match node_repr p v []) eqn:E.
    - rewrite IH. split; [intros; constructor; auto|intros HF; inversion HF; auto].
    - split; [discriminate|intros HF; inversion HF; simpl in *; congruence].
    - split; [discriminate|intros HF; inversion HF; simpl in *; congruence].
  Qed.
End Multi.

(* ------------------------------------------------------------------ the pattern cache does not change results *)
Section CacheProofs.
  Variables (K M E : Type).
  Variable keq : K -> K -> bool.
  Variable comp : K -> M + E.
  Hypothesis keq_eq : forall a b, keq a b = true -> a = b.

  Definition cache_ok (c : cache K M) : Prop := forall k m, cget K M keq k c = Some m -> comp k = inl m.

  Lemma from_key_ok c k : cache_ok c -> cache_ok (fst (from_key K M E keq comp c k)) /\ snd (from_key K M E keq comp c k) = comp k.
  Proof.
    intros Hc. unfold from_key. destruct (cget K M keq k c) as [m|] eqn:Eg.
    - simpl. split; [exact Hc|]. symmetry. apply Hc. exact Eg.
    - destruct (comp k) as [m|e] eqn:Ec; simpl; (split; [|reflexivity]); [|exact Hc].
      intros k' m'. simpl. destruct (keq k k') eqn:Ek.
      + apply keq_eq in Ek. subst. intros Hm; inversion Hm; subst. exact Ec.
      + apply Hc.
  Qed.

  Lemma after_ok ks : cache_ok (after K M E keq comp ks).
  Proof.
    unfold after. assert (G : forall c, cache_ok c -> cache_ok (fold_left (fun c k => fst (from_key K M E keq comp c k)) ks c)).
    { induction ks as [|k ks IH]; intros c Hc; simpl; [exact Hc|]. apply IH. apply from_key_ok. exact Hc. }
    apply G. intros k m Hm; discriminate.
  Qed.

  (* whatever was compiled before, from_pattern returns what a fresh compilation returns *)
  Theorem history_free ks k : snd (from_key K M E keq comp (after K M E keq comp ks) k) = comp k.
  Proof. apply from_key_ok. apply after_ok. Qed.
End CacheProofs.

(* ------------------------------------------------------------------ captures *)
Definition as_pair (r : res) : bool * dict := match r with ROk d => (true, d) | _ => (false, []) end.

Lemma fail_empty r : fst (as_pair r) = false -> snd (as_pair r) = [].
Proof. destruct r; simpl; congruence. Qed.

Lemma dget_dset_same k v d : dget k (dset k v d) = Some v.
Proof.
  induction d as [|[k' v'] d IH]; simpl.
  - rewrite pystr_eqb_refl. reflexivity.
  - destruct (pystr_eqb k' k) eqn:E; simpl; rewrite E; auto.
Qed.
Lemma dget_dset_other k k' v d : pystr_eqb k' k = false -> dget k (dset k' v d) = dget k d.
Proof.
  intros Hne. induction d as [|[k2 v2] d IH]; simpl.
  - rewrite Hne. reflexivity.
  - destruct (pystr_eqb k2 k') eqn:E; simpl.
    + destruct (pystr_eqb k2 k) eqn:E2; [|reflexivity].
      apply pystr_eqb_eq in E. apply pystr_eqb_eq in E2. subst. rewrite pystr_eqb_refl in Hne. discriminate.
    + rewrite IH. reflexivity.
Qed.
Lemma dget_dupdate k d new :
  dget k (dupdate d new) = match dget k (rev new) with Some v => Some v | None => dget k d end.
Proof.
  unfold dupdate. revert d. induction new as [|[k' v'] new IH]; intros d; simpl; [reflexivity|].
  rewrite IH. clear IH.
  assert (G : forall l, dget k (l ++ [(k', v')]) = match dget k l with Some v => Some v | None => if pystr_eqb k' k then Some v' else None end).
  { induction l as [|[a b] l IHl]; simpl; [reflexivity|]. destruct (pystr_eqb a k); auto. }
  rewrite G. destruct (dget k (rev new)); [reflexivity|].
  destruct (pystr_eqb k' k) eqn:Ek.
  - apply pystr_eqb_eq in Ek. subst. apply dget_dset_same.
  - apply dget_dset_other. exact Ek.
Qed.

(* "-> c" binds c to the very value the spec was applied to (unless the spec itself captured c inside,
   which compile excludes: capture names are unique) *)
Lemma named_capture c v r d :
  named (Some c) v r = ROk d ->
  exists nv, r = ROk nv /\ d = dupdate [(c, v)] nv /\ (dget c nv = None -> dget c d = Some v).
Proof.
  destruct r as [|nv|]; simpl; try discriminate. intros E; inversion E; subst. exists nv. split; [reflexivity|].
  split; [reflexivity|].
  intros Hn. rewrite dget_dupdate.
  assert (G : forall l, dget c l = None -> dget c (rev l) = None).
  { induction l as [|[a b] l IHl]; simpl; [reflexivity|]. destruct (pystr_eqb a c) eqn:Ea; [discriminate|].
    intros Hl. specialize (IHl Hl). clear - IHl Ea. induction (rev l) as [|[x y] t IHt]; simpl in *.
    - rewrite Ea. reflexivity.
    - destruct (pystr_eqb x c); [discriminate|]. auto. }
  rewrite (G _ Hn). simpl. rewrite pystr_eqb_refl. reflexivity.
Qed.

(* a bare "@f -> c" captures exactly the field value; a trailing "* -> t" captures the remaining elements *)
Lemma capture_any H ct re_match node_repr c v ctx :
  pm_fspec H ct re_match node_repr (FAny (Some c)) v ctx = ROk [(c, v)].
Proof. reflexivity. Qed.
Lemma capture_tail H ct re_match node_repr t v ctx :
  pm_fspec H ct re_match node_repr (FSeq [] (Some (Some t)) None) v ctx =
  match seq_items v with Some _ => ROk [(t, seq_drop 0 v)] | None => RFail end.
Proof. unfold pm_fspec. simpl. destruct (seq_items v); reflexivity. Qed.

(* ------------------------------------------------------------------ witnesses *)
Definition fd (n : String.string) (r : frole) : fdecl :=
  {| fd_name := lit n; fd_role := r; fd_compare := true; fd_init := true; fd_kwonly := false |}.
Definition wit_ct : ctable :=
  [ {| cd_name := lit "A"; cd_bases := []; cd_own := [fd "x" RProp] |};
    {| cd_name := lit "B"; cd_bases := [lit "A"]; cd_own := [] |};
    {| cd_name := lit "L"; cd_bases := []; cd_own := [fd "items" (RChild KTup)] |} ].
Definition nA (a : nat) (x : String.string) : node := Node a (lit "A") ONo [(lit "x", VStr (lit x))] [].
Definition nB (a : nat) (x : String.string) : node := Node a (lit "B") ONo [(lit "x", VStr (lit x))] [].
Definition nL (a : nat) (l : list node) : node := Node a (lit "L") ONo [] [(lit "items", (ShMany, l))].
Definition pcls (c : String.string) : vpat := VTree (PTree (Some [lit c]) []).
Definition idH (s : pystr) : pystr := s.
Definition any_re (r t : pystr) : bool := true.
Definition no_repr (n : node) : pystr := [].

(* (L @items=[(A) (B) *]) against L(items=(a,)) : D7 *)
Definition pat_D7 : pat := PTree (Some [lit "L"]) [(lit "items", FSeq [(pcls "A", None); (pcls "B", None)] (Some None) None)].
Lemma refuted_D7 :
  exists m, compile wit_ct (fun _ => true) true pat_D7 = inl m
    /\ run idH wit_ct any_re no_repr false m (XN (nL 0 [nA 1 "a"])) [] = ROk []
    /\ pm_pat idH wit_ct any_re no_repr pat_D7 (XN (nL 0 [nA 1 "a"])) [] = RFail
    /\ run idH wit_ct any_re no_repr true m (XN (nL 0 [nA 1 "a"])) [] = RFail.
Proof. eexists. split; [vm_compute; reflexivity|]. vm_compute. auto. Qed.

(* (L @items=[(A) *] -> c) : before the D8 repair the captured sequence lost its tail *)
Definition pat_D8 : pat := PTree (Some [lit "L"]) [(lit "items", FSeq [(pcls "A", None)] (Some None) (Some (lit "c")))].
Lemma refuted_D8_tail_lost :
  exists m, compile wit_ct (fun _ => true) false pat_D8 = inl m
    /\ run idH wit_ct any_re no_repr true m (XN (nL 0 [nA 1 "a"; nB 2 "b"])) [] = RFail
    /\ pm_pat idH wit_ct any_re no_repr pat_D8 (XN (nL 0 [nA 1 "a"; nB 2 "b"])) []
       = ROk [(lit "c", XNs [nA 1 "a"; nB 2 "b"])].
Proof. eexists. split; [vm_compute; reflexivity|]. vm_compute. auto. Qed.

(* (L @items=[*] -> c) : rejected as "Unexpected error" before the repair, accepted now *)
Definition pat_D8b : pat := PTree (Some [lit "L"]) [(lit "items", FSeq [] (Some None) (Some (lit "c")))].
Lemma refuted_D8_star_capture :
  compile wit_ct (fun _ => true) false pat_D8b = inr EUnexpected /\
  exists m, compile wit_ct (fun _ => true) true pat_D8b = inl m.
Proof. split; [vm_compute; reflexivity|]. eexists. vm_compute. reflexivity. Qed.

(* a pattern using every construct; it compiles and matches with the captures one expects *)
Definition pat_demo : pat :=
  PTree None [(lit "items", FSeq [(VTree (PTree (Some [lit "A"; lit "L"]) [(lit "x", FVal (VRegex (lit "a")) (Some (lit "s")))]), Some (lit "a"));
                                  (VVar (lit "a"), None)] (Some (Some (lit "rest"))) (Some (lit "all")))].
Example demo_compiles : exists m, compile wit_ct (fun _ => true) true pat_demo = inl m.
Proof. eexists. vm_compute. reflexivity. Qed.
Example demo_matches :
  pm_pat idH wit_ct (fun r t => match r, t with c :: _, d :: _ => Ascii.eqb c d | [], _ => true | _, _ => false end) no_repr
         pat_demo (XN (nL 0 [nB 1 "a"; nB 2 "a"; nA 3 "z"])) []
  = ROk [(lit "all", XNs [nB 1 "a"; nB 2 "a"; nA 3 "z"]); (lit "a", XN (nB 1 "a")); (lit "s", XP (VStr (lit "a")));
         (lit "rest", XNs [nA 3 "z"])].
Proof. vm_compute. reflexivity. Qed.
