(* C18 round 3: the step theorems for a receiver that HAS a parent:
     a.replace( **changes )        = clear_parent + detach_self + constructor + _replace_child + id bookkeeping
     a.replace_with(detached node) = clear_parent + detach + id flip + attach + _replace_child
   Both pass through hole states (Proofs/LegacyHole.v) and leave them by fill_hole (Proofs/LegacyReplaceChild2.v). *)
From Oak Require Import Spec.LegacySpec Spec.LegacySpec2 Proofs.LegacyProofs Proofs.LegacyInv Proofs.LegacyHeap
  Proofs.LegacyDetach Proofs.LegacyAttach Proofs.LegacyAttach2 Proofs.LegacyAttach3 Proofs.LegacyConstruct
  Proofs.LegacyConstruct2 Proofs.LegacyDup Proofs.LegacyDup2 Proofs.LegacyRemove Proofs.LegacyRemoveSeq
  Proofs.LegacyHole Proofs.LegacyReplaceChild Proofs.LegacyReplaceChild2.
From Coq Require Import List String Ascii ZArith Bool Arith Lia.
Import ListNotations.

(* two states that differ in the child fields of p only (besides parent slots, digests, registry) *)
Definition fframe (p : nat) (s s' : st) : Prop :=
  List.length (heap s') = List.length (heap s) /\
  forall x, id_of s' x = id_of s x /\ (x <> p -> c_fs (cellD s' x) = c_fs (cellD s x)).
Lemma fframe_trans p s1 s2 s3 : fframe p s1 s2 -> fframe p s2 s3 -> fframe p s1 s3.
Proof.
  intros [L1 F1] [L2 F2]. split; [congruence|]. intros x. destruct (F1 x) as [A1 B1]. destruct (F2 x) as [A2 B2].
  split; [congruence|]. intros Hx. rewrite (B2 Hx). apply B1; exact Hx.
Qed.
Lemma fframe_pframe p s s' : pframe s s' -> fframe p s s'.
Proof. intros PF. split; [apply (pf_len _ _ PF)|]. intros x. split; [apply (pf_id _ _ PF) | intros _; apply (pf_fs _ _ PF)]. Qed.
Lemma fframe_cframe p s s' : cframe s s' -> fframe p s s'.
Proof. intros CF. split; [exact (proj1 (proj2 CF))|]. intros x. split; [apply (cf_id _ _ CF) | intros _; apply (cf_fs _ _ CF)]. Qed.
Lemma fframe_upd_fs p s fs : fframe p s (upd s p (with_fs fs)).
Proof.
  split; [apply heap_len_upd|]. intros x. unfold id_of. rewrite cellD_upd.
  destruct (Nat.eqb p x) eqn:E; simpl.
  - apply Nat.eqb_eq in E. subst x. split; [destruct (Nat.ltb p (List.length (heap s))); reflexivity | intros Hx; congruence].
  - split; reflexivity.
Qed.
Lemma fframe_skids p s s' x : fframe p s s' -> x <> p -> skids s' x = skids s x.
Proof. intros [_ F] Hx. unfold skids, kids, kids_wf. rewrite (proj2 (F x) Hx). reflexivity. Qed.

(* below a node that does not hold p, the two states have the same paths *)
Lemma fframe_reach_fwd p s s' r y x : fframe p s s' -> ~ reach s' r p -> reach s' r y -> reach s y x -> reach s' y x.
Proof.
  intros FF Hnp Hry Hyx. induction Hyx as [y|y k x Hk Hkx IH]; [apply reach_refl|].
  assert (Hyp : y <> p) by (intros ->; exact (Hnp Hry)).
  assert (Hk' : In k (skids s' y)) by (rewrite (fframe_skids _ _ _ _ FF Hyp); exact Hk).
  eapply reach_step; [exact Hk'|]. apply IH. eapply reach_trans; [exact Hry | eapply reach_step; [exact Hk' | apply reach_refl]].
Qed.
Lemma fframe_reach_back p s s' r y x : fframe p s s' -> ~ reach s' r p -> reach s' r y -> reach s' y x -> reach s y x.
Proof.
  intros FF Hnp Hry Hyx. induction Hyx as [y|y k x Hk Hkx IH]; [apply reach_refl|].
  assert (Hyp : y <> p) by (intros ->; exact (Hnp Hry)).
  eapply reach_step; [rewrite <- (fframe_skids _ _ _ _ FF Hyp); exact Hk|].
  apply IH. eapply reach_trans; [exact Hry | eapply reach_step; [exact Hk | apply reach_refl]].
Qed.
(* a path to p of the one state is a path to p of the other *)
Lemma fframe_reach_p p s s' y : fframe p s s' -> reach s y p -> reach s' y p.
Proof.
  intros FF Hr.
  assert (Hg : forall y z, reach s y z -> z = p -> reach s' y p).
  { clear y Hr. intros y z Hr. induction Hr as [y|y k d Hk Hr IH]; intros ->; [apply reach_refl|].
    destruct (Nat.eq_dec y p) as [->|Hy]; [apply reach_refl|].
    eapply reach_step; [|apply IH; reflexivity]. rewrite (fframe_skids _ _ _ _ FF Hy). exact Hk. }
  exact (Hg y p Hr eq_refl).
Qed.

Section Guards.
  Variable H : pystr -> pystr.
  Variable ct : ctable.

  Lemma tree_shaped_fframe p s s' r : fframe p s s' -> ~ reach s' r p -> tree_shaped s' r -> tree_shaped s r.
  Proof.
    intros FF Hnp HT d Hd.
    assert (Hd' : reach s' r d) by (eapply fframe_reach_fwd; [exact FF | exact Hnp | apply reach_refl | exact Hd]).
    destruct (HT d Hd') as [Hn Hx].
    assert (Hdp : d <> p) by (intros ->; exact (Hnp Hd')).
    assert (Esk := fframe_skids _ _ _ _ FF Hdp). rewrite <- Esk. split; [exact Hn|].
    intros k1 k2 x H1 H2 Hne R1 R2. apply (Hx k1 k2 x H1 H2 Hne).
    - eapply fframe_reach_fwd; [exact FF | exact Hnp | | exact R1].
      eapply reach_trans; [exact Hd' | eapply reach_step; [exact H1 | apply reach_refl]].
    - eapply fframe_reach_fwd; [exact FF | exact Hnp | | exact R2].
      eapply reach_trans; [exact Hd' | eapply reach_step; [exact H2 | apply reach_refl]].
  Qed.
  Lemma new_guard_fframe p s0 s s' r :
    fframe p s s' -> ~ reach s' r p -> new_guard H ct s0 s' r -> new_guard H ct s0 s r /\ ~ reach s r p.
  Proof.
    intros FF Hnp [GT [GI GC]].
    assert (Hfwd : forall x, reach s r x -> reach s' r x).
    { intros x Hx. eapply fframe_reach_fwd; [exact FF | exact Hnp | apply reach_refl | exact Hx]. }
    split; [split; [eapply tree_shaped_fframe; eassumption | split]|].
    - intros d d' R1 R2 Hne Hp. rewrite <- (proj1 (proj2 FF d)), <- (proj1 (proj2 FF d')).
      apply GI; [apply Hfwd; exact R1 | | exact Hne | exact Hp].
      eapply fframe_reach_fwd; [exact FF | exact Hnp | apply Hfwd; exact R1 | exact R2].
    - intros d Hr. apply GC. apply Hfwd. exact Hr.
    - intros Hc. apply Hnp. apply Hfwd. exact Hc.
  Qed.
End Guards.

Section Steps.
  Variable H : pystr -> pystr.
  Variable ct : ctable.

  Lemma reset_cid_cframe : forall fuel s q s' u, reset_cid H ct fuel s q = Ok s' u -> cframe s s'.
  Proof.
    induction fuel; intros s q s' u E; simpl in E; [discriminate|].
    assert (CF : cframe s (set_cid H ct s q)) by apply cframe_upd.
    destruct (parent (set_cid H ct s q) q) as [q'|].
    - eapply cframe_trans; [exact CF | eapply IHfuel; exact E].
    - inversion E; subst. exact CF.
  Qed.

  Lemma replace_child_fframe s p old f i n s' u :
    replace_child H ct s p old f i (Some n) = Ok s' u -> fframe p s s'.
  Proof.
    intros E.
    assert (Htail : forall s2 (c : bool), fframe p s s2 ->
              (if c then reset_cid H ct (fuel_of (set_parent s2 n p f i)) (set_parent s2 n p f i) p
               else Ok (set_parent s2 n p f i) tt) = Ok s' u -> fframe p s s').
    { intros s2 c F2 Et.
      assert (F3 : fframe p s (set_parent s2 n p f i)).
      { eapply fframe_trans; [exact F2 | apply fframe_pframe; apply pframe_set_parent]. }
      destruct c; [|inversion Et; subst; exact F3].
      eapply fframe_trans; [exact F3 | apply fframe_cframe; eapply reset_cid_cframe; exact Et]. }
    unfold replace_child in E.
    destruct i as [ix|]; destruct (assoc f (c_fs (cellD s p))) as [[x|o|l]|]; simpl in E; try discriminate;
      (eapply Htail; [apply fframe_upd_fs | exact E]).
  Qed.

  Lemma detached_clear_parent s a x : detached (clear_parent s a) x = detached s x.
  Proof.
    unfold detached, reg_get. rewrite reg_clear_parent. rewrite (pf_id _ _ (pframe_clear_parent s a)). reflexivity.
  Qed.

  Lemma op_replace_child s a p f ch s' r :
    parent s a = Some p -> c_pf (cellD s a) = Some f -> detached s a = false ->
    op_replace H ct s a ch = Ok s' r ->
    exists s2 b s3 s4 u o k,
      op_detach true (clear_parent s a) a = Ok s2 b /\
      construct H ct s2 (c_cls (cellD s2 a)) (changed_org (c_org (cellD s2 a)) ch)
                (apply_changes (c_fs (cellD s2 a)) ch) (Some (c_id (cellD s2 a))) false false false = Ok s3 r /\
      replace_child H ct s3 p a f (c_pi (cellD s a)) (Some r) = Ok s4 u /\
      s' = upd s4 r (fun c => with_ids (c_id c) o k c).
  Proof.
    intros Hp Hpf Hd E. unfold op_replace in E. rewrite Hp, Hpf in E.
    destruct (negb (forallb (fun kv => allowed_key ct (c_cls (cellD s a)) (fst kv)) ch)); [discriminate|].
    cbv zeta in E. rewrite detached_clear_parent, Hd in E. cbn [negb] in E. cbv iota in E.
    destruct (op_detach true (clear_parent s a) a) as [s2 b|s2 e|] eqn:Ed; simpl in E; try discriminate.
    match type of E with context [construct H ct s2 ?x1 ?x2 ?x3 ?x4 false false false] =>
      destruct (construct H ct s2 x1 x2 x3 x4 false false false) as [s3 r0|s3 e|] eqn:Ec end;
      [|discriminate|discriminate].
    destruct (replace_child H ct s3 p a f (c_pi (cellD s a)) (Some r0)) as [s4 u|s4 e|] eqn:Erc; simpl in E;
      try discriminate.
    inversion E; subst. do 7 eexists. split; [reflexivity|]. split; [exact Ec|]. split; [exact Erc | reflexivity].
  Qed.

  (* a.replace( **changes ), a attached with parent p.  Guards: the field names of p are distinct; the changed child
     values exist; new_guard of the constructor, read after the receiver has been cut out and detach_self'ed; the new
     node holds neither the parent (a cycle through the new edge p -> r) nor the receiver below it. *)
  Theorem inv2_step_replace_child s a p ch s' r :
    Inv2 H ct s -> parent s a = Some p ->
    step H ct s (OReplace a ch) = (s', RNode r) ->
    NoDup (map fst (c_fs (cellD s p))) ->
    kids_live s (apply_changes (c_fs (cellD s a)) ch) ->
    new_guard H ct (fst (step H ct (clear_parent s a) (ODetachSelf a))) s' r ->
    ~ reach s' r p -> ~ reach s' r a ->
    Inv2 H ct s'.
  Proof.
    intros HI Hp E Hnames Hkl HG Hnp Hna.
    assert (HI' := HI). destruct HI' as [HR [HK [HP HL]]].
    assert (Hpid : c_pid (cellD s a) <> None) by (unfold parent in Hp; destruct (c_pid (cellD s a)); congruence).
    destruct (HP a Hpid) as [Haa _].
    assert (Hla : live s a) by (apply attached_reg in Haa; apply HR in Haa; tauto).
    destruct (HL a Hla Haa) as [_ Hs _ _]. destruct (Hs p Hp) as [f [Hpf _]].
    simpl in E. destruct (op_replace H ct s a ch) as [s1 r1|s1 e|] eqn:Er; simpl in E; inversion E; subst s1 r1. clear E.
    destruct (op_replace_child s a p f ch s' r Hp Hpf Haa Er) as [s2 [b [s3 [s4 [u [o [k [Ed [Ec [Erc ->]]]]]]]]]].
    assert (Hsm : fst (step H ct (clear_parent s a) (ODetachSelf a)) = s2) by (simpl; rewrite Ed; reflexivity).
    rewrite Hsm in HG.
    set (i := c_pi (cellD s a)) in *. set (X := hole p a f i).
    destruct (hole_detach H ct s a p f true s2 b HI Hla Haa Hp Hpf Ed)
      as [HX2 [PF [Hda2 [Hpida2 [Hlp2 [Hpa2 [Hedge2 [Hcida2 Hback2]]]]]]]].
    (* the final state differs from the state after the constructor in the child fields of p only *)
    set (s5 := upd s4 r (fun c => with_ids (c_id c) o k c)) in *.
    assert (FF : fframe p s3 s5).
    { eapply fframe_trans; [eapply replace_child_fframe; exact Erc | apply fframe_cframe; apply cframe_upd_ids]. }
    destruct (new_guard_fframe H ct p s2 s3 s5 r FF Hnp HG) as [HG3 Hnp3].
    assert (Hna3 : ~ reach s3 r a).
    { intros Hc. apply Hna. eapply fframe_reach_fwd; [exact FF | exact Hnp | apply reach_refl | exact Hc]. }
    assert (Hkl2 : kids_live s2 (apply_changes (c_fs (cellD s2 a)) ch)).
    { rewrite (pf_fs _ _ PF). intros x Hx. apply (pf_live _ _ PF). apply Hkl; exact Hx. }
    destruct (construct_fullX H ct X s2 _ _ _ _ _ _ _ s3 r HX2 Hkl2 Ec (fun _ => HG3))
      as [HX3 [Er0 [Hlen3 [Hold [_ [Hatt [Har [Hback [Hcids Hrpid]]]]]]]]].
    assert (Hla2 : live s2 a) by (apply (pf_live _ _ PF); exact Hla).
    assert (Hlive3 : forall x, live s2 x -> live s3 x) by (intros x Hx; unfold live in *; lia).
    assert (Hda3 : detached s3 a = true).
    { destruct (detached s3 a) eqn:Hd; [reflexivity|]. exfalso.
      destruct (Hback a Hd) as [Ea|[Ha|[Hr _]]].
      - unfold live in Hla2. lia.
      - unfold attached in Ha. congruence.
      - exact (Hna3 Hr). }
    assert (Hedge3 : In (a, f, i) (skids_wf s3 p)).
    { unfold skids_wf, kids_wf. rewrite (proj1 (Hold p Hlp2)). exact Hedge2. }
    assert (Hnames3 : NoDup (map fst (c_fs (cellD s3 p)))).
    { rewrite (proj1 (Hold p Hlp2)), (pf_fs _ _ PF). exact Hnames. }
    assert (Hlr3 : live s3 r) by (unfold live; lia).
    assert (HI4 : Inv2 H ct s4).
    { eapply (fill_hole H ct s3 p a f i r s4 u); try eassumption.
      - apply Hlive3; exact Hlp2.
      - apply Hatt; assumption.
      - apply Hcids; assumption.
      - apply Har; reflexivity. }
    apply inv2_upd_ids. exact HI4.
  Qed.

  Lemma attach_ok_detached s a s1 u : attach_ s a = Ok s1 u -> detached s a = true.
  Proof.
    unfold attach_, fuel_of. simpl. destruct (reg_get s (id_of s a)) eqn:E; [discriminate|].
    intros _. unfold detached. rewrite E. reflexivity.
  Qed.

  Lemma op_replace_with_child s a p n s' u :
    parent s a = Some p -> op_replace_with H ct s a (Some n) = Ok s' u ->
    is_attached_subtree s n = false /\
    exists f s2 b s4 u', c_pf (cellD s a) = Some f /\ op_detach false (clear_parent s a) a = Ok s2 b /\
       attach_ (fst (flip_ids s2 a n)) n = Ok s4 u' /\
       replace_child H ct s4 p a f (c_pi (cellD s a)) (Some n) = Ok s' u.
  Proof.
    intros Hp E. unfold op_replace_with in E.
    destruct (is_attached_subtree s n) eqn:Hsub; [discriminate|]. split; [reflexivity|].
    rewrite Hp in E. destruct (c_pf (cellD s a)) as [f|]; [|discriminate].
    destruct (fdecl_of ct (c_cls (cellD s p)) f) as [d|]; [|discriminate].
    assert (Hrest : forall (tok : bool),
      (if negb tok then Er s ERw else
       let* (s2, _) := op_detach false (clear_parent s a) a in
       let* (s5, _) :=
         (let '(s3, new_was_attached) := flip_ids s2 a n in
          match attach_ s3 n with
          | Ok s4 _ => Ok s4 tt
          | Er s4 _ =>
              match attach_ (set_parent s4 a p f (c_pi (cellD s a))) a with
              | Ok s6 _ => Er (if new_was_attached then reg_set s6 (id_of s6 n) n else s6) ERw
              | Er s6 e => Er s6 e
              | Div => Div
              end
          | Div => Div
          end) in
       replace_child H ct s5 p a f (c_pi (cellD s a)) (Some n)) = Ok s' u ->
      exists f0 s2 b s4 u', Some f = Some f0 /\ op_detach false (clear_parent s a) a = Ok s2 b /\
       attach_ (fst (flip_ids s2 a n)) n = Ok s4 u' /\
       replace_child H ct s4 p a f0 (c_pi (cellD s a)) (Some n) = Ok s' u).
    { intros tok E'. destruct (negb tok); [discriminate|].
      destruct (op_detach false (clear_parent s a) a) as [s2 b|s2 e|] eqn:Ed; cbv beta iota delta [bind] in E';
        try discriminate.
      destruct (flip_ids s2 a n) as [s3 w] eqn:Ef.
      destruct (attach_ s3 n) as [s4 u'|s4 e|] eqn:Ea; cbv beta iota delta [bind] in E'.
      - exists f, s2, b, s4, u'. split; [reflexivity|]. split; [reflexivity|]. rewrite Ef. simpl. split; assumption.
      - destruct (attach_ (set_parent s4 a p f (c_pi (cellD s a))) a); cbv beta iota delta [bind] in E'; discriminate.
      - discriminate. }
    destruct (fd_kind d); try discriminate; apply Hrest in E; exact E.
  Qed.

  (* a.replace_with(n), a attached with parent p, n detached once a's subtree is.  Guards: the field names of p are
     distinct; att_guard of n read on the state in which n carries a's id (as for the parent-less receiver); n does not
     hold p below it. *)
  Theorem inv2_step_replace_with_child s a p n s' :
    Inv2 H ct s -> parent s a = Some p ->
    step H ct s (OReplaceWith a (Some n)) = (s', RNone) ->
    NoDup (map fst (c_fs (cellD s p))) ->
    detached (fst (step H ct (clear_parent s a) (ODetach a))) n = true ->
    att_guard H ct (fst (flip_ids (fst (step H ct (clear_parent s a) (ODetach a))) a n)) n ->
    ~ reach s' n p ->
    Inv2 H ct s'.
  Proof.
    intros HI Hp E Hnames Hdn HG Hnp.
    assert (HI' := HI). destruct HI' as [HR [HK [HP HL]]].
    assert (Hpid : c_pid (cellD s a) <> None) by (unfold parent in Hp; destruct (c_pid (cellD s a)); congruence).
    destruct (HP a Hpid) as [Haa _].
    assert (Hla : live s a) by (apply attached_reg in Haa; apply HR in Haa; tauto).
    simpl in E. destruct (op_replace_with H ct s a (Some n)) as [s1 u|s1 e|] eqn:Er; simpl in E; inversion E; subst s1. clear E.
    destruct (op_replace_with_child s a p n s' u Hp Er) as [Hsub [f [s2 [b [s4 [u' [Hpf [Ed [Ea Erc]]]]]]]]].
    assert (Hsm : fst (step H ct (clear_parent s a) (ODetach a)) = s2) by (simpl; rewrite Ed; reflexivity).
    rewrite Hsm in Hdn, HG.
    set (i := c_pi (cellD s a)) in *. set (X := hole p a f i).
    destruct (hole_detach H ct s a p f false s2 b HI Hla Haa Hp Hpf Ed)
      as [HX2 [PF [Hda2 [Hpida2 [Hlp2 [Hpa2 [Hedge2 [Hcida2 Hback2]]]]]]]].
    assert (Hna : n <> a).
    { intros ->. unfold is_attached_subtree in Hsub. rewrite Hp in Hsub. unfold attached in Haa. rewrite Haa in Hsub. discriminate. }
    assert (Hnp2 : n <> p) by (intros ->; unfold attached in Hpa2; congruence).
    (* the id flip on the detached node *)
    unfold flip_ids in Ea, HG. rewrite Hdn in Ea, HG. simpl in Ea, HG.
    match type of HG with att_guard _ _ ?t _ => set (s3 := t) in * end.
    assert (HX3 : HInvX H ct X s3).
    { apply hinvx_flip_detached; [|exact HX2 | exact Hdn]. intros c. do 3 eexists. reflexivity. }
    assert (Hne3 : forall x, x <> n -> cellD s3 x = cellD s2 x).
    { intros x Hx. unfold s3. rewrite cellD_upd. destruct (Nat.eqb n x) eqn:En; [|reflexivity].
      apply Nat.eqb_eq in En. congruence. }
    assert (Hsame3 : forall x, c_cls (cellD s3 x) = c_cls (cellD s2 x) /\ c_fs (cellD s3 x) = c_fs (cellD s2 x) /\
                               c_cid (cellD s3 x) = c_cid (cellD s2 x)).
    { intros x. unfold s3. rewrite cellD_upd. destruct (Nat.eqb n x && Nat.ltb n (List.length (heap s2)));
        repeat split; reflexivity. }
    assert (Hreg3 : forall j, reg_get s3 j = reg_get s2 j) by (intros j; apply reg_get_upd).
    assert (Hlen3 : List.length (heap s3) = List.length (heap s2)) by apply heap_len_upd.
    assert (Hdet3 : forall x, x <> n -> detached s3 x = detached s2 x).
    { intros x Hx. unfold detached, id_of. rewrite Hreg3, (Hne3 x Hx). reflexivity. }
    assert (Hidn3 : live s2 n -> id_of s3 n = id_of s2 a).
    { intros Hl. unfold id_of, s3. rewrite cellD_upd, Nat.eqb_refl. apply Nat.ltb_lt in Hl. rewrite Hl. reflexivity. }
    assert (HK2 : Rank s2) by (exact (sinvx_rank _ _ (proj1 HX2))).
    assert (HK3 : Rank s3) by (exact (sinvx_rank _ _ (proj1 HX3))).
    assert (Hcida3 : cid_ok H ct s3 a).
    { apply (cid_ok_local H ct s2 s3 a HK2); [rewrite Hlen3; apply le_n | | apply Hsame3 | exact Hcida2].
      intros y _. destruct (Hsame3 y) as [A [B _]]. split; assumption. }
    (* attach *)
    destruct HG as [Hln3 [HT [HA HC]]].
    destruct (hinvx_attach H ct X s3 n s4 u' HX3 Hln3 HT HA HC Ea) as [HX4 [PF34 [Hna4 [Hback4 Hfwd4]]]].
    assert (Hdn3 := attach_ok_detached _ _ _ _ Ea).
    assert (Hda3 : detached s3 a = true) by (rewrite (Hdet3 a (not_eq_sym Hna)); exact Hda2).
    assert (Hpa3 : attached s3 p) by (unfold attached; rewrite (Hdet3 p (not_eq_sym Hnp2)); exact Hpa2).
    assert (Hda4 : detached s4 a = true).
    { destruct (detached s4 a) eqn:Hd; [reflexivity|]. exfalso.
      destruct (Hback4 a Hd) as [Ha|[Hr _]]; [unfold attached in Ha; congruence|].
      apply (HA n a (reach_refl _ _) Hr Hna Hda3).
      rewrite Hidn3 by (unfold live in *; rewrite <- Hlen3; exact Hln3).
      unfold id_of. rewrite (Hne3 a (not_eq_sym Hna)). reflexivity. }
    assert (Hnpid4 : c_pid (cellD s4 n) = None).
    { destruct (c_pid (cellD s4 n)) as [pid|] eqn:Epid; [|reflexivity]. exfalso.
      destruct HX4 as [[HR4 [HK4 [HP4 HL4]]] _].
      destruct (HP4 n ltac:(congruence)) as [_ Hpar4].
      destruct (parent s4 n) as [q|] eqn:Hq; [|congruence].
      assert (Hln4 : live s4 n) by (apply (pf_live _ _ PF34); exact Hln3).
      destruct (HL4 n Hln4 Hna4) as [_ [Hs4 _]]. destruct (Hs4 q Hq) as [g [_ Hin]].
      rewrite (pf_skids_wf _ _ PF34) in Hin.
      destruct (parent_attached _ _ _ HR4 Hq) as [Hqa4 _].
      destruct (Hback4 q Hqa4) as [Hqa3|[Hr _]].
      - destruct HX3 as [[HR3 [_ [_ HL3]]] _].
        assert (Hlq3 : live s3 q) by (apply attached_reg in Hqa3; apply HR3 in Hqa3; tauto).
        destruct (HL3 q Hlq3 Hqa3) as [Hc3 _].
        destruct (Hc3 n g _ Hin) as [Hn3 _]; [intros [_ Ee]; inversion Ee; congruence|].
        unfold attached in Hn3. congruence.
      - apply (rank_acyc _ _ _ HK3 (edge_kid _ _ _ _ _ Hin) Hr). }
    assert (FF : fframe p s4 s') by (eapply replace_child_fframe; exact Erc).
    assert (Hnp4 : ~ reach s4 n p) by (intros Hc; apply Hnp; eapply fframe_reach_p; eassumption).
    eapply (fill_hole H ct s4 p a f i n s' u); try eassumption.
    - apply (pf_live _ _ PF34). unfold live. rewrite Hlen3. exact Hlp2.
    - apply Hfwd4. exact Hpa3.
    - rewrite (pf_skids_wf _ _ PF34). unfold skids_wf, kids_wf. rewrite (proj1 (proj2 (Hsame3 p))). exact Hedge2.
    - rewrite (pf_fs _ _ PF34), (proj1 (proj2 (Hsame3 p))), (pf_fs _ _ PF). exact Hnames.
    - apply (cid_ok_pframe H ct _ _ _ PF34). exact Hcida3.
    - apply (pf_live _ _ PF34). exact Hln3.
  Qed.
End Steps.
