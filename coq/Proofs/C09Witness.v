(* C09: non-vacuity witnesses.  Class table ct0 of Model/Visitor.v (B with a property, C a SUBCLASS of B, P with an
   optional child `one` and a tuple child `many`); a tree of three levels / seven nodes
       P1( one = P2(one = None, many = (B6, C7)),  many = (B3, C4, B5) )
   and three rule sets:  w9_ms  (visit_B removes, visit_C returns a copy of a template: strict mode, everything above
   a change is rebuilt),  w9_msB (visit_B only, NON-strict: C nodes reach it through the MRO),  w9_msK (visit_C
   returns the node, visit_Q never applies: nothing changes).  For every theorem of Props/C09.v with premises all
   of them are shown at once, together with the value the conclusion speaks about. *)
From Oak Require Import Model.Visitor Spec.RewriteSpec Proofs.VisitorProofs.
From Coq Require Import List ZArith Lia.
Import ListNotations.
Import VisitorExamples.

Definition w9_inner : node :=
  Node 2 (lit "P") ONo [] [(lit "one", (ShNone, [])); (lit "many", (ShMany, [leaf 6 "B" 7; leaf 7 "C" 8]))].
Definition w9_tree : node :=
  Node 1 (lit "P") ONo [] [(lit "one", (ShOne, [w9_inner])); (lit "many", (ShMany, [leaf 3 "B" 1; leaf 4 "C" 2; leaf 5 "B" 3]))].
Definition w9_ms : methods := [(lit "B", ARemove); (lit "C", AReplaceNew (leaf 50 "C" 0))].
Definition w9_msB : methods := [(lit "B", ARemove)].
Definition w9_msK : methods := [(lit "Q", ARemove); (lit "C", AKeep)].
(* the result of the strict transformation with w9_ms: four new objects 100 .. 103 *)
Definition w9_new (a : nat) : node := Node a (lit "C") ONo [(lit "x", VInt 0)] [].
Definition w9_res : node :=
  Node 103 (lit "P") ONo []
       [(lit "one", (ShOne, [Node 101 (lit "P") ONo [] [(lit "one", (ShNone, [])); (lit "many", (ShMany, [w9_new 100]))]]));
        (lit "many", (ShMany, [w9_new 102]))].
Definition w9_s' : vst :=
  {| next := 104;
     calls := [(5, Some (lit "B")); (4, Some (lit "C")); (3, Some (lit "B")); (7, Some (lit "C")); (6, Some (lit "B"));
               (2, None); (1, None)] |}.

(* C09_dispatch (no premise; every side of its two `iff`s and of `if strict` occurs) and C09_dispatch_own *)
Lemma w9_dispatch :
  dispatch ct0 true (has_method w9_msB) (lit "B") = Some (lit "B")
  /\ dispatch ct0 true (has_method w9_msB) (lit "C") = None /\ has_method w9_msB (lit "C") = false
  /\ dispatch ct0 false (has_method w9_msB) (lit "C") = Some (lit "B")
  /\ (mro ct0 (lit "C") = [lit "C"] ++ lit "B" :: [astnode] /\ has_method w9_msB (lit "B") = true
      /\ forall y, In y [lit "C"] -> has_method w9_msB y = false)
  /\ dispatch ct0 false (has_method w9_msB) (lit "P") = None
  /\ (forall y, In y (mro ct0 (lit "P")) -> has_method w9_msB y = false)
  /\ has_method w9_ms (lit "C") = true /\ dispatch ct0 false (has_method w9_ms) (lit "C") = Some (lit "C").
Proof.
  split; [reflexivity|]. split; [reflexivity|]. split; [reflexivity|]. split; [reflexivity|].
  split; [split; [reflexivity|split; [reflexivity|intros y [<-|[]]; reflexivity]]|].
  split; [reflexivity|]. split; [intros y [<-|[<-|[]]]; reflexivity|]. split; reflexivity.
Qed.

Lemma w9_wf : wf_tree ct0 w9_tree = true. Proof. vm_compute. reflexivity. Qed.
Lemma w9_below : below (next s0) (universe w9_ms w9_tree).
Proof. intros x Hx. simpl in Hx. repeat (destruct Hx as [<-|Hx]; [simpl; lia|]). contradiction. Qed.
Lemma w9_coherent : coherent (universe w9_ms w9_tree).
Proof.
  intros x y Hx Hy E. simpl in Hx, Hy.
  repeat (destruct Hx as [<-|Hx]; [repeat (destruct Hy as [<-|Hy]; [first [reflexivity|discriminate E]|]); contradiction|]).
  contradiction.
Qed.
Lemma w9_visit : visit ct0 true w9_ms 3 w9_tree s0 = Some (w9_s', RNode w9_res).
Proof. vm_compute. reflexivity. Qed.

(* C09_transform_total *)
Lemma w9_total : wf_tree ct0 w9_tree = true /\ depth w9_tree = 3 /\ length (subterms w9_tree) = 7
  /\ transform ct0 true w9_ms w9_tree s0 = Some (w9_s', RNode w9_res).
Proof. split; [exact w9_wf|]. vm_compute. repeat split. Qed.

(* C09_visit_dispatches (a visit that returns; its log), C09_transform_content (all four premises; the rewrite is a
   node, not None / an exception), C09_input_frame (result a node, with an old and a new object in it) *)
Lemma w9_content :
  wf_tree ct0 w9_tree = true /\ coherent (universe w9_ms w9_tree) /\ below (next s0) (universe w9_ms w9_tree)
  /\ visit ct0 true w9_ms 3 w9_tree s0 = Some (w9_s', RNode w9_res)
  /\ length (universe w9_ms w9_tree) = 8
  /\ rev (calls w9_s') = (1, None) :: (2, None) :: (6, Some (lit "B")) :: (7, Some (lit "C")) :: (3, Some (lit "B"))
                         :: (4, Some (lit "C")) :: [(5, Some (lit "B"))]
  /\ rewrite ct0 true w9_ms w9_tree = SNode (strip w9_res)
  /\ map addr (subterms w9_res) = [103; 101; 100; 102].
Proof.
  split; [exact w9_wf|]. split; [exact w9_coherent|]. split; [exact w9_below|]. split; [exact w9_visit|].
  vm_compute. repeat split.
Qed.

(* C09_input_frame with a result that contains old and new objects: strict w9_msB removes the B nodes only - the C
   nodes 4 and 7 stay the objects they were, their two ancestors are new *)
Definition w9_resB : node :=
  Node 101 (lit "P") ONo []
       [(lit "one", (ShOne, [Node 100 (lit "P") ONo [] [(lit "one", (ShNone, [])); (lit "many", (ShMany, [leaf 7 "C" 8]))]]));
        (lit "many", (ShMany, [leaf 4 "C" 2]))].
Lemma w9_belowB : below (next s0) (universe w9_msB w9_tree).
Proof. intros x Hx. simpl in Hx. repeat (destruct Hx as [<-|Hx]; [simpl; lia|]). contradiction. Qed.
Lemma w9_coherentB : coherent (universe w9_msB w9_tree).
Proof.
  intros x y Hx Hy E. simpl in Hx, Hy.
  repeat (destruct Hx as [<-|Hx]; [repeat (destruct Hy as [<-|Hy]; [first [reflexivity|discriminate E]|]); contradiction|]).
  contradiction.
Qed.
Lemma w9_frame :
  wf_tree ct0 w9_tree = true
  /\ (exists s', visit ct0 true w9_msB 3 w9_tree s0 = Some (s', RNode w9_resB) /\ next s' = 102)
  /\ coherent (universe w9_msB w9_tree) /\ below (next s0) (universe w9_msB w9_tree)
  /\ In (leaf 7 "C" 8) (subterms w9_resB) /\ In (leaf 7 "C" 8) (universe w9_msB w9_tree)
  /\ map addr (subterms w9_resB) = [101; 100; 7; 4].
Proof.
  split; [exact w9_wf|]. split; [eexists; split; vm_compute; reflexivity|]. split; [exact w9_coherentB|].
  split; [exact w9_belowB|]. split; [vm_compute; auto|]. split; [vm_compute; auto 10|]. vm_compute. reflexivity.
Qed.

(* C09_identity_unchanged: methods are called (visit_C on 7 and 4) and nothing changes *)
Lemma w9_belowK : below (next s0) (universe w9_msK w9_tree).
Proof. intros x Hx. simpl in Hx. repeat (destruct Hx as [<-|Hx]; [simpl; lia|]). contradiction. Qed.
Lemma w9_coherentK : coherent (universe w9_msK w9_tree).
Proof.
  intros x y Hx Hy E. simpl in Hx, Hy.
  repeat (destruct Hx as [<-|Hx]; [repeat (destruct Hy as [<-|Hy]; [first [reflexivity|discriminate E]|]); contradiction|]).
  contradiction.
Qed.
Lemma w9_unchanged :
  wf_tree ct0 w9_tree = true /\ changed ct0 true w9_msK w9_tree = false
  /\ (exists s', visit ct0 true w9_msK 5 w9_tree s0 = Some (s', RNode w9_tree) /\ next s' = next s0
                 /\ In (4, Some (lit "C")) (calls s') /\ In (7, Some (lit "C")) (calls s'))
  /\ coherent (universe w9_msK w9_tree) /\ below (next s0) (universe w9_msK w9_tree).
Proof.
  split; [exact w9_wf|]. split; [vm_compute; reflexivity|].
  split; [eexists; split; [vm_compute; reflexivity|vm_compute; auto 10]|]. split; [exact w9_coherentK|exact w9_belowK].
Qed.

(* C09_ancestors_fresh (all premises incl. those of its second part: the root is generic_like and the result a node
   allocated by the call) and C09_removal_order (wf_tree, generic_like) *)
Lemma w9_fresh :
  wf_tree ct0 w9_tree = true /\ below (next s0) (universe w9_ms w9_tree) /\ changed ct0 true w9_ms w9_tree = true
  /\ visit ct0 true w9_ms 3 w9_tree s0 = Some (w9_s', RNode w9_res)
  /\ generic_like ct0 true w9_ms (cls w9_tree) = true
  /\ not_same w9_tree (RNode w9_res) = true /\ next s0 <= addr w9_res < next w9_s'
  /\ changed ct0 true w9_ms (leaf 4 "C" 2) = true /\ generic_like ct0 true w9_ms (lit "C") = false
  /\ changed ct0 false w9_msB w9_inner = true /\ generic_like ct0 false w9_msB (cls w9_inner) = true.
Proof.
  split; [exact w9_wf|]. split; [exact w9_below|]. split; [vm_compute; reflexivity|]. split; [exact w9_visit|].
  vm_compute. repeat split; repeat constructor.
Qed.

(* non-strict mode with inheritance through the MRO: visit_B reaches the C nodes, both tuples become empty and stay
   tuples, the optional single field of the inner node stays None *)
Lemma w9_nonstrict :
  wf_tree ct0 w9_tree = true /\ generic_like ct0 false w9_msB (cls w9_tree) = true
  /\ exists s', visit ct0 false w9_msB 3 w9_tree s0
       = Some (s', RNode (Node 101 (lit "P") ONo []
                           [(lit "one", (ShOne, [Node 100 (lit "P") ONo [] [(lit "one", (ShNone, [])); (lit "many", (ShMany, []))]]));
                            (lit "many", (ShMany, []))]))
     /\ In (7, Some (lit "B")) (calls s').
Proof.
  split; [exact w9_wf|]. split; [vm_compute; reflexivity|]. eexists. split; [vm_compute; reflexivity|vm_compute; auto 10].
Qed.
