(* C18 round 3: a successful ASTTransformVisitor.transform ends in the state in which the history of its primitive
   calls (Spec/LegacySpec4.v: vtrace) ends; hence it preserves Inv2 whenever that history is guarded. *)
From Oak Require Import Spec.LegacySpec Spec.LegacySpec2 Spec.LegacySpec3 Spec.LegacySpec4 Proofs.LegacyProofs
  Proofs.LegacyInv Proofs.LegacyHeap Proofs.LegacyHistory Proofs.LegacyStep Proofs.LegacyTransformer.
From Coq Require Import List String Ascii ZArith Bool Arith Lia.
Import ListNotations.

Section Visitor.
  Variable H : pystr -> pystr.
  Variable ct : ctable.

  (* one unfolding of transform, with the loops of _transform_children as the functions of Spec/LegacySpec4.v *)
  Lemma vtransform_S f rules s node made :
    vtransform H ct (S f) rules s node made =
    (let rec := vtransform H ct f rules in
     let orig := if detached s node then None else Some node in
     let* (s0, work) := match orig with
                        | Some _ => op_duplicate H ct true s node
                        | None => Ok s node
                        end in
     let tch := vt_fields rec work s0 (map fst (c_fs (cellD s0 work))) made in
     let visited : res out :=
       match action_for rules (cellD s0 work) with
       | AKeep => Ok s0 (Some work, made)
       | ARemove => Ok s0 (None, made)
       | ARaise => Er s0 ECrash
       | AFresh cls org fs =>
         let* (s1, n) := construct H ct s0 cls org fs None false false false in Ok s1 (Some n, made ++ [n])
       | AGeneric =>
         let* (s1, cm) := tch in
         match fst cm with
         | [] => Ok s1 (Some work, snd cm)
         | ch => let* (s2, r) := op_replace H ct s1 work ch in Ok s2 (Some r, snd cm)
         end
       | ASet p v =>
         let* (s1, cm) := tch in
         let* (s2, r) := op_replace H ct s1 work (fst cm ++ [(p, CV (FP v))]) in Ok s2 (Some r, snd cm)
       end in
     wrap_tr (let* (s1, o) := visited in
              match orig with
              | Some on => let* (s2, _) := op_replace_with H ct s1 on (fst o) in Ok s2 o
              | None => Ok s1 o
              end)).
  Proof. reflexivity. Qed.

  Lemma wrap_tr_ok {A} (r : res A) s a : wrap_tr r = Ok s a -> r = Ok s a.
  Proof. destruct r; simpl; intros E; [exact E | discriminate | discriminate]. Qed.

  (* ---------- the loops ---------- *)
  Section LoopLemmas.
    Variable rec : st -> nat -> list nat -> res out.
    Variable rect : st -> nat -> list nat -> list op.
    Hypothesis Hrec : forall s k made s' o, rec s k made = Ok s' o -> run H ct s (rect s k made) = s'.

    Lemma vt_elems_run : forall l s acc s' acc',
      vt_elems rec s l acc = Ok s' acc' -> run H ct s (vtr_elems rec rect s l acc) = s'.
    Proof.
      induction l as [|k r IH]; intros s acc s' acc' E; simpl in E.
      - inversion E; subst. reflexivity.
      - destruct acc as [[news ch] made]. simpl.
        destruct (rec s k made) as [s1 o|s1 e|] eqn:Er; simpl in E; try discriminate.
        rewrite run_app, (Hrec _ _ _ _ _ Er).
        destruct (fst o) as [k'|]; eapply IH; exact E.
    Qed.
    Lemma vt_field_run n s fn made s' here :
      vt_field rec n s fn made = Ok s' here -> run H ct s (vtr_field rec rect n s fn made) = s'.
    Proof.
      unfold vt_field, vtr_field. destruct (assoc fn (c_fs (cellD s n))) as [[x|[k|]|l]|]; intros E.
      - inversion E; subst. reflexivity.
      - destruct (rec s k made) as [s1 o|s1 e|] eqn:Er; simpl in E; try discriminate.
        inversion E; subst. eapply Hrec; exact Er.
      - inversion E; subst. reflexivity.
      - destruct (vt_elems rec s l ([], false, made)) as [s1 acc|s1 e|] eqn:El; simpl in E; try discriminate.
        destruct acc as [[news ch] made1]. inversion E; subst. eapply vt_elems_run; exact El.
      - inversion E; subst. reflexivity.
    Qed.
    Lemma vt_fields_run n : forall fns s made s' cm,
      vt_fields rec n s fns made = Ok s' cm -> run H ct s (vtr_fields rec rect n s fns made) = s'.
    Proof.
      induction fns as [|fn rest IH]; intros s made s' cm E; simpl in E.
      - inversion E; subst. reflexivity.
      - simpl. destruct (vt_field rec n s fn made) as [s1 here|s1 e|] eqn:Ef; simpl in E; try discriminate.
        destruct (vt_fields rec n s1 rest (snd here)) as [s2 more|s2 e|] eqn:Er; simpl in E; try discriminate.
        inversion E; subst. rewrite run_app, (vt_field_run _ _ _ _ _ _ Ef). eapply IH; exact Er.
    Qed.
  End LoopLemmas.

  Lemma run_one s o : run H ct s [o] = fst (step H ct s o).
  Proof. reflexivity. Qed.

  (* ---------- transform ---------- *)
  Theorem vtransform_is_history : forall fuel rules s node made s' o,
    vtransform H ct fuel rules s node made = Ok s' o -> run H ct s (vtrace H ct fuel rules s node made) = s'.
  Proof.
    induction fuel as [|f IH]; intros rules s node made s' o E; [discriminate|].
    rewrite vtransform_S in E. cbv zeta in E.
    set (rec := vtransform H ct f rules) in *.
    set (rect := vtrace H ct f rules).
    assert (Hrec : forall s k made s' o, rec s k made = Ok s' o -> run H ct s (rect s k made) = s').
    { intros. eapply IH; eassumption. }
    (* the callback part, from the state s0 with the working node *)
    assert (Hvisit : forall s0 work s1 o1,
      match action_for rules (cellD s0 work) with
      | AKeep => Ok s0 (Some work, made)
      | ARemove => Ok s0 (None, made)
      | ARaise => Er s0 ECrash
      | AFresh cls org fs =>
        let* (s1, n) := construct H ct s0 cls org fs None false false false in Ok s1 (Some n, made ++ [n])
      | AGeneric =>
        let* (s1, cm) := vt_fields rec work s0 (map fst (c_fs (cellD s0 work))) made in
        match fst cm with
        | [] => Ok s1 (Some work, snd cm)
        | ch => let* (s2, r) := op_replace H ct s1 work ch in Ok s2 (Some r, snd cm)
        end
      | ASet p v =>
        let* (s1, cm) := vt_fields rec work s0 (map fst (c_fs (cellD s0 work))) made in
        let* (s2, r) := op_replace H ct s1 work (fst cm ++ [(p, CV (FP v))]) in Ok s2 (Some r, snd cm)
      end = Ok s1 o1 ->
      let kids_calls := vtr_fields rec rect work s0 (map fst (c_fs (cellD s0 work))) made in
      let visit : list op * option nat :=
        match action_for rules (cellD s0 work) with
        | AKeep => ([], Some work)
        | ARemove | ARaise => ([], None)
        | AFresh cls org fs =>
          ([ONew cls org fs None false false false],
           result_node (snd (step H ct s0 (ONew cls org fs None false false false))))
        | AGeneric =>
          match vt_fields rec work s0 (map fst (c_fs (cellD s0 work))) made with
          | Ok s1 cm => match fst cm with
                        | [] => (kids_calls, Some work)
                        | ch => (kids_calls ++ [OReplace work ch], result_node (snd (step H ct s1 (OReplace work ch))))
                        end
          | _ => (kids_calls, None)
          end
        | ASet p v =>
          match vt_fields rec work s0 (map fst (c_fs (cellD s0 work))) made with
          | Ok s1 cm => let ch := fst cm ++ [(p, CV (FP v))] in
                        (kids_calls ++ [OReplace work ch], result_node (snd (step H ct s1 (OReplace work ch))))
          | _ => (kids_calls, None)
          end
        end in
      run H ct s0 (fst visit) = s1 /\ snd visit = fst o1).
    { intros s0 work s1 o1 Ev. cbv zeta.
      destruct (action_for rules (cellD s0 work)) as [| | |p v|cls org fs|].
      - (* AGeneric *)
        destruct (vt_fields rec work s0 (map fst (c_fs (cellD s0 work))) made) as [s2 cm|s2 e|] eqn:Et; simpl in Ev;
          try discriminate.
        assert (Hk := vt_fields_run rec rect Hrec _ _ _ _ _ _ Et).
        destruct (fst cm) as [|c0 ch] eqn:Ecm.
        + assert (Es : s2 = s1) by (inversion Ev; reflexivity).
          assert (Eo : (Some work, snd cm) = o1) by (inversion Ev; reflexivity). subst s1 o1.
          simpl. split; [exact Hk | reflexivity].
        + destruct (op_replace H ct s2 work (c0 :: ch)) as [s3 r|s3 e|] eqn:Er; simpl in Ev; try discriminate.
          assert (Es : s3 = s1) by (inversion Ev; reflexivity).
          assert (Eo : (Some r, snd cm) = o1) by (inversion Ev; reflexivity). subst s3 o1. cbn [fst snd].
          assert (Hst : step H ct s2 (OReplace work (c0 :: ch)) = (s1, RNode r)) by (simpl; rewrite Er; reflexivity).
          rewrite run_app, Hk, run_one, Hst. split; reflexivity.
      - inversion Ev; subst. split; reflexivity.
      - inversion Ev; subst. split; reflexivity.
      - (* ASet *)
        destruct (vt_fields rec work s0 (map fst (c_fs (cellD s0 work))) made) as [s2 cm|s2 e|] eqn:Et; simpl in Ev;
          try discriminate.
        assert (Hk := vt_fields_run rec rect Hrec _ _ _ _ _ _ Et).
        destruct (op_replace H ct s2 work (fst cm ++ [(p, CV (FP v))])) as [s3 r|s3 e|] eqn:Er; simpl in Ev; try discriminate.
        assert (Es : s3 = s1) by (inversion Ev; reflexivity).
        assert (Eo : (Some r, snd cm) = o1) by (inversion Ev; reflexivity). subst s3 o1. cbn [fst snd].
        assert (Hst : step H ct s2 (OReplace work (fst cm ++ [(p, CV (FP v))])) = (s1, RNode r)) by (simpl; rewrite Er; reflexivity).
        rewrite run_app, Hk, run_one, Hst. split; reflexivity.
      - (* AFresh *)
        destruct (construct H ct s0 cls org fs None false false false) as [s2 n|s2 e|] eqn:Ec; simpl in Ev; try discriminate.
        assert (Es : s2 = s1) by (inversion Ev; reflexivity).
        assert (Eo : (Some n, made ++ [n]) = o1) by (inversion Ev; reflexivity). subst s2 o1. cbn [fst snd].
        assert (Hst : step H ct s0 (ONew cls org fs None false false false) = (s1, RNode n)) by (simpl; rewrite Ec; reflexivity).
        rewrite run_one, Hst. split; reflexivity.
      - discriminate. }
    cbn [vtrace]. fold rec. fold rect. cbv zeta.
    destruct (detached s node) eqn:Hd; cbn [negb].
    - (* a detached node is transformed in place *)
      cbv beta iota in E. unfold bind at 1 in E. cbv beta iota in E. apply wrap_tr_ok in E.
      match type of E with bind ?V _ = _ => destruct V as [s1 o1|s1 e1|] eqn:Ev end; simpl in E;
        try discriminate.
      assert (Es : s1 = s') by (inversion E; reflexivity). assert (Eo : o1 = o) by (inversion E; reflexivity). subst s1 o1.
      change (run H ct s []) with s.
      destruct (Hvisit s node s' o Ev) as [Hr _]. cbv zeta in Hr.
      rewrite app_nil_r. simpl. exact Hr.
    - (* an attached node: clone, transform the clone, replace the original *)
      cbv beta iota in E.
      destruct (op_duplicate H ct true s node) as [s0 work|s0 e|] eqn:Edup; simpl in E; try discriminate.
      assert (Hst : step H ct s (ODuplicate node true) = (s0, RNode work)) by (simpl; rewrite Edup; reflexivity).
      rewrite Hst. cbn [snd result_node]. rewrite run_one, Hst. cbn [fst]. apply wrap_tr_ok in E.
      match type of E with bind ?V _ = _ => destruct V as [s1 o1|s1 e1|] eqn:Ev end; simpl in E;
        try discriminate.
      destruct (op_replace_with H ct s1 node (fst o1)) as [s2 u|s2 e|] eqn:Erw; simpl in E; try discriminate.
      assert (Es : s2 = s') by (inversion E; reflexivity). assert (Eo : o1 = o) by (inversion E; reflexivity). subst s2 o1.
      destruct (Hvisit s0 work s1 o Ev) as [Hr Hres]. cbv zeta in Hr, Hres.
      rewrite run_app, run_one, Hst. cbn [fst]. rewrite run_app, Hr, Hres, run_one. simpl. rewrite Erw. reflexivity.
  Qed.

  Theorem inv2_step_visitor s a rules s' o made :
    Inv2 H ct s -> step H ct s (OVisitor a rules) = (s', ROut o made) ->
    guarded H ct s (vtrace H ct (fuel_of s) rules s a []) -> Inv2 H ct s'.
  Proof.
    intros HI E G. simpl in E. unfold op_vtransform in E.
    destruct (vtransform H ct (fuel_of s) rules s a []) as [s1 out|s1 e|] eqn:Ev; simpl in E; inversion E; subst s1.
    rewrite <- (vtransform_is_history _ _ _ _ _ _ _ Ev).
    eapply inv2_history; [exact HI | exact G | apply run_in_trace].
  Qed.
End Visitor.
