(* C10: non-vacuity witnesses, on the reachable state w10_s of Proofs/C14Witness.v (class table w10_ct with the
   subclass A2 of A, identity digest, four constructions: the tree under variable 3 is [3; 2; 0; 1]).
   Late validations (a subclass's own __post_init__ raising AFTER the node got its id and was registered) are the
   rule sets of Model/Registry.v: w10_late_note rejects an A (hence also an A2: inherited) whose note is "bad";
   w10_late_suffix rejects an A2 whose fresh id ends with "_1" (= the second copy made by duplicate);
   w10_late_v rejects an A / A2 with v = 1 (used on deserialization). *)
From Oak Require Import Model.Registry Model.RegistrySer Proofs.RegistryProofs Proofs.RegistryReach Proofs.RegistrySerProofs
  Proofs.C14Witness.
From Coq Require Import List ZArith Lia.
Import ListNotations.

Definition w10_late_note : st -> nat -> bool := late_of w10_ct [VReject (lit "A") (lit "note") (VStr (lit "bad"))].
Definition w10_late_suffix : st -> nat -> bool := late_of w10_ct [VIdSuffix (lit "A2") (lit "_1")].
Definition w10_late_v : st -> nat -> bool := late_of w10_ct [VReject (lit "A") (lit "v") (VInt 1)].

(* C10_heap_frame, C10_history_frame: an existing address; a step and a history (replace, detach, drop, duplicate) after
   which the heap has grown and its first four cells are what they were *)
Definition w10_more : list op :=
  [Replace 4 (3, 0) [(lit "xs", CKids ShMany [(0, 0); (1, 0)])]; Detach (3, 0); Drop 0; Dup 0 (4, 0)].
Lemma w10_frame :
  3 < length (heap w10_s)
  /\ length (heap (fst (step w10_H w10_ct no_late true w10_s (Dup 4 (3, 0))))) = 8
  /\ length (heap (run w10_H w10_ct no_late true w10_s w10_more)) = 11
  /\ firstn 4 (heap (run w10_H w10_ct no_late true w10_s w10_more)) = heap w10_s
  /\ reg (run w10_H w10_ct no_late true w10_s w10_more) <> reg w10_s.
Proof. split; [vm_compute; repeat constructor|]. vm_compute. repeat split. discriminate. Qed.

(* C10_replace_fail_frame, C10_fail_frame, C10_fail_keeps_id: RInv, an existing cell, and an operation that raises -
   (1) replace rejected LATE (the A2 node inherits A's validation; the new node was built and registered),
   (2) duplicate rejected late after two copies were made, (3) replace rejected EARLY (TypeError: no such field) *)
Definition w10_op_late : op := Replace 4 (1, 0) [(lit "note", CProp (VStr (lit "bad")))].
Definition w10_op_early : op := Replace 4 (1, 0) [(lit "nofield", CProp (VInt 0))].
Lemma w10_fail :
  RInv w10_s
  /\ exists c, cell_at w10_s 1 = Some c /\ k_cls c = lit "A2" /\ get_any w10_s (k_id c) = Some 1
  /\ (exists s', step w10_H w10_ct w10_late_note true w10_s w10_op_late = (s', Raised EValue)
                 /\ length (heap s') = 5 /\ length (reg s') = 4 /\ get_any s' (k_id c) = Some 1)
  /\ (exists s', step w10_H w10_ct w10_late_suffix true w10_s (Dup 4 (3, 0)) = (s', Raised EValue)
                 /\ length (heap s') = 6 /\ length (reg s') = 4 /\ get_any s' (k_id c) = Some 1)
  /\ (exists s', step w10_H w10_ct no_late true w10_s w10_op_early = (s', Raised EType)
                 /\ length (heap s') = 4 /\ length (reg s') = 4 /\ get_any s' (k_id c) = Some 1).
Proof.
  split; [exact w10_rinv|]. eexists. split; [vm_compute; reflexivity|]. split; [vm_compute; reflexivity|].
  split; [vm_compute; reflexivity|].
  split; [eexists; split; [vm_compute; reflexivity|vm_compute; repeat split]|].
  split; eexists; (split; [vm_compute; reflexivity|vm_compute; repeat split]).
Qed.

(* C10_deser_membership, C10_deser_frame: the dict of the tree under variable 3 is kept, then v3, v2, v1 are dropped:
   in w10_sd only node 0 is registered.  Reading the dict back (1) succeeds without validation: node 0 is found, three
   nodes are built; (2) is rejected half-way with w10_late_v: the rebuilt A2 node is refused after it was registered.
   Inv0 holds, b = 0 is an existing address, and its entry is what it was in both cases *)
Definition w10_sd : st := run w10_H w10_ct no_late true w10_s [AsDict (3, 0) 0; Drop 3; Drop 2; Drop 1].
Definition w10_v : sval := match slot_get 0 (slots w10_sd) with Some v => v | None => SNode [] [] ONo [] [] end.
Lemma w10_sd_inv : Inv0 w10_sd. Proof. exact (proj1 (run_inv w10_H w10_ct no_late _ _ w10_rinv)). Qed.
Lemma w10_deser :
  Inv0 w10_sd /\ length (heap w10_sd) = 4 /\ map snd (reg w10_sd) = [0] /\ sdepth w10_v = 3
  /\ (exists s', deser w10_H w10_ct no_late true (S (sdepth w10_v)) w10_sd w10_v = DOk s' 6
                 /\ length (heap s') = 7 /\ tree_of s' 6 = [6; 5; 0; 4] /\ map snd (reg s') = [6; 5; 4; 0])
  /\ (exists s', deser w10_H w10_ct w10_late_v true (S (sdepth w10_v)) w10_sd w10_v = DLate s'
                 /\ length (heap s') = 5 /\ map snd (reg s') = [4; 0])
  /\ 0 < length (heap w10_sd)
  /\ exists c, cell_at w10_sd 0 = Some c /\ get_any w10_sd (k_id c) = Some 0.
Proof.
  split; [exact w10_sd_inv|]. split; [vm_compute; reflexivity|]. split; [vm_compute; reflexivity|].
  split; [vm_compute; reflexivity|].
  split; [eexists; split; [vm_compute; reflexivity|vm_compute; repeat split]|].
  split; [eexists; split; [vm_compute; reflexivity|vm_compute; repeat split]|].
  split; [vm_compute; repeat constructor|]. eexists. split; vm_compute; reflexivity.
Qed.
