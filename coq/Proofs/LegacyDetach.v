(* C18 round 2: detach(only_self) described by the set D of nodes it pops from the registry and the set C of nodes
   whose parent slots it clears; Inv2 is preserved by every state change of that shape. *)
From Oak Require Import Spec.LegacySpec Spec.LegacySpec2 Proofs.LegacyInv Proofs.LegacyHeap.
From Coq Require Import List String Ascii ZArith Bool Arith Lia.
Import ListNotations.

Record det_rel (s s1 : st) (D C : list nat) : Prop := {
  dr_pf : pframe s s1;
  dr_same : forall x, ~ In x C -> cellD s1 x = cellD s x;
  dr_clr : forall x, In x C -> cellD s1 x = cleared (cellD s x);
  dr_either : forall x, cellD s1 x = cellD s x \/ cellD s1 x = cleared (cellD s x);
  dr_pop : forall d, In d D -> reg_get s1 (id_of s d) = None;
  dr_reg : forall i, (forall d, In d D -> id_of s d <> i) -> reg_get s1 i = reg_get s i;
  dr_sub : forall i x, reg_get s1 i = Some x -> reg_get s i = Some x;
  dr_att : forall d, In d D -> attached s d }.

Definition kid_of (s : st) (D : list nat) (x : nat) : Prop := exists d, In d D /\ In x (skids s d).
Definition dlink (s : st) (RD RC D C : list nat) : Prop :=
  (forall d, In d D -> In d RD \/ kid_of s D d) /\
  (forall d k, In d D -> In k (skids s d) -> In k C) /\
  (forall x, In x C -> In x RC \/ kid_of s D x).

Lemma det_refl s : det_rel s s [] [].
Proof.
  constructor; auto using pframe_refl; try (intros ? []).
Qed.

Lemma det_clear s k : det_rel s (clear_parent s k) [] [k].
Proof.
  constructor.
  - apply pframe_clear_parent.
  - intros x Hx. rewrite cellD_clear_parent. destruct (Nat.eqb k x) eqn:E; [|reflexivity].
    apply Nat.eqb_eq in E. subst. exfalso. apply Hx. left; reflexivity.
  - intros x [->|[]]. rewrite cellD_clear_parent, Nat.eqb_refl. reflexivity.
  - intros x. rewrite cellD_clear_parent. destruct (Nat.eqb k x); auto.
  - intros ? [].
  - intros i _. unfold reg_get. rewrite reg_clear_parent. reflexivity.
  - intros i x. unfold reg_get. rewrite reg_clear_parent. auto.
  - intros ? [].
Qed.

Lemma det_pop s a : attached s a -> det_rel s (reg_pop s (id_of s a)) [a] [].
Proof.
  intros Ha. constructor.
  - apply pframe_reg_pop.
  - reflexivity.
  - intros ? [].
  - left; reflexivity.
  - intros d [<-|[]]. rewrite reg_get_reg_pop, pystr_eqb_refl. reflexivity.
  - intros i Hi. rewrite reg_get_reg_pop. destruct (pystr_eqb i (id_of s a)) eqn:E; [|reflexivity].
    apply pystr_eqb_eq in E. exfalso. apply (Hi a); [left; reflexivity | congruence].
  - intros i x. rewrite reg_get_reg_pop. destruct (pystr_eqb i (id_of s a)); [discriminate | auto].
  - intros d [<-|[]]. exact Ha.
Qed.

Lemma cleared_cleared c : cleared (cleared c) = cleared c. Proof. reflexivity. Qed.

Lemma det_trans s s1 s2 D1 C1 D2 C2 :
  det_rel s s1 D1 C1 -> det_rel s1 s2 D2 C2 -> det_rel s s2 (D1 ++ D2) (C1 ++ C2).
Proof.
  intros R1 R2.
  assert (PF1 := dr_pf _ _ _ _ R1).
  constructor.
  - eapply pframe_trans; [exact PF1 | exact (dr_pf _ _ _ _ R2)].
  - intros x Hx. rewrite (dr_same _ _ _ _ R2), (dr_same _ _ _ _ R1); [reflexivity| |];
      intros Hin; apply Hx; apply in_or_app; auto.
  - intros x Hx. apply in_app_or in Hx. destruct Hx as [Hx|Hx].
    + destruct (dr_either _ _ _ _ R2 x) as [E|E]; rewrite E, (dr_clr _ _ _ _ R1 x Hx); reflexivity.
    + rewrite (dr_clr _ _ _ _ R2 x Hx).
      destruct (dr_either _ _ _ _ R1 x) as [E|E]; rewrite E; reflexivity.
  - intros x. destruct (dr_either _ _ _ _ R2 x) as [E2|E2], (dr_either _ _ _ _ R1 x) as [E1|E1];
      rewrite E2, E1; auto.
  - intros d Hd. apply in_app_or in Hd.
    destruct (reg_get s2 (id_of s d)) as [x|] eqn:E; [exfalso|reflexivity].
    destruct Hd as [Hd|Hd].
    + apply (dr_sub _ _ _ _ R2) in E. rewrite (dr_pop _ _ _ _ R1 d Hd) in E. discriminate.
    + rewrite <- (pf_id _ _ PF1) in E. rewrite (dr_pop _ _ _ _ R2 d Hd) in E. discriminate.
  - intros i Hi. rewrite (dr_reg _ _ _ _ R2), (dr_reg _ _ _ _ R1); [reflexivity| |].
    + intros d Hd. apply Hi. apply in_or_app; auto.
    + intros d Hd. rewrite (pf_id _ _ PF1). apply Hi. apply in_or_app; auto.
  - intros i x E. apply (dr_sub _ _ _ _ R1). apply (dr_sub _ _ _ _ R2). exact E.
  - intros d Hd. apply in_app_or in Hd. destruct Hd as [Hd|Hd]; [exact (dr_att _ _ _ _ R1 d Hd)|].
    apply attached_reg. apply (dr_sub _ _ _ _ R1). rewrite <- (pf_id _ _ PF1).
    apply attached_reg. exact (dr_att _ _ _ _ R2 d Hd).
Qed.

Lemma kid_of_app_l s D1 D2 x : kid_of s D1 x -> kid_of s (D1 ++ D2) x.
Proof. intros [d [Hd Hk]]. exists d. split; [apply in_or_app; auto | exact Hk]. Qed.
Lemma kid_of_app_r s D1 D2 x : kid_of s D2 x -> kid_of s (D1 ++ D2) x.
Proof. intros [d [Hd Hk]]. exists d. split; [apply in_or_app; auto | exact Hk]. Qed.
Lemma kid_of_pf s s' D x : pframe s s' -> kid_of s' D x -> kid_of s D x.
Proof. intros PF [d [Hd Hk]]. exists d. split; [exact Hd|]. rewrite <- (pf_skids _ _ PF). exact Hk. Qed.

Lemma dlink_trans s s1 RD1 RC1 D1 C1 RD2 RC2 D2 C2 :
  pframe s s1 -> dlink s RD1 RC1 D1 C1 -> dlink s1 RD2 RC2 D2 C2 ->
  dlink s (RD1 ++ RD2) (RC1 ++ RC2) (D1 ++ D2) (C1 ++ C2).
Proof.
  intros PF [A1 [B1 E1]] [A2 [B2 E2]]. split; [|split].
  - intros d Hd. apply in_app_or in Hd. destruct Hd as [Hd|Hd].
    + destruct (A1 d Hd); [left; apply in_or_app; auto | right; apply kid_of_app_l; assumption].
    + destruct (A2 d Hd) as [|Hk]; [left; apply in_or_app; auto | right; apply kid_of_app_r].
      eapply kid_of_pf; eassumption.
  - intros d k Hd Hk. apply in_app_or in Hd. apply in_or_app. destruct Hd as [Hd|Hd].
    + left. eapply B1; eassumption.
    + right. eapply B2; [eassumption|]. rewrite (pf_skids _ _ PF). exact Hk.
  - intros x Hx. apply in_app_or in Hx. destruct Hx as [Hx|Hx].
    + destruct (E1 x Hx); [left; apply in_or_app; auto | right; apply kid_of_app_l; assumption].
    + destruct (E2 x Hx) as [|Hk]; [left; apply in_or_app; auto | right; apply kid_of_app_r].
      eapply kid_of_pf; eassumption.
Qed.
Lemma dlink_mono s RD RC RD' RC' D C :
  incl RD RD' -> incl RC RC' -> dlink s RD RC D C -> dlink s RD' RC' D C.
Proof.
  intros I1 I2 [A [B E]]. split; [|split]; [|exact B|].
  - intros d Hd. destruct (A d Hd); [left; apply I1; assumption | right; assumption].
  - intros x Hx. destruct (E x Hx); [left; apply I2; assumption | right; assumption].
Qed.

Lemma dlink_nil s RD RC : dlink s RD RC [] [].
Proof. split; [|split]; intros; contradiction. Qed.
Lemma dlink_clear s k : dlink s [] [k] [] [k].
Proof. split; [|split]; intros; try contradiction. left; assumption. Qed.

(* nodes popped by a loop started at the roots RD lie below RD.  Stated negatively (reach is not decided): a node
   that no root holds below it is not popped.  A popped node that no root reaches has a popped parent with the same
   defect, so such nodes would have chains of any length below them - rank_depth forbids that. *)
Lemma dlink_not_above s RD D a :
  Rank s -> (forall d, In d D -> In d RD \/ kid_of s D d) -> (forall r, In r RD -> ~ reach s r a) -> ~ In a D.
Proof.
  intros HK LA Hno.
  set (Bad := fun d => In d D /\ forall r, In r RD -> ~ reach s r d).
  assert (Hup : forall d, Bad d -> exists d', Bad d' /\ In d (skids s d')).
  { intros d [Hd Hn]. destruct (LA d Hd) as [Hin|[d' [Hd' Hk]]]; [exfalso; apply (Hn d Hin); apply reach_refl|].
    exists d'. split; [|exact Hk]. split; [exact Hd'|]. intros r Hr Hc. apply (Hn r Hr).
    eapply reach_trans; [exact Hc | eapply reach_step; [exact Hk | apply reach_refl]]. }
  assert (Hdeep : forall m d, Bad d -> exists d', Bad d' /\ ~ depth_le s m d').
  { induction m; intros d Hb.
    - destruct (Hup d Hb) as [d' [Hb' Hk]]. exists d'. split; [exact Hb'|]. simpl. intros Hd. exact (Hd d Hk).
    - destruct (IHm d Hb) as [d1 [Hb1 Hn1]]. destruct (Hup d1 Hb1) as [d2 [Hb2 Hk]].
      exists d2. split; [exact Hb2|]. simpl. intros Hd. apply Hn1. apply Hd. exact Hk. }
  intros Ha. destruct (Hdeep (List.length (heap s)) a (conj Ha Hno)) as [d' [_ Hn]].
  apply Hn. apply rank_depth. exact HK.
Qed.

(* ---------- what detach does ---------- *)
Definition det_node_spec (s : st) (a : nat) (s1 : st) : Prop :=
  exists D C, det_rel s s1 D C /\ dlink s [a] [] D C /\ (D = [] \/ parent s a = None).

Lemma detach_loop_spec rec os :
  (forall s k s1 r, rec s k = Ok s1 r -> det_node_spec s k s1) ->
  forall ks s s1 u, detach_loop rec os s ks = Ok s1 u ->
    exists D C, det_rel s s1 D C /\ dlink s ks ks D C /\ (forall k, In k ks -> In k C).
Proof.
  intros Hrec. induction ks as [|k ks IH]; intros s s1 u E; simpl in E.
  - inversion E; subst. exists [], []. split; [apply det_refl|]. split; [apply dlink_nil|intros ? []].
  - assert (R0 := det_clear s k).
    assert (L0 := dlink_clear s k).
    destruct os.
    + destruct (IH _ _ _ E) as [D [C [R [L K]]]].
      exists ([] ++ D), ([k] ++ C). split; [eapply det_trans; eassumption|]. split.
      * eapply dlink_mono; [| |eapply dlink_trans; [exact (dr_pf _ _ _ _ R0)|exact L0|exact L]];
          intros x Hx; simpl in *; auto.
      * intros x [->|Hx]; [left; reflexivity | right; apply K; exact Hx].
    + destruct (rec (clear_parent s k) k) as [s2 b|s2 e2|] eqn:Er; try discriminate.
      destruct (Hrec _ _ _ _ Er) as [D1 [C1 [R1 [L1 _]]]].
      destruct (IH _ _ _ E) as [D [C [R [L K]]]].
      assert (R01 := det_trans _ _ _ _ _ _ _ R0 R1).
      assert (L01 := dlink_trans _ _ _ _ _ _ _ _ _ _ (dr_pf _ _ _ _ R0) L0 L1).
      exists (([] ++ D1) ++ D), (([k] ++ C1) ++ C). split; [eapply det_trans; eassumption|]. split.
      * eapply dlink_mono; [| |eapply dlink_trans; [exact (dr_pf _ _ _ _ R01)|exact L01|exact L]];
          intros x Hx; simpl in *; tauto.
      * intros x [->|Hx]; [left; reflexivity|]. apply in_or_app. right. apply K; exact Hx.
Qed.

Lemma detach_spec : forall fuel os s a s1 r, detach fuel os s a = Ok s1 r -> det_node_spec s a s1.
Proof.
  induction fuel; intros os s a s1 r E; simpl in E; [discriminate|].
  assert (Triv : det_node_spec s a s).
  { exists [], []. split; [apply det_refl|]. split; [apply dlink_nil|left; reflexivity]. }
  destruct (detached s a) eqn:Hd; [inversion E; subst; exact Triv|].
  destruct (is_attached_root s a) eqn:Hroot; simpl in E; [|inversion E; subst; exact Triv].
  destruct (detach_loop (detach fuel false) os s (skids s a)) as [s2 u|s2 e2|] eqn:El; try discriminate.
  destruct (reg_get s2 (id_of s2 a)) as [x|] eqn:Eg; [|discriminate]. inversion E; subst s1 r. clear E.
  destruct (detach_loop_spec _ os (fun s k s1 r => IHfuel false s k s1 r) _ _ _ _ El) as [D [C [R [L K]]]].
  assert (PF := dr_pf _ _ _ _ R).
  assert (Ha2 : attached s2 a).
  { apply attached_reg. rewrite Eg. f_equal.
    apply (dr_sub _ _ _ _ R) in Eg. rewrite (pf_id _ _ PF) in Eg.
    assert (Ha : reg_get s (id_of s a) = Some a) by (apply attached_reg; exact Hd). congruence. }
  assert (Rp := det_pop s2 a Ha2).
  exists (D ++ [a]), (C ++ []). split; [eapply det_trans; eassumption|]. split.
  - destruct L as [A [B E]]. split; [|split].
    + intros d Hd'. apply in_app_or in Hd'. destruct Hd' as [Hd'|[<-|[]]]; [|left; left; reflexivity].
      right. destruct (A d Hd') as [Hk|Hk]; [|apply kid_of_app_l; exact Hk].
      exists a. split; [apply in_or_app; right; left; reflexivity | exact Hk].
    + intros d k Hd' Hk. apply in_or_app. left. apply in_app_or in Hd'.
      destruct Hd' as [Hd'|[<-|[]]]; [eapply B; eassumption | apply K; exact Hk].
    + intros y Hx. apply in_app_or in Hx. destruct Hx as [Hx|[]]. right.
      destruct (E y Hx) as [Hk|Hk]; [|apply kid_of_app_l; exact Hk].
      exists a. split; [apply in_or_app; right; left; reflexivity | exact Hk].
  - right. unfold is_attached_root in Hroot. destruct (parent s a); [discriminate|reflexivity].
Qed.

(* ---------- Inv2 survives every change of that shape ---------- *)
Section DetInv.
  Variable H : pystr -> pystr.
  Variable ct : ctable.

  Lemma parent_attached s x p : RegOk s -> parent s x = Some p -> attached s p /\ c_pid (cellD s x) = Some (id_of s p).
  Proof.
    intros HR Hp. unfold parent in Hp. destruct (c_pid (cellD s x)) as [pid|] eqn:E; [|discriminate].
    destruct (HR _ _ Hp) as [_ Hi]. split; [apply attached_reg; rewrite Hi; exact Hp | rewrite Hi; reflexivity].
  Qed.

  Theorem inv2_det s s1 a D C :
    Inv2 H ct s -> det_rel s s1 D C -> dlink s [a] [] D C -> (D = [] \/ parent s a = None) -> Inv2 H ct s1.
  Proof.
    intros [HR [HK [HP HL]]] R [LA [LB LC]] Hroot.
    assert (PF := dr_pf _ _ _ _ R).
    (* a popped node was attached, an attached node with the id of a popped node is that node *)
    assert (Hpopid : forall x d, attached s x -> In d D -> id_of s d = id_of s x -> x = d).
    { intros x d Hx Hd Ei. apply attached_reg in Hx. assert (Hd' := dr_att _ _ _ _ R d Hd).
      apply attached_reg in Hd'. rewrite Ei in Hd'. congruence. }
    assert (Hatt1 : forall x, attached s1 x -> attached s x /\ ~ In x D).
    { intros x Hx. apply attached_reg in Hx. rewrite (pf_id _ _ PF) in Hx. split.
      - apply attached_reg. eapply dr_sub; eassumption.
      - intros Hd. rewrite (dr_pop _ _ _ _ R x Hd) in Hx. discriminate. }
    assert (Hatt1' : forall x, attached s x -> ~ In x D -> attached s1 x).
    { intros x Hx Hn. apply attached_reg. rewrite (pf_id _ _ PF), (dr_reg _ _ _ _ R).
      - apply attached_reg; exact Hx.
      - intros d Hd Ei. apply Hn. rewrite (Hpopid x d Hx Hd Ei). exact Hd. }
    (* a node in C is the child of a popped node *)
    assert (HCk : forall x, In x C -> kid_of s D x).
    { intros x Hx. destruct (LC x Hx) as [[]|Hk]. exact Hk. }
    (* a popped node is the receiver (parent-less) or the child of a popped node *)
    assert (HDk : forall d, In d D -> parent s d = None \/ kid_of s D d).
    { intros d Hd. destruct (LA d Hd) as [[<-|[]]|Hk]; [|right; exact Hk].
      left. destruct Hroot as [->|Hr]; [destruct Hd | exact Hr]. }
    (* the child of an attached node that stays is untouched and stays *)
    assert (Hkid : forall x k, attached s x -> ~ In x D -> In k (skids s x) -> ~ In k C /\ ~ In k D).
    { intros x k Hx Hn Hk. apply in_skids in Hk. destruct Hk as [f [i Hk]].
      assert (Hlx : live s x) by (apply attached_reg in Hx; apply HR in Hx; tauto).
      destruct (HL x Hlx Hx) as [Hc _ _ _]. destruct (Hc k f i Hk) as [_ [Hpk _]].
      assert (Hnk : ~ kid_of s D k).
      { intros [d [Hd Hkd]]. apply in_skids in Hkd. destruct Hkd as [f' [i' Hkd]].
        assert (Hdat := dr_att _ _ _ _ R d Hd).
        assert (Hld : live s d) by (apply attached_reg in Hdat; apply HR in Hdat; tauto).
        destruct (HL d Hld Hdat) as [Hcd _ _ _]. destruct (Hcd k f' i' Hkd) as [_ [Hpk' _]].
        rewrite Hpk in Hpk'. inversion Hpk'; subst. contradiction. }
      split; [intros Hc'; apply Hnk; apply HCk; exact Hc'|].
      intros Hd. destruct (HDk k Hd) as [Hn'|Hk']; [congruence | contradiction]. }
    assert (Hpar_same : forall x p, cellD s1 x = cellD s x -> parent s x = Some p -> ~ In p D -> parent s1 x = Some p).
    { intros x p Ec Hp Hn. destruct (parent_attached _ _ _ HR Hp) as [Hpa Hpid].
      unfold parent in *. rewrite Ec, Hpid in *. rewrite (dr_reg _ _ _ _ R); [exact Hp|].
      intros d Hd Ei. apply Hn. rewrite (Hpopid p d Hpa Hd Ei). exact Hd. }
    assert (Hpar1 : forall x p, parent s1 x = Some p -> cellD s1 x = cellD s x /\ parent s x = Some p).
    { intros x p Hp. unfold parent in Hp.
      destruct (dr_either _ _ _ _ R x) as [E|E]; rewrite E in Hp; [|simpl in Hp; discriminate].
      split; [exact E|]. unfold parent. destruct (c_pid (cellD s x)); [|discriminate].
      eapply dr_sub; eassumption. }
    split; [|split; [|split]].
    - intros i x Hx. apply (dr_sub _ _ _ _ R) in Hx. destruct (HR _ _ Hx) as [Hl Hi].
      split; [apply (pf_live _ _ PF); exact Hl | rewrite (pf_id _ _ PF); exact Hi].
    - eapply rank_same_kids; [apply (pf_len _ _ PF) | intros b; apply (pf_skids _ _ PF) | exact HK].
    - intros x Hx.
      destruct (dr_either _ _ _ _ R x) as [E|E]; rewrite E in Hx; [|simpl in Hx; congruence].
      destruct (HP x Hx) as [Hxa Hxp]. destruct (parent s x) as [p|] eqn:Hp; [|congruence].
      destruct (parent_attached _ _ _ HR Hp) as [Hpa Hpid].
      assert (Hlx : live s x) by (apply attached_reg in Hxa; apply HR in Hxa; tauto).
      destruct (HL x Hlx Hxa) as [_ Hs _ _]. destruct (Hs p Hp) as [f [_ Hin]].
      assert (Hxk : In x (skids s p)) by (apply in_skids; eauto).
      assert (HnC : ~ In x C).
      { intros Hc. rewrite (dr_clr _ _ _ _ R x Hc) in E.
        rewrite <- E in Hx. simpl in Hx. congruence. }
      assert (HpD : ~ In p D) by (intros Hd; apply HnC; eapply LB; eassumption).
      assert (HxD : ~ In x D).
      { intros Hd. destruct (HDk x Hd) as [Hn|[d [Hd' Hk]]]; [congruence|].
        apply HnC. eapply LB; eassumption. }
      split; [apply Hatt1'; assumption|]. rewrite (Hpar_same x p E Hp HpD). discriminate.
    - intros x Hlx Hax. destruct (Hatt1 x Hax) as [Hax0 HxD].
      assert (Hlx0 : live s x) by (apply (pf_live _ _ PF); exact Hlx).
      destruct (HL x Hlx0 Hax0) as [Hc Hs Hl Hcid]. constructor.
      + intros k f i Hin. rewrite (pf_skids_wf _ _ PF) in Hin.
        destruct (Hc k f i Hin) as [Hk1 [Hk2 [Hk3 Hk4]]].
        assert (Hkk : In k (skids s x)) by (apply in_skids; eauto).
        destruct (Hkid x k Hax0 HxD Hkk) as [HkC HkD].
        assert (Ek := dr_same _ _ _ _ R k HkC).
        split; [apply Hatt1'; assumption|]. split; [apply Hpar_same; assumption|].
        rewrite Ek. split; assumption.
      + intros p Hp. destruct (Hpar1 x p Hp) as [Ex Hp0]. destruct (Hs p Hp0) as [f [Hf Hin]].
        exists f. rewrite Ex, (pf_skids_wf _ _ PF). split; assumption.
      + apply attached_reg. exact Hax.
      + rewrite (pf_cid _ _ PF), Hcid. symmetry. apply tree_cid_pframe. exact PF.
  Qed.

  Theorem inv2_step_detach s a os s' r : Inv2 H ct s -> op_detach os s a = Ok s' r -> Inv2 H ct s'.
  Proof.
    intros HI E. unfold op_detach in E. destruct (detach_spec _ _ _ _ _ _ E) as [D [C [R [L Hr]]]].
    eapply inv2_det; eassumption.
  Qed.
End DetInv.
