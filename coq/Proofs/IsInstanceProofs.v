(* Proofs for C13: is_instance (Model/IsInstance.v, the code in /repo: fixed12 = true) against `conforms`
   (Spec/AnnotSpec.v), for annotation terms of every depth and every value. *)
From Oak Require Import Model.IsInstance Spec.AnnotSpec Proofs.ClassifyProofs.

(* the annotation terms the statement is about: no unresolved string; no list / dict / set; container arities
   as Python's; a NewType below the outermost one only with the repair v_nti (D21) *)
Fixpoint adm (vni : bool) (t : ty) : bool :=
  match t with
  | TFwd _ => false
  | TNewType a => vni && adm vni a
  | TTupleVar a => adm vni a
  | TUnion ts | TTuple ts => forallb (adm vni) ts
  | TGen c ts => negb (con_mutable c) && con_arity_ok c (length ts) && forallb (adm vni) ts
  | TBare c => negb (con_mutable c)
  | _ => true
  end.

Lemma zip_all_ext f g ts : Forall (fun a => forall x, f a x = g a x) ts -> forall l, zip_all f ts l = zip_all g ts l.
Proof. induction 1 as [|a r Ha _ IH]; intros vs; simpl; auto. destruct vs; auto. rewrite Ha, IH. reflexivity. Qed.

Lemma forallb_map {A B} (f : A -> B) (p : B -> bool) l : forallb p (map f l) = forallb (fun x => p (f x)) l.
Proof. induction l; simpl; congruence. Qed.

Section Conf.
Variable e : henv.
Variable vni : bool.

Lemma all_adm ts : forallb (adm vni) ts = true ->
  Forall (fun t => adm vni t = true -> forall v, is_instance e vni true t v = conforms e t v) ts ->
  Forall (fun t => forall v, is_instance e vni true t v = conforms e t v) ts.
Proof. intros Ha H. rewrite forallb_forall in Ha. rewrite Forall_forall in *. auto. Qed.

Theorem is_instance_conforms : forall t, adm vni t = true -> forall v, is_instance e vni true t v = conforms e t v.
Proof.
  induction t using ty_ind'; intros Ha v.
  - destruct k; destruct v; reflexivity.
  - destruct v; reflexivity.
  - destruct v; reflexivity.
  - simpl. reflexivity.
  - destruct v; simpl; try reflexivity. destruct (pystr_eqb c cls); reflexivity.
  - (* NewType *) simpl in Ha. apply andb_true_iff in Ha. destruct Ha as [-> Ha]. simpl. auto.
  - (* union *) simpl in Ha. simpl. apply existsb_ext_Forall. apply all_adm in H; auto.
    rewrite Forall_forall in *. auto.
  - (* fixed tuple *) simpl in Ha. apply all_adm in H; auto.
    destruct v; try reflexivity. simpl.
    rewrite (zip_all_ext _ (fun a x => conforms e a x) ts) by assumption.
    destruct ts as [|a r]; simpl.
    + destruct l; reflexivity.
    + destruct l as [|x l']; simpl; auto. destruct (Nat.eqb (length r) (length l')); reflexivity.
  - (* variadic tuple *) simpl in Ha. destruct v; try reflexivity. simpl.
    apply forallb_ext_Forall. apply Forall_forall. intros x _. auto.
  - (* other containers *) simpl in Ha. apply andb_true_iff in Ha. destruct Ha as [Ha Hall].
    apply andb_true_iff in Ha. destruct Ha as [Hm Har]. apply all_adm in H; auto.
    destruct c; try discriminate; simpl in Har.
    + (* frozenset *) destruct ts as [|a [|b r]]; try discriminate. inversion H; subst.
      destruct v; try reflexivity. simpl. apply forallb_ext_Forall. apply Forall_forall. intros x _. auto.
    + (* Sequence *) destruct ts as [|a [|b r]]; try discriminate. inversion H; subst.
      destruct v; try reflexivity; simpl.
      * rewrite forallb_map. apply forallb_ext_Forall. apply Forall_forall. intros x _. auto.
      * apply forallb_ext_Forall. apply Forall_forall. intros x _. auto.
      * apply forallb_ext_Forall. apply Forall_forall. intros x _. auto.
    + (* Mapping *) destruct ts as [|a [|b [|c r]]]; try discriminate. destruct v; reflexivity.
  - simpl in Ha. destruct c; try discriminate; destruct v; reflexivity.
  - destruct v; simpl; try reflexivity. destruct (node_sub e cls c); reflexivity.
  - discriminate.
Qed.

(* _check_runtime_types returns exactly the non-conforming fields, in the order it is given *)
Definition fadm (f : pystr * ty * val) : bool := adm vni (snd (fst f)).
Definition nonconforming (fs : list (pystr * ty * val)) : list pystr :=
  map (fun x => fst (fst x)) (filter (fun x => negb (conforms e (snd (fst x)) (snd x))) fs).

Theorem check_fields_exact : forall fs, forallb fadm fs = true -> check_fields e vni true fs = nonconforming fs.
Proof. unfold check_fields, nonconforming. induction fs as [|f r IH]; simpl; auto. intros H.
  apply andb_true_iff in H. destruct H as [Hf Hr]. unfold fadm in Hf. rewrite is_instance_conforms by assumption.
  destruct (conforms e (snd (fst f)) (snd f)); simpl; rewrite IH; auto. Qed.

Lemma all_fields_order_adm fs : forallb fadm fs = true -> forallb fadm (all_fields_order fs) = true.
Proof. intros H. unfold all_fields_order. rewrite forallb_app. rewrite forallb_forall in H.
  apply andb_true_iff. split; apply forallb_forall; intros x Hx; apply filter_In in Hx; apply H; tauto. Qed.

Lemma in_all_fields_order fs x : In x (all_fields_order fs) <-> In x fs.
Proof. unfold all_fields_order. rewrite in_app_iff, !filter_In. destruct (is_child_ty (snd (fst x))); simpl; intuition. Qed.

(* the construction with the switch on: Built when every field conforms, otherwise InvalidTypes whose fields are
   exactly the non-conforming ones *)
Theorem construct_on_spec : forall fs, forallb fadm fs = true ->
  match construct e vni true true fs with
  | Built _ => forall x, In x fs -> conforms e (snd (fst x)) (snd x) = true
  | RaisedInvalidTypes bad =>
      bad <> [] /\ forall n, In n bad <-> exists x, In x fs /\ fst (fst x) = n /\ conforms e (snd (fst x)) (snd x) = false
  end.
Proof.
  intros fs H. unfold construct. rewrite check_fields_exact by (apply all_fields_order_adm; assumption).
  assert (Hin : forall n, In n (nonconforming (all_fields_order fs)) <->
                          exists x, In x fs /\ fst (fst x) = n /\ conforms e (snd (fst x)) (snd x) = false).
  { intros n. unfold nonconforming. rewrite in_map_iff. split.
    - intros [x [Hn Hx]]. apply filter_In in Hx. destruct Hx as [Hx Hc]. apply (proj1 (in_all_fields_order _ _)) in Hx.
      exists x. repeat split; auto. apply negb_true_iff in Hc. assumption.
    - intros [x [Hx [Hn Hc]]]. exists x. split; auto. apply filter_In. split.
      + apply (proj2 (in_all_fields_order _ _)). assumption.
      + rewrite Hc. reflexivity. }
  destruct (nonconforming (all_fields_order fs)) as [|b bad] eqn:E.
  - intros x Hx. destruct (conforms e (snd (fst x)) (snd x)) eqn:Ec; auto.
    exfalso. apply (proj2 (Hin (fst (fst x)))). eauto.
  - split; [discriminate | exact Hin].
Qed.

(* switch off: no validation, and the same node as with the switch on whenever that one is built *)
Theorem switch_off_never_validates : forall fs, exists n, construct e vni true false fs = Built n.
Proof. intros. eexists. reflexivity. Qed.
Theorem switch_off_same_node : forall fs n, construct e vni true true fs = Built n -> construct e vni true false fs = Built n.
Proof. intros fs n. unfold construct. destruct (check_fields e vni true (all_fields_order fs)); auto. discriminate. Qed.
End Conf.

(* ---------- refutations ---------- *)
(* D12, the code before the repair: False is rejected for bool; True is accepted for int | None *)
Lemma refuted_false : is_instance [] true false (TScalar SBool) (XBool false) = false
                      /\ conforms [] (TScalar SBool) (XBool false) = true.
Proof. vm_compute. split; reflexivity. Qed.
Lemma refuted_bool_in_union : is_instance [] true false (TUnion [TScalar SInt; TNoneT]) (XBool true) = true
                              /\ conforms [] (TUnion [TScalar SInt; TNoneT]) (XBool true) = false.
Proof. vm_compute. split; reflexivity. Qed.
(* D21, the code as it is: a NewType below the outermost one fails every value *)
Definition wit_d21 : ty := TTupleVar (TNewType (TScalar SInt)).
Lemma refuted_nested_newtype_value : is_instance [] false true wit_d21 (XTuple [XInt 1]) = false
                                     /\ conforms [] wit_d21 (XTuple [XInt 1]) = true.
Proof. vm_compute. split; reflexivity. Qed.
