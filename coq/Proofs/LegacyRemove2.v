(* C18 round 2: replace_with(None) of an attached node that sits in an OPTIONAL SINGLE-CHILD field of its parent:
   the subtree is detached, the parent's field is set to None, the digests of the parent and of all its ancestors are
   recomputed.  Inv2 is preserved (no child field gains a node, Rank survives). *)
From Oak Require Import Spec.LegacySpec Spec.LegacySpec2 Proofs.LegacyProofs Proofs.LegacyInv Proofs.LegacyHeap
  Proofs.LegacyDetach Proofs.LegacyAttach Proofs.LegacyAttach2 Proofs.LegacyAttach3 Proofs.LegacyConstruct
  Proofs.LegacyConstruct2 Proofs.LegacyRemove.
From Coq Require Import List String Ascii ZArith Bool Arith Lia.
Import ListNotations.

(* the nodes popped by detach(a) lie at or below a: a node that a does not hold is not popped *)
Lemma D_not_above s D a x :
  Rank s -> (forall d, In d D -> d = a \/ kid_of s D d) -> ~ reach s a x -> ~ In x D.
Proof.
  intros HK LA Hn. apply (dlink_not_above s [a] D x HK).
  - intros d Hd. destruct (LA d Hd) as [->|Hk]; [left; left; reflexivity | right; exact Hk].
  - intros r [<-|[]]. exact Hn.
Qed.
(* nor is it the child of a popped node *)
Lemma C_not_above s D a x :
  Rank s -> (forall d, In d D -> d = a \/ kid_of s D d) -> ~ reach s a x -> ~ kid_of s D x.
Proof.
  intros HK LA Hn [d [Hd Hk]]. apply (D_not_above s D a d HK LA); [|exact Hd].
  intros Hr. apply Hn. eapply reach_trans; [exact Hr | eapply reach_step; [exact Hk | apply reach_refl]].
Qed.

Section Remove.
  Variable H : pystr -> pystr.
  Variable ct : ctable.

  Theorem sinv_remove s a p f s2 D C :
    Inv2 H ct s -> live s a -> attached s a ->
    parent s a = Some p -> c_pf (cellD s a) = Some f -> c_pi (cellD s a) = None ->
    NoDup (map fst (c_fs (cellD s p))) ->
    det_rel s s2 D (a :: C) ->
    (forall d, In d D -> d = a \/ kid_of s D d) ->
    (forall d k, In d D -> In k (skids s d) -> In k C) ->
    (forall x, In x C -> kid_of s D x) ->
    let s3 := upd s2 p (with_fs (set_key f (FOne None) (c_fs (cellD s2 p)))) in
    SInv s3 /\ live s3 p /\ attached s3 p /\
    (forall x, live s3 x -> attached s3 x -> ~ reach s3 x p -> cid_ok H ct s3 x).
  Proof.
    intros HI Hla Haa Hpa Hpf Hpi Hnames R LA LB LC s3.
    apply Inv2_split in HI. destruct HI as [HS HCid]. destruct HS as [HR [HK [HP HL]]].
    assert (PF := dr_pf _ _ _ _ R).
    (* the parent *)
    destruct (parent_attached _ _ _ HR Hpa) as [Hpatt Hpid_a].
    assert (Hlp : live s p) by (apply attached_reg in Hpatt; apply HR in Hpatt; tauto).
    assert (Hedge : In (a, f, None) (skids_wf s p)).
    { destruct (HL a Hla Haa) as [_ [Hs _]]. destruct (Hs p Hpa) as [f' [Hf' Hin]].
      rewrite Hpf in Hf'. inversion Hf'; subst f'. rewrite Hpi in Hin. exact Hin. }
    assert (Hap : ~ reach s a p) by (apply (proj2 HK); eapply edge_kid; exact Hedge).
    assert (Hapne : a <> p) by (intros ->; apply Hap; apply reach_refl).
    assert (Hassoc : assoc f (c_fs (cellD s p)) = Some (FOne (Some a))).
    { apply edge_assoc_one; [exact Hnames | exact Hedge]. }
    (* everything popped or cleared lies at or below a, hence strictly below p *)
    assert (HpD : ~ In p D) by (apply (D_not_above s D a p HK LA Hap)).
    assert (HpC : ~ In p C) by (intros Hc; apply (C_not_above s D a p HK LA Hap); apply LC; exact Hc).
    (* cells *)
    assert (Hlen2 : List.length (heap s2) = List.length (heap s)) by exact (pf_len _ _ PF).
    assert (Hc3 : forall x, x <> p -> cellD s3 x = cellD s2 x).
    { intros x Hx. unfold s3. rewrite cellD_upd. destruct (Nat.eqb p x) eqn:E; [|reflexivity].
      apply Nat.eqb_eq in E. congruence. }
    assert (Hp2 : cellD s2 p = cellD s p).
    { apply (dr_same _ _ _ _ R). intros [Hin|Hin]; [congruence | contradiction]. }
    assert (Hp3 : cellD s3 p = with_fs (set_key f (FOne None) (c_fs (cellD s p))) (cellD s p)).
    { unfold s3. rewrite cellD_upd, Nat.eqb_refl. unfold live in Hlp. rewrite Hlen2.
      apply Nat.ltb_lt in Hlp. rewrite Hlp. simpl. rewrite Hp2. reflexivity. }
    assert (Hslots : forall x, c_pid (cellD s3 x) = c_pid (cellD s2 x) /\ c_pf (cellD s3 x) = c_pf (cellD s2 x) /\
                               c_pi (cellD s3 x) = c_pi (cellD s2 x) /\ c_cid (cellD s3 x) = c_cid (cellD s2 x) /\
                               c_cls (cellD s3 x) = c_cls (cellD s2 x) /\ id_of s3 x = id_of s2 x).
    { intros x. destruct (Nat.eq_dec x p) as [->|Hx].
      - unfold id_of. rewrite Hp3, Hp2. repeat split; reflexivity.
      - unfold id_of. rewrite (Hc3 x Hx). repeat split; reflexivity. }
    assert (Hreg3 : forall i, reg_get s3 i = reg_get s2 i) by (intros i; apply reg_get_upd).
    assert (Hlen3 : List.length (heap s3) = List.length (heap s)) by (unfold s3; rewrite heap_len_upd; exact Hlen2).
    assert (Hid3 : forall x, id_of s3 x = id_of s x).
    { intros x. destruct (Hslots x) as [_ [_ [_ [_ [_ E]]]]]. rewrite E. apply (pf_id _ _ PF). }
    (* edges *)
    assert (Hfs3 : forall x, x <> p -> c_fs (cellD s3 x) = c_fs (cellD s x)).
    { intros x Hx. rewrite (Hc3 x Hx). apply (pf_fs _ _ PF). }
    assert (Hed : forall x e, In e (skids_wf s3 x) <-> (In e (skids_wf s x) /\ (x = p -> e <> (a, f, None)))).
    { intros x e. destruct (Nat.eq_dec x p) as [->|Hx].
      - unfold skids_wf, kids_wf. rewrite Hp3. simpl. rewrite (edges_clear_one _ _ _ Hnames Hassoc e). tauto.
      - unfold skids_wf, kids_wf. rewrite (Hfs3 x Hx). split; [intros Hin; split; [exact Hin | intros; contradiction] | tauto]. }
    assert (Hsk3 : forall x k, In k (skids s3 x) -> In k (skids s x)).
    { intros x k Hk. apply in_skids in Hk. destruct Hk as [f0 [i0 Hk]]. apply Hed in Hk. apply in_skids. exists f0, i0. tauto. }
    (* attachment *)
    assert (Hpopid : forall x d, attached s x -> In d D -> id_of s d = id_of s x -> x = d).
    { intros x d Hx Hd Ei. apply attached_reg in Hx. assert (Hd' := dr_att _ _ _ _ R d Hd).
      apply attached_reg in Hd'. rewrite Ei in Hd'. congruence. }
    assert (Hatt3 : forall x, attached s3 x -> attached s x /\ ~ In x D).
    { intros x Hx. apply attached_reg in Hx. rewrite Hreg3, Hid3 in Hx. split.
      - apply attached_reg. eapply dr_sub; eassumption.
      - intros Hd. rewrite (dr_pop _ _ _ _ R x Hd) in Hx. discriminate. }
    assert (Hatt3' : forall x, attached s x -> ~ In x D -> attached s3 x).
    { intros x Hx Hn. apply attached_reg. rewrite Hreg3, Hid3, (dr_reg _ _ _ _ R).
      - apply attached_reg; exact Hx.
      - intros d Hd Ei. apply Hn. rewrite (Hpopid x d Hx Hd Ei). exact Hd. }
    assert (HDk : forall d, In d D -> d = a \/ In d C).
    { intros d Hd. destruct (LA d Hd) as [->|[d' [Hd' Hk]]]; [left; reflexivity | right; eapply LB; eassumption]. }
    (* the child of an attached node that stays: untouched, unless it is a itself *)
    assert (Hkid : forall x k, attached s x -> ~ In x D -> In k (skids s x) -> k <> a -> ~ In k (a :: C) /\ ~ In k D).
    { intros x k Hx Hn Hk Hka. apply in_skids in Hk. destruct Hk as [f0 [i0 Hk]].
      assert (Hlx : live s x) by (apply attached_reg in Hx; apply HR in Hx; tauto).
      destruct (HL x Hlx Hx) as [Hc _]. destruct (Hc k f0 i0 Hk) as [_ [Hpk _]].
      assert (HnC : ~ In k C).
      { intros Hc'. destruct (LC k Hc') as [d [Hd Hkd]]. apply in_skids in Hkd. destruct Hkd as [f' [i' Hkd]].
        assert (Hdat := dr_att _ _ _ _ R d Hd).
        assert (Hld : live s d) by (apply attached_reg in Hdat; apply HR in Hdat; tauto).
        destruct (HL d Hld Hdat) as [Hcd _]. destruct (Hcd k f' i' Hkd) as [_ [Hpk' _]].
        rewrite Hpk in Hpk'. inversion Hpk'; subst. contradiction. }
      split; [intros [E|E]; [congruence | contradiction]|].
      intros Hd. destruct (HDk k Hd); [contradiction | contradiction]. }
    assert (Hpar_same : forall x q, cellD s2 x = cellD s x -> parent s x = Some q -> ~ In q D -> parent s3 x = Some q).
    { intros x q Ec Hp Hn. destruct (parent_attached _ _ _ HR Hp) as [Hqa Hpid].
      unfold parent in *. destruct (Hslots x) as [E _]. rewrite E, Ec, Hpid in *. rewrite Hreg3, (dr_reg _ _ _ _ R); [exact Hp|].
      intros d Hd Ei. apply Hn. rewrite (Hpopid q d Hqa Hd Ei). exact Hd. }
    assert (Hpar3 : forall x q, parent s3 x = Some q -> cellD s2 x = cellD s x /\ parent s x = Some q).
    { intros x q Hp. unfold parent in Hp. destruct (Hslots x) as [E _]. rewrite E in Hp.
      destruct (dr_either _ _ _ _ R x) as [E2|E2]; rewrite E2 in Hp; [|simpl in Hp; discriminate].
      split; [exact E2|]. unfold parent. destruct (c_pid (cellD s x)); [|discriminate].
      rewrite Hreg3 in Hp. eapply dr_sub; eassumption. }
    assert (Hp3att : attached s3 p) by (apply Hatt3'; assumption).
    assert (Hp3live : live s3 p) by (unfold live in *; rewrite Hlen3; exact Hlp).
    split; [|split; [exact Hp3live | split; [exact Hp3att|]]].
    - (* SInv s3 *)
      split; [|split; [|split]].
      + intros i x Hx. rewrite Hreg3 in Hx. apply (dr_sub _ _ _ _ R) in Hx. destruct (HR _ _ Hx) as [Hl Hi].
        split; [unfold live in *; rewrite Hlen3; exact Hl | rewrite Hid3; exact Hi].
      + apply (rank_sub_kids s s3); [rewrite Hlen3; apply le_n | exact Hsk3 | exact HK].
      + intros x Hx. destruct (Hslots x) as [E _]. rewrite E in Hx.
        destruct (dr_either _ _ _ _ R x) as [E2|E2]; rewrite E2 in Hx; [|simpl in Hx; congruence].
        destruct (HP x Hx) as [Hxa Hxp]. destruct (parent s x) as [q|] eqn:Hq; [|congruence].
        assert (Hlx : live s x) by (apply attached_reg in Hxa; apply HR in Hxa; tauto).
        destruct (HL x Hlx Hxa) as [_ [Hs _]]. destruct (Hs q Hq) as [f0 [_ Hin]].
        assert (Hxk : In x (skids s q)) by (eapply edge_kid; exact Hin).
        assert (HnC : ~ In x (a :: C)).
        { intros Hc. rewrite (dr_clr _ _ _ _ R x Hc) in E2. rewrite <- E2 in Hx. simpl in Hx. congruence. }
        assert (HqD : ~ In q D) by (intros Hd; apply HnC; right; eapply LB; eassumption).
        assert (HxD : ~ In x D).
        { intros Hd. apply HnC. destruct (HDk x Hd) as [->|Hc]; [left; reflexivity | right; exact Hc]. }
        split; [apply Hatt3'; assumption|]. rewrite (Hpar_same x q E2 Hq HqD). discriminate.
      + intros x Hlx Hax. destruct (Hatt3 x Hax) as [Hax0 HxD].
        assert (Hlx0 : live s x) by (unfold live in *; rewrite <- Hlen3; exact Hlx).
        destruct (HL x Hlx0 Hax0) as [Hc [Hs Hl]]. split; [|split].
        * intros k f0 i0 Hin. apply Hed in Hin. destruct Hin as [Hin Hne].
          destruct (Hc k f0 i0 Hin) as [Hk1 [Hk2 [Hk3 Hk4]]].
          assert (Hka : k <> a).
          { intros ->. rewrite Hpa in Hk2. inversion Hk2; subst x.
            rewrite Hpf in Hk3. inversion Hk3; subst f0. rewrite Hpi in Hk4. subst i0.
            apply (Hne eq_refl). reflexivity. }
          assert (Hkk : In k (skids s x)) by (eapply edge_kid; exact Hin).
          destruct (Hkid x k Hax0 HxD Hkk Hka) as [HkC HkD].
          assert (Ek := dr_same _ _ _ _ R k HkC).
          split; [apply Hatt3'; assumption|]. split; [apply Hpar_same; assumption|].
          destruct (Hslots k) as [_ [E1 [E2 _]]]. rewrite E1, E2, Ek. split; assumption.
        * intros q Hq. destruct (Hpar3 x q Hq) as [Ex Hq0]. destruct (Hs q Hq0) as [f0 [Hf0 Hin]].
          destruct (Hslots x) as [_ [E1 [E2 _]]]. exists f0. rewrite E1, E2, Ex. split; [exact Hf0|].
          apply Hed. split; [exact Hin|]. intros -> Ee. inversion Ee; subst.
          (* x = a: but a was cleared *)
          assert (Eca := dr_clr _ _ _ _ R a (or_introl eq_refl)).
          unfold parent in Hq. destruct (Hslots a) as [E _]. rewrite E, Eca in Hq. simpl in Hq. discriminate.
        * apply attached_reg. exact Hax.
    - (* digests away from the parent's chain *)
      intros x Hlx Hax Hnr. destruct (Hatt3 x Hax) as [Hax0 HxD].
      assert (Hlx0 : live s x) by (unfold live in *; rewrite <- Hlen3; exact Hlx).
      assert (Hreach_p : forall y t, reach s y t -> t = p -> reach s3 y p).
      { intros y t Hr. induction Hr as [y|y k d Hk Hr IH]; intros ->; [apply reach_refl|].
        destruct (Nat.eq_dec y p) as [->|Hy]; [apply reach_refl|].
        eapply reach_step; [|apply IH; reflexivity].
        unfold skids, kids, kids_wf. rewrite (Hfs3 y Hy). exact Hk. }
      unfold cid_ok. destruct (Hslots x) as [_ [_ [_ [Ecid _]]]].
      rewrite Ecid, (pf_cid _ _ PF), (HCid x Hlx0 Hax0).
      symmetry. apply tree_cid_reach_local; [exact HK| | |].
      + intros y Hy. assert (Hyp : y <> p) by (intros ->; apply Hnr; apply (Hreach_p x p Hy eq_refl)).
        destruct (Hslots y) as [_ [_ [_ [_ [Ecls _]]]]]. rewrite Ecls, (pf_cls _ _ PF).
        rewrite (Hfs3 y Hyp). split; reflexivity.
      + unfold fuel_of. rewrite Hlen3. lia.
      + unfold fuel_of. lia.
  Qed.

  (* replace_with(None) of an attached node in an optional single-child field of its parent *)
  Theorem inv2_step_replace_with_none_child s a p f s' :
    Inv2 H ct s -> live s a -> attached s a ->
    parent s a = Some p -> c_pf (cellD s a) = Some f -> c_pi (cellD s a) = None ->
    NoDup (map fst (c_fs (cellD s p))) ->
    step H ct s (OReplaceWith a None) = (s', RNone) -> Inv2 H ct s'.
  Proof.
    intros HI Hla Haa Hpa Hpf Hpi Hnames E.
    assert (HK : Rank s) by (destruct HI as [_ [A _]]; exact A).
    simpl in E. unfold op_replace_with in E. rewrite Hpa, Hpf in E. cbv beta iota in E.
    destruct (fdecl_of ct (c_cls (cellD s p)) f) as [dcl|]; [|simpl in E; discriminate].
    assert (Hrest : lift (fun _ : unit => RNone) s
          (let* (s2, _) := op_detach false (clear_parent s a) a in
           let* (s5, _) := Ok s2 tt in replace_child H ct s5 p a f (c_pi (cellD s a)) None) = (s', RNone) ->
          Inv2 H ct s').
    { clear E. intros E.
      destruct (op_detach false (clear_parent s a) a) as [s2 b|s2 e2|] eqn:Ed; unfold bind in E; cbv beta iota in E;
        [|simpl in E; discriminate|simpl in E; discriminate].
      rewrite Hpi in E. unfold replace_child in E.
      unfold op_detach in Ed. destruct (detach_spec _ _ _ _ _ _ Ed) as [D [C [R1 [[LA [LB LC]] _]]]].
      assert (R0 := det_clear s a).
      assert (R := det_trans _ _ _ _ _ _ _ R0 R1). simpl in R.
      assert (PF0 := dr_pf _ _ _ _ R0).
      assert (LA' : forall d, In d D -> d = a \/ kid_of s D d).
      { intros d Hd. destruct (LA d Hd) as [[<-|[]]|Hk]; [left; reflexivity | right; eapply kid_of_pf; eassumption]. }
      assert (LB' : forall d k, In d D -> In k (skids s d) -> In k C).
      { intros d k Hd Hk. eapply LB; [exact Hd|]. rewrite (pf_skids _ _ PF0). exact Hk. }
      assert (LC' : forall x, In x C -> kid_of s D x).
      { intros x Hx. destruct (LC x Hx) as [[]|Hk]. eapply kid_of_pf; eassumption. }
      destruct (sinv_remove s a p f s2 D C HI Hla Haa Hpa Hpf Hpi Hnames R LA' LB' LC') as [HS3 [Hl3 [Ha3 HG3]]].
      destruct (assoc f (c_fs (cellD s2 p))) as [[v|o|l]|] eqn:Eas; cbv beta iota zeta in E;
        try (simpl in E; discriminate).
      unfold bind in E. cbv beta iota zeta in E.
      set (s3 := upd s2 p (with_fs (set_key f (FOne None) (c_fs (cellD s2 p))))) in *.
      destruct (reset_cid H ct (fuel_of s3) s3 p) as [s4 u|s4 e4|] eqn:Er; simpl in E; [|inversion E|inversion E].
      assert (Es : s4 = s') by (inversion E; reflexivity). rewrite <- Es.
      destruct (reset_cid_repairs H ct _ _ _ _ _ HS3 Hl3 Ha3 HG3 Er) as [HS' [_ HC']].
      apply Inv2_split. split; assumption. }
    destruct (fd_kind dcl); simpl in E; try discriminate; apply Hrest; exact E.
  Qed.
End Remove.
