(* C18 round 2: replace_with(None) of an attached node that sits in a TUPLE / LIST field of its parent: the subtree is
   detached, the element is removed from the sequence, the later siblings' parent_index is decremented, the digests
   of the parent and of all its ancestors are recomputed.  Part 1: list lemmas and the shift loop. *)
From Oak Require Import Spec.LegacySpec Spec.LegacySpec2 Proofs.LegacyProofs Proofs.LegacyInv Proofs.LegacyHeap
  Proofs.LegacyDetach Proofs.LegacyAttach Proofs.LegacyAttach2 Proofs.LegacyAttach3 Proofs.LegacyConstruct
  Proofs.LegacyConstruct2 Proofs.LegacyRemove.
From Coq Require Import List String Ascii ZArith Bool Arith Lia.
Import ListNotations.

Lemma in_index_from {A} (l : list A) : forall i j x,
  In (j, x) (index_from i l) <-> i <= j /\ nth_error l (j - i) = Some x.
Proof.
  induction l as [|y l IH]; intros i j x; simpl.
  - split; [tauto|]. intros [_ E]. destruct (j - i); discriminate.
  - split.
    + intros [E|Hin].
      * inversion E; subst. split; [lia|]. rewrite Nat.sub_diag. reflexivity.
      * apply IH in Hin. destruct Hin as [Hle E]. split; [lia|].
        replace (j - i) with (S (j - S i)) by lia. exact E.
    + intros [Hle E]. destruct (Nat.eq_dec i j) as [->|Hne].
      * rewrite Nat.sub_diag in E. simpl in E. inversion E. left; reflexivity.
      * right. apply IH. split; [lia|]. replace (j - i) with (S (j - S i)) in E by lia. exact E.
Qed.
Lemma fkids_seq_in f l k j : In (k, f, Some j) (fkids (f, FSeq l)) <-> nth_error l j = Some k.
Proof.
  unfold fkids; simpl. rewrite in_map_iff. split.
  - intros [[j' k'] [E Hin]]. simpl in E. inversion E; subst. apply in_index_from in Hin.
    destruct Hin as [_ Hn]. rewrite Nat.sub_0_r in Hn. exact Hn.
  - intros Hn. exists (j, k). split; [reflexivity|]. apply in_index_from. split; [lia|].
    rewrite Nat.sub_0_r. exact Hn.
Qed.
Lemma fkids_seq_shape f l e : In e (fkids (f, FSeq l)) -> exists k j, e = (k, f, Some j).
Proof.
  unfold fkids; simpl. rewrite in_map_iff. intros [[j k] [E _]]. exists k, j. symmetry. exact E.
Qed.

Lemma no_field_edges fs f : ~ In f (map fst fs) -> forall e, In e (flat_map fkids fs) -> snd (fst e) <> f.
Proof.
  intros Hn e Hin Ef. apply Hn. clear Hn. induction fs as [|[n v] fs IH]; simpl in *; [destruct Hin|].
  apply in_app_or in Hin. destruct Hin as [Hin|Hin]; [left; rewrite <- Ef; symmetry; exact (fkids_field _ _ _ Hin) | right; auto].
Qed.

Lemma edge_assoc_seq fs k f j :
  NoDup (map fst fs) -> In (k, f, Some j) (flat_map fkids fs) ->
  exists l, assoc f fs = Some (FSeq l) /\ nth_error l j = Some k.
Proof.
  induction fs as [|[n v] fs IH]; intros Hn Hin; simpl in *; [destruct Hin|].
  inversion Hn as [|? ? Hnotin Hn']; subst. apply in_app_or in Hin. destruct Hin as [Hin|Hin].
  - assert (Ef := fkids_field _ _ _ Hin). simpl in Ef. subst n. rewrite pystr_eqb_refl.
    destruct v as [x|[k'|]|l]; try (unfold fkids in Hin; simpl in Hin; try contradiction).
    + destruct Hin as [E|[]]. discriminate.
    + exists l. split; [reflexivity|]. apply (fkids_seq_in f l k j). exact Hin.
  - destruct (pystr_eqb f n) eqn:E; [|apply IH; assumption].
    apply pystr_eqb_eq in E. subst n. exfalso. apply (no_field_edges fs f Hnotin _ Hin). reflexivity.
Qed.

Lemma edges_set_seq fs f l l' :
  NoDup (map fst fs) -> assoc f fs = Some (FSeq l) ->
  forall e, In e (flat_map fkids (set_key f (FSeq l') fs)) <->
            ((In e (flat_map fkids fs) /\ snd (fst e) <> f) \/ In e (fkids (f, FSeq l'))).
Proof.
  induction fs as [|[n v] fs IH]; intros Hn Ha e; simpl in *; [discriminate|].
  inversion Hn as [|? ? Hnotin Hn']; subst.
  destruct (pystr_eqb f n) eqn:E.
  - apply pystr_eqb_eq in E. subst n. inversion Ha; subst v. simpl. rewrite !in_app_iff. split.
    + intros [Hin|Hin].
      * right. exact Hin.
      * left. split; [right; exact Hin | exact (no_field_edges fs f Hnotin _ Hin)].
    + intros [[[Hin|Hin] Hne]|Hin].
      * exfalso. apply Hne. exact (fkids_field _ _ _ Hin).
      * right. exact Hin.
      * left. exact Hin.
  - simpl. rewrite !in_app_iff, (IH Hn' Ha e). split.
    + intros [Hin|[[Hin Hne]|Hin]]; [|left; tauto | right; exact Hin].
      left. split; [left; exact Hin|]. apply fkids_field in Hin. simpl in Hin. apply pystr_eqb_neq in E. congruence.
    + intros [[[Hin|Hin] Hne]|Hin]; tauto.
Qed.
Lemma edges_field_seq fs f l :
  NoDup (map fst fs) -> assoc f fs = Some (FSeq l) ->
  forall e, In e (flat_map fkids fs) -> snd (fst e) = f -> In e (fkids (f, FSeq l)).
Proof.
  induction fs as [|[n v] fs IH]; intros Hn Ha e Hin Ef; simpl in *; [discriminate|].
  apply NoDup_cons_iff in Hn. destruct Hn as [Hnotin Hn']. apply in_app_or in Hin.
  destruct (pystr_eqb f n) eqn:E.
  - apply pystr_eqb_eq in E. subst n. inversion Ha; subst v. destruct Hin as [Hin|Hin]; [exact Hin|].
    exfalso. apply (no_field_edges fs f Hnotin _ Hin). exact Ef.
  - destruct Hin as [Hin|Hin]; [|apply IH; assumption].
    apply fkids_field in Hin. simpl in Hin. apply pystr_eqb_neq in E. congruence.
Qed.

Lemma nth_error_remove {A} (l : list A) : forall ix j,
  nth_error (firstn ix l ++ skipn (S ix) l) j = if Nat.ltb j ix then nth_error l j else nth_error l (S j).
Proof.
  induction l as [|x l IH]; intros ix j.
  - rewrite firstn_nil, skipn_nil. simpl. destruct j; destruct (Nat.ltb _ ix); reflexivity.
  - destruct ix as [|ix].
    + simpl. reflexivity.
    + destruct j as [|j]; [reflexivity|].
      change (nth_error (firstn (S ix) (x :: l) ++ skipn (S (S ix)) (x :: l)) (S j))
        with (nth_error (firstn ix l ++ skipn (S ix) l) j).
      rewrite (IH ix j). change (Nat.ltb (S j) (S ix)) with (Nat.ltb j ix). reflexivity.
Qed.

(* ---------- the shift loop of _replace_child ---------- *)
Section ShiftW.
  Variable p : nat.
  Variable f : pystr.
  Fixpoint shift_w (s : st) (cs : list nat) : res unit :=
    match cs with
    | [] => Ok s tt
    | c :: r => match c_pi (cellD s c) with
                | Some j => shift_w (set_parent s c p f (Some (j - 1))) r
                | None => Er s ECrash
                end
    end.
End ShiftW.

Lemma shift_spec p f : forall cs s s' u,
  NoDup cs -> (forall c, In c cs -> live s c) -> ~ In p cs ->
  shift_w p f s cs = Ok s' u ->
  pframe s s' /\ (forall i, reg_get s' i = reg_get s i) /\
  (forall x, ~ In x cs -> cellD s' x = cellD s x) /\
  (forall c, In c cs -> exists j, c_pi (cellD s c) = Some j /\
                                  cellD s' c = with_parent (Some (id_of s p)) (Some f) (Some (j - 1)) (cellD s c)).
Proof.
  induction cs as [|c r IH]; intros s s' u Hn Hl Hp E; simpl in E.
  - inversion E; subst. split; [apply pframe_refl|]. split; [reflexivity|]. split; [reflexivity | intros ? []].
  - destruct (c_pi (cellD s c)) as [j|] eqn:Ej; [|discriminate].
    inversion Hn as [|? ? Hnotin Hn']; subst.
    set (s1 := set_parent s c p f (Some (j - 1))) in *.
    assert (PF1 : pframe s s1) by apply pframe_set_parent.
    assert (Hc1 : forall x, x <> c -> cellD s1 x = cellD s x).
    { intros x Hx. unfold s1, set_parent. rewrite cellD_upd. destruct (Nat.eqb c x) eqn:Ec; [|reflexivity].
      apply Nat.eqb_eq in Ec. congruence. }
    assert (Hcc : cellD s1 c = with_parent (Some (id_of s p)) (Some f) (Some (j - 1)) (cellD s c)).
    { unfold s1, set_parent. rewrite cellD_upd, Nat.eqb_refl.
      assert (Hlc := Hl c (or_introl eq_refl)). apply Nat.ltb_lt in Hlc. rewrite Hlc. reflexivity. }
    destruct (IH s1 s' u Hn') as [PF [Hreg [Hsame Hsh]]].
    + intros x Hx. apply (pf_live _ _ PF1). apply Hl. right; exact Hx.
    + intros Hin. apply Hp. right; exact Hin.
    + exact E.
    + split; [eapply pframe_trans; eassumption|]. split.
      * intros i. rewrite Hreg. unfold s1, set_parent. apply reg_get_upd.
      * split.
        -- intros x Hx. rewrite Hsame by (intros Hin; apply Hx; right; exact Hin).
           apply Hc1. intros ->. apply Hx. left; reflexivity.
        -- intros x [<-|Hx].
           ++ exists j. split; [exact Ej|]. rewrite (Hsame c Hnotin). exact Hcc.
           ++ destruct (Hsh x Hx) as [j' [Ej' Ec']]. assert (Hxc : x <> c) by (intros ->; contradiction).
              exists j'. rewrite (Hc1 x Hxc) in Ej', Ec'. split; [exact Ej'|]. rewrite Ec'.
              unfold id_of. rewrite (Hc1 p); [reflexivity|]. intros ->. apply Hp. left; reflexivity.
Qed.

Section ReplaceChildSeq.
  Variable H : pystr -> pystr.
  Variable ct : ctable.
  Lemma replace_child_none_seq s p old f ix :
    replace_child H ct s p old f (Some ix) None =
    match assoc f (c_fs (cellD s p)) with
    | Some (FSeq l) =>
        let s1 := upd s p (with_fs (set_key f (FSeq (firstn ix l ++ skipn (S ix) l)) (c_fs (cellD s p)))) in
        let* (s2, _) := shift_w p f s1 (skipn (S ix) l) in reset_cid H ct (fuel_of s2) s2 p
    | _ => Er s ECrash
    end.
  Proof.
    unfold replace_child. destruct (assoc f (c_fs (cellD s p))) as [[v|o|l]|].
    - reflexivity.
    - reflexivity.
    - reflexivity.
    - reflexivity.
  Qed.
End ReplaceChildSeq.
