(* C18 round 2: Inv2 in the empty world, Inv2 -> Inv, calculate_xpath, the guarded step and the guarded history. *)
From Oak Require Import Spec.LegacySpec Spec.LegacySpec2 Proofs.LegacyProofs Proofs.LegacyInv Proofs.LegacyHeap
  Proofs.LegacyDetach Proofs.LegacyAttach Proofs.LegacyAttach2 Proofs.LegacyAttach3 Proofs.LegacyConstruct
  Proofs.LegacyConstruct2 Proofs.LegacyDup Proofs.LegacyDup2.
From Coq Require Import List String Ascii ZArith Bool Arith Lia.
Import ListNotations.

Section Hist.
  Variable H : pystr -> pystr.
  Variable ct : ctable.

  Lemma inv2_empty : Inv2 H ct empty_st.
  Proof.
    split; [|split; [|split]].
    - intros i a E. discriminate.
    - apply addr_rank_rank. intros a k Hk. unfold skids, cellD in Hk. simpl in Hk. destruct a; destruct Hk.
    - intros a Hp. exfalso. apply Hp. unfold cellD; simpl. destruct a; reflexivity.
    - intros a Hl. unfold live in Hl. simpl in Hl. lia.
  Qed.
  Lemma inv2_inv s : Inv2 H ct s -> Inv H ct s.
  Proof. intros [A [_ [_ B]]]. split; assumption. Qed.

  (* ---------- states that differ in _xpath / original_id / id_collision_with only ---------- *)
  Definition xrel (s s' : st) : Prop := cframe s s' /\ forall b, c_cid (cellD s' b) = c_cid (cellD s b).
  Lemma xrel_refl s : xrel s s. Proof. split; [apply cframe_refl | reflexivity]. Qed.
  Lemma xrel_trans s1 s2 s3 : xrel s1 s2 -> xrel s2 s3 -> xrel s1 s3.
  Proof. intros [A1 B1] [A2 B2]. split; [eapply cframe_trans; eassumption | intros b; rewrite B2; apply B1]. Qed.
  Lemma xrel_upd_xp s a xp : xrel s (upd s a (with_xp xp)).
  Proof.
    split; [apply cframe_upd_xp|]. intros b. rewrite cellD_upd.
    destruct (Nat.eqb a b && Nat.ltb a (List.length (heap s))); reflexivity.
  Qed.
  Lemma inv2_xrel s s' : Inv2 H ct s -> xrel s s' -> Inv2 H ct s'.
  Proof.
    intros HI [CF HC']. apply Inv2_split in HI. destruct HI as [HS HC].
    apply Inv2_split. split; [apply (sinv_cframe _ _ CF); exact HS|].
    intros x Hl Ha. apply (cf_live _ _ CF) in Hl. unfold attached in Ha. rewrite (cf_detached _ _ CF) in Ha.
    unfold cid_ok. rewrite (tree_cid_cframe H ct _ _ x CF), <- (HC x Hl Ha). apply HC'.
  Qed.

  Lemma set_xpath_xrel : forall fuel s a pxp s0, xrel s0 s -> xrel s0 (res_state (set_xpath fuel s a pxp) s0).
  Proof.
    induction fuel; intros s a pxp s0 X0; simpl; [apply xrel_refl|].
    destruct (c_pf (cellD s a)) as [pf|]; [|exact X0].
    match goal with |- xrel s0 (res_state (?F ?s1 ?ks) s0) =>
      assert (X1 : xrel s0 s1) by (eapply xrel_trans; [exact X0 | apply xrel_upd_xp]);
      revert X1; generalize ks; generalize s1 end.
    intros s1 ks. revert s1. induction ks as [|k r IHr]; intros s1 X1; [exact X1|].
    simpl.
    match goal with |- context [set_xpath fuel s1 k ?xp] =>
      assert (X2 := IHfuel s1 k xp s0 X1); destruct (set_xpath fuel s1 k xp) as [s2 u|s2 e|] end;
      simpl in *; [apply IHr; exact X2 | exact X2 | exact X2].
  Qed.

  Lemma calc_xpath_xrel s a : xrel s (res_state (op_calc_xpath s a) s).
  Proof.
    unfold op_calc_xpath. destruct (negb (is_attached_root s a)); [apply xrel_refl|].
    match goal with |- xrel s (res_state (bind (?F s ?ks) ?K) s) =>
      assert (HL : forall l s1, xrel s s1 -> xrel s (res_state (F s1 l) s)) end.
    { induction l as [|k r IHr]; intros s1 X1; [exact X1|].
      cbn -[set_xpath fuel_of].
      match goal with |- context [set_xpath (fuel_of s1) s1 k ?xp] =>
        assert (X2 := set_xpath_xrel (fuel_of s1) s1 k xp s X1);
        destruct (set_xpath (fuel_of s1) s1 k xp) as [s2 u|s2 e|] end;
        simpl in *; [apply IHr; exact X2 | exact X2 | exact X2]. }
    assert (X := HL (skids s a) s (xrel_refl s)).
    match goal with |- xrel s (res_state (bind ?R ?K) s) => destruct R as [s1 u|s1 e|] end; simpl in *;
      [eapply xrel_trans; [exact X | apply xrel_upd_xp] | exact X | exact X].
  Qed.

  Theorem inv2_step_calc_xpath s a s' ob : Inv2 H ct s -> step H ct s (OCalcXpath a) = (s', ob) -> Inv2 H ct s'.
  Proof.
    intros HI E. simpl in E. assert (X := calc_xpath_xrel s a).
    destruct (op_calc_xpath s a) as [s1 b|s1 e|]; simpl in *; inversion E; subst;
      [eapply inv2_xrel; eassumption | eapply inv2_xrel; eassumption | exact HI].
  Qed.

End Hist.
