(* C18 round 2: towards replace_with(None) of a node that HAS a parent (removal of an optional single child).
   Part A: field-list lemmas, locality of tree_cid along reach, and _reset_content_id: recomputing the digests along
   the chain of .parent links repairs every ancestor ("changes propagate to all ancestors"). *)
From Oak Require Import Spec.LegacySpec Spec.LegacySpec2 Proofs.LegacyProofs Proofs.LegacyInv Proofs.LegacyHeap
  Proofs.LegacyDetach Proofs.LegacyAttach Proofs.LegacyAttach2 Proofs.LegacyAttach3 Proofs.LegacyConstruct
  Proofs.LegacyConstruct2.
From Coq Require Import List String Ascii ZArith Bool Arith Lia.
Import ListNotations.

(* ---------- field lists with unique names ---------- *)
Lemma fkids_field n v e : In e (fkids (n, v)) -> snd (fst e) = n.
Proof.
  unfold fkids; simpl. destruct v as [x|[k|]|l]; simpl; try tauto.
  - intros [<-|[]]. reflexivity.
  - intros Hin. apply in_map_iff in Hin. destruct Hin as [p [<- _]]. reflexivity.
Qed.
Lemma assoc_in_names {A} f (fs : list (pystr * A)) v : assoc f fs = Some v -> In f (map fst fs).
Proof.
  induction fs as [|[n w] fs IH]; simpl; [discriminate|].
  destruct (pystr_eqb f n) eqn:E; [apply pystr_eqb_eq in E; auto | auto].
Qed.
Lemma edge_assoc_one fs k f :
  NoDup (map fst fs) -> In (k, f, None) (flat_map fkids fs) -> assoc f fs = Some (FOne (Some k)).
Proof.
  induction fs as [|[n v] fs IH]; intros Hn Hin; simpl in *; [destruct Hin|].
  inversion Hn as [|? ? Hnotin Hn']; subst. apply in_app_or in Hin. destruct Hin as [Hin|Hin].
  - assert (Ef := fkids_field _ _ _ Hin). simpl in Ef. subst n. rewrite pystr_eqb_refl.
    unfold fkids in Hin; simpl in Hin. destruct v as [x|[k'|]|l]; simpl in Hin; try contradiction.
    + destruct Hin as [E|[]]. inversion E; subst. reflexivity.
    + apply in_map_iff in Hin. destruct Hin as [p [E _]]. discriminate.
  - destruct (pystr_eqb f n) eqn:E; [|apply IH; assumption].
    apply pystr_eqb_eq in E. subst n. exfalso. apply Hnotin.
    apply (assoc_in_names f fs (FOne (Some k))). apply IH; assumption.
Qed.
(* clearing the single-child field f removes exactly the edges of field f, and the only such edge was the child *)
Lemma edges_clear_one fs f k :
  NoDup (map fst fs) -> assoc f fs = Some (FOne (Some k)) ->
  forall e, In e (flat_map fkids (set_key f (FOne None) fs)) <-> (In e (flat_map fkids fs) /\ e <> (k, f, None)).
Proof.
  induction fs as [|[n v] fs IH]; intros Hn Ha e; simpl in *; [discriminate|].
  inversion Hn as [|? ? Hnotin Hn']; subst.
  destruct (pystr_eqb f n) eqn:E.
  - apply pystr_eqb_eq in E. subst n. inversion Ha; subst v. simpl.
    assert (Hno : forall e', In e' (flat_map fkids fs) -> snd (fst e') <> f).
    { intros e' Hin Ef. apply Hnotin. clear -Hin Ef. induction fs as [|[n v] fs IH]; simpl in *; [destruct Hin|].
      apply in_app_or in Hin. destruct Hin as [Hin|Hin]; [left; rewrite <- Ef; symmetry; exact (fkids_field _ _ _ Hin) | right; auto]. }
    unfold fkids at 1 2; simpl. split.
    + intros Hin. split; [right; exact Hin|]. intros ->. apply (Hno _ Hin). reflexivity.
    + intros [[<-|Hin] Hne]; [contradiction | exact Hin].
  - simpl. rewrite in_app_iff, in_app_iff, (IH Hn' Ha e). split.
    + intros [Hin|[Hin Hne]]; [|tauto]. split; [left; exact Hin|].
      intros ->. apply fkids_field in Hin. simpl in Hin. apply pystr_eqb_neq in E. congruence.
    + intros [[Hin|Hin] Hne]; tauto.
Qed.

(* tree_cid reads only what the node reaches: tree_cid_reach_local, now in Proofs/LegacyHeap.v *)

(* ---------- _reset_content_id ---------- *)
Section ResetCid.
  Variable H : pystr -> pystr.
  Variable ct : ctable.

  (* everything stored below an attached node is attached *)
  Lemma reach_attached s a x : SInv s -> live s a -> attached s a -> reach s a x -> attached s x /\ live s x.
  Proof.
    intros HS Hl Ha Hr. induction Hr as [a|a k d Hk Hr IH]; [split; assumption|].
    destruct HS as [HR [HK [HP HL]]]. destruct (HL a Hl Ha) as [Hc _].
    apply in_skids in Hk. destruct Hk as [f [i Hk]]. destruct (Hc k f i Hk) as [Hka _].
    apply IH; [|exact Hka]. assert (Hkk : In k (skids s a)) by (apply in_skids; eauto).
    eapply rank_kid_live; eassumption.
  Qed.
  (* an attached node that holds q below it, other than q itself, holds q's parent *)
  Lemma reach_parent s x q :
    SInv s -> live s x -> attached s x -> reach s x q -> x <> q ->
    exists q', parent s q = Some q' /\ reach s x q'.
  Proof.
    intros HS Hl Ha Hr Hne. destruct (reach_last _ _ _ Hr) as [->|[y [Hy Hq]]]; [contradiction|].
    destruct (reach_attached _ _ _ HS Hl Ha Hy) as [Hya Hyl].
    destruct HS as [HR [HK [HP HL]]]. destruct (HL y Hyl Hya) as [Hc _].
    apply in_skids in Hq. destruct Hq as [f [i Hq]]. destruct (Hc q f i Hq) as [_ [Hpq _]].
    exists y. split; assumption.
  Qed.

  Definition good_below (s : st) (q : nat) : Prop :=
    forall x, live s x -> attached s x -> ~ reach s x q -> cid_ok H ct s x.

  Lemma reset_cid_repairs : forall fuel s q s' u,
    SInv s -> live s q -> attached s q -> good_below s q ->
    reset_cid H ct fuel s q = Ok s' u ->
    SInv s' /\ cframe s s' /\ forall x, live s' x -> attached s' x -> cid_ok H ct s' x.
  Proof.
    induction fuel; intros s q s' u HS Hl Ha HG E; simpl in E; [discriminate|].
    set (s1 := set_cid H ct s q) in *.
    assert (CF : cframe s s1) by apply cframe_upd.
    assert (HS1 : SInv s1) by (apply (sinv_cframe _ _ CF); exact HS).
    assert (HK : Rank s) by (destruct HS as [_ [A _]]; exact A).
    assert (Hreach : forall a d, reach s1 a d <-> reach s a d).
    { intros a d. split; intros Hr.
      - eapply skel_reach; [apply skel_sym; apply skel_cframe; exact CF | exact Hr].
      - eapply skel_reach; [apply skel_cframe; exact CF | exact Hr]. }
    (* after recomputing q: everything that does not hold q is good, and so is q *)
    assert (Hq1 : cid_ok H ct s1 q).
    { apply cid_ok_set_cid; [exact HK | exact Hl|]. intros k Hk.
      destruct (reach_attached s q k HS Hl Ha (reach_kid _ _ _ Hk)) as [Hka Hkl].
      apply HG; [exact Hkl | exact Hka|]. intros Hr. exact (rank_acyc _ _ _ HK Hk Hr). }
    assert (HG1 : forall x, live s1 x -> attached s1 x -> (~ reach s1 x q \/ x = q) -> cid_ok H ct s1 x).
    { intros x Hlx Hax [Hn| ->]; [|exact Hq1].
      destruct (Nat.eq_dec x q) as [->|Hne]; [exact Hq1|].
      apply cid_ok_set_cid_ne; [exact Hne|]. apply HG.
      - apply (cf_live _ _ CF); exact Hlx.
      - unfold attached in *. rewrite <- (cf_detached _ _ CF). exact Hax.
      - intros Hr. apply Hn. apply Hreach. exact Hr. }
    assert (Hl1 : live s1 q) by (apply (cf_live _ _ CF); exact Hl).
    assert (Ha1 : attached s1 q) by (unfold attached in *; rewrite (cf_detached _ _ CF); exact Ha).
    destruct (parent s1 q) as [q'|] eqn:Hp.
    - (* go on with the parent *)
      assert (Hq' : attached s1 q' /\ live s1 q').
      { destruct HS1 as [HR1 _]. destruct (parent_attached _ _ _ HR1 Hp) as [A _]. split; [exact A|].
        apply attached_reg in A. apply HR1 in A. tauto. }
      destruct Hq' as [Ha' Hl'].
      assert (HG' : good_below s1 q').
      { intros x Hlx Hax Hn. apply HG1; [exact Hlx | exact Hax|].
        destruct (Nat.eq_dec x q) as [->|Hne]; [right; reflexivity|]. left. intros Hr.
        destruct (reach_parent s1 x q HS1 Hlx Hax Hr Hne) as [q'' [Hp'' Hr'']].
        rewrite Hp in Hp''. inversion Hp''; subst q''. contradiction. }
      destruct (IHfuel s1 q' s' u HS1 Hl' Ha' HG' E) as [A [B C]].
      split; [exact A|]. split; [eapply cframe_trans; eassumption | exact C].
    - inversion E; subst s'. split; [exact HS1|]. split; [exact CF|].
      intros x Hlx Hax. apply HG1; [exact Hlx | exact Hax|].
      destruct (Nat.eq_dec x q) as [->|Hne]; [right; reflexivity|]. left. intros Hr.
      destruct (reach_parent s1 x q HS1 Hlx Hax Hr Hne) as [q'' [Hp'' _]]. congruence.
  Qed.
End ResetCid.
