(* C18 round 2: duplicate() preserves Inv2 (no guard: the copies are fresh nodes, built bottom-up; for
   as_detached_clone=False every copied child is an attached root when its parent's copy is constructed). *)
From Oak Require Import Spec.LegacySpec Spec.LegacySpec2 Proofs.LegacyProofs Proofs.LegacyInv Proofs.LegacyHeap
  Proofs.LegacyAttach Proofs.LegacyAttach2 Proofs.LegacyAttach3 Proofs.LegacyConstruct Proofs.LegacyConstruct2.
From Coq Require Import List String Ascii ZArith Bool Arith Lia.
Import ListNotations.

(* ---------- the local loops of duplicate as functions of their own ---------- *)
Section DupLoops.
  Variable rec : st -> nat -> res nat.
  Fixpoint dup_list_w (s : st) (l : list nat) : res (list nat) :=
    match l with
    | [] => Ok s []
    | k :: r => let* (s1, k') := rec s k in
                let* (s2, r') := dup_list_w s1 r in Ok s2 (k' :: r')
    end.
  Definition dup_val_w (s : st) (v : fval) : res fval :=
    match v with
    | FP x => Ok s (FP x)
    | FOne None => Ok s (FOne None)
    | FOne (Some k) => let* (s1, k') := rec s k in Ok s1 (FOne (Some k'))
    | FSeq l => let* (s1, l') := dup_list_w s l in Ok s1 (FSeq l')
    end.
  Fixpoint dup_fields_w (s : st) (fs : list (pystr * fval)) : res (list (pystr * fval)) :=
    match fs with
    | [] => Ok s []
    | (n, v) :: r => let* (s1, v') := dup_val_w s v in
                     let* (s2, r') := dup_fields_w s1 r in Ok s2 ((n, v') :: r')
    end.
End DupLoops.

Lemma duplicate_S H ct f d s a :
  duplicate H ct (S f) d s a =
  (let* (s1, fs') := dup_fields_w (duplicate H ct f d) s (c_fs (cellD s a)) in
   let c1 := cellD s1 a in
   let* (s2, r) := construct H ct s1 (c_cls c1) (c_org c1) fs' (Some (c_id c1)) false false d in
   let ca := cellD s2 a in
   let cr := cellD s2 r in
   Ok (upd s2 r (fun c => with_ids (c_id c)
                                   (if pystr_eqb (c_id cr) (c_id ca) then c_oid ca else Some (c_id ca))
                                   (c_coll ca) c)) r).
Proof. reflexivity. Qed.

(* ---------- states that only grew ---------- *)
Definition fext (s s' : st) : Prop :=
  List.length (heap s) <= List.length (heap s') /\
  forall b, live s b -> c_fs (cellD s' b) = c_fs (cellD s b).
Definition ext (s s' : st) : Prop :=
  fext s s' /\ forall b, live s b -> attached s b -> attached s' b.

Lemma fext_refl s : fext s s. Proof. split; [lia | reflexivity]. Qed.
Lemma fext_trans s1 s2 s3 : fext s1 s2 -> fext s2 s3 -> fext s1 s3.
Proof.
  intros [L1 F1] [L2 F2]. split; [lia|]. intros b Hl. rewrite F2, F1; [reflexivity | exact Hl | unfold live in *; lia].
Qed.
Lemma ext_refl s : ext s s. Proof. split; [apply fext_refl | auto]. Qed.
Lemma ext_trans s1 s2 s3 : ext s1 s2 -> ext s2 s3 -> ext s1 s3.
Proof.
  intros [F1 A1] [F2 A2]. split; [eapply fext_trans; eassumption|].
  intros b Hl Ha. apply A2; [destruct F1 as [L _]; unfold live in *; lia | apply A1; assumption].
Qed.
Lemma fext_live s s' b : fext s s' -> live s b -> live s' b.
Proof. intros [L _] Hl. unfold live in *. lia. Qed.
Lemma fext_skids s s' b : fext s s' -> live s b -> skids s' b = skids s b.
Proof. intros [_ F] Hl. unfold skids, kids, kids_wf. rewrite (F b Hl). reflexivity. Qed.
Lemma kid_live s a k : Rank s -> live s a -> In k (skids s a) -> live s k.
Proof. intros HK _ Hk. eapply rank_kid_live; eassumption. Qed.

Lemma reach_fext_back s s' a x : fext s s' -> Rank s -> live s a -> reach s' a x -> reach s a x.
Proof.
  intros FE HK Hl Hr. induction Hr as [a|a k d Hk Hr IH]; [apply reach_refl|].
  rewrite (fext_skids _ _ _ FE Hl) in Hk. eapply reach_step; [exact Hk|].
  apply IH. eapply kid_live; eassumption.
Qed.
Lemma reach_fext_fwd s s' a x : fext s s' -> Rank s -> live s a -> reach s a x -> reach s' a x.
Proof.
  intros FE HK Hl Hr. induction Hr as [a|a k d Hk Hr IH]; [apply reach_refl|].
  eapply reach_step; [rewrite (fext_skids _ _ _ FE Hl); exact Hk|].
  apply IH. eapply kid_live; eassumption.
Qed.
Lemma tree_shaped_fext s s' a : fext s s' -> Rank s -> live s a -> tree_shaped s a -> tree_shaped s' a.
Proof.
  intros FE HK Hl HT d Hd. apply (reach_fext_back _ _ _ _ FE HK Hl) in Hd.
  assert (Hld := reach_live _ _ _ HK Hl Hd). destruct (HT d Hd) as [Hn Hx].
  rewrite (fext_skids _ _ _ FE Hld). split; [exact Hn|].
  intros k1 k2 x H1 H2 Hne R1 R2. apply (Hx k1 k2 x H1 H2 Hne).
  - eapply reach_fext_back; [exact FE | exact HK | eapply kid_live; eassumption | exact R1].
  - eapply reach_fext_back; [exact FE | exact HK | eapply kid_live; eassumption | exact R2].
Qed.

Lemma nodup_app {A} (l1 l2 : list A) :
  NoDup l1 -> NoDup l2 -> (forall x, In x l1 -> In x l2 -> False) -> NoDup (l1 ++ l2).
Proof.
  induction l1 as [|a l1 IH]; intros N1 N2 Hd; simpl; [exact N2|].
  inversion N1; subst. constructor.
  - intros Hin. apply in_app_or in Hin. destruct Hin as [Hin|Hin]; [contradiction|].
    apply (Hd a); [left; reflexivity | exact Hin].
  - apply IH; [assumption | assumption|]. intros x Hx1 Hx2. apply (Hd x); [right; exact Hx1 | exact Hx2].
Qed.

(* ---------- fresh trees ---------- *)
Definition fresh_tree (d : bool) (lo : nat) (s : st) (k : nat) : Prop :=
  lo <= k /\ live s k /\ tree_shaped s k /\ (forall x, reach s k x -> lo <= x) /\
  (d = false -> forall x, reach s k x -> attached s x).
Definition forest (d : bool) (lo : nat) (s : st) (L : list nat) : Prop :=
  (forall k, In k L -> fresh_tree d lo s k) /\ NoDup L /\
  (forall k1 k2 x, In k1 L -> In k2 L -> k1 <> k2 -> reach s k1 x -> reach s k2 x -> False).

Lemma fresh_tree_ext d lo s s' k : ext s s' -> Rank s -> fresh_tree d lo s k -> fresh_tree d lo s' k.
Proof.
  intros [FE AT] HK [A [B [C [Dd E]]]]. split; [exact A|]. split; [eapply fext_live; eassumption|].
  split; [eapply tree_shaped_fext; eassumption|]. split.
  - intros x Hx. apply Dd. eapply reach_fext_back; eassumption.
  - intros Hd x Hx. apply (reach_fext_back _ _ _ _ FE HK B) in Hx.
    apply AT; [eapply reach_live; eassumption | apply E; assumption].
Qed.
Lemma fresh_tree_lo d lo lo' s k : lo' <= lo -> fresh_tree d lo s k -> fresh_tree d lo' s k.
Proof.
  intros Hle [A [B [C [Dd E]]]]. split; [lia|]. split; [exact B|]. split; [exact C|]. split; [|exact E].
  intros x Hx. apply Dd in Hx. lia.
Qed.
Lemma forest_nil d lo s : forest d lo s [].
Proof. split; [intros ? []|]. split; [constructor | intros ? ? ? []]. Qed.
Lemma forest_one d lo s k : fresh_tree d lo s k -> forest d lo s [k].
Proof.
  intros HF. split; [intros ? [<-|[]]; exact HF|]. split; [constructor; [intros []|constructor]|].
  intros k1 k2 x [<-|[]] [<-|[]] Hne. contradiction.
Qed.
Lemma forest_app d lo s1 s' L1 L2 :
  forest d lo s1 L1 -> ext s1 s' -> Rank s1 -> Rank s' -> lo <= List.length (heap s1) ->
  forest d (List.length (heap s1)) s' L2 -> forest d lo s' (L1 ++ L2).
Proof.
  intros [F1 [N1 D1]] EX HK1 HK' Hlo [F2 [N2 D2]].
  assert (FE := proj1 EX).
  assert (Hlt1 : forall k x, In k L1 -> reach s' k x -> x < List.length (heap s1)).
  { intros k x Hk Hr. destruct (F1 k Hk) as [_ [Hl _]]. apply (reach_fext_back _ _ _ _ FE HK1 Hl) in Hr.
    exact (reach_live _ _ _ HK1 Hl Hr). }
  assert (Hge2 : forall k x, In k L2 -> reach s' k x -> List.length (heap s1) <= x).
  { intros k x Hk Hr. destruct (F2 k Hk) as [_ [_ [_ [Hb _]]]]. apply Hb; exact Hr. }
  split; [|split].
  - intros k Hk. apply in_app_or in Hk. destruct Hk as [Hk|Hk].
    + eapply fresh_tree_ext; [exact EX | exact HK1 | apply F1; exact Hk].
    + eapply fresh_tree_lo; [exact Hlo | apply F2; exact Hk].
  - apply nodup_app; [exact N1 | exact N2|]. intros x H1 H2.
    assert (A := Hlt1 x x H1 (reach_refl _ _)). assert (B := Hge2 x x H2 (reach_refl _ _)). lia.
  - intros k1 k2 x H1 H2 Hne R1 R2. apply in_app_or in H1. apply in_app_or in H2.
    destruct H1 as [H1|H1], H2 as [H2|H2].
    + destruct (F1 k1 H1) as [_ [Hl1 _]]. destruct (F1 k2 H2) as [_ [Hl2 _]].
      apply (D1 k1 k2 x H1 H2 Hne); eapply reach_fext_back; eassumption.
    + assert (A := Hlt1 _ _ H1 R1). assert (B := Hge2 _ _ H2 R2). lia.
    + assert (A := Hlt1 _ _ H2 R2). assert (B := Hge2 _ _ H1 R1). lia.
    + exact (D2 k1 k2 x H1 H2 Hne R1 R2).
Qed.

Lemma enode_index_from (n : pystr) : forall l i,
  map enode (map (fun p : nat * nat => (snd p, n, Some (fst p))) (index_from i l)) = l.
Proof. induction l as [|x l IH]; intros i; simpl; [reflexivity | rewrite IH; reflexivity]. Qed.
Lemma fs_kids_cons n v r : fs_kids ((n, v) :: r) = map enode (fkids (n, v)) ++ fs_kids r.
Proof. unfold fs_kids. simpl. rewrite map_app. reflexivity. Qed.
