(* C18 round 2: under Rank (hence under Inv2) detach(only_self) always returns: the fuel |heap|+1 is enough and the
   KeyError of _nodes.pop cannot happen.  So the outcome premise of the detach step theorems is always met. *)
From Oak Require Import Spec.LegacySpec Spec.LegacySpec2 Proofs.LegacyProofs Proofs.LegacyInv Proofs.LegacyHeap
  Proofs.LegacyDetach Proofs.LegacyAttach2.
From Coq Require Import List String Ascii ZArith Bool Arith Lia.
Import ListNotations.

Lemma detach_loop_total rec os fuel :
  (forall s k, Rank s -> depth_le s fuel k -> exists s1 b, rec s k = Ok s1 b /\ pframe s s1) ->
  forall ks s, Rank s -> (forall k, In k ks -> depth_le s fuel k) -> exists s1 u, detach_loop rec os s ks = Ok s1 u.
Proof.
  intros Hrec. induction ks as [|k ks IH]; intros s HK Hks; simpl; [eauto|].
  assert (PF0 := pframe_clear_parent s k).
  assert (HK1 : Rank (clear_parent s k)) by (eapply Rank_pf; [exact PF0 | exact HK]).
  assert (Hks1 : forall x, In x (k :: ks) -> depth_le (clear_parent s k) fuel x).
  { intros x Hx. eapply depth_le_same_kids; [intros b; apply (pf_skids _ _ PF0) | apply Hks; exact Hx]. }
  destruct os; [apply IH; [exact HK1 | intros x Hx; apply Hks1; right; exact Hx]|].
  destruct (Hrec (clear_parent s k) k HK1) as [s1 [b [E PF]]]; [apply Hks1; left; reflexivity|].
  rewrite E. apply IH; [eapply Rank_pf; eassumption|].
  intros x Hx. eapply depth_le_same_kids; [intros b'; apply (pf_skids _ _ PF) | apply Hks1; right; exact Hx].
Qed.

(* fuel above the depth of the receiver is enough *)
Lemma detach_total : forall fuel os s a, Rank s -> depth_le s fuel a -> exists s1 b, detach (S fuel) os s a = Ok s1 b /\ pframe s s1.
Proof.
  induction fuel; intros os s a HK Hdp.
  - (* no children *)
    simpl. destruct (detached s a) eqn:Hd; [exists s, true; split; [reflexivity | apply pframe_refl]|].
    destruct (is_attached_root s a) eqn:Hroot; simpl; [|exists s, false; split; [reflexivity | apply pframe_refl]].
    simpl in Hdp. destruct (skids s a) as [|k ks] eqn:Ek; [|exfalso; apply (Hdp k); left; reflexivity].
    simpl. assert (Ha : reg_get s (id_of s a) = Some a) by (apply attached_reg; exact Hd).
    rewrite Ha. do 2 eexists. split; [reflexivity | apply pframe_reg_pop].
  - change (detach (S (S fuel)) os s a) with
      (if detached s a then Ok s true
       else if negb (is_attached_root s a) then Ok s false
       else match detach_loop (detach (S fuel) false) os s (skids s a) with
            | Ok s1 _ => match reg_get s1 (id_of s1 a) with
                         | Some _ => Ok (reg_pop s1 (id_of s1 a)) true
                         | None => Er s1 ECrash
                         end
            | Er s1 e => Er s1 e
            | Div => Div
            end).
    destruct (detached s a) eqn:Hd; [exists s, true; split; [reflexivity | apply pframe_refl]|].
    destruct (is_attached_root s a) eqn:Hroot; simpl negb; cbv iota; [|exists s, false; split; [reflexivity | apply pframe_refl]].
    assert (Hks : forall k, In k (skids s a) -> depth_le s fuel k) by (intros k Hk; apply Hdp; exact Hk).
    destruct (detach_loop_total (detach (S fuel) false) os fuel (fun s k => IHfuel false s k) (skids s a) s HK Hks)
      as [s1 [u El]].
    rewrite El.
    destruct (detach_loop_spec _ os (fun s k s1 r => detach_spec (S fuel) false s k s1 r) _ _ _ _ El) as [D [C [R [L K]]]].
    assert (PF := dr_pf _ _ _ _ R).
    assert (Ha : reg_get s (id_of s a) = Some a) by (apply attached_reg; exact Hd).
    assert (Hg : reg_get s1 (id_of s1 a) = Some a).
    { rewrite (pf_id _ _ PF), (dr_reg _ _ _ _ R); [exact Ha|].
      intros d Hdd Ei. assert (Hda := dr_att _ _ _ _ R d Hdd). apply attached_reg in Hda. rewrite Ei, Ha in Hda.
      inversion Hda; subst d.
      apply (dlink_not_above s (skids s a) D a HK (proj1 L)); [|exact Hdd].
      intros r Hr. apply (proj2 HK a r Hr). }
    rewrite Hg. do 2 eexists. split; [reflexivity|]. eapply pframe_trans; [exact PF | apply pframe_reg_pop].
Qed.

Section DetachTotal.
  Variable H : pystr -> pystr.
  Variable ct : ctable.

  (* every detach / detach_self step from an Inv2 state returns a boolean and ends in an Inv2 state *)
  Theorem inv2_step_detach_total s a s' ob :
    Inv2 H ct s -> live s a ->
    (step H ct s (ODetach a) = (s', ob) \/ step H ct s (ODetachSelf a) = (s', ob)) ->
    Inv2 H ct s' /\ exists b, ob = RBool b.
  Proof.
    intros HI Hl E. assert (HK : Rank s) by (destruct HI as [_ [A _]]; exact A).
    assert (Hf : depth_le s (List.length (heap s)) a) by (apply rank_depth; exact HK).
    simpl in E. destruct E as [E|E].
    - destruct (detach_total (List.length (heap s)) false s a HK Hf) as [s1 [b [Ed _]]]. unfold op_detach, fuel_of in E.
      rewrite Ed in E. simpl in E. inversion E; subst. split; [|eauto].
      eapply inv2_step_detach; unfold op_detach; eassumption.
    - destruct (detach_total (List.length (heap s)) true s a HK Hf) as [s1 [b [Ed _]]]. unfold op_detach, fuel_of in E.
      rewrite Ed in E. simpl in E. inversion E; subst. split; [|eauto].
      eapply inv2_step_detach; unfold op_detach; eassumption.
  Qed.
End DetachTotal.
