(* C18 round 2: under Rank (hence under Inv2) detach(only_self) always returns: the fuel |heap|+1 is enough and the
   KeyError of _nodes.pop cannot happen.  So the outcome premise of the detach step theorems is always met. *)
From Oak Require Import Spec.LegacySpec Spec.LegacySpec2 Proofs.LegacyProofs Proofs.LegacyInv Proofs.LegacyHeap
  Proofs.LegacyDetach Proofs.LegacyAttach2.
From Coq Require Import List String Ascii ZArith Bool Arith Lia.
Import ListNotations.

(* nodes popped by the loop over the children of a lie strictly below a *)
Lemma dlink_below s ks D C a :
  Rank s -> dlink s ks ks D C -> (forall k, In k ks -> k < a) -> forall d, In d D -> d < a.
Proof.
  intros HK [LA _] Hks.
  assert (Hmax : forall d, In d D -> d <= list_max D).
  { intros d Hd. assert (Hf := proj1 (list_max_le D (list_max D)) (le_n _)).
    rewrite Forall_forall in Hf. apply Hf; exact Hd. }
  assert (Hall : forall n d, list_max D - d <= n -> In d D -> d < a).
  { induction n; intros d Hle Hd.
    - destruct (LA d Hd) as [Hin|[d' [Hd' Hk]]]; [apply Hks; exact Hin|].
      apply HK in Hk. assert (Hm := Hmax d' Hd'). lia.
    - destruct (LA d Hd) as [Hin|[d' [Hd' Hk]]]; [apply Hks; exact Hin|].
      apply HK in Hk. assert (Hm := Hmax d' Hd'). assert (d' < a) by (apply IHn; [lia | exact Hd']). lia. }
  intros d Hd. apply (Hall (list_max D) d); [lia | exact Hd].
Qed.

Lemma detach_loop_total rec os fuel :
  (forall s k, Rank s -> k < fuel -> exists s1 b, rec s k = Ok s1 b /\ pframe s s1) ->
  forall ks s, Rank s -> (forall k, In k ks -> k < fuel) -> exists s1 u, detach_loop rec os s ks = Ok s1 u.
Proof.
  intros Hrec. induction ks as [|k ks IH]; intros s HK Hks; simpl; [eauto|].
  assert (HK1 : Rank (clear_parent s k)) by (eapply Rank_pf; [apply pframe_clear_parent | exact HK]).
  destruct os; [apply IH; [exact HK1 | intros x Hx; apply Hks; right; exact Hx]|].
  destruct (Hrec (clear_parent s k) k HK1) as [s1 [b [E PF]]]; [apply Hks; left; reflexivity|].
  rewrite E. apply IH; [eapply Rank_pf; eassumption | intros x Hx; apply Hks; right; exact Hx].
Qed.

Lemma detach_total : forall fuel os s a, Rank s -> a < fuel -> exists s1 b, detach fuel os s a = Ok s1 b /\ pframe s s1.
Proof.
  induction fuel; intros os s a HK Hlt; [lia|]. simpl.
  destruct (detached s a) eqn:Hd; [exists s, true; split; [reflexivity | apply pframe_refl]|].
  destruct (is_attached_root s a) eqn:Hroot; simpl; [|exists s, false; split; [reflexivity | apply pframe_refl]].
  assert (Hks : forall k, In k (skids s a) -> k < fuel) by (intros k Hk; apply HK in Hk; lia).
  destruct (detach_loop_total (detach fuel false) os fuel (fun s k => IHfuel false s k) (skids s a) s HK Hks)
    as [s1 [u El]].
  rewrite El.
  destruct (detach_loop_spec _ os (fun s k s1 r => detach_spec fuel false s k s1 r) _ _ _ _ El) as [D [C [R [L K]]]].
  assert (PF := dr_pf _ _ _ _ R).
  assert (Ha : reg_get s (id_of s a) = Some a) by (apply attached_reg; exact Hd).
  assert (Hg : reg_get s1 (id_of s1 a) = Some a).
  { rewrite (pf_id _ _ PF), (dr_reg _ _ _ _ R); [exact Ha|].
    intros d Hdd Ei. assert (Hda := dr_att _ _ _ _ R d Hdd). apply attached_reg in Hda. rewrite Ei, Ha in Hda.
    inversion Hda; subst d.
    assert (Hlt' := dlink_below s (skids s a) D C a HK L (fun k Hk => HK _ _ Hk) a Hdd). lia. }
  rewrite Hg. do 2 eexists. split; [reflexivity|]. eapply pframe_trans; [exact PF | apply pframe_reg_pop].
Qed.

Section DetachTotal.
  Variable H : pystr -> pystr.
  Variable ct : ctable.

  (* every detach / detach_self step from an Inv2 state returns a boolean and ends in an Inv2 state *)
  Theorem inv2_step_detach_total s a s' ob :
    Inv2 H ct s -> live s a ->
    (step H ct s (ODetach a) = (s', ob) \/ step H ct s (ODetachSelf a) = (s', ob)) ->
    Inv2 H ct s' /\ exists b, ob = RBool b.
  Proof.
    intros HI Hl E. assert (HK : Rank s) by (destruct HI as [_ [A _]]; exact A).
    assert (Hf : a < fuel_of s) by (unfold fuel_of, live in *; lia).
    simpl in E. destruct E as [E|E].
    - destruct (detach_total (fuel_of s) false s a HK Hf) as [s1 [b [Ed _]]]. unfold op_detach in E.
      rewrite Ed in E. simpl in E. inversion E; subst. split; [|eauto].
      eapply inv2_step_detach; unfold op_detach; eassumption.
    - destruct (detach_total (fuel_of s) true s a HK Hf) as [s1 [b [Ed _]]]. unfold op_detach in E.
      rewrite Ed in E. simpl in E. inversion E; subst. split; [|eauto].
      eapply inv2_step_detach; unfold op_detach; eassumption.
  Qed.
End DetachTotal.
