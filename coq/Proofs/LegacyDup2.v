(* C18 round 2: duplicate() preserves Inv2, part 2: the induction. *)
From Oak Require Import Spec.LegacySpec Spec.LegacySpec2 Proofs.LegacyProofs Proofs.LegacyInv Proofs.LegacyHeap
  Proofs.LegacyAttach Proofs.LegacyAttach2 Proofs.LegacyAttach3 Proofs.LegacyConstruct Proofs.LegacyConstruct2
  Proofs.LegacyDup.
From Coq Require Import List String Ascii ZArith Bool Arith Lia.
Import ListNotations.

Section Dup.
  Variable H : pystr -> pystr.
  Variable ct : ctable.

  (* what every successful constructor does to the skeleton, guards or not *)
  Lemma construct_skel s cls org fs idarg eu ad cd s' r :
    construct H ct s cls org fs idarg eu ad cd = Ok s' r ->
    r = List.length (heap s) /\ List.length (heap s') = S (List.length (heap s)) /\
    (forall b, live s b -> c_fs (cellD s' b) = c_fs (cellD s b)) /\ c_fs (cellD s' r) = fs.
  Proof.
    intros E. destruct (construct_ok _ _ _ _ _ _ _ _ _ _ _ _ E) as [-> [new_id [oid [coll Hcase]]]].
    cbv zeta in Hcase. split; [reflexivity|].
    set (c1 := fresh_cell cls org fs idarg new_id oid coll) in *.
    destruct Hcase as [[-> ->]|[-> [s2 [u [Ea ->]]]]].
    - assert (CF : cframe (push s c1) (set_cid H ct (push s c1) (List.length (heap s)))) by apply cframe_upd.
      exact (push_then_frames s c1 _ _ (pframe_refl _) CF).
    - assert (PF := attach_pframe (push s c1) (List.length (heap s))).
      rewrite Ea in PF. simpl in PF.
      assert (CF : cframe s2 (set_cid H ct s2 (List.length (heap s)))) by apply cframe_upd.
      exact (push_then_frames s c1 _ _ PF CF).
  Qed.

  Lemma inv2_upd_ids s a o k : Inv2 H ct s -> Inv2 H ct (upd s a (fun c => with_ids (c_id c) o k c)).
  Proof.
    intros HI. assert (CF := cframe_upd_ids s a o k). apply Inv2_split in HI. destruct HI as [HS HC].
    apply Inv2_split. split; [apply (sinv_cframe _ _ CF); exact HS|].
    intros x Hl Ha. apply (cf_live _ _ CF) in Hl. unfold attached in Ha. rewrite (cf_detached _ _ CF) in Ha.
    unfold cid_ok. rewrite (tree_cid_cframe H ct _ _ x CF), <- (HC x Hl Ha).
    rewrite cellD_upd. destruct (Nat.eqb a x && Nat.ltb a (List.length (heap s))); reflexivity.
  Qed.

  Variable d : bool.
  Definition dup_post (s s' : st) (L : list nat) : Prop :=
    Inv2 H ct s' /\ ext s s' /\ forest d (List.length (heap s)) s' L.

  Lemma inv2_rank s : Inv2 H ct s -> Rank s. Proof. intros [_ [A _]]; exact A. Qed.

  Lemma dup_post_app s s1 s2 L1 L2 : dup_post s s1 L1 -> dup_post s1 s2 L2 -> dup_post s s2 (L1 ++ L2).
  Proof.
    intros [I1 [E1 F1]] [I2 [E2 F2]]. split; [exact I2|]. split; [eapply ext_trans; eassumption|].
    eapply forest_app; try eassumption; try (apply inv2_rank; assumption). exact (proj1 (proj1 E1)).
  Qed.
  Lemma dup_post_nil s : Inv2 H ct s -> dup_post s s [].
  Proof. intros HI. split; [exact HI|]. split; [apply ext_refl | apply forest_nil]. Qed.

  Section Loops.
    Variable rec : st -> nat -> res nat.
    Hypothesis Hrec : forall s k s1 k', Inv2 H ct s -> rec s k = Ok s1 k' -> dup_post s s1 [k'].

    Lemma dup_list_post : forall l s s' l', Inv2 H ct s -> dup_list_w rec s l = Ok s' l' -> dup_post s s' l'.
    Proof.
      induction l as [|k r IH]; intros s s' l' HI E; simpl in E.
      - inversion E; subst. apply dup_post_nil; exact HI.
      - destruct (rec s k) as [s1 k'|s1 e|] eqn:Er; simpl in E; try discriminate.
        destruct (dup_list_w rec s1 r) as [s2 r'|s2 e|] eqn:El; simpl in E; try discriminate.
        inversion E; subst. assert (P1 := Hrec _ _ _ _ HI Er).
        change (k' :: r') with ([k'] ++ r'). eapply dup_post_app; [exact P1|].
        eapply IH; [exact (proj1 P1) | exact El].
    Qed.

    Lemma dup_val_post n v s s' v' :
      Inv2 H ct s -> dup_val_w rec s v = Ok s' v' -> dup_post s s' (map enode (fkids (n, v'))).
    Proof.
      intros HI E. destruct v as [x|[k|]|l]; simpl in E.
      - inversion E; subst. apply dup_post_nil; exact HI.
      - destruct (rec s k) as [s1 k'|s1 e|] eqn:Er; simpl in E; try discriminate.
        inversion E; subst. exact (Hrec _ _ _ _ HI Er).
      - inversion E; subst. apply dup_post_nil; exact HI.
      - destruct (dup_list_w rec s l) as [s1 l'|s1 e|] eqn:El; simpl in E; try discriminate.
        inversion E; subst. unfold fkids; simpl. rewrite enode_index_from. eapply dup_list_post; eassumption.
    Qed.

    Lemma dup_fields_post : forall fs s s' fs',
      Inv2 H ct s -> dup_fields_w rec s fs = Ok s' fs' -> dup_post s s' (fs_kids fs').
    Proof.
      induction fs as [|[n v] r IH]; intros s s' fs' HI E; simpl in E.
      - inversion E; subst. apply dup_post_nil; exact HI.
      - destruct (dup_val_w rec s v) as [s1 v'|s1 e|] eqn:Ev; simpl in E; try discriminate.
        destruct (dup_fields_w rec s1 r) as [s2 r'|s2 e|] eqn:Ef; simpl in E; try discriminate.
        inversion E; subst. rewrite fs_kids_cons. assert (P1 := dup_val_post n _ _ _ _ HI Ev).
        eapply dup_post_app; [exact P1|]. eapply IH; [exact (proj1 P1) | exact Ef].
    Qed.
  End Loops.

  Theorem dup_node_post : forall fuel s a s' r,
    Inv2 H ct s -> duplicate H ct fuel d s a = Ok s' r -> dup_post s s' [r].
  Proof.
    induction fuel; intros s a s' r HI E; [discriminate|].
    rewrite duplicate_S in E.
    destruct (dup_fields_w (duplicate H ct fuel d) s (c_fs (cellD s a))) as [s1 fs'|s1 e|] eqn:Ef; simpl in E;
      try discriminate.
    destruct (dup_fields_post _ IHfuel _ _ _ _ HI Ef) as [HI1 [EX1 [FT [FN FD]]]].
    set (L := fs_kids fs') in *.
    match type of E with context [construct H ct s1 ?cls ?org fs' ?ida false false d] =>
      destruct (construct H ct s1 cls org fs' ida false false d) as [s2 r0|s2 e|] eqn:Ec end; simpl in E;
      try discriminate.
    inversion E; subst s' r. clear E.
    destruct (construct_skel _ _ _ _ _ _ _ _ _ _ Ec) as [Er0 [Hlen2 [FSold FSnew]]].
    assert (HK1 := inv2_rank _ HI1).
    assert (FE12 : fext s1 s2) by (split; [lia | exact FSold]).
    assert (Hsk : skids s2 r0 = L).
    { unfold skids, kids, kids_wf. rewrite FSnew. reflexivity. }
    assert (HLl : forall k, In k L -> live s1 k) by (intros k Hk; destruct (FT k Hk) as [_ [A _]]; exact A).
    (* everything below the new node is the node itself or lies below one of the copied children *)
    assert (Hkr : forall x, reach s2 r0 x -> x = r0 \/ exists k, In k L /\ reach s1 k x).
    { intros x Hr. destruct (reach_inv _ _ _ Hr) as [->|[k [Hk Hrk]]]; [left; reflexivity|].
      rewrite Hsk in Hk. right. exists k. split; [exact Hk|].
      eapply reach_fext_back; [exact FE12 | exact HK1 | apply HLl; exact Hk | exact Hrk]. }
    assert (GT : tree_shaped s2 r0).
    { intros dd Hr. destruct (Hkr dd Hr) as [->|[k [Hk Hrk]]].
      - rewrite Hsk. split; [exact FN|]. intros k1 k2 x H1 H2 Hne R1 R2.
        apply (FD k1 k2 x H1 H2 Hne); eapply reach_fext_back; try eassumption; apply HLl; assumption.
      - destruct (FT k Hk) as [_ [Hlk [Htk _]]].
        apply (tree_shaped_fext _ _ _ FE12 HK1 Hlk Htk).
        eapply reach_fext_fwd; eassumption. }
    assert (Hbelow_att : d = false -> forall x, reach s2 r0 x -> x <> r0 -> attached s1 x).
    { intros Hd x Hr Hne. destruct (Hkr x Hr) as [->|[k [Hk Hrk]]]; [contradiction|].
      destruct (FT k Hk) as [_ [_ [_ [_ Hat]]]]. apply Hat; assumption. }
    assert (HG : d = false -> new_guard H ct s1 s2 r0).
    { intros Hd. split; [exact GT|]. split.
      - intros d0 d' R1 R2 Hne Hdet. exfalso.
        assert (Hat : attached s1 d').
        { destruct (Hkr d0 R1) as [->|[k [Hk Hrk]]].
          - apply (Hbelow_att Hd d' R2). intros ->. apply Hne; reflexivity.
          - destruct (FT k Hk) as [_ [Hlk [_ [_ Hat]]]]. apply (Hat Hd).
            eapply reach_trans; [exact Hrk|].
            eapply reach_fext_back; [exact FE12 | exact HK1 | eapply reach_live; eassumption | exact R2]. }
        unfold attached in Hat. congruence.
      - intros x Hr Hne Hdet. exfalso. assert (Hat := Hbelow_att Hd x Hr Hne). unfold attached in Hat. congruence. }
    assert (Hkl : kids_live s1 fs') by (intros k Hk; apply HLl; exact Hk).
    destruct (construct_full H ct _ _ _ _ _ _ _ _ _ _ HI1 Hkl Ec HG) as [HI2 [_ [_ [_ [_ [Hatt Har]]]]]].
    assert (EX12 : ext s1 s2) by (split; [exact FE12 | exact Hatt]).
    match goal with |- dup_post s (upd s2 r0 (fun c => with_ids (c_id c) ?o ?k c)) [r0] =>
      set (oo := o); set (kk := k) end.
    set (s3 := upd s2 r0 (fun c => with_ids (c_id c) oo kk c)).
    assert (CF : cframe s2 s3) by apply cframe_upd_ids.
    assert (HI3 : Inv2 H ct s3) by (apply inv2_upd_ids; exact HI2).
    assert (EX23 : ext s2 s3).
    { split; [split|].
      - rewrite (proj1 (proj2 CF)). lia.
      - intros b _. apply (cf_fs _ _ CF).
      - intros b _ Ha. unfold attached. rewrite (cf_detached _ _ CF). exact Ha. }
    split; [exact HI3|]. split; [eapply ext_trans; [exact EX1 | eapply ext_trans; eassumption]|].
    apply forest_one.
    assert (Hlo : List.length (heap s) <= List.length (heap s1)) by exact (proj1 (proj1 EX1)).
    split; [lia|]. split; [unfold live; rewrite (proj1 (proj2 CF)); lia|].
    split; [eapply tree_shaped_skel; [apply skel_cframe; exact CF | exact GT]|]. split.
    - intros x Hr. apply (skel_reach _ _ _ _ (skel_sym _ _ (skel_cframe _ _ CF))) in Hr.
      destruct (Hkr x Hr) as [->|[k [Hk Hrk]]]; [lia|].
      destruct (FT k Hk) as [_ [_ [_ [Hb _]]]]. apply Hb; exact Hrk.
    - intros Hd x Hr. apply (skel_reach _ _ _ _ (skel_sym _ _ (skel_cframe _ _ CF))) in Hr.
      unfold attached. rewrite (cf_detached _ _ CF).
      destruct (Nat.eq_dec x r0) as [->|Hne]; [apply Har; exact Hd|].
      assert (Hat := Hbelow_att Hd x Hr Hne). apply Hatt; [|exact Hat].
      destruct (Hkr x Hr) as [->|[k [Hk Hrk]]]; [contradiction|].
      eapply reach_live; [exact HK1 | apply HLl; exact Hk | exact Hrk].
  Qed.

  Theorem inv2_step_duplicate s a s' r : Inv2 H ct s -> op_duplicate H ct d s a = Ok s' r -> Inv2 H ct s'.
  Proof. intros HI E. exact (proj1 (dup_node_post _ _ _ _ _ HI E)). Qed.
End Dup.
