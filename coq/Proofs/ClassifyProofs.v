(* Proofs for C11: the transcription of typing.py's classification (Model/Classify.v) against the grammar
   predicates of Spec/AnnotSpec.v, for annotation terms of every depth. *)
From Oak Require Import Model.Classify Spec.AnnotSpec.

(* ---------- induction over annotation terms (nested lists) ---------- *)
Section TyInd.
Variable P : ty -> Prop.
Hypothesis Hs : forall k, P (TScalar k).
Hypothesis Hany : P TAny.
Hypothesis Hnone : P TNoneT.
Hypothesis Hlit : forall vs, P (TLiteral vs).
Hypothesis Henum : forall c, P (TEnum c).
Hypothesis Hnt : forall t, P t -> P (TNewType t).
Hypothesis Hu : forall ts, Forall P ts -> P (TUnion ts).
Hypothesis Ht : forall ts, Forall P ts -> P (TTuple ts).
Hypothesis Htv : forall t, P t -> P (TTupleVar t).
Hypothesis Hg : forall c ts, Forall P ts -> P (TGen c ts).
Hypothesis Hb : forall c, P (TBare c).
Hypothesis Hn : forall c, P (TNode c).
Hypothesis Hf : forall c, P (TFwd c).
Fixpoint ty_ind' (t : ty) : P t :=
  let fix go (l : list ty) : Forall P l :=
    match l with
    | [] => Forall_nil P
    | x :: r => Forall_cons x (ty_ind' x) (go r)
    end in
  match t with
  | TScalar k => Hs k | TAny => Hany | TNoneT => Hnone | TLiteral vs => Hlit vs | TEnum c => Henum c
  | TNewType a => Hnt a (ty_ind' a)
  | TUnion ts => Hu ts (go ts)
  | TTuple ts => Ht ts (go ts)
  | TTupleVar a => Htv a (ty_ind' a)
  | TGen c ts => Hg c ts (go ts)
  | TBare c => Hb c | TNode c => Hn c | TFwd c => Hf c
  end.
End TyInd.

(* no string forward reference left (what get_type_hints returns) *)
Fixpoint fwd_free (t : ty) : bool :=
  match t with
  | TFwd _ => false
  | TNewType a | TTupleVar a => fwd_free a
  | TUnion ts | TTuple ts | TGen _ ts => forallb fwd_free ts
  | _ => true
  end.

Lemma forallb_ext_Forall {A} (f g : A -> bool) l :
  Forall (fun x => f x = g x) l -> forallb f l = forallb g l.
Proof. induction 1; simpl; congruence. Qed.
Lemma existsb_ext_Forall {A} (f g : A -> bool) l :
  Forall (fun x => f x = g x) l -> existsb f l = existsb g l.
Proof. induction 1; simpl; congruence. Qed.
Lemma forallb_negb_existsb {A} (f g : A -> bool) l :
  Forall (fun x => f x = negb (g x)) l -> forallb f l = negb (existsb g l).
Proof. induction 1; simpl; auto. rewrite H, IHForall, negb_orb. reflexivity. Qed.

(* ---------- is_valid_property_type = "mentions no mutable collection" ---------- *)
Lemma vprop_spec : forall t, vprop t = negb (mentions_mutable t).
Proof.
  induction t using ty_ind'; simpl; auto;
    try (destruct k; reflexivity);
    try (apply forallb_negb_existsb; assumption);
    try (destruct (con_mutable c); simpl; auto; apply forallb_negb_existsb; assumption).
Qed.

(* ---------- has_check_type_in_type (repaired, v_nt = true) = "mentions a node class", on resolved terms ---------- *)
Lemma has_node_spec : forall t, fwd_free t = true -> has_node true t = mentions_node t.
Proof.
  induction t using ty_ind'; simpl; intros Hf; auto; try discriminate.
  - apply existsb_ext_Forall. rewrite forallb_forall in Hf. rewrite Forall_forall in *. auto.
  - apply existsb_ext_Forall. rewrite forallb_forall in Hf. rewrite Forall_forall in *. auto.
  - unfold is_node_class; simpl. destruct (typing_alias c);
      apply existsb_ext_Forall; rewrite forallb_forall in Hf; rewrite Forall_forall in *; auto.
  - unfold is_node_class; simpl. destruct (typing_alias c); reflexivity.
Qed.

(* ---------- child shapes ---------- *)
Definition shape (t : ty) : bool :=
  node_elem true t
  || match t with
     | TTupleVar a => node_elem false a
     | TTuple (a :: r) => forallb (node_elem false) (a :: r)
     | _ => false
     end.
Lemma child_shape_unfold t : child_shape t = shape t && mentions_node t.
Proof. reflexivity. Qed.

Lemma is_node_class_is_node a : is_node_class a = is_node a.
Proof. destruct a; try reflexivity; unfold is_node_class; simpl; destruct (typing_alias c); reflexivity. Qed.

Lemma filter_no_none ts : existsb is_noneT ts = false -> filter (fun a => negb (is_noneT a)) ts = ts.
Proof. induction ts; simpl; auto. intros H. apply orb_false_iff in H. destruct H as [H1 H2].
  rewrite H1; simpl. f_equal; auto. Qed.

Lemma node_elem_opt ts : node_elem true (TUnion ts) = forallb (fun a => is_node a || is_noneT a) ts.
Proof. reflexivity. Qed.
Lemma node_elem_noopt ts : node_elem false (TUnion ts) = forallb is_node ts.
Proof. simpl. apply forallb_ext_Forall, Forall_forall. intros x _. simpl. apply orb_false_r. Qed.

Lemma union_members_opt ts :
  forallb is_node_class (filter (fun a => negb (is_noneT a)) ts) = forallb (fun a => is_node a || is_noneT a) ts.
Proof. induction ts as [|a r IH]; simpl; auto. destruct (is_noneT a) eqn:E; simpl.
  - rewrite IH. destruct a; try discriminate. reflexivity.
  - rewrite IH, is_node_class_is_node, orb_false_r. reflexivity. Qed.

Lemma union_members_noopt ts : existsb is_noneT ts = false ->
  forallb is_node_class (filter (fun a => negb (is_noneT a)) ts) = forallb is_node ts.
Proof. intros H. rewrite filter_no_none by assumption. apply forallb_ext_Forall. apply Forall_forall.
  intros x _. apply is_node_class_is_node. Qed.

Lemma opt_not_all_nodes ts : existsb is_noneT ts = true -> forallb is_node ts = false.
Proof. induction ts as [|a r IH]; simpl; try discriminate. intros H. apply orb_true_iff in H. destruct H as [H|H].
  - destruct a; try discriminate. reflexivity.
  - rewrite IH by assumption. apply andb_false_r. Qed.

(* an element of a tuple: _is_valid_child_field_type(t, node, allow_sequence=False) *)
Lemma vchild_elem a : vchild a false = Some ROk <-> node_elem false a = true.
Proof.
  destruct a; try (simpl; split; (discriminate || reflexivity)).
  all: try (rewrite node_elem_noopt; simpl; destruct (existsb is_noneT ts) eqn:E; simpl;
            [ rewrite opt_not_all_nodes by assumption; split; discriminate
            | rewrite union_members_noopt by assumption; destruct (forallb is_node ts); split; auto; discriminate ]).
  all: try (simpl; destruct (con_mutable c); simpl; [split; discriminate|]; destruct (typing_alias c); split; discriminate).
  all: try (destruct c; simpl; split; discriminate).
Qed.

Lemma all_ok_iff l : all_ok l = Some ROk <-> Forall (fun x => x = Some ROk) l.
Proof. induction l as [|x r IH]; simpl.
  - split; auto.
  - destruct x as [[]|]; try (split; [discriminate | intros H; inversion H; discriminate]).
    rewrite IH. split; [intros; constructor; auto | intros H; inversion H; auto]. Qed.

Lemma elems_ok ts : all_ok (map (fun a => vchild a false) ts) = Some ROk <-> forallb (node_elem false) ts = true.
Proof. rewrite all_ok_iff, forallb_forall, Forall_forall. split.
  - intros H x Hx. apply vchild_elem. apply H. apply in_map_iff. eauto.
  - intros H y Hy. apply in_map_iff in Hy. destruct Hy as [x [<- Hx]]. apply vchild_elem. auto. Qed.

(* is_valid_child_field_type answers OK exactly on the child shapes *)
Lemma vchild_top t : vchild t true = Some ROk <-> shape t = true.
Proof.
  unfold shape. destruct t; try (simpl; split; (discriminate || reflexivity)).
  all: try (rewrite node_elem_opt, orb_false_r; simpl; rewrite orb_true_r, union_members_opt;
            destruct (forallb _ ts); split; auto; discriminate).
  all: try (destruct ts as [|a r]; [simpl; split; discriminate|]; apply elems_ok).
  all: try apply vchild_elem.
  all: try (simpl; destruct (con_mutable c); simpl; [split; discriminate|]; destruct (typing_alias c); split; discriminate).
  all: try (destruct c; simpl; split; discriminate).
Qed.

Lemma valid_child_ok t : valid_child t = ROk <-> shape t = true.
Proof. rewrite <- vchild_top. unfold valid_child. destruct (vchild t true) as [r|].
  - split; [intros ->; reflexivity | intros H; inversion H; reflexivity].
  - split; discriminate. Qed.

Lemma elem_has_node vnt opt a : node_elem opt a = true -> has_node vnt a = mentions_node a.
Proof. destruct a; simpl; try discriminate; auto. intros H. apply existsb_ext_Forall. apply Forall_forall. intros x Hx.
  rewrite forallb_forall in H. specialize (H x Hx).
  destruct x; simpl in H; try reflexivity; destruct opt; try discriminate; try reflexivity. Qed.

Lemma shape_has_node vnt t : shape t = true -> has_node vnt t = mentions_node t.
Proof. unfold shape. intros H. apply orb_true_iff in H. destruct H as [H|H].
  - eapply elem_has_node; eauto.
  - destruct t; try discriminate.
    + destruct ts as [|a r]; try discriminate. simpl. change (is_node_class (TTuple (a :: r))) with false. simpl.
      change (has_node vnt a || existsb (has_node vnt) r) with (existsb (has_node vnt) (a :: r)).
      change (mentions_node a || existsb mentions_node r) with (existsb mentions_node (a :: r)).
      apply existsb_ext_Forall. apply Forall_forall. intros x Hx. rewrite forallb_forall in H.
      eapply elem_has_node; eauto.
    + simpl. eapply elem_has_node; eauto. Qed.

(* C11_child_iff: with or without the D14 repair, for every term *)
Theorem child_iff : forall vnt t, classify vnt t = VChild <-> child_shape t = true.
Proof.
  intros vnt t. rewrite child_shape_unfold. unfold classify. split.
  - destruct (has_node vnt t) eqn:Hn.
    + destruct (valid_child t) eqn:Hv; try discriminate. intros _.
      apply valid_child_ok in Hv. rewrite Hv. rewrite <- (shape_has_node vnt) by assumption. rewrite Hn. reflexivity.
    + destruct (vprop t); discriminate.
  - intros H. apply andb_true_iff in H. destruct H as [Hs Hm].
    rewrite (shape_has_node vnt) by assumption. rewrite Hm.
    apply valid_child_ok in Hs. rewrite Hs. reflexivity.
Qed.

(* C11_prop_iff: a property exactly when no node class and no mutable collection is mentioned (repaired has_check) *)
Theorem prop_iff : forall t, fwd_free t = true ->
  (classify true t = VProp <-> mentions_node t = false /\ mentions_mutable t = false).
Proof.
  intros t Hf. unfold classify. rewrite has_node_spec by assumption. rewrite vprop_spec.
  destruct (mentions_node t), (mentions_mutable t); simpl; split; try discriminate; auto; try (intros [? ?]; discriminate).
  destruct (valid_child t); discriminate. destruct (valid_child t); discriminate.
Qed.

(* total: exactly one verdict (classify is a function), and never a property when a node is mentioned *)
Theorem never_silently_prop : forall t, fwd_free t = true -> mentions_node t = true -> classify true t <> VProp.
Proof. intros t Hf Hm H. apply prop_iff in H; auto. destruct H. congruence. Qed.

(* the code as it is (v_nt = false): sound only when no NewType hides a node *)
Fixpoint nt_hides_node (t : ty) : bool :=
  match t with
  | TNewType a => mentions_node a
  | TTupleVar a => nt_hides_node a
  | TUnion ts | TTuple ts | TGen _ ts => existsb nt_hides_node ts
  | _ => false
  end.
Lemma existsb_false_Forall {A} (f : A -> bool) l : existsb f l = false -> Forall (fun x => f x = false) l.
Proof. induction l; simpl; intros H; constructor; apply orb_false_iff in H; tauto. Qed.
Lemma has_node_code : forall t, fwd_free t = true -> nt_hides_node t = false -> has_node false t = mentions_node t.
Proof.
  induction t using ty_ind'; simpl; intros Hf Hh; auto; try discriminate.
  - apply existsb_ext_Forall. rewrite forallb_forall in Hf. apply existsb_false_Forall in Hh.
    rewrite Forall_forall in *. auto.
  - apply existsb_ext_Forall. rewrite forallb_forall in Hf. apply existsb_false_Forall in Hh.
    rewrite Forall_forall in *. auto.
  - unfold is_node_class; simpl. destruct (typing_alias c);
      apply existsb_ext_Forall; rewrite forallb_forall in Hf; apply existsb_false_Forall in Hh;
      rewrite Forall_forall in *; auto.
  - unfold is_node_class; simpl. destruct (typing_alias c); reflexivity.
Qed.
Theorem prop_iff_code_partial : forall t, fwd_free t = true -> nt_hides_node t = false ->
  (classify false t = VProp <-> mentions_node t = false /\ mentions_mutable t = false).
Proof.
  intros t Hf Hh. unfold classify. rewrite has_node_code by assumption. rewrite vprop_spec.
  destruct (mentions_node t), (mentions_mutable t); simpl; split; try discriminate; auto; try (intros [? ?]; discriminate).
  destruct (valid_child t); discriminate. destruct (valid_child t); discriminate.
Qed.

(* ---------- process_node_fields: every field lands in exactly one of children / properties / rejected ---------- *)
Definition verdict_of (v : variant) (f : afield) : verdict := classify (v_nt v) (field_type v f).
Definition is_vchild (x : verdict) : bool := match x with VChild => true | _ => false end.
Definition is_vprop (x : verdict) : bool := match x with VProp => true | _ => false end.
Definition rejects (v : variant) (fs : list afield) : list (pystr * reason) :=
  flat_map (fun f => match verdict_of v f with VReject r => [(af_name f, r)] | _ => [] end) fs.
Definition names_where (p : verdict -> bool) (v : variant) (fs : list afield) : list pystr :=
  map af_name (filter (fun f => p (verdict_of v f)) fs).

Lemma process_fields_spec v fs : forall ch pr bad,
  process_fields v fs ch pr bad =
  match rev bad ++ rejects v fs with
  | [] => OFields (rev ch ++ names_where is_vchild v fs) (rev pr ++ names_where is_vprop v fs)
  | b => OReject b
  end.
Proof.
  induction fs as [|f r IH]; intros ch pr bad; simpl.
  - unfold names_where; simpl. rewrite !app_nil_r. destruct bad as [|b bad]; simpl; auto.
    destruct (rev bad ++ [b]) eqn:E; auto. destruct (rev bad); discriminate.
  - unfold rejects, names_where, verdict_of in *. simpl.
    destruct (classify (v_nt v) (field_type v f)) eqn:E; rewrite IH; simpl.
    + rewrite <- !app_assoc. reflexivity.
    + rewrite <- !app_assoc. reflexivity.
    + rewrite <- !app_assoc. reflexivity.
Qed.

Theorem first_use_spec : forall v fs,
  first_use v fs =
  match rejects v fs with
  | [] => OFields (names_where is_vchild v fs) (names_where is_vprop v fs)
  | b => OReject b
  end.
Proof. intros. unfold first_use. rewrite process_fields_spec. reflexivity. Qed.

(* each field: exactly one verdict, and a rejected field makes the first use raise, naming it *)
Theorem total_partition : forall v f,
  (is_vchild (verdict_of v f) = true /\ is_vprop (verdict_of v f) = false /\ (forall r, verdict_of v f <> VReject r))
  \/ (is_vchild (verdict_of v f) = false /\ is_vprop (verdict_of v f) = true /\ (forall r, verdict_of v f <> VReject r))
  \/ (is_vchild (verdict_of v f) = false /\ is_vprop (verdict_of v f) = false /\ exists r, verdict_of v f = VReject r).
Proof. intros. destruct (verdict_of v f) eqn:E; simpl.
  - left. repeat split; discriminate.
  - right; left. repeat split; discriminate.
  - right; right. repeat split; eauto. Qed.

Lemma in_rejects v fs f r : In f fs -> verdict_of v f = VReject r -> In (af_name f, r) (rejects v fs).
Proof. intros Hi Hv. unfold rejects. apply in_flat_map. exists f. split; auto. rewrite Hv. left; reflexivity. Qed.

Theorem reject_by_first_use : forall v fs f r, In f fs -> verdict_of v f = VReject r ->
  exists bad, first_use v fs = OReject bad /\ In (af_name f, r) bad.
Proof. intros. rewrite first_use_spec. pose proof (in_rejects v fs f r H H0) as Hin.
  destruct (rejects v fs) eqn:E; [inversion Hin|]. eexists; split; eauto. Qed.

Theorem accepted_fields_partition : forall v fs ch pr, first_use v fs = OFields ch pr ->
  ch = names_where is_vchild v fs /\ pr = names_where is_vprop v fs /\
  forall f, In f fs -> (is_vchild (verdict_of v f) || is_vprop (verdict_of v f)) = true.
Proof. intros v fs ch pr H. rewrite first_use_spec in H. destruct (rejects v fs) eqn:E; [|discriminate].
  inversion H; subst. repeat split; auto. intros f Hf. destruct (verdict_of v f) eqn:Ev; auto.
  pose proof (in_rejects v fs f r Hf Ev) as Hin. rewrite E in Hin. inversion Hin. Qed.

(* ---------- definition time vs first use (property side: both repairs) ---------- *)
Lemma def_bad_as_property f :
  def_bad true f = match verdict_of as_property f with VReject r => [(af_name f, r)] | _ => [] end.
Proof. unfold def_bad, verdict_of, field_type. simpl. rewrite orb_true_r. reflexivity. Qed.

Theorem def_agrees_first_use : forall bound anns fs,
  match def_check as_property bound anns fs with
  | DReject bad => first_use as_property fs = OReject bad
  | DOk => exists ch pr, first_use as_property fs = OFields ch pr
  | DSkipped => True
  end.
Proof.
  intros. unfold def_check. destruct (forallb _ anns); auto. rewrite first_use_spec.
  replace (flat_map (def_bad (v_nt as_property)) fs) with (rejects as_property fs).
  2:{ unfold rejects. induction fs; simpl; auto. rewrite IHfs, def_bad_as_property. reflexivity. }
  destruct (rejects as_property fs); eauto.
Qed.

(* ---------- plain vs postponed ---------- *)
Theorem plain_eq_postponed : forall n t,
  field_type as_property {| af_name := n; af_quoted := false; af_ty := t |} =
  field_type as_property {| af_name := n; af_quoted := true; af_ty := t |}.
Proof. reflexivity. Qed.
(* hence the same verdict, whatever the spelling of the forward references *)
Theorem plain_eq_postponed_verdict : forall n t,
  verdict_of as_property {| af_name := n; af_quoted := false; af_ty := t |} =
  verdict_of as_property {| af_name := n; af_quoted := true; af_ty := t |}.
Proof. reflexivity. Qed.

Lemma resolve_deep_id : forall t, fwd_free t = true -> resolve_deep t = t.
Proof.
  induction t using ty_ind'; simpl; intros Hf; auto; try discriminate.
  - f_equal. rewrite forallb_forall in Hf. rewrite Forall_forall in H. induction ts; simpl; auto.
    f_equal; [apply H; simpl; auto; apply Hf; simpl; auto|]. apply IHts; intros; [apply H | apply Hf]; simpl; auto.
  - f_equal. rewrite forallb_forall in Hf. rewrite Forall_forall in H. induction ts; simpl; auto.
    f_equal; [apply H; simpl; auto; apply Hf; simpl; auto|]. apply IHts; intros; [apply H | apply Hf]; simpl; auto.
  - f_equal; auto.
  - f_equal. rewrite forallb_forall in Hf. rewrite Forall_forall in H. induction ts; simpl; auto.
    f_equal; [apply H; simpl; auto; apply Hf; simpl; auto|]. apply IHts; intros; [apply H | apply Hf]; simpl; auto.
Qed.

(* the code as it is agrees on every annotation whose strings are all at the top *)
Theorem plain_eq_postponed_code_partial : forall n t, (fwd_free t = true \/ exists c, t = TFwd c) ->
  field_type as_code {| af_name := n; af_quoted := false; af_ty := t |} =
  field_type as_code {| af_name := n; af_quoted := true; af_ty := t |}.
Proof. intros n t [H|[c ->]]; unfold field_type; simpl; auto. rewrite resolve_deep_id by assumption.
  destruct t; try reflexivity; discriminate. Qed.

(* ---------- NewType ---------- *)
Theorem newtype_transparent : forall v n q t, fwd_free t = true ->
  field_type v {| af_name := n; af_quoted := q; af_ty := TNewType t |} =
  field_type v {| af_name := n; af_quoted := q; af_ty := t |}.
Proof. intros v n q t Hf. unfold field_type; simpl. rewrite resolve_deep_id by assumption.
  destruct (q || v_fwd v); simpl; auto. destruct t; try reflexivity; discriminate. Qed.

(* ---------- inheritance ---------- *)
Lemma upsert_in f g l : In g (upsert_af f l) -> g = f \/ In g l.
Proof. induction l as [|x r IH]; simpl; intros H.
  - destruct H; auto.
  - destruct (pystr_eqb (af_name x) (af_name f)); simpl in H; destruct H; auto. apply IH in H. tauto. Qed.
Theorem merge_in : forall own acc g, In g (merge_af acc own) -> In g acc \/ In g own.
Proof. unfold merge_af. induction own as [|f r IH]; simpl; intros acc g H; auto.
  apply IH in H. destruct H; auto. apply upsert_in in H. destruct H; auto. Qed.
Lemma upsert_names f l : exists extra, map af_name (upsert_af f l) = map af_name l ++ extra.
Proof. induction l as [|x r [e IH]]; simpl.
  - eexists; reflexivity.
  - destruct (pystr_eqb (af_name x) (af_name f)) eqn:E; simpl.
    + apply pystr_eqb_eq in E. exists []. rewrite app_nil_r, E. reflexivity.
    + exists e. rewrite IH. reflexivity. Qed.
Theorem merge_keeps_positions : forall own acc, exists extra, map af_name (merge_af acc own) = map af_name acc ++ extra.
Proof. unfold merge_af. induction own as [|f r IH]; simpl; intros acc.
  - exists []. rewrite app_nil_r. reflexivity.
  - destruct (IH (upsert_af f acc)) as [e He]. destruct (upsert_names f acc) as [e' He'].
    exists (e' ++ e). rewrite He, He', app_assoc. reflexivity. Qed.

(* ---------- refutations of the code as it is ---------- *)
Definition wit_d14 : ty := TTupleVar (TNewType (TNode (lit "A"))).
Lemma refuted_nested_newtype : classify false wit_d14 = VProp /\ mentions_node wit_d14 = true.
Proof. vm_compute. split; reflexivity. Qed.
Definition wit_d20 : ty := TUnion [TFwd (lit "A"); TNoneT].
Lemma refuted_nested_fwd :
  verdict_of as_code {| af_name := lit "x"; af_quoted := false; af_ty := wit_d20 |} = VProp /\
  verdict_of as_code {| af_name := lit "x"; af_quoted := true; af_ty := wit_d20 |} = VChild.
Proof. vm_compute. split; reflexivity. Qed.
