(* C06: non-vacuity witnesses.  The instance is the tree of Model/TreeQ.v: class table L, M (a subclass of L), P (a
   mandatory child and a tuple child); ex_root = P1(child = P2(child = L3, items = ()), items = (L4, M5, L6)), three
   levels, content-identical twins L3 / L4 / L6.  w6_t is the table Tree(ex_root) builds.  For every theorem of
   Props/C06.v all its premises are shown together, and the query the theorem speaks about is computed (a
   non-degenerate value). *)
From Oak Require Import Spec.PathSem Proofs.TraverseProofs Proofs.TreeQProofs Spec.XpathText Proofs.XpathInjProofs.
From Coq Require Import List Arith Lia.
Import ListNotations.

Definition w6_p2 : node := ex_p 2 (ex_leaf 3 "L") [].
Definition w6_ti2 : tinfo := {| ti_node := w6_p2; ti_parent := ex_root; ti_field := lit "child"; ti_index := None |}.
Definition w6_ti3 : tinfo := {| ti_node := ex_leaf 3 "L"; ti_parent := w6_p2; ti_field := lit "child"; ti_index := None |}.
Definition w6_ti4 : tinfo := {| ti_node := ex_leaf 4 "L"; ti_parent := ex_root; ti_field := lit "items"; ti_index := Some 0 |}.
Definition w6_ti5 : tinfo := {| ti_node := ex_leaf 5 "M"; ti_parent := ex_root; ti_field := lit "items"; ti_index := Some 1 |}.
Definition w6_ti6 : tinfo := {| ti_node := ex_leaf 6 "L"; ti_parent := ex_root; ti_field := lit "items"; ti_index := Some 2 |}.
Definition w6_t : ptree :=
  match tree_build ex_ct ex_root with Some t => t | None => {| t_root := ex_root; t_pinfo := []; t_xpath := [] |} end.

Lemma w6_wf : wf_node ex_ct ex_root = true. Proof. vm_compute. reflexivity. Qed.
Lemma w6_nodup : nodup_tree ex_root. Proof. exact (proj1 (proj2 premises_inhabited)). Qed.

(* C06_build: premises, and the table it builds has all six nodes *)
Lemma w6_build : wf_node ex_ct ex_root = true /\ nodup_tree ex_root /\ size ex_root = 6
  /\ tree_build ex_ct ex_root = Some w6_t /\ length (t_xpath w6_t) = 6 /\ length (t_pinfo w6_t) = 5.
Proof. split; [exact w6_wf|]. split; [exact w6_nodup|]. vm_compute. repeat split. Qed.

Lemma w6_is_tree : is_tree ex_root w6_t.
Proof.
  destruct (build_ok ex_ct ex_root w6_wf w6_nodup) as (t & E & T). unfold w6_t. rewrite E. exact T.
Qed.

Lemma w6_path3 : path ex_root [w6_ti2; w6_ti3] (ex_leaf 3 "L").
Proof. econstructor; [vm_compute; auto|]. econstructor; [vm_compute; auto|]. constructor. Qed.
Lemma w6_path2 : path ex_root [w6_ti2] w6_p2.
Proof. econstructor; [vm_compute; auto|]. constructor. Qed.
Lemma w6_path23 : path w6_p2 [w6_ti3] (ex_leaf 3 "L").
Proof. econstructor; [vm_compute; auto|]. constructor. Qed.
Lemma w6_path5 : path ex_root [w6_ti5] (ex_leaf 5 "M").
Proof. econstructor; [vm_compute; auto 6|]. constructor. Qed.
Lemma w6_path6 : path ex_root [w6_ti6] (ex_leaf 6 "L").
Proof. econstructor; [vm_compute; auto 6|]. constructor. Qed.
Lemma w6_foreign : foreign ex_root (ex_leaf 9 "L").
Proof. exact (proj2 (proj2 (proj2 premises_inhabited))). Qed.

(* C06_in_tree, C06_is_root: is_tree; both answers occur *)
Lemma w6_in_tree : is_tree ex_root w6_t
  /\ is_in_tree w6_t (ex_leaf 3 "L") = true /\ is_in_tree w6_t (ex_leaf 9 "L") = false
  /\ is_root w6_t ex_root = true /\ is_root w6_t (ex_leaf 3 "L") = false.
Proof. split; [exact w6_is_tree|]. vm_compute. repeat split. Qed.

(* C06_parent_info, C06_parent, C06_ancestors_chain, C06_is_ancestor, C06_first_ancestor_of_type, C06_depth_abs,
   C06_xpath_spells: nodup_tree, is_tree and a path of two steps (and one through a tuple position); the results *)
Lemma w6_upward : nodup_tree ex_root /\ is_tree ex_root w6_t
  /\ path ex_root [w6_ti2; w6_ti3] (ex_leaf 3 "L") /\ path ex_root [w6_ti5] (ex_leaf 5 "M")
  /\ get_parent_info w6_t (ex_leaf 3 "L") = Ok (Some w6_ti3)
  /\ get_parent w6_t (ex_leaf 5 "M") = Ok (Some ex_root)
  /\ get_ancestors w6_t (ex_leaf 3 "L") = Some (Ok [w6_p2; ex_root])
  /\ is_ancestor w6_t (ex_leaf 3 "L") w6_p2 = Some (Ok true)
  /\ is_ancestor w6_t (ex_leaf 3 "L") (ex_leaf 4 "L") = Some (Ok false)
  /\ get_first_ancestor_of_type ex_ct w6_t (ex_leaf 3 "L") [lit "P"] true = Some (Ok (Some w6_p2))
  /\ get_first_ancestor_of_type ex_ct w6_t (ex_leaf 3 "L") [lit "L"] false = Some (Ok None)
  /\ depth w6_t (ex_leaf 3 "L") None true = Some (Ok 2)
  /\ get_xpath w6_t (ex_leaf 5 "M") = Ok (lit "/@root[0]P/@items[1]M").
Proof.
  split; [exact w6_nodup|]. split; [exact w6_is_tree|]. split; [exact w6_path3|]. split; [exact w6_path5|].
  vm_compute. repeat split.
Qed.

(* C06_depth_rel: the path to an inner node r, a non-empty path below it *)
Lemma w6_depth_rel : nodup_tree ex_root /\ is_tree ex_root w6_t
  /\ path ex_root [w6_ti2] w6_p2 /\ path w6_p2 [w6_ti3] (ex_leaf 3 "L") /\ [w6_ti3] <> []
  /\ depth w6_t (ex_leaf 3 "L") (Some w6_p2) true = Some (Ok 1)
  /\ depth w6_t (ex_leaf 3 "L") (Some w6_p2) false = Some (Ok 1).
Proof.
  split; [exact w6_nodup|]. split; [exact w6_is_tree|]. split; [exact w6_path2|]. split; [exact w6_path23|].
  split; [discriminate|]. vm_compute. split; reflexivity.
Qed.

(* C06_rel_nonancestor_valueerror: r = L4 is in the tree and no ancestor of L3 *)
Lemma w6_nonancestor : nodup_tree ex_root /\ is_tree ex_root w6_t
  /\ path ex_root [w6_ti2; w6_ti3] (ex_leaf 3 "L")
  /\ existsb (same (ex_leaf 4 "L")) (ups [w6_ti2; w6_ti3]) = false
  /\ is_in_tree w6_t (ex_leaf 4 "L") = true
  /\ depth w6_t (ex_leaf 3 "L") (Some (ex_leaf 4 "L")) true = Some ValueError.
Proof.
  split; [exact w6_nodup|]. split; [exact w6_is_tree|]. split; [exact w6_path3|]. vm_compute. repeat split.
Qed.

(* C06_foreign_keyerror *)
Lemma w6_foreign_ok : is_tree ex_root w6_t /\ foreign ex_root (ex_leaf 9 "L")
  /\ get_xpath w6_t (ex_leaf 9 "L") = KeyError /\ get_ancestors w6_t (ex_leaf 9 "L") = Some KeyError.
Proof. split; [exact w6_is_tree|]. split; [exact w6_foreign|]. vm_compute. split; reflexivity. Qed.

(* C06_xpath_injective_partial, C06_xpath_follow, C06_xpath_injective: two paths to one node object.  By the conclusion
   these can only be the same path (that is the point of the theorems: used contrapositively, two different paths -
   here to the twins L3 and L6 - lead to different objects and to different strings) *)
Lemma w6_clean : clean_names ex_root. Proof. exact (proj1 (proj2 (proj2 xpath_inj_inhabited))). Qed.
Lemma w6_injective : wf_node ex_ct ex_root = true /\ nodup_tree ex_root /\ clean_names ex_root /\ is_tree ex_root w6_t
  /\ path ex_root [w6_ti2; w6_ti3] (ex_leaf 3 "L") /\ path ex_root [w6_ti6] (ex_leaf 6 "L")
  /\ addr (ex_leaf 3 "L") = addr (ex_leaf 3 "L")
  /\ get_xpath w6_t (ex_leaf 3 "L") = get_xpath w6_t (ex_leaf 3 "L")
  /\ addr (ex_leaf 3 "L") <> addr (ex_leaf 6 "L")
  /\ get_xpath w6_t (ex_leaf 3 "L") <> get_xpath w6_t (ex_leaf 6 "L")
  /\ ex_leaf 3 "L" <> ex_leaf 6 "L".
Proof.
  split; [exact w6_wf|]. split; [exact w6_nodup|]. split; [exact w6_clean|]. split; [exact w6_is_tree|].
  split; [exact w6_path3|]. split; [exact w6_path6|]. split; [reflexivity|]. split; [reflexivity|].
  split; [discriminate|]. split; [vm_compute; discriminate|discriminate].
Qed.

(* C06_xpath_render_injective: two DIFFERENT step lists (other node objects, other parents, index None against 0) that
   satisfy seg_ok and are spelled alike *)
Definition w6_l1 : list tinfo := [w6_ti2; w6_ti4].
Definition w6_l2 : list tinfo :=
  [ {| ti_node := ex_p 7 (ex_leaf 8 "L") [ex_leaf 9 "M"]; ti_parent := ex_leaf 0 "Q"; ti_field := lit "child"; ti_index := Some 0 |};
    {| ti_node := ex_leaf 6 "L"; ti_parent := ex_root; ti_field := lit "items"; ti_index := None |} ].
Lemma w6_render : Forall seg_ok w6_l1 /\ Forall seg_ok w6_l2 /\ xpath_of ex_root w6_l1 = xpath_of ex_root w6_l2
  /\ w6_l1 <> w6_l2 /\ xpath_of ex_root w6_l1 = lit "/@root[0]P/@child[0]P/@items[0]L".
Proof.
  split; [repeat constructor|]. split; [repeat constructor|]. split; [vm_compute; reflexivity|].
  split; [discriminate|vm_compute; reflexivity].
Qed.
