(* C18 round 2: _attach_inner described by the list D of nodes it registers and the list E of (parent, edge)
   pairs it adopts (sets the parent slots of).  Part 1: the description and its composition. *)
From Oak Require Import Spec.LegacySpec Spec.LegacySpec2 Proofs.LegacyInv Proofs.LegacyHeap.
From Coq Require Import List String Ascii ZArith Bool Arith Lia.
Import ListNotations.

Definition aedge := (nat * edge)%type.
Definition enode (e : edge) : nat := fst (fst e).
Definition adopted (E : list aedge) : list nat := map (fun e => enode (snd e)) E.

Record att_rel (s s1 : st) (D : list nat) (E : list aedge) : Prop := {
  ar_pf : pframe s s1;
  ar_same : forall x, ~ In x (adopted E) -> cellD s1 x = cellD s x;
  ar_adopt : forall d k f i, In (d, (k, f, i)) E ->
               cellD s1 k = with_parent (Some (id_of s d)) (Some f) i (cellD s k);
  ar_new : forall d, In d D -> reg_get s1 (id_of s d) = Some d;
  ar_reg : forall i, (forall d, In d D -> id_of s d <> i) -> reg_get s1 i = reg_get s i;
  ar_mono : forall i x, reg_get s i = Some x -> reg_get s1 i = Some x;
  ar_fresh : forall d, In d D -> reg_get s (id_of s d) = None }.

Lemma adopted_app E1 E2 : adopted (E1 ++ E2) = adopted E1 ++ adopted E2.
Proof. unfold adopted. apply map_app. Qed.
Lemma in_adopted E x : In x (adopted E) <-> exists d f i, In (d, (x, f, i)) E.
Proof.
  unfold adopted. rewrite in_map_iff. split.
  - intros [[d [[k f] i]] [Ex Hin]]. simpl in Ex. subst. eauto.
  - intros [d [f [i Hin]]]. exists (d, (x, f, i)). auto.
Qed.

Lemma att_refl s : att_rel s s [] [].
Proof. constructor; auto using pframe_refl; try (intros; contradiction). Qed.

Lemma att_setp s k p f i : live s k -> att_rel s (set_parent s k p f i) [] [(p, (k, f, i))].
Proof.
  intros Hl. constructor.
  - apply pframe_set_parent.
  - intros x Hx. unfold set_parent. rewrite cellD_upd.
    destruct (Nat.eqb k x) eqn:Ek; [|reflexivity]. apply Nat.eqb_eq in Ek. subst.
    exfalso. apply Hx. left; reflexivity.
  - intros d k' f' i' [Eq|[]]. inversion Eq; subst. unfold set_parent. rewrite cellD_upd, Nat.eqb_refl.
    apply Nat.ltb_lt in Hl. rewrite Hl. reflexivity.
  - intros ? [].
  - intros j _. apply reg_get_upd.
  - intros j x. unfold set_parent. rewrite reg_get_upd. auto.
  - intros ? [].
Qed.

Lemma att_reg s a : reg_get s (id_of s a) = None -> att_rel s (reg_set s (id_of s a) a) [a] [].
Proof.
  intros Hn. constructor.
  - apply pframe_reg_set.
  - reflexivity.
  - intros ? ? ? ? [].
  - intros d [<-|[]]. rewrite reg_get_reg_set, pystr_eqb_refl. reflexivity.
  - intros j Hj. rewrite reg_get_reg_set. destruct (pystr_eqb j (id_of s a)) eqn:Ej; [|reflexivity].
    apply pystr_eqb_eq in Ej. exfalso. apply (Hj a); [left; reflexivity | congruence].
  - intros j x Hx. rewrite reg_get_reg_set. destruct (pystr_eqb j (id_of s a)) eqn:Ej; [|exact Hx].
    apply pystr_eqb_eq in Ej. subst j. congruence.
  - intros d [<-|[]]. exact Hn.
Qed.

Lemma att_trans s s1 s2 D1 E1 D2 E2 :
  att_rel s s1 D1 E1 -> att_rel s1 s2 D2 E2 ->
  (forall x, In x (adopted E1) -> In x (adopted E2) -> False) ->
  att_rel s s2 (D1 ++ D2) (E1 ++ E2).
Proof.
  intros R1 R2 Hdis. assert (PF1 := ar_pf _ _ _ _ R1).
  constructor.
  - eapply pframe_trans; [exact PF1 | exact (ar_pf _ _ _ _ R2)].
  - intros x Hx. rewrite adopted_app in Hx.
    rewrite (ar_same _ _ _ _ R2), (ar_same _ _ _ _ R1); [reflexivity| |];
      intros Hin; apply Hx; apply in_or_app; auto.
  - intros d k f i Hin. apply in_app_or in Hin. destruct Hin as [Hin|Hin].
    + rewrite (ar_same _ _ _ _ R2); [exact (ar_adopt _ _ _ _ R1 _ _ _ _ Hin)|].
      intros Hk. apply (Hdis k); [|exact Hk]. apply in_adopted. eauto.
    + rewrite (ar_adopt _ _ _ _ R2 _ _ _ _ Hin), (pf_id _ _ PF1).
      rewrite (ar_same _ _ _ _ R1); [reflexivity|].
      intros Hk. apply (Hdis k); [exact Hk|]. apply in_adopted. eauto.
  - intros d Hd. apply in_app_or in Hd. destruct Hd as [Hd|Hd].
    + rewrite (ar_reg _ _ _ _ R2); [exact (ar_new _ _ _ _ R1 d Hd)|].
      intros d2 Hd2 Ei. assert (F := ar_fresh _ _ _ _ R2 d2 Hd2). rewrite Ei in F.
      rewrite (ar_new _ _ _ _ R1 d Hd) in F. discriminate.
    + rewrite <- (pf_id _ _ PF1). exact (ar_new _ _ _ _ R2 d Hd).
  - intros j Hj. rewrite (ar_reg _ _ _ _ R2), (ar_reg _ _ _ _ R1); [reflexivity| |].
    + intros d Hd. apply Hj. apply in_or_app; auto.
    + intros d Hd. rewrite (pf_id _ _ PF1). apply Hj. apply in_or_app; auto.
  - intros j x Hx. apply (ar_mono _ _ _ _ R2). apply (ar_mono _ _ _ _ R1). exact Hx.
  - intros d Hd. apply in_app_or in Hd. destruct Hd as [Hd|Hd]; [exact (ar_fresh _ _ _ _ R1 d Hd)|].
    assert (F := ar_fresh _ _ _ _ R2 d Hd). rewrite (pf_id _ _ PF1) in F.
    destruct (reg_get s (id_of s d)) as [x|] eqn:Ex; [|reflexivity].
    apply (ar_mono _ _ _ _ R1) in Ex. congruence.
Qed.

Lemma id_in_dec s D i : (exists d, In d D /\ id_of s d = i) \/ (forall d, In d D -> id_of s d <> i).
Proof.
  induction D as [|d D IH]; [right; intros ? []|].
  destruct (pystr_eqb (id_of s d) i) eqn:E.
  - apply pystr_eqb_eq in E. left. exists d. split; [left; reflexivity | exact E].
  - apply pystr_eqb_neq in E. destruct IH as [[d' [Hd' Ei]]|Hn].
    + left. exists d'. split; [right; exact Hd' | exact Ei].
    + right. intros d' [<-|Hd']; [exact E | apply Hn; exact Hd'].
Qed.

(* attachment seen from the description *)
Lemma att_attached_fwd s s1 D E x : att_rel s s1 D E -> attached s x -> attached s1 x.
Proof.
  intros R Hx. apply attached_reg. rewrite (pf_id _ _ (ar_pf _ _ _ _ R)).
  apply (ar_mono _ _ _ _ R). apply attached_reg. exact Hx.
Qed.
Lemma att_attached_new s s1 D E x : att_rel s s1 D E -> In x D -> attached s1 x.
Proof.
  intros R Hx. apply attached_reg. rewrite (pf_id _ _ (ar_pf _ _ _ _ R)). exact (ar_new _ _ _ _ R x Hx).
Qed.
Lemma att_attached_back s s1 D E x : att_rel s s1 D E -> attached s1 x -> attached s x \/ In x D.
Proof.
  intros R Hx. apply attached_reg in Hx. rewrite (pf_id _ _ (ar_pf _ _ _ _ R)) in Hx.
  destruct (id_in_dec s D (id_of s x)) as [[d [Hd Ei]]|Hn].
  - right. rewrite <- Ei, (ar_new _ _ _ _ R d Hd) in Hx. inversion Hx; subst. exact Hd.
  - left. apply attached_reg. rewrite <- (ar_reg _ _ _ _ R _ Hn). exact Hx.
Qed.
Lemma att_detached_D s s1 D E d : att_rel s s1 D E -> In d D -> detached s d = true.
Proof. intros R Hd. unfold detached. rewrite (ar_fresh _ _ _ _ R d Hd). reflexivity. Qed.

Lemma att_root_back s s1 D E x :
  att_rel s s1 D E -> ~ In x D -> ~ In x (adopted E) -> is_attached_root s1 x = true -> is_attached_root s x = true.
Proof.
  intros R HnD HnE Hr. unfold is_attached_root in *.
  destruct (parent s1 x) as [p1|] eqn:Hp1; [discriminate|]. apply negb_true_iff in Hr.
  assert (Hx : attached s x).
  { destruct (att_attached_back _ _ _ _ _ R Hr) as [Hx|Hx]; [exact Hx | contradiction]. }
  destruct (parent s x) as [p|] eqn:Hp.
  - exfalso. unfold parent in *. rewrite (ar_same _ _ _ _ R x HnE) in Hp1.
    destruct (c_pid (cellD s x)) as [pid|]; [|discriminate].
    apply (ar_mono _ _ _ _ R) in Hp. congruence.
  - apply negb_true_iff. exact Hx.
Qed.
