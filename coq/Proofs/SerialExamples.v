(* C04: the premises of the whole-tree theorems are inhabited by the worked tree of Proofs/SerialProofs.v
   (every origin kind, a multi-origin, a source set with NoSource, a shared child, a twin with a suffixed id). *)
From Oak Require Import Model.SerOpts Model.Serial Spec.SerialSpec Model.Equality Proofs.SerialProofs Proofs.SerialOriginProofs
  Proofs.SerialTreeProofs Proofs.SerialEqProofs.

Definition x_s1 : slots := {| sl_opts := sort_idx; sl_md := None |}.
Definition x_st0 : bstate := {| b_ids := []; b_used := [x_H (id_data x_H x_ct current x_leaf2)]; b_srcs := [] |}.  (* a twin of leaf2 is registered *)
Definition x_stb : bstate := build x_H x_ct x_tree x_st0.

Lemma ex_names : forall c f, In f (fields_of x_ct c) -> ~ In (fd_name f) reserved.
Proof.
  intros c f. unfold fields_of. cbn [find_class x_ct cd_name].
  destruct (pystr_eqb (lit "Leaf") c); [|destruct (pystr_eqb (lit "Par") c)]; cbn; intros Hin Hr;
    repeat (destruct Hin as [<-|Hin]; [vm_compute in Hr; intuition discriminate|]); destruct Hin.
Qed.
Lemma ex_consistent : consistent x_tree.
Proof.
  intros m m' Hm Hm'. cbn in Hm, Hm'.
  repeat (destruct Hm as [<-|Hm]; [repeat (destruct Hm' as [<-|Hm']; [cbn; intros E; first [reflexivity|discriminate E]|]); destruct Hm'|]).
  destruct Hm.
Qed.
Lemma ex_wt_leaf s v t : ints_as_str s = false ->
  (v = VInt 7%Z \/ v = VNone) -> (exists l, t = VTuple (map VStr l)) ->
  wt s (TyOpt TyInt) v /\ wt s (TyTup TyStr) t.
Proof.
  intros Hi Hv [l Hl]. subst t. split.
  - cbn [wt]. split; [exact I|]. destruct Hv as [-> | ->]; [right|left; reflexivity].
    split; [eauto|]. cbn. unfold ser_int. rewrite Hi. discriminate.
  - cbn [wt]. eexists. split; [reflexivity|]. apply Forall_forall. intros x Hx. apply in_map_iff in Hx as [y [<- _]]. cbn. eauto.
Qed.
Lemma ex_conforming s : ints_as_str s = false -> conforming x_ct x_pt s x_tree.
Proof.
  intros Hi m Hm. cbn in Hm.
  assert (Hleaf : forall a o v t, (v = VInt 7%Z \/ v = VNone) -> (exists l, t = VTuple (map VStr l)) -> wf_origin o ->
            conf1 x_ct x_pt s (Node a (lit "Leaf") o [(lit "v", v); (lit "t", t)] [])).
  { intros a o v t Hv Htt Wo. destruct (ex_wt_leaf s v t Hi Hv Htt) as [W1 W2].
    split; [vm_compute; discriminate|]. split; [reflexivity|]. split; [reflexivity|]. split; [exact Wo|].
    intros f w Hf Ea. cbn in Hf. destruct Hf as [<-|[<-|[]]]; cbn in Ea; injection Ea as <-; eexists; (split; [reflexivity|]); cbn; assumption. }
  assert (Wr : wf_range {| r_start := x_pt0; r_end := x_pt3 |}) by (vm_compute; intuition discriminate).
  destruct Hm as [<-|Hm].
  { split; [vm_compute; discriminate|]. split; [reflexivity|]. split; [reflexivity|]. split; [exact I|].
    intros f w Hf Ea. cbn in Hf. destruct Hf as [<-|[]]. cbn in Ea. injection Ea as <-. eexists. split; [reflexivity|]. cbn. eauto. }
  repeat (destruct Hm as [<-|Hm];
          [apply Hleaf; [auto|first [exists [lit "a:b"; []]; reflexivity|exists []; reflexivity]|cbn; intuition (auto; lia)]|]).
  destruct Hm.
Qed.
Lemma ex_wf : wf_node x_ct x_tree = true.
Proof. vm_compute. reflexivity. Qed.
Lemma ex_serializes : (exists v, ser_node x_H x_ct x_pt current_nv slots0 (b_srcs x_stb) (b_ids x_stb) [] x_tree = Some v)
  /\ (exists v, ser_node x_H x_ct x_pt current_nv x_s1 (b_srcs x_stb) (b_ids x_stb) [] x_tree = Some v)
  /\ node_depth x_tree <= 6 /\ (forall y, In y (b_srcs x_stb) -> source_depth y <= 2).
Proof.
  split; [|split; [|split]].
  - vm_compute. eexists. reflexivity.
  - vm_compute. eexists. reflexivity.
  - vm_compute. repeat constructor.
  - intros y Hy. vm_compute in Hy. repeat (destruct Hy as [<-|Hy]; [vm_compute; repeat constructor|]). destruct Hy.
Qed.
(* the twin leaf got a suffixed id, the shared leaf one id *)
Lemma ex_suffix : assoc_nat 3 (b_ids x_stb) = Some (x_H (id_data x_H x_ct current x_leaf2) ++ lit "_1")
  /\ assoc_nat 4 (b_ids x_stb) = Some (x_H (id_data x_H x_ct current x_leaf2) ++ lit "_2").
Proof. vm_compute. split; reflexivity. Qed.
(* an origin of every kind, index-based sources *)
Definition x_origin : origin :=
  OMulti [OGen x_src; OXml (SFile (lit "f.xml")) (lit "/a"); OCode (SMem (lit "m") (Some (lit "raw"))) {| r_start := x_pt0; r_end := x_pt3 |};
          OEntire (SSet [x_src; SNo]); OMulti [OEntire x_src; ONo; OEntire (SFile (lit "g"))]].
Lemma ex_origin : wf_origin x_origin /\ origin_depth x_origin <= 5
  /\ (exists v, ser_origin slots0 [] x_origin = Some v)
  /\ (exists v, ser_origin x_s1 (register_origin x_origin []) x_origin = Some v)
  /\ reg_valid (register_origin x_origin []).
Proof.
  split; [|split; [|split; [|split]]].
  - cbn. unfold wf_range, wf_point. cbn. repeat split; try lia.
  - vm_compute. repeat constructor.
  - vm_compute. eexists. reflexivity.
  - vm_compute. eexists. reflexivity.
  - apply register_origin_valid. apply reg_valid_nil.
Qed.
