(* C18 round 3: _replace_child(p, old = a, field, index, new = n) on a hole state - part 1: the child field of the
   parent after the update is the old one with the edge (a, f, i) redirected to n (as LISTS: the digest reads the
   sorted edge list), the stored child relation stays well founded when the new node does not hold the parent, and
   the entry into the hole (clear_parent of a node that has a parent). *)
From Oak Require Import Spec.LegacySpec Spec.LegacySpec2 Proofs.LegacyProofs Proofs.LegacyInv Proofs.LegacyHeap
  Proofs.LegacyDetach Proofs.LegacyAttach Proofs.LegacyAttach2 Proofs.LegacyAttach3 Proofs.LegacyConstruct
  Proofs.LegacyConstruct2 Proofs.LegacyRemove Proofs.LegacyRemoveSeq Proofs.LegacyHole.
From Coq Require Import List String Ascii ZArith Bool Arith Lia.
Import ListNotations.

(* ---------- redirecting one edge ---------- *)
Definition edge_is (a : nat) (f : pystr) (i : option nat) (e : edge) : bool :=
  let '(k, g, j) := e in Nat.eqb k a && pystr_eqb g f && opt_nat_eqb j i.
Definition esub (a n : nat) (f : pystr) (i : option nat) (e : edge) : edge :=
  if edge_is a f i e then (n, f, i) else e.

Lemma opt_nat_eqb_eq x y : opt_nat_eqb x y = true <-> x = y.
Proof.
  destruct x, y; simpl; split; intros E; try discriminate; try reflexivity.
  - apply Nat.eqb_eq in E. congruence.
  - inversion E. apply Nat.eqb_refl.
Qed.
Lemma edge_is_true a f i e : edge_is a f i e = true <-> e = (a, f, i).
Proof.
  destruct e as [[k g] j]. unfold edge_is. rewrite !andb_true_iff, Nat.eqb_eq, opt_nat_eqb_eq. split.
  - intros [[-> Hg] ->]. apply pystr_eqb_eq in Hg. subst. reflexivity.
  - intros E. inversion E; subst. rewrite pystr_eqb_refl. auto.
Qed.
Lemma esub_hit a n f i : esub a n f i (a, f, i) = (n, f, i).
Proof. unfold esub. rewrite (proj2 (edge_is_true a f i (a, f, i)) eq_refl). reflexivity. Qed.
Lemma esub_miss a n f i e : e <> (a, f, i) -> esub a n f i e = e.
Proof.
  intros Hne. unfold esub. destruct (edge_is a f i e) eqn:E; [|reflexivity].
  apply edge_is_true in E. contradiction.
Qed.
Lemma esub_field a n f i e : snd (fst (esub a n f i e)) = snd (fst e) /\ snd (esub a n f i e) = snd e.
Proof.
  unfold esub. destruct (edge_is a f i e) eqn:E; [|split; reflexivity].
  apply edge_is_true in E. subst e. split; reflexivity.
Qed.
Lemma in_map_esub a n f i l e' :
  In e' (map (esub a n f i) l) <-> (e' = (n, f, i) /\ In (a, f, i) l) \/ (In e' l /\ e' <> (a, f, i)).
Proof.
  rewrite in_map_iff. split.
  - intros [e [E Hin]]. destruct (edge_is a f i e) eqn:Ei.
    + assert (Ee := proj1 (edge_is_true _ _ _ _) Ei). subst e. rewrite esub_hit in E. left. split; [symmetry; exact E | exact Hin].
    + unfold esub in E. rewrite Ei in E. subst e'. right. split; [exact Hin|].
      intros ->. rewrite (proj2 (edge_is_true a f i (a, f, i)) eq_refl) in Ei. discriminate.
  - intros [[-> Hin]|[Hin Hne]].
    + exists (a, f, i). split; [apply esub_hit | exact Hin].
    + exists e'. split; [apply esub_miss; exact Hne | exact Hin].
Qed.

(* the value _replace_child stores *)
Definition subst_val (i : option nat) (n : nat) (v : fval) : fval :=
  match i, v with
  | Some ix, FSeq l => FSeq (firstn ix l ++ n :: skipn (S ix) l)
  | None, FOne _ => FOne (Some n)
  | _, _ => v
  end.

Lemma index_from_subst (f : pystr) a n : forall l o ix,
  nth_error l ix = Some a ->
  map (fun p : nat * nat => (snd p, f, Some (fst p))) (index_from o (firstn ix l ++ n :: skipn (S ix) l)) =
  map (esub a n f (Some (o + ix))) (map (fun p : nat * nat => (snd p, f, Some (fst p))) (index_from o l)).
Proof.
  assert (Hid : forall l o m, m < o ->
            map (esub a n f (Some m)) (map (fun p : nat * nat => (snd p, f, Some (fst p))) (index_from o l)) =
            map (fun p : nat * nat => (snd p, f, Some (fst p))) (index_from o l)).
  { induction l as [|x l IH]; intros o m Hlt; simpl; [reflexivity|].
    rewrite IH by lia. f_equal. apply esub_miss. intros E. inversion E. lia. }
  induction l as [|x l IH]; intros o ix Hn; [destruct ix; discriminate|].
  destruct ix as [|ix]; simpl in *.
  - inversion Hn; subst x. rewrite Nat.add_0_r, esub_hit, Hid by lia. reflexivity.
  - rewrite (IH (S o) ix Hn). replace (S o + ix) with (o + S ix) by lia. f_equal.
    symmetry. apply esub_miss. intros E. inversion E. lia.
Qed.

Lemma fkids_subst_val f v a i n :
  In (a, f, i) (fkids (f, v)) -> fkids (f, subst_val i n v) = map (esub a n f i) (fkids (f, v)).
Proof.
  intros Hin. destruct v as [x|[k|]|l]; unfold fkids in *; simpl in *; try contradiction.
  - destruct Hin as [E|[]]. inversion E; subst. simpl. rewrite esub_hit. reflexivity.
  - apply in_map_iff in Hin. destruct Hin as [[j k] [E Hj]]. simpl in E. inversion E; subst k i. simpl.
    apply in_index_from in Hj. destruct Hj as [_ Hn]. rewrite Nat.sub_0_r in Hn.
    exact (index_from_subst f a n l 0 j Hn).
Qed.

Lemma flat_fkids_subst fs f a i n :
  NoDup (map fst fs) -> In (a, f, i) (flat_map fkids fs) ->
  exists v, assoc f fs = Some v /\ In (a, f, i) (fkids (f, v)) /\
            flat_map fkids (set_key f (subst_val i n v) fs) = map (esub a n f i) (flat_map fkids fs).
Proof.
  induction fs as [|[g w] fs IH]; intros Hn Hin; simpl in *; [destruct Hin|].
  inversion Hn as [|? ? Hnotin Hn']; subst.
  assert (Hmiss : forall l g', g' <> f -> (forall e, In e l -> snd (fst e) = g') -> map (esub a n f i) l = l).
  { intros l g' Hg Hl. rewrite <- (map_id l) at 2. apply map_ext_in. intros e He. apply esub_miss.
    intros ->. apply Hg. symmetry. exact (Hl _ He). }
  destruct (pystr_eqb f g) eqn:E.
  - apply pystr_eqb_eq in E. subst g.
    assert (Hhere : In (a, f, i) (fkids (f, w))).
    { apply in_app_or in Hin. destruct Hin as [Hin|Hin]; [exact Hin|].
      exfalso. apply (no_field_edges fs f Hnotin _ Hin). reflexivity. }
    exists w. split; [reflexivity|]. split; [exact Hhere|]. simpl.
    rewrite map_app, (fkids_subst_val f w a i n Hhere). f_equal.
    symmetry. rewrite <- (map_id (flat_map fkids fs)) at 2. apply map_ext_in. intros e He. apply esub_miss.
    intros ->. apply (no_field_edges fs f Hnotin _ He). reflexivity.
  - apply pystr_eqb_neq in E.
    assert (Hrest : In (a, f, i) (flat_map fkids fs)).
    { apply in_app_or in Hin. destruct Hin as [Hin|Hin]; [|exact Hin].
      apply fkids_field in Hin. simpl in Hin. congruence. }
    destruct (IH Hn' Hrest) as [v [Ha [Hv Eq]]]. exists v. split; [exact Ha|]. split; [exact Hv|].
    simpl. rewrite map_app, Eq. f_equal. symmetry. apply (Hmiss _ g); [congruence|].
    intros e He. exact (fkids_field _ _ _ He).
Qed.

(* properties are not touched by an update of a child field *)
Lemma props_set_key_child fs f v v' :
  assoc f fs = Some v -> (forall x, v <> FP x) -> (forall x, v' <> FP x) ->
  flat_map (fun g : pystr * fval => match snd g with FP x => [(fst g, x)] | _ => [] end) (set_key f v' fs) =
  flat_map (fun g : pystr * fval => match snd g with FP x => [(fst g, x)] | _ => [] end) fs.
Proof.
  intros Ha Hv Hv'. induction fs as [|[g w] fs IH]; simpl in *; [discriminate|].
  destruct (pystr_eqb f g) eqn:E.
  - inversion Ha; subst w. simpl. destruct v as [x| |]; [exfalso; apply (Hv x); reflexivity| |];
      (destruct v' as [x'| |]; [exfalso; apply (Hv' x'); reflexivity| |]); reflexivity.
  - simpl. rewrite (IH Ha). reflexivity.
Qed.
Lemma names_set_key {A} f (v : A) fs : assoc f fs <> None -> map fst (set_key f v fs) = map fst fs.
Proof.
  induction fs as [|[g w] fs IH]; simpl; intros Ha; [congruence|].
  destruct (pystr_eqb f g) eqn:E; simpl.
  - apply pystr_eqb_eq in E. subst. reflexivity.
  - rewrite (IH Ha). reflexivity.
Qed.

(* ---------- the digest data of a node whose edge list is redirected ---------- *)
Section SortMap.
  Context {A : Type} (leb : A -> A -> bool) (h : A -> A).
  Hypothesis Hleb : forall x y, leb (h x) (h y) = leb x y.
  Lemma insert_sorted_map x l : insert_sorted leb (h x) (map h l) = map h (insert_sorted leb x l).
  Proof.
    induction l as [|y l IH]; simpl; [reflexivity|]. rewrite Hleb.
    destruct (leb x y); simpl; [reflexivity | rewrite IH; reflexivity].
  Qed.
  Lemma isort_map l : isort leb (map h l) = map h (isort leb l).
  Proof.
    induction l as [|x l IH]; simpl; [reflexivity|]. unfold isort in *. simpl. rewrite IH. apply insert_sorted_map.
  Qed.
End SortMap.

Lemma edge_leb_esub a n f i x y : edge_leb (esub a n f i x) (esub a n f i y) = edge_leb x y.
Proof.
  destruct (esub_field a n f i x) as [Fx Ix]. destruct (esub_field a n f i y) as [Fy Iy].
  destruct (esub a n f i x) as [[kx fx] ix]. destruct (esub a n f i y) as [[ky fy] iy].
  destruct x as [[kx' fx'] ix']. destruct y as [[ky' fy'] iy']. simpl in *. subst. reflexivity.
Qed.

Lemma kid_data_subst (val val' : nat -> pystr) c c' a n f i :
  kids_wf c' = map (esub a n f i) (kids_wf c) ->
  (forall e, In e (kids_wf c) -> val' (fst (fst (esub a n f i e))) = val (fst (fst e))) ->
  kid_data val' c' = kid_data val c.
Proof.
  intros Hk Hval. unfold kid_data, sorted_kids. rewrite Hk.
  rewrite (isort_map edge_leb (esub a n f i) (edge_leb_esub a n f i)).
  rewrite flat_map_concat_map, map_map, <- flat_map_concat_map.
  apply flat_map_ext_in. intros e He. apply In_isort in He.
  assert (Hv := Hval e He). destruct (esub_field a n f i e) as [Fe Ie].
  destruct (esub a n f i e) as [[k' f'] i']. destruct e as [[k g] j]. simpl in *. subst. rewrite Hv. reflexivity.
Qed.

(* ---------- the stored child relation after redirecting p -> a to p -> n ---------- *)
Lemma rank_redirect s s' p n :
  Rank s -> List.length (heap s') = List.length (heap s) -> live s n -> ~ reach s n p ->
  (forall b k, In k (skids s' b) -> In k (skids s b) \/ (b = p /\ k = n)) ->
  Rank s'.
Proof.
  intros HK Hlen Hln Hnp Hsk.
  (* a path of s' is a path of s, or passes through the new edge *)
  assert (Hr : forall x y, reach s' x y -> reach s x y \/ (reach s x p /\ reach s n y)).
  { intros x y Hxy. induction Hxy as [x|x k y Hk Hky IH]; [left; apply reach_refl|].
    destruct (Hsk x k Hk) as [Hk0|[-> ->]].
    - destruct IH as [IH|[IH1 IH2]].
      + left. eapply reach_step; eassumption.
      + right. split; [eapply reach_step; eassumption | exact IH2].
    - right. split; [apply reach_refl|]. destruct IH as [IH|[_ IH]]; exact IH. }
  split.
  - intros b k Hk. unfold live. rewrite Hlen. destruct (Hsk b k Hk) as [Hk0|[_ ->]];
      [eapply rank_kid_live; eassumption | exact Hln].
  - intros b k Hk Hc. destruct (Hsk b k Hk) as [Hk0|[-> ->]].
    + destruct (Hr _ _ Hc) as [Hc0|[Hc1 Hc2]].
      * exact (rank_acyc _ _ _ HK Hk0 Hc0).
      * apply Hnp. eapply reach_trans; [exact Hc2|]. eapply reach_trans; [|exact Hc1].
        eapply reach_step; [exact Hk0 | apply reach_refl].
    + destruct (Hr _ _ Hc) as [Hc0|[_ Hc2]]; apply Hnp; assumption.
Qed.
