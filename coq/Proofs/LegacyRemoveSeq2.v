(* C18 round 2: removal of a child, part 2: the structural invariant after the parent's field has been rewritten,
   for ANY rewriting of the parent's field list / the siblings' parent_index that satisfies (E1), (E3) below. *)
From Oak Require Import Spec.LegacySpec Spec.LegacySpec2 Proofs.LegacyProofs Proofs.LegacyInv Proofs.LegacyHeap
  Proofs.LegacyDetach Proofs.LegacyAttach Proofs.LegacyAttach2 Proofs.LegacyAttach3 Proofs.LegacyConstruct
  Proofs.LegacyConstruct2 Proofs.LegacyRemove Proofs.LegacyRemove2.
From Coq Require Import List String Ascii ZArith Bool Arith Lia.
Import ListNotations.

Section RemoveGen.
  Variable H : pystr -> pystr.
  Variable ct : ctable.

  Theorem sinv_remove_gen s a p s2 s3 D C :
    Inv2 H ct s -> live s a -> attached s a -> parent s a = Some p ->
    det_rel s s2 D (a :: C) ->
    (forall d, In d D -> d = a \/ kid_of s D d) ->
    (forall d k, In d D -> In k (skids s d) -> In k C) ->
    (forall x, In x C -> kid_of s D x) ->
    (* s3: s2 with the parent's field list rewritten and some siblings' parent_index changed *)
    List.length (heap s3) = List.length (heap s2) ->
    (forall i, reg_get s3 i = reg_get s2 i) ->
    (forall x, c_pid (cellD s3 x) = c_pid (cellD s2 x) /\ c_pf (cellD s3 x) = c_pf (cellD s2 x) /\
               c_cid (cellD s3 x) = c_cid (cellD s2 x) /\ c_cls (cellD s3 x) = c_cls (cellD s2 x) /\
               id_of s3 x = id_of s2 x) ->
    (forall x, x <> p -> c_fs (cellD s3 x) = c_fs (cellD s2 x)) ->
    (forall x, c_pi (cellD s3 x) = c_pi (cellD s2 x) \/ (In x (skids s p) /\ x <> a)) ->
    (forall k f' i', In (k, f', i') (skids_wf s3 p) ->
        k <> a /\ (exists i0, In (k, f', i0) (skids_wf s p)) /\ c_pi (cellD s3 k) = i') ->
    (forall k f' i0, In (k, f', i0) (skids_wf s p) -> k <> a -> In (k, f', c_pi (cellD s3 k)) (skids_wf s3 p)) ->
    SInv s3 /\ live s3 p /\ attached s3 p /\
    (forall x, live s3 x -> attached s3 x -> ~ reach s3 x p -> cid_ok H ct s3 x).
  Proof.
    intros HI Hla Haa Hpa R LA LB LC Hlen32 Hreg3 Hslots Hfs32 Hpi3 E1 E3.
    apply Inv2_split in HI. destruct HI as [HS HCid]. destruct HS as [HR [HK [HP HL]]].
    assert (PF := dr_pf _ _ _ _ R).
    destruct (parent_attached _ _ _ HR Hpa) as [Hpatt Hpid_a].
    assert (Hlp : live s p) by (apply attached_reg in Hpatt; apply HR in Hpatt; tauto).
    assert (Hakid : In a (skids s p)).
    { destruct (HL a Hla Haa) as [_ [Hs _]]. destruct (Hs p Hpa) as [f' [_ Hin]]. eapply edge_kid; exact Hin. }
    assert (Hap : ~ reach s a p) by (apply (proj2 HK); exact Hakid).
    assert (HpD : ~ In p D) by (apply (D_not_above s D a p HK LA Hap)).
    assert (Hlen2 : List.length (heap s2) = List.length (heap s)) by exact (pf_len _ _ PF).
    assert (Hlen3 : List.length (heap s3) = List.length (heap s)) by congruence.
    assert (Hid3 : forall x, id_of s3 x = id_of s x).
    { intros x. destruct (Hslots x) as [_ [_ [_ [_ E]]]]. rewrite E. apply (pf_id _ _ PF). }
    assert (Hfs3 : forall x, x <> p -> c_fs (cellD s3 x) = c_fs (cellD s x)).
    { intros x Hx. rewrite (Hfs32 x Hx). apply (pf_fs _ _ PF). }
    assert (Hskw3 : forall x, x <> p -> skids_wf s3 x = skids_wf s x).
    { intros x Hx. unfold skids_wf, kids_wf. rewrite (Hfs3 x Hx). reflexivity. }
    assert (Hsk3 : forall x k, In k (skids s3 x) -> In k (skids s x)).
    { intros x k Hk. destruct (Nat.eq_dec x p) as [->|Hx].
      - apply in_skids in Hk. destruct Hk as [f0 [i0 Hk]]. destruct (E1 _ _ _ Hk) as [_ [[i1 Hin] _]].
        eapply edge_kid; exact Hin.
      - apply in_skids in Hk. destruct Hk as [f0 [i0 Hk]]. rewrite (Hskw3 x Hx) in Hk. eapply edge_kid; exact Hk. }
    assert (Hpopid : forall x d, attached s x -> In d D -> id_of s d = id_of s x -> x = d).
    { intros x d Hx Hd Ei. apply attached_reg in Hx. assert (Hd' := dr_att _ _ _ _ R d Hd).
      apply attached_reg in Hd'. rewrite Ei in Hd'. congruence. }
    assert (Hatt3 : forall x, attached s3 x -> attached s x /\ ~ In x D).
    { intros x Hx. apply attached_reg in Hx. rewrite Hreg3, Hid3 in Hx. split.
      - apply attached_reg. eapply dr_sub; eassumption.
      - intros Hd. rewrite (dr_pop _ _ _ _ R x Hd) in Hx. discriminate. }
    assert (Hatt3' : forall x, attached s x -> ~ In x D -> attached s3 x).
    { intros x Hx Hn. apply attached_reg. rewrite Hreg3, Hid3, (dr_reg _ _ _ _ R).
      - apply attached_reg; exact Hx.
      - intros d Hd Ei. apply Hn. rewrite (Hpopid x d Hx Hd Ei). exact Hd. }
    assert (HDk : forall d, In d D -> d = a \/ In d C).
    { intros d Hd. destruct (LA d Hd) as [->|[d' [Hd' Hk]]]; [left; reflexivity | right; eapply LB; eassumption]. }
    assert (Hkid : forall x k, attached s x -> ~ In x D -> In k (skids s x) -> k <> a -> ~ In k (a :: C) /\ ~ In k D).
    { intros x k Hx Hn Hk Hka. apply in_skids in Hk. destruct Hk as [f0 [i0 Hk]].
      assert (Hlx : live s x) by (apply attached_reg in Hx; apply HR in Hx; tauto).
      destruct (HL x Hlx Hx) as [Hc _]. destruct (Hc k f0 i0 Hk) as [_ [Hpk _]].
      assert (HnC : ~ In k C).
      { intros Hc'. destruct (LC k Hc') as [d [Hd Hkd]]. apply in_skids in Hkd. destruct Hkd as [f' [i' Hkd]].
        assert (Hdat := dr_att _ _ _ _ R d Hd).
        assert (Hld : live s d) by (apply attached_reg in Hdat; apply HR in Hdat; tauto).
        destruct (HL d Hld Hdat) as [Hcd _]. destruct (Hcd k f' i' Hkd) as [_ [Hpk' _]].
        rewrite Hpk in Hpk'. inversion Hpk'; subst. contradiction. }
      split; [intros [E|E]; [congruence | contradiction]|].
      intros Hd. destruct (HDk k Hd); [contradiction | contradiction]. }
    assert (Hpar_same : forall x q, cellD s2 x = cellD s x -> parent s x = Some q -> ~ In q D -> parent s3 x = Some q).
    { intros x q Ec Hp Hn. destruct (parent_attached _ _ _ HR Hp) as [Hqa Hpid].
      unfold parent in *. destruct (Hslots x) as [E _]. rewrite E, Ec, Hpid in *. rewrite Hreg3, (dr_reg _ _ _ _ R); [exact Hp|].
      intros d Hd Ei. apply Hn. rewrite (Hpopid q d Hqa Hd Ei). exact Hd. }
    assert (Hpar3 : forall x q, parent s3 x = Some q -> cellD s2 x = cellD s x /\ parent s x = Some q).
    { intros x q Hp. unfold parent in Hp. destruct (Hslots x) as [E _]. rewrite E in Hp.
      destruct (dr_either _ _ _ _ R x) as [E2|E2]; rewrite E2 in Hp; [|simpl in Hp; discriminate].
      split; [exact E2|]. unfold parent. destruct (c_pid (cellD s x)); [|discriminate].
      rewrite Hreg3 in Hp. eapply dr_sub; eassumption. }
    (* the parent_index of a node that is not a child of p is untouched *)
    assert (Hpi_other : forall x q, parent s x = Some q -> q <> p -> attached s x -> live s x ->
                                    c_pi (cellD s3 x) = c_pi (cellD s2 x)).
    { intros x q Hq Hqp Hxa Hxl. destruct (Hpi3 x) as [E|[Hin _]]; [exact E|]. exfalso.
      apply in_skids in Hin. destruct Hin as [f0 [i0 Hin]].
      destruct (HL p Hlp Hpatt) as [Hc _]. destruct (Hc x f0 i0 Hin) as [_ [Hpx _]]. congruence. }
    assert (Hp3att : attached s3 p) by (apply Hatt3'; assumption).
    assert (Hp3live : live s3 p) by (unfold live in *; rewrite Hlen3; exact Hlp).
    split; [|split; [exact Hp3live | split; [exact Hp3att|]]].
    - split; [|split; [|split]].
      + intros i x Hx. rewrite Hreg3 in Hx. apply (dr_sub _ _ _ _ R) in Hx. destruct (HR _ _ Hx) as [Hl Hi].
        split; [unfold live in *; rewrite Hlen3; exact Hl | rewrite Hid3; exact Hi].
      + apply (rank_sub_kids s s3); [rewrite Hlen3; apply le_n | exact Hsk3 | exact HK].
      + intros x Hx. destruct (Hslots x) as [E _]. rewrite E in Hx.
        destruct (dr_either _ _ _ _ R x) as [E2|E2]; rewrite E2 in Hx; [|simpl in Hx; congruence].
        destruct (HP x Hx) as [Hxa Hxp]. destruct (parent s x) as [q|] eqn:Hq; [|congruence].
        assert (Hlx : live s x) by (apply attached_reg in Hxa; apply HR in Hxa; tauto).
        destruct (HL x Hlx Hxa) as [_ [Hs _]]. destruct (Hs q Hq) as [f0 [_ Hin]].
        assert (Hxk : In x (skids s q)) by (eapply edge_kid; exact Hin).
        assert (HnC : ~ In x (a :: C)).
        { intros Hc. rewrite (dr_clr _ _ _ _ R x Hc) in E2. rewrite <- E2 in Hx. simpl in Hx. congruence. }
        assert (HqD : ~ In q D) by (intros Hd; apply HnC; right; eapply LB; eassumption).
        assert (HxD : ~ In x D).
        { intros Hd. apply HnC. destruct (HDk x Hd) as [->|Hc]; [left; reflexivity | right; exact Hc]. }
        split; [apply Hatt3'; assumption|]. rewrite (Hpar_same x q E2 Hq HqD). discriminate.
      + intros x Hlx Hax. destruct (Hatt3 x Hax) as [Hax0 HxD].
        assert (Hlx0 : live s x) by (unfold live in *; rewrite <- Hlen3; exact Hlx).
        destruct (HL x Hlx0 Hax0) as [Hc [Hs Hl]]. split; [|split].
        * intros k f0 i0 Hin.
          assert (Hold : k <> a /\ exists i1, In (k, f0, i1) (skids_wf s x) /\ (x <> p -> i1 = i0) /\
                                               (x = p -> c_pi (cellD s3 k) = i0)).
          { destruct (Nat.eq_dec x p) as [->|Hx].
            - destruct (E1 _ _ _ Hin) as [Hka [[i1 Hin1] Hpi]]. split; [exact Hka|].
              exists i1. split; [exact Hin1|]. split; [intros Hne; contradiction | intros _; exact Hpi].
            - rewrite (Hskw3 x Hx) in Hin. split.
              + intros ->. destruct (Hc a f0 i0 Hin) as [_ [Hpa' _]]. congruence.
              + exists i0. split; [exact Hin|]. split; [reflexivity | intros; contradiction]. }
          destruct Hold as [Hka [i1 [Hin1 [Hnp Hip]]]].
          destruct (Hc k f0 i1 Hin1) as [Hk1 [Hk2 [Hk3 Hk4]]].
          assert (Hkk : In k (skids s x)) by (eapply edge_kid; exact Hin1).
          destruct (Hkid x k Hax0 HxD Hkk Hka) as [HkC HkD].
          assert (Ek := dr_same _ _ _ _ R k HkC).
          split; [apply Hatt3'; assumption|]. split; [apply Hpar_same; assumption|].
          destruct (Hslots k) as [_ [Epf _]]. rewrite Epf, Ek. split; [exact Hk3|].
          destruct (Nat.eq_dec x p) as [Hx|Hx]; [apply Hip; exact Hx|].
          assert (Hkl : live s k) by (eapply rank_kid_live; eassumption).
          rewrite (Hpi_other k x Hk2 Hx Hk1 Hkl), Ek, Hk4. apply Hnp; exact Hx.
        * intros q Hq. destruct (Hpar3 x q Hq) as [Ex Hq0]. destruct (Hs q Hq0) as [f0 [Hf0 Hin]].
          destruct (Hslots x) as [_ [Epf _]]. exists f0. rewrite Epf, Ex. split; [exact Hf0|].
          destruct (Nat.eq_dec q p) as [->|Hqp].
          -- apply (E3 _ _ _ Hin). intros ->.
             assert (Eca := dr_clr _ _ _ _ R a (or_introl eq_refl)).
             unfold parent in Hq. destruct (Hslots a) as [E _]. rewrite E, Eca in Hq. simpl in Hq. discriminate.
          -- rewrite (Hskw3 q Hqp), (Hpi_other x q Hq0 Hqp Hax0 Hlx0), Ex. exact Hin.
        * apply attached_reg. exact Hax.
    - intros x Hlx Hax Hnr. destruct (Hatt3 x Hax) as [Hax0 HxD].
      assert (Hlx0 : live s x) by (unfold live in *; rewrite <- Hlen3; exact Hlx).
      assert (Hreach_p : forall y t, reach s y t -> t = p -> reach s3 y p).
      { intros y t Hr. induction Hr as [y|y k d Hk Hr IH]; intros ->; [apply reach_refl|].
        destruct (Nat.eq_dec y p) as [->|Hy]; [apply reach_refl|].
        eapply reach_step; [|apply IH; reflexivity].
        unfold skids, kids, kids_wf. rewrite (Hfs3 y Hy). exact Hk. }
      unfold cid_ok. destruct (Hslots x) as [_ [_ [Ecid _]]].
      rewrite Ecid, (pf_cid _ _ PF), (HCid x Hlx0 Hax0).
      symmetry. apply tree_cid_reach_local; [exact HK| | |].
      + intros y Hy. assert (Hyp : y <> p) by (intros ->; apply Hnr; apply (Hreach_p x p Hy eq_refl)).
        destruct (Hslots y) as [_ [_ [_ [Ecls _]]]]. rewrite Ecls, (pf_cls _ _ PF).
        rewrite (Hfs3 y Hyp). split; reflexivity.
      + unfold fuel_of. rewrite Hlen3. lia.
      + unfold fuel_of. lia.
  Qed.
End RemoveGen.
