(* C20, xpath half.
   Part 1: the legacy matcher (elements leaf first, `anywhere` on the element ABOVE a `//`, the ancestor loop,
   the ASTXpathAnywhereElement terminator) decides the relation R of Spec/PathSem.v on the elements the CURRENT
   transformer produces for the same steps: lmatch = M (Proofs/XpathProofs.v, the bottom-up recursion of the
   current module on chains) after re-reading the flags, and M decides R (XpathProofs.M_rev_R).
   Part 2: calculate_xpath assigns every object of the tree the string spelled by its chain. *)
From Oak Require Import Spec.LegacyPathSpec Proofs.TraverseProofs Proofs.TreeQProofs Proofs.XpathProofs
     Proofs.LegacyTravProofs.
From Coq Require Import Lia.

(* the legacy element list as (elements, terminated by ASTXpathAnywhereElement?) and the same path in the
   current module's reading (leaf first): element k is preceded by `//` iff legacy element k+1 is `anywhere`,
   the top element iff the terminator is present *)
Definition set_any (e : element) (b : bool) : element :=
  {| e_cls := e_cls e; e_field := e_field e; e_index := e_index e; e_any := b |}.
Definition next_any (r : list element) (fin : bool) : bool := match r with [] => fin | l' :: _ => e_any l' end.
Fixpoint convf (ls : list element) (fin : bool) : list element :=
  match ls with
  | [] => []
  | l :: r => set_any l (next_any r fin) :: convf r fin
  end.
Definition denote (ls : list element) (fin : bool) : list lelement :=
  map LEl ls ++ (if fin then [LAnywhere] else []).

Lemma lx_existsb_ext {A} (f g : A -> bool) l : (forall x, f x = g x) -> existsb f l = existsb g l.
Proof. intros H. induction l as [|x l IH]; simpl; auto. now rewrite H, IH. Qed.

Section LMatch.
  Variable ct : ctable.

  Lemma sat_set_any p e b : sat ct p (set_any e b) = sat ct p e.
  Proof. destruct p as [[n f] i]. reflexivity. Qed.

  Lemma any_ancestor_cons f (p : lpos) up : any_ancestor f (p :: up) = f (p :: up) || any_ancestor f up.
  Proof. reflexivity. Qed.
  Lemma any_ancestor_existsb f up : any_ancestor f up = existsb f (suffixes up).
  Proof. induction up as [|p up IH]; [reflexivity|]. rewrite any_ancestor_cons, IH. reflexivity. Qed.

  (* the element sits on the node itself *)
  Definition one (l : element) (rest : list lelement) (rc : list lpos) : bool :=
    match rc with
    | [] => false
    | (n, f, i) :: up => match_node_element ct n f i l && lmatch ct up rest
    end.

  Lemma lmatch_cons l rest p up :
    lmatch ct (p :: up) (LEl l :: rest)
    = (e_any l && any_ancestor (fun a => lmatch ct a (LEl l :: rest)) up) || one l rest (p :: up).
  Proof. destruct p as [[n f] i]. reflexivity. Qed.

  Lemma lmatch_anyfalse l rest rc : e_any l = false -> lmatch ct rc (LEl l :: rest) = one l rest rc.
  Proof. intros H. destruct rc as [|p up]; [reflexivity|]. now rewrite lmatch_cons, H. Qed.

  (* an `anywhere` element: the node or any of its ancestors (the nested ancestor loops add nothing) *)
  Lemma lmatch_anytrue l rest : e_any l = true -> forall rc,
    lmatch ct rc (LEl l :: rest) = existsb (one l rest) (suffixes rc)
    /\ any_ancestor (fun a => lmatch ct a (LEl l :: rest)) rc = existsb (one l rest) (suffixes rc).
  Proof.
    intros H. induction rc as [|p up [IH1 IH2]]; [split; reflexivity|].
    rewrite any_ancestor_cons, lmatch_cons, H, IH2. cbn [suffixes existsb andb].
    destruct (one l rest (p :: up)), (existsb (one l rest) (suffixes up)); split; reflexivity.
  Qed.

  Lemma M_one e p up : M ct [e] (p :: up) = sat ct p e && (e_any e || is_nil up).
  Proof. reflexivity. Qed.
  Lemma M_two e e2 tail p up :
    M ct (e :: e2 :: tail) (p :: up)
    = sat ct p e && match up with
                    | [] => false
                    | _ :: _ => if e_any e then existsb (M ct (e2 :: tail)) (suffixes up) else M ct (e2 :: tail) up
                    end.
  Proof. reflexivity. Qed.
  Lemma M_nil_r res : M ct res [] = false.
  Proof. destruct res; reflexivity. Qed.

  Lemma one_M : forall r l fin rc, one l (denote r fin) rc = M ct (convf (l :: r) fin) rc.
  Proof.
    induction r as [|l1 r1 IH]; intros l fin rc.
    - destruct rc as [|[[n f] i] up]; [reflexivity|].
      cbn [convf next_any]. rewrite M_one, sat_set_any. cbn [one sat set_any e_any denote map app].
      f_equal. destruct fin; destruct up as [|[[n' f'] i'] up']; reflexivity.
    - destruct rc as [|[[n f] i] up]; [reflexivity|].
      cbn [convf next_any]. rewrite M_two, sat_set_any. cbn [one sat set_any e_any].
      f_equal. change (denote (l1 :: r1) fin) with (LEl l1 :: denote r1 fin).
      change (set_any l1 (next_any r1 fin) :: convf r1 fin) with (convf (l1 :: r1) fin).
      destruct (e_any l1) eqn:E1.
      + destruct (lmatch_anytrue l1 (denote r1 fin) E1 up) as [-> _].
        rewrite (lx_existsb_ext _ _ (suffixes up) (IH l1 fin)). destruct up; reflexivity.
      + rewrite (lmatch_anyfalse _ _ _ E1), IH. destruct up; [apply M_nil_r|reflexivity].
  Qed.

  (* a legacy list whose first (leaf) element is not `anywhere` - every compiled path - is the current
     module's M on the re-read flags *)
  Theorem lmatch_M l r fin rc : e_any l = false ->
    lmatch ct rc (denote (l :: r) fin) = M ct (convf (l :: r) fin) rc.
  Proof.
    intros H. change (denote (l :: r) fin) with (LEl l :: denote r fin).
    rewrite (lmatch_anyfalse _ _ _ H). apply one_M.
  Qed.
End LMatch.

(* ---------- the two transformers on the same steps ---------- *)
Lemma convf_snoc ls l fin : convf (ls ++ [l]) fin = convf ls (e_any l) ++ [set_any l fin].
Proof.
  induction ls as [|a r IH]; [reflexivity|]. cbn [app convf]. rewrite IH. cbn [app]. f_equal. f_equal.
  destruct r; reflexivity.
Qed.

Definition hd_ok (ls : list element) (anywhere : bool) : Prop :=
  match ls with [] => anywhere = false | l :: _ => e_any l = false end.
Lemma hd_ok_snoc ls l b b' : hd_ok (ls ++ [l]) b -> hd_ok (ls ++ [l]) b'.
Proof. destruct ls; auto. Qed.

Lemma ltx_spec : forall rargs acc anywhere ls els,
  tx rargs acc = Some els -> rev acc = convf ls anywhere -> hd_ok ls anywhere ->
  exists ls' fin, ltx rargs anywhere (map LEl ls) = denote ls' fin /\ rev els = convf ls' fin /\ hd_ok ls' fin.
Proof.
  induction rargs as [|[[pf pi] [c|]] rest IH]; intros acc anywhere ls els Htx Hacc Hhd.
  - simpl in Htx. injection Htx as <-. exists ls, anywhere. split; [|auto].
    unfold denote. simpl. destruct anywhere; [reflexivity|now rewrite app_nil_r].
  - simpl in Htx. cbn [ltx].
    change [LEl {| e_cls := c; e_field := pf; e_index := pi; e_any := anywhere |}]
      with (map LEl [{| e_cls := c; e_field := pf; e_index := pi; e_any := anywhere |}]).
    rewrite <- map_app. eapply IH; [exact Htx| |].
    + cbn [rev]. rewrite Hacc, convf_snoc. reflexivity.
    + destruct ls; simpl in *; auto.
  - simpl in Htx. cbn [ltx]. destruct acc as [|e r']; [discriminate|]. cbn [set_last_any] in Htx.
    destruct ls as [|l0 ls0 _] using rev_ind.
    { cbn [rev convf] in Hacc. destruct (rev r'); discriminate. }
    eapply IH; [exact Htx| |exact (hd_ok_snoc _ _ _ _ Hhd)].
    cbn [rev] in *. rewrite convf_snoc in *. apply app_inj_tail in Hacc as [-> ->]. reflexivity.
Qed.

Theorem legacy_elements_M ct x els lels : to_elements x = Some els -> legacy_elements x = Some lels ->
  els <> [] /\ forall rc, lmatch ct rc lels = M ct (rev els) rc.
Proof.
  unfold legacy_elements. intros Hto Hl. destruct (well_formed x) eqn:W; [|discriminate]. injection Hl as <-.
  destruct (to_elements_ok x W) as (els' & E' & Hne). rewrite Hto in E'. injection E' as <-.
  split; auto. unfold to_elements in Hto.
  destruct (ltx_spec _ [] false [] els Hto eq_refl eq_refl) as (ls' & fin & E & Erev & Hhd).
  cbn [map] in E. rewrite E. destruct ls' as [|l r].
  - simpl in Erev. destruct els as [|e els] using rev_ind; [congruence|]. rewrite rev_app_distr in Erev. discriminate.
  - intros rc. rewrite Erev. now apply lmatch_M.
Qed.

Lemma lchain_chain root l : lchain root l = rev (chain root l).
Proof. reflexivity. Qed.

(* legacy ASTXpath(x).match(node) decides the documented semantics of C07 along the node's parent chain *)
Theorem legacy_match_sem ct x root l : well_formed x = true -> legacy_match_agrees ct x root l.
Proof.
  intros W. destruct (to_elements_ok x W) as (els & E & Hne).
  assert (El : exists lels, legacy_elements x = Some lels) by (unfold legacy_elements; rewrite W; eauto).
  destruct El as (lels & El). destruct (legacy_elements_M ct x els lels E El) as [_ HM].
  exists els, (lmatch ct (lchain root l) lels). split; auto. split.
  - unfold legacy_match. now rewrite El.
  - rewrite HM, lchain_chain. now apply M_rev_R.
Qed.

(* for any chain, not only those of a tree *)
Theorem legacy_chain_sem ct x els lels ps : to_elements x = Some els -> legacy_elements x = Some lels ->
  (lmatch ct (rev ps) lels = true <-> R ct els ps).
Proof.
  intros E El. destruct (legacy_elements_M ct x els lels E El) as [Hne HM]. rewrite HM. now apply M_rev_R.
Qed.

(* text the grammar rejects (no class on the last step) is a definition error in both modules' models *)
Theorem legacy_rejects x : well_formed x = false -> legacy_elements x = None.
Proof. unfold legacy_elements. now intros ->. Qed.
Theorem legacy_accepts x : well_formed x = true -> exists lels, legacy_elements x = Some lels.
Proof. unfold legacy_elements. intros ->. eauto. Qed.

(* ================= Part 2: calculate_xpath ================= *)
Lemma plast_cons t l : plast (t :: l) = Some (match plast l with None => t | Some u => u end).
Proof. unfold plast. cbn [rev]. destruct (rev l); reflexivity. Qed.

(* the loop over the children, given what each call assigns *)
Lemma xp_each_spec (g : lobj -> option xp_result) (Q : tinfo -> lobj * pystr -> Prop) : forall tis acc,
  (forall ti, In ti tis -> exists L, g (of_tinfo ti) = Some (XpOk L) /\ forall os, In os L <-> Q ti os) ->
  exists L', xp_each g (map of_tinfo tis) acc = Some (XpOk (acc ++ L'))
             /\ forall os, In os L' <-> exists ti, In ti tis /\ Q ti os.
Proof.
  induction tis as [|ti tis IH]; intros acc H.
  - exists []. split; [simpl; now rewrite app_nil_r|]. intros os. split; [intros []|intros (ti & [] & _)].
  - destruct (H ti (or_introl eq_refl)) as (L & EL & HL).
    destruct (IH (acc ++ L) (fun t Ht => H t (or_intror Ht))) as (L' & E' & HL').
    exists (L ++ L'). split.
    + cbn [map xp_each]. rewrite EL, E', app_assoc. reflexivity.
    + intros os. rewrite in_app_iff, HL, HL'. split.
      * intros [Hq|(t & Ht & Hq)]; [exists ti|exists t]; simpl; auto.
      * intros (t & [<-|Ht] & Hq); [left|right]; eauto.
Qed.

Section Calc.
  Variable ct : ctable.
  Hypothesis CI : ct_child_init ct = true.

  (* what _set_xpath assigns below (and at) the object stored at position ti *)
  Definition below_spec (ti : tinfo) (pxp : pystr) (os : lobj * pystr) : Prop :=
    exists l x, path (ti_node ti) l x
                /\ fst os = match plast l with None => of_tinfo ti | Some t => of_tinfo t end
                /\ snd os = pxp ++ xp_seg ti ++ List.concat (map xp_seg l).

  Lemma set_xpath_spec : forall fuel ti pxp, wf_node ct (ti_node ti) = true -> size (ti_node ti) <= fuel ->
    exists L, set_xpath ct fuel (of_tinfo ti) pxp = Some (XpOk L) /\ forall os, In os L <-> below_spec ti pxp os.
  Proof.
    induction fuel as [|f IH]; intros ti pxp W Hs; [pose proof (size_pos (ti_node ti)); lia|].
    cbn [set_xpath of_tinfo lo_pos lo_node]. fold (of_tinfo ti).
    change (pxp ++ lit "/@" ++ ti_field ti ++ lit "[" ++ idx_str (ti_index ti) ++ lit "]" ++ cls (ti_node ti))
      with (pxp ++ xp_seg ti).
    rewrite lget_infos by auto. cbn [of_tinfo lo_node]. rewrite infos_direct by auto.
    destruct (xp_each_spec (fun c => set_xpath ct f c (pxp ++ xp_seg ti)) (fun t => below_spec t (pxp ++ xp_seg ti))
                           (direct_infos (ti_node ti)) [(of_tinfo ti, pxp ++ xp_seg ti)]) as (L' & E' & HL').
    { intros t Ht. apply IH; [eapply wf_direct; eauto|]. pose proof (direct_smaller _ _ Ht). lia. }
    eexists. split; [exact E'|]. intros [o s]. cbn [app In]. rewrite HL'. split.
    - intros [E|(t & Ht & l & x & Hp & Ho & Hstr)].
      + injection E as <- <-. exists [], (ti_node ti). split; [constructor|]. split; [reflexivity|].
        simpl. now rewrite app_nil_r.
      + exists (t :: l), x. split; [now constructor|]. cbn [fst snd] in *. split.
        * rewrite plast_cons. rewrite Ho. destruct (plast l); reflexivity.
        * rewrite Hstr. cbn [map List.concat]. now rewrite <- !app_assoc.
    - intros (l & x & Hp & Ho & Hstr). cbn [fst snd] in *. destruct l as [|t l].
      + left. subst. simpl. now rewrite app_nil_r.
      + right. inversion Hp; subst. exists t. split; auto. exists l, x. split; auto. cbn [fst snd]. split.
        * rewrite plast_cons. destruct (plast l); reflexivity.
        * cbn [map List.concat]. now rewrite <- !app_assoc.
  Qed.

  Theorem calculate_xpath_spec root : wf_node ct root = true ->
    exists L, calculate_xpath ct (size root) (root_obj root) = Some (XpOk L) /\ xpaths_spelled root L.
  Proof.
    intros W. unfold calculate_xpath. cbn [root_obj lo_node]. fold (root_obj root). fold (root_xpath root).
    rewrite lget_infos by auto. cbn [root_obj lo_node]. rewrite infos_direct by auto.
    destruct (xp_each_spec (fun c => set_xpath ct (size root) c (root_xpath root)) (fun t => below_spec t (root_xpath root))
                           (direct_infos root) []) as (L' & E' & HL').
    { intros t Ht. apply set_xpath_spec; [eapply wf_direct; eauto|]. pose proof (direct_smaller _ _ Ht). lia. }
    rewrite E'. cbn [app]. eexists. split; [reflexivity|]. intros o s. rewrite in_app_iff, HL'. split.
    - intros [(t & Ht & l & x & Hp & Ho & Hstr)|[E|[]]].
      + exists (t :: l), x. split; [now constructor|]. cbn [fst snd] in *. unfold lobj_at, xpath_of. split.
        * rewrite plast_cons, Ho. destruct (plast l); reflexivity.
        * rewrite Hstr. reflexivity.
      + injection E as <- <-. exists [], root. split; [constructor|]. unfold lobj_at, xpath_of. simpl.
        now rewrite app_nil_r.
    - intros (l & x & Hp & -> & ->). destruct l as [|t l].
      + right. left. unfold lobj_at, xpath_of. simpl. now rewrite app_nil_r.
      + left. inversion Hp; subst. exists t. split; auto. exists l, x. split; auto. cbn [fst snd].
        unfold lobj_at, xpath_of. split.
        * rewrite plast_cons. destruct (plast l); reflexivity.
        * reflexivity.
  Qed.
End Calc.

(* the object at the end of a path is the node the path leads to *)
Lemma lobj_at_node root l x : path root l x -> lo_node (lobj_at root l) = x.
Proof.
  intros H. unfold lobj_at. destruct l as [|ti l _] using rev_ind.
  - apply path_nil_inv in H. now subst.
  - rewrite plast_snoc. apply path_snoc_inv in H. simpl. destruct H as (_ & _ & ->). reflexivity.
Qed.

(* ================= witnesses ================= *)
Lemma lx_paths : path lx_root lx_path_n lx_n /\ path lx_root lx_path_n2 lx_n2 /\ path lx_root ex_path_m2 lx_m2.
Proof.
  repeat split; repeat (eapply path_cons; [vm_compute; auto 10|]); apply path_nil.
Qed.

Lemma lx_nodup : nodup_tree lx_root.
Proof. unfold nodup_tree. apply nodup_of_nodupb. vm_compute. reflexivity. Qed.

Lemma xpath_inhabited :
  well_formed ex_x = true /\ ct_child_init lx_ct = true /\ wf_node lx_ct lx_root = true /\ nodup_tree lx_root
  /\ path lx_root lx_path_n lx_n /\ path lx_root lx_path_n2 lx_n2
  /\ legacy_match lx_ct ex_x lx_root lx_path_n = Some true /\ legacy_match lx_ct ex_x lx_root lx_path_n2 = Some false.
Proof.
  destruct lx_paths as (P1 & P2 & _). pose proof lx_nodup. repeat split; auto; vm_compute; reflexivity.
Qed.

(* the code before repair D5 accepts the element at index 1 for "[12]" *)
Lemma d5_refuted :
  exists els lels, well_formed ex_x12 = true /\ path lx_root ex_path_m2 lx_m2
    /\ to_elements ex_x12 = Some els /\ legacy_elements_d5 ex_x12 = Some lels
    /\ lmatch lx_ct (lchain lx_root ex_path_m2) lels = true
    /\ ~ R lx_ct els (chain lx_root ex_path_m2).
Proof.
  destruct lx_paths as (_ & _ & P3).
  eexists. eexists. split; [reflexivity|]. split; [exact P3|].
  split; [vm_compute; reflexivity|]. split; [vm_compute; reflexivity|]. split; [vm_compute; reflexivity|].
  intros HR. apply M_rev_R in HR; [|discriminate]. vm_compute in HR. discriminate.
Qed.

(* in a tree without repeated node objects (every attached legacy tree) the path to a node is unique, so the
   verdict is C07's [sem]: "some path to the node has a chain satisfying R" *)
Theorem legacy_match_sem_tree ct x root l n : well_formed x = true -> nodup_tree root -> path root l n ->
  exists els b, to_elements x = Some els /\ legacy_match ct x root l = Some b /\ (b = true <-> sem ct els root n).
Proof.
  intros W ND Hp. destruct (legacy_match_sem ct x root l W) as (els & b & E & Em & Hb).
  exists els, b. split; auto. split; auto. rewrite Hb. split.
  - intros HR. exists l. auto.
  - intros (l' & Hp' & HR). destruct (path_unique root ND _ _ _ _ Hp Hp' eq_refl) as [-> _]. exact HR.
Qed.
