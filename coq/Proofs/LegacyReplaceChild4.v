(* C18 round 3: replace_with(n) with an ATTACHED argument n (an attached root: an attached subtree node is rejected
   by the pre-check), for a receiver without and with a parent.  flip_ids pops n, overwrites its id, attach registers
   it again: Proofs/LegacyHoleY.v describes the state in between. *)
From Oak Require Import Spec.LegacySpec Spec.LegacySpec2 Proofs.LegacyProofs Proofs.LegacyInv Proofs.LegacyHeap
  Proofs.LegacyDetach Proofs.LegacyAttach Proofs.LegacyAttach2 Proofs.LegacyAttach3 Proofs.LegacyConstruct
  Proofs.LegacyConstruct2 Proofs.LegacyDup Proofs.LegacyDup2 Proofs.LegacyHistory Proofs.LegacyReplace
  Proofs.LegacyRemove Proofs.LegacyRemoveSeq
  Proofs.LegacyHole Proofs.LegacyHoleY Proofs.LegacyReplaceChild Proofs.LegacyReplaceChild2 Proofs.LegacyReplaceChild3.
From Coq Require Import List String Ascii ZArith Bool Arith Lia.
Import ListNotations.

Section AttachedArg.
  Variable H : pystr -> pystr.
  Variable ct : ctable.

  (* detach and clear_parent never give a node a stored parent id *)
  Lemma op_detach_pid_none os s a s2 b x :
    op_detach os s a = Ok s2 b -> c_pid (cellD s x) = None -> c_pid (cellD s2 x) = None.
  Proof.
    intros E Hx. unfold op_detach in E. destruct (detach_spec _ _ _ _ _ _ E) as [D [C [R _]]].
    destruct (dr_either _ _ _ _ R x) as [Ex|Ex]; rewrite Ex; [exact Hx | reflexivity].
  Qed.
  Lemma clear_parent_pid_none s a x : c_pid (cellD s x) = None -> c_pid (cellD (clear_parent s a) x) = None.
  Proof. intros Hx. rewrite cellD_clear_parent. destruct (Nat.eqb a x); [reflexivity | exact Hx]. Qed.
  Lemma parent_none_of_pid s x : c_pid (cellD s x) = None -> parent s x = None.
  Proof. intros E. unfold parent. rewrite E. reflexivity. Qed.

  (* the pre-check of replace_with: an attached argument is an attached root *)
  Lemma not_subtree_pid s n :
    PidOk s -> is_attached_subtree s n = false -> attached s n -> c_pid (cellD s n) = None.
  Proof.
    intros HP Hsub Hn. destruct (c_pid (cellD s n)) as [pid|] eqn:E; [|reflexivity]. exfalso.
    destruct (HP n ltac:(congruence)) as [_ Hp]. unfold is_attached_subtree in Hsub.
    destruct (parent s n); [|congruence]. unfold attached in Hn. rewrite Hn in Hsub. discriminate.
  Qed.

  (* the id flip of an attached root followed by a successful attach, on a hole state *)
  Lemma flip_attach_attached (X : xset) s a n s3 u :
    HInvX H ct X s -> live s n -> attached s n -> c_pid (cellD s n) = None -> (forall e, ~ X n e) ->
    att_guard H ct (fst (flip_ids s a n)) n ->
    attach_ (fst (flip_ids s a n)) n = Ok s3 u ->
    HInvX H ct X s3 /\
    exists s2, s2 = fst (flip_ids s a n) /\ pframe s2 s3 /\ detached s2 n = true /\
      (forall x, x <> n -> detached s2 x = detached s x) /\
      (forall x, c_cls (cellD s2 x) = c_cls (cellD s x) /\ c_fs (cellD s2 x) = c_fs (cellD s x) /\
                 c_pid (cellD s2 x) = c_pid (cellD s x) /\ c_pf (cellD s2 x) = c_pf (cellD s x) /\
                 c_pi (cellD s2 x) = c_pi (cellD s x) /\ c_cid (cellD s2 x) = c_cid (cellD s x)) /\
      (forall x, x <> n -> id_of s2 x = id_of s x) /\ id_of s2 n = id_of s a /\
      List.length (heap s2) = List.length (heap s) /\ Rank s2 /\
      attached s3 n /\
      (forall x, attached s3 x -> attached s2 x \/ (reach s2 n x /\ detached s2 x = true)) /\
      (forall x, attached s2 x -> attached s3 x) /\
      (forall x, live s2 x -> attached s2 x -> node_linksX X s2 x).
  Proof.
    intros HX Hln Hna Hnpid HXn HG Ea.
    unfold flip_ids in HG, Ea. unfold attached in Hna. rewrite Hna in HG, Ea. simpl in HG, Ea.
    change (id_of (reg_pop s (id_of s n)) a) with (id_of s a) in HG, Ea.
    destruct (flip_attached H ct X s n (id_of s a) HX Hln Hna (parent_none_of_pid _ _ Hnpid) HXn)
      as [HS2 [HC2 [Hdn2 [Hdet2 [Hsame2 [Hidne2 [Hidn2 Hlen2]]]]]]].
    match type of HG with att_guard _ _ ?t _ => set (s2 := t) in * end.
    destruct HG as [Hl2 [HT [HA HC]]].
    unfold attach_ in Ea.
    destruct (attach_inner (fuel_of s2) s2 n) as [s3' [c|]|s3' e|] eqn:Ei; try discriminate.
    inversion Ea; subst s3'. clear Ea.
    assert (HYk : forall y, In y (skids s n) -> In y (skids s2 n)).
    { intros y Hy. unfold skids, kids, kids_wf. rewrite (proj1 (proj2 (Hsame2 n))). exact Hy. }
    destruct (sinvxy_attach_inner X _ _ s2 n s3 HS2 Hl2 HT HA HYk Ei) as [HS3 [PF [Hn3 [Hback Hfwd]]]].
    split; [split; [exact HS3|]|].
    - intros x Hlx Hax. apply (cid_ok_pframe H ct _ _ _ PF).
      destruct (Hback x Hax) as [Hx|[Hr Hd]].
      + apply HC2; [apply (pf_live _ _ PF); exact Hlx | left; exact Hx].
      + apply HC; assumption.
    - exists s2. split; [unfold flip_ids; rewrite Hna; reflexivity|].
      destruct HS2 as [_ [HK2 [_ [HL2 _]]]].
      repeat (split; [assumption|]). exact HL2.
  Qed.

  (* replace_with(attached root) of a parent-less receiver *)
  Theorem inv2_step_replace_with_root_attached s a n s' :
    Inv2 H ct s -> parent s a = None ->
    step H ct s (OReplaceWith a (Some n)) = (s', RNone) ->
    detached (fst (step H ct s (ODetach a))) n = false ->
    att_guard H ct (fst (flip_ids (fst (step H ct s (ODetach a))) a n)) n ->
    Inv2 H ct s'.
  Proof.
    intros HI Hp E Hdn HG. simpl in E. unfold op_replace_with in E. rewrite Hp in E.
    destruct (is_attached_subtree s n) eqn:Hsub; simpl in E; [discriminate|].
    assert (Ed : exists s1 b, op_detach false s a = Ok s1 b /\
                   (if negb (detached s a) then op_detach false s a else Ok s true) = Ok s1 b).
    { destruct (detached s a) eqn:Hda; simpl.
      - exists s, true. split; [apply detach_detached_noop; exact Hda | reflexivity].
      - destruct (op_detach false s a) as [s1 b|s1 e|] eqn:Ed; simpl in E; try discriminate.
        exists s1, b. split; reflexivity. }
    destruct Ed as [s1 [b [Ed Ed']]]. rewrite Ed' in E. cbv beta iota delta [bind] in E.
    assert (Hs1 : fst (step H ct s (ODetach a)) = s1) by (simpl; rewrite Ed; reflexivity).
    rewrite Hs1 in Hdn, HG.
    assert (HI1 : Inv2 H ct s1) by (eapply inv2_step_detach; eassumption).
    (* n was attached all along, and an attached root *)
    assert (Hn0 : attached s n).
    { unfold op_detach in Ed. destruct (detach_spec _ _ _ _ _ _ Ed) as [D [C [R _]]].
      exact (proj1 (det_attached_back _ _ _ _ _ R Hdn)). }
    assert (Hnpid0 : c_pid (cellD s n) = None) by (apply not_subtree_pid; [exact (proj1 (proj2 (proj2 HI))) | exact Hsub | exact Hn0]).
    assert (Hnpid1 : c_pid (cellD s1 n) = None) by (eapply op_detach_pid_none; eassumption).
    assert (Hln1 : live s1 n) by (destruct HI1 as [HR1 _]; apply attached_reg in Hdn; apply HR1 in Hdn; tauto).
    change (upd (if negb (detached s1 n) then reg_pop s1 (id_of s1 n) else s1) n
              (fun c : cell => with_ids (id_of (if negb (detached s1 n) then reg_pop s1 (id_of s1 n) else s1) a)
                                        (Some (c_id c)) (c_coll c) c))
      with (fst (flip_ids s1 a n)) in E.
    destruct (attach_ (fst (flip_ids s1 a n)) n) as [s3 u|s3 e|] eqn:Ea; simpl in E.
    - assert (Es : s3 = s') by (inversion E; reflexivity). subst s3.
      apply hinvx_none in HI1.
      destruct (flip_attach_attached xnone s1 a n s' u HI1 Hln1 Hdn Hnpid1 (fun e Hx => Hx) HG Ea) as [HX3 _].
      apply hinvx_none. exact HX3.
    - destruct (detached s a); simpl in E.
      + inversion E.
      + destruct (attach_ s3 a); simpl in E; inversion E.
    - discriminate.
  Qed.

  (* replace_with(attached root) of a receiver that has a parent *)
  Theorem inv2_step_replace_with_child_attached s a p n s' :
    Inv2 H ct s -> parent s a = Some p ->
    step H ct s (OReplaceWith a (Some n)) = (s', RNone) ->
    NoDup (map fst (c_fs (cellD s p))) ->
    detached (fst (step H ct (clear_parent s a) (ODetach a))) n = false ->
    att_guard H ct (fst (flip_ids (fst (step H ct (clear_parent s a) (ODetach a))) a n)) n ->
    ~ reach s' n p ->
    Inv2 H ct s'.
  Proof.
    intros HI Hp E Hnames Hdn HG Hnp.
    assert (HI' := HI). destruct HI' as [HR [HK [HP HL]]].
    assert (Hpid : c_pid (cellD s a) <> None) by (unfold parent in Hp; destruct (c_pid (cellD s a)); congruence).
    destruct (HP a Hpid) as [Haa _].
    assert (Hla : live s a) by (apply attached_reg in Haa; apply HR in Haa; tauto).
    simpl in E. destruct (op_replace_with H ct s a (Some n)) as [s1 u|s1 e|] eqn:Er; simpl in E; inversion E; subst s1. clear E.
    destruct (op_replace_with_child H ct s a p n s' u Hp Er) as [Hsub [f [s2 [b [s4 [u' [Hpf [Ed [Ea Erc]]]]]]]]].
    assert (Hsm : fst (step H ct (clear_parent s a) (ODetach a)) = s2) by (simpl; rewrite Ed; reflexivity).
    rewrite Hsm in Hdn, HG.
    set (i := c_pi (cellD s a)) in *. set (X := hole p a f i).
    destruct (hole_detach H ct s a p f false s2 b HI Hla Haa Hp Hpf Ed)
      as [HX2 [PF [Hda2 [Hpida2 [Hlp2 [Hpa2 [Hedge2 [Hcida2 Hback2]]]]]]]].
    assert (Hna : n <> a) by (intros ->; congruence).
    assert (FF : fframe p s4 s') by (eapply replace_child_fframe; exact Erc).
    assert (Hnp4 : ~ reach s4 n p) by (intros Hc; apply Hnp; eapply fframe_reach_p; eassumption).
    assert (Hnp_ne : n <> p) by (intros ->; apply Hnp4; apply reach_refl).
    assert (Hn0 : attached s n) by (apply Hback2; exact Hdn).
    assert (Hnpid0 : c_pid (cellD s n) = None) by (apply not_subtree_pid; assumption).
    assert (Hnpid2 : c_pid (cellD s2 n) = None).
    { eapply op_detach_pid_none; [exact Ed|]. apply clear_parent_pid_none. exact Hnpid0. }
    assert (Hln2 : live s2 n) by (apply (pf_live _ _ PF); apply attached_reg in Hn0; apply HR in Hn0; tauto).
    assert (HXn : forall e, ~ X n e) by (intros e [En _]; exact (Hnp_ne En)).
    assert (HG' := HG).
    destruct (flip_attach_attached X s2 a n s4 u' HX2 Hln2 Hdn Hnpid2 HXn HG Ea)
      as [HX4 [s3 [Es3 [PF34 [Hdn3 [Hdet3 [Hsame3 [Hidne3 [Hidn3 [Hlen3 [HK3 [Hna4 [Hback4 [Hfwd4 HL3]]]]]]]]]]]]]].
    rewrite <- Es3 in HG'. destruct HG' as [Hln3 [_ [HA _]]].
    assert (Hda3 : detached s3 a = true) by (rewrite (Hdet3 a (not_eq_sym Hna)); exact Hda2).
    assert (Hpa3 : attached s3 p) by (unfold attached; rewrite (Hdet3 p (not_eq_sym Hnp_ne)); exact Hpa2).
    assert (HK2 : Rank s2) by (exact (sinvx_rank _ _ (proj1 HX2))).
    assert (Hcida3 : cid_ok H ct s3 a).
    { apply (cid_ok_local H ct s2 s3 a HK2); [rewrite Hlen3; apply le_n | | apply Hsame3 | exact Hcida2].
      intros y _. destruct (Hsame3 y) as [A [B _]]. split; assumption. }
    assert (Hda4 : detached s4 a = true).
    { destruct (detached s4 a) eqn:Hd; [reflexivity|]. exfalso.
      destruct (Hback4 a Hd) as [Ha|[Hr _]]; [unfold attached in Ha; congruence|].
      apply (HA n a (reach_refl _ _) Hr Hna Hda3).
      rewrite Hidn3. symmetry. apply Hidne3. exact (not_eq_sym Hna). }
    assert (Hnpid4 : c_pid (cellD s4 n) = None).
    { destruct (c_pid (cellD s4 n)) as [pid|] eqn:Epid; [|reflexivity]. exfalso.
      destruct HX4 as [[HR4 [HK4 [HP4 HL4]]] _].
      destruct (HP4 n ltac:(congruence)) as [_ Hpar4].
      destruct (parent s4 n) as [q|] eqn:Hq; [|congruence].
      assert (Hln4 : live s4 n) by (apply (pf_live _ _ PF34); exact Hln3).
      destruct (HL4 n Hln4 Hna4) as [_ [Hs4 _]]. destruct (Hs4 q Hq) as [g [_ Hin]].
      rewrite (pf_skids_wf _ _ PF34) in Hin.
      destruct (parent_attached _ _ _ HR4 Hq) as [Hqa4 _].
      destruct (Hback4 q Hqa4) as [Hqa3|[Hr _]].
      - assert (Hlq3 : live s3 q).
        { assert (Hl4 : live s4 q) by (apply attached_reg in Hqa4; apply HR4 in Hqa4; tauto).
          apply (pf_live _ _ PF34). exact Hl4. }
        destruct (HL3 q Hlq3 Hqa3) as [Hc3 _].
        destruct (Hc3 n g _ Hin) as [Hn3 _]; [intros [_ Ee]; inversion Ee; congruence|].
        unfold attached in Hn3. congruence.
      - apply (rank_acyc _ _ _ HK3 (edge_kid _ _ _ _ _ Hin) Hr). }
    eapply (fill_hole H ct s4 p a f i n s' u); try eassumption.
    - apply (pf_live _ _ PF34). unfold live. rewrite Hlen3. exact Hlp2.
    - apply Hfwd4. exact Hpa3.
    - rewrite (pf_skids_wf _ _ PF34). unfold skids_wf, kids_wf. rewrite (proj1 (proj2 (Hsame3 p))). exact Hedge2.
    - rewrite (pf_fs _ _ PF34), (proj1 (proj2 (Hsame3 p))), (pf_fs _ _ PF). exact Hnames.
    - apply (cid_ok_pframe H ct _ _ _ PF34). exact Hcida3.
    - apply (pf_live _ _ PF34). exact Hln3.
  Qed.
End AttachedArg.
