(* C17, pattern half: the side conditions of the round-trip theorem are not a restriction.  Every AST the parser
   can return satisfies [pat_ok] (names are CNAMEs, class lists are not empty, capture keys are CAPTURE_KEYs, regex
   texts are ESCAPED_STRING bodies), so [pat_ok] is exactly "the AST can be written in the grammar". *)
From Oak Require Import Model.Pattern Model.PatParse Proofs.PatPrintProofs.
From Oak Require Import Base.Term.
From Coq Require Import List Bool Ascii Arith Lia.
Import ListNotations.

Ltac char_case a := destruct a as [[|] [|] [|] [|] [|] [|] [|] [|]].

(* ------------------------------------------------------------------ the terminals *)
Lemma span_all (P : ascii -> bool) s : forallb P (fst (span P s)) = true.
Proof.
  induction s as [|c s IH]; simpl; [reflexivity|]. destruct (P c) eqn:E; [|reflexivity].
  destruct (span P s) as [a b]. simpl in *. rewrite E, IH. reflexivity.
Qed.
Lemma lex_cname_img s n r : lex_cname s = Some (n, r) -> cname_ok n.
Proof.
  destruct s as [|c s]; simpl; [discriminate|]. destruct (cname_start c) eqn:Ec; [|discriminate].
  pose proof (span_all cname_char s) as Ha. destruct (span cname_char s) as [a b]. intros E; inversion E; subst.
  simpl. split; assumption.
Qed.
Lemma forallb_rev (P : ascii -> bool) l : forallb P l = true -> forallb P (rev l) = true.
Proof. rewrite !forallb_forall. intros Hl x Hx. apply Hl. apply in_rev. exact Hx. Qed.
Lemma strip_us_img l : forall back key back', forallb capkey_char l = true -> strip_us l back = (key, back') ->
  key <> [] -> key_ok key.
Proof.
  induction l as [|c l IH]; intros back key back' Hl E Hne; cbn [strip_us] in E.
  - inversion E; subst. congruence.
  - simpl in Hl. apply andb_prop in Hl. destruct Hl as [Hc Hl]. destruct (is_us c) eqn:Eu.
    + eapply IH; eauto.
    + inversion E; subst. split.
      * apply (forallb_rev capkey_char (c :: l)). simpl. rewrite Hc, Hl. reflexivity.
      * change (rev l ++ [c]) with (rev (c :: l)). rewrite rev_involutive. unfold capkey_char in Hc. rewrite Eu in Hc. exact Hc.
Qed.
Lemma lex_capkey_img s k r : lex_capkey s = Some (k, r) -> key_ok k.
Proof.
  unfold lex_capkey. pose proof (span_all capkey_char s) as Ha. destruct (span capkey_char s) as [run rest]. simpl in Ha.
  destruct (strip_us (rev run) []) as [key back] eqn:Es. destruct key as [|a key]; [discriminate|].
  intros E; inversion E; subst. eapply strip_us_img; [apply forallb_rev; exact Ha|exact Es|discriminate].
Qed.
Lemma lex_string_img s : forall odd re r, lex_string s odd = Some (re, r) -> str_scan re odd = true.
Proof.
  induction s as [|c s IH]; intros odd re r E; [discriminate|]. cbn [lex_string] in E. cbv zeta in E.
  destruct (Nat.eqb (nat_of_ascii c) 10) eqn:E10; [discriminate|].
  destruct (Nat.eqb (nat_of_ascii c) 34) eqn:E34.
  - destruct odd.
    + destruct (lex_string s false) as [[a b]|] eqn:El; [|discriminate]. inversion E; subst.
      cbn [str_scan]. cbv zeta. rewrite E10, E34. simpl. eapply IH; eauto.
    + inversion E; subst. reflexivity.
  - match type of E with context [lex_string s ?o] => destruct (lex_string s o) as [[a b]|] eqn:El end; [|discriminate].
    inversion E; subst. cbn [str_scan]. cbv zeta. rewrite E10, E34. eapply IH; eauto.
Qed.

(* ------------------------------------------------------------------ capture?, class_spec *)
Lemma p_capture_img s cap r : p_capture s = Some (cap, r) -> cap_ok cap.
Proof.
  unfold p_capture. destruct (skip_ws s) as [|a l]; [intros E; inversion E; exact I|].
  char_case a; try (intros E; inversion E; exact I).
  destruct l as [|b l]; [intros E; inversion E; exact I|].
  char_case b; try (intros E; inversion E; exact I).
  destruct (lex_capkey (skip_ws l)) as [[k rest]|] eqn:Ek; [|discriminate].
  intros E; inversion E; subst. simpl. eapply lex_capkey_img; eauto.
Qed.
Lemma p_more_classes_img fuel : forall s cs r, p_more_classes fuel s = Some (cs, r) -> forall_p cname_ok cs.
Proof.
  induction fuel as [|k IH]; intros s cs r E; [discriminate|]. rewrite p_more_classes_eq in E.
  destruct (skip_ws s) as [|a l]; [inversion E; exact I|].
  char_case a; try (inversion E; exact I).
  destruct (lex_cname (skip_ws l)) as [[c rest]|] eqn:Ec; [|discriminate].
  destruct (p_more_classes k rest) as [[cs' r']|] eqn:Em; [|discriminate].
  inversion E; subst. simpl. split; [eapply lex_cname_img; eauto|eapply IH; eauto].
Qed.
Lemma p_class_spec_img s cls r : p_class_spec s = Some (cls, r) -> cls_ok cls.
Proof.
  unfold p_class_spec.
  assert (G : forall s', match lex_cname s' with
                         | Some (c, rest) => match p_more_classes (S (length rest)) rest with
                                             | Some (cs, rest') => Some (Some (c :: cs), rest')
                                             | None => None end
                         | None => None end = Some (cls, r) -> cls_ok cls).
  { intros s'. destruct (lex_cname s') as [[c rest]|] eqn:Ec; [|discriminate].
    destruct (p_more_classes (S (length rest)) rest) as [[cs r']|] eqn:Em; [|discriminate].
    intros E; inversion E; subst. simpl. split; [discriminate|].
    split; [eapply lex_cname_img; eauto|eapply p_more_classes_img; eauto]. }
  destruct (skip_ws s) as [|a l]; [apply G|].
  char_case a; try apply G. intros E; inversion E; exact I.
Qed.

(* ------------------------------------------------------------------ the four parser functions *)
Definition item_ok (it : vpat * option pystr) : Prop := vpat_ok (fst it) /\ cap_ok (snd it).
Definition field_ok (f : pystr * fspec) : Prop := cname_ok (fst f) /\ fspec_ok (snd f).
Definition tail_ok (tail : option (option pystr)) : Prop := match tail with Some tc => cap_ok tc | None => True end.

Definition img (fuel : nat) : Prop :=
  (forall s p r, p_tree fuel s = Some (p, r) -> pat_ok p) /\
  (forall s fs r, p_fields fuel s = Some (fs, r) -> forall_p field_ok fs) /\
  (forall s items tail r, p_seq fuel s = Some (items, tail, r) -> forall_p item_ok items /\ tail_ok tail) /\
  (forall s v r, p_value fuel s = Some (v, r) -> vpat_ok v).

Lemma val_body_img k : img k -> forall r2 sp r, val_body k r2 = Some (sp, r) -> fspec_ok sp.
Proof.
  intros (_ & _ & _ & IV) r2 sp r E. unfold val_body in E.
  destruct (p_value k r2) as [[v r4]|] eqn:Ev; [|discriminate].
  destruct (p_capture r4) as [[cap r5]|] eqn:Ecap; [|discriminate].
  inversion E; subst. simpl. split; [eapply IV; eauto|eapply p_capture_img; eauto].
Qed.
Lemma any_body_img r1 sp r :
  match p_capture r1 with Some (cap, r5) => Some (FAny cap, r5) | None => None end = Some (sp, r) -> fspec_ok sp.
Proof.
  destruct (p_capture r1) as [[cap r5]|] eqn:Ecap; [|discriminate]. intros E; inversion E; subst.
  simpl. eapply p_capture_img; eauto.
Qed.
Lemma spec_body_img k : img k -> forall r1 sp r, spec_body k r1 = Some (sp, r) -> fspec_ok sp.
Proof.
  intros Hk r1 sp r. unfold spec_body.
  destruct (skip_ws r1) as [|a l]; [apply any_body_img|].
  char_case a; try apply any_body_img.
  destruct (skip_ws l) as [|b l2]; [eapply val_body_img; exact Hk|].
  char_case b; try (eapply val_body_img; exact Hk).
  destruct Hk as (_ & _ & IS & _).
  destruct (p_seq k l2) as [[[items tail] r4]|] eqn:Es; [|discriminate].
  destruct (p_capture r4) as [[cap r5]|] eqn:Ecap; [|discriminate].
  intros E; inversion E; subst. destruct (IS _ _ _ _ Es) as [Hi Ht].
  simpl. split; [exact Hi|]. split; [exact Ht|eapply p_capture_img; eauto].
Qed.
Lemma item_body_img k : img k -> forall s items tail r, item_body k s = Some (items, tail, r) ->
  forall_p item_ok items /\ tail_ok tail.
Proof.
  intros (_ & _ & IS & IV) s items tail r E. unfold item_body in E.
  destruct (p_value k s) as [[v r1]|] eqn:Ev; [|discriminate].
  destruct (p_capture r1) as [[cap r2]|] eqn:Ecap; [|discriminate].
  destruct (p_seq k r2) as [[[items' tail'] r3]|] eqn:Es; [|discriminate].
  inversion E; subst. destruct (IS _ _ _ _ Es) as [Hi Ht]. split; [|exact Ht].
  simpl. split; [|exact Hi]. split; [eapply IV; eauto|eapply p_capture_img; eauto].
Qed.

Lemma img_all fuel : img fuel.
Proof.
  induction fuel as [|k IH]; [repeat split; intros; discriminate|].
  pose proof IH as (IT & IF & IS & IV).
  split; [|split; [|split]].
  - (* p_tree *)
    intros s p r E. rewrite p_tree_eq in E. destruct (skip_ws s) as [|a l]; [discriminate|].
    char_case a; try discriminate.
    destruct (p_class_spec l) as [[cls r1]|] eqn:Ec; [|discriminate].
    destruct (p_fields k r1) as [[fs r2]|] eqn:Ef; [|discriminate].
    inversion E; subst. simpl. split; [eapply p_class_spec_img; eauto|eapply IF; eauto].
  - (* p_fields *)
    intros s fs r E. rewrite p_fields_eq in E. destruct (skip_ws s) as [|a l]; [discriminate|].
    char_case a; try discriminate.
    + inversion E; subst. exact I.
    + destruct (lex_cname (skip_ws l)) as [[f r1]|] eqn:En; [|discriminate].
      destruct (spec_body k r1) as [[sp r6]|] eqn:Esp; [|discriminate].
      destruct (p_fields k r6) as [[fs' r7]|] eqn:Ef; [|discriminate].
      inversion E; subst. simpl. split; [|eapply IF; eauto].
      split; [eapply lex_cname_img; eauto|eapply spec_body_img; eauto].
  - (* p_seq *)
    intros s items tail r. rewrite p_seq_eq. destruct (skip_ws s) as [|a l]; [apply item_body_img; exact IH|].
    char_case a; try (apply item_body_img; exact IH).
    + intros E; inversion E; subst. split; exact I.
    + intros E. destruct (p_capture l) as [[cap r1]|] eqn:Ecap; [|discriminate].
      destruct (skip_ws r1) as [|b l2]; [discriminate|]. char_case b; try discriminate.
      inversion E; subst. split; [exact I|]. simpl. eapply p_capture_img; eauto.
  - (* p_value *)
    intros s v r E. rewrite p_value_eq in E. destruct (skip_ws s) as [|a l]; [discriminate|].
    char_case a; try discriminate.
    + (* None *)
      destruct l as [|b l]; [discriminate|]. char_case b; try discriminate.
      destruct l as [|c l]; [discriminate|]. char_case c; try discriminate.
      destruct l as [|d l]; [discriminate|]. char_case d; try discriminate.
      inversion E; subst. exact I.
    + (* quote *)
      destruct (lex_string l false) as [[re r1]|] eqn:El; [|discriminate]. inversion E; subst.
      simpl. eapply lex_string_img; eauto.
    + (* $ *)
      destruct (lex_capkey (skip_ws l)) as [[x r1]|] eqn:Ek; [|discriminate]. inversion E; subst.
      simpl. eapply lex_capkey_img; eauto.
    + (* ( *)
      destruct (p_tree k s) as [[p r1]|] eqn:Et; [|discriminate]. inversion E; subst. simpl. eapply IT; eauto.
Qed.

Theorem parse_pattern_ok s p : parse_pattern s = Some p -> pat_ok p.
Proof.
  unfold parse_pattern. destruct (p_tree (4 + 2 * length s) s) as [[p' r]|] eqn:E; [|discriminate].
  destruct (skip_ws r); [|discriminate]. intros Ep; inversion Ep; subst.
  eapply (proj1 (img_all _)); eauto.
Qed.

Corollary reprint_parses s p ws trail :
  parse_pattern s = Some p -> length ws = length (pat_toks p) -> Forall pws ws -> pws trail ->
  parse_pattern (print_pattern ws trail p) = Some p.
Proof. intros E. apply pattern_print_parse. eapply parse_pattern_ok; eauto. Qed.
