(* C18 round 3: replace_with(n) with an ATTACHED n.  flip_ids pops n from the registry before it overwrites n.id, so
   until n is attached again the children of n carry a stored parent id that is not registered: PidOk has a hole at
   exactly the children of n (Y below).  They are still attached, `.parent` is None for them, so _attach_inner takes
   them for attached roots and adopts them again under the new id.  SInvXY X Y = SInvX X with PidOk excused on Y;
   the id flip of an attached root leads into it, a successful _attach_inner of n leads out of it. *)
From Oak Require Import Spec.LegacySpec Spec.LegacySpec2 Proofs.LegacyProofs Proofs.LegacyInv Proofs.LegacyHeap
  Proofs.LegacyDetach Proofs.LegacyAttach Proofs.LegacyAttach2 Proofs.LegacyAttach3 Proofs.LegacyConstruct
  Proofs.LegacyConstruct2 Proofs.LegacyHole.
From Coq Require Import List String Ascii ZArith Bool Arith Lia.
Import ListNotations.

Definition PidOkY (Y : nat -> Prop) (s : st) : Prop :=
  forall a, c_pid (cellD s a) <> None -> Y a \/ (attached s a /\ parent s a <> None).
Definition SInvXY (X : xset) (Y : nat -> Prop) (s : st) : Prop :=
  RegOk s /\ Rank s /\ PidOkY Y s /\ (forall a, live s a -> attached s a -> node_linksX X s a) /\
  (forall y, Y y -> parent s y = None).

(* ---------- out of it: _attach_inner adopts every node of Y ---------- *)
Theorem sinvxy_att (X : xset) (Y : nat -> Prop) s s1 D E :
  SInvXY X Y s -> att_rel s s1 D E ->
  (forall d, In d D -> live s d) ->
  (forall d k f i, In (d, (k, f, i)) E ->
      In d D /\ In (k, f, i) (skids_wf s d) /\ (In k D \/ is_attached_root s k = true)) ->
  (forall d e, In d D -> In e (skids_wf s d) -> In (d, e) E) ->
  (forall y, Y y -> In y (adopted E)) ->
  SInvX X s1.
Proof.
  intros [HR [HK [HP [HL HY]]]] R HDl K2 K3 HYE.
  assert (PF := ar_pf _ _ _ _ R).
  assert (Hroot : forall x, is_attached_root s x = true -> attached s x /\ parent s x = None).
  { intros x Hx. unfold is_attached_root in Hx. destruct (parent s x); [discriminate|].
    apply negb_true_iff in Hx. split; [exact Hx | reflexivity]. }
  assert (Had : forall d x f i, In (d, (x, f, i)) E ->
            attached s1 x /\ parent s1 x = Some d /\ c_pf (cellD s1 x) = Some f /\ c_pi (cellD s1 x) = i /\
            In d D /\ In (x, f, i) (skids_wf s1 d)).
  { intros d x f i Hin. destruct (K2 _ _ _ _ Hin) as [Hd [Hk Ho]].
    assert (Ec := ar_adopt _ _ _ _ R _ _ _ _ Hin). split; [|split; [|split; [|split; [|split]]]].
    - destruct Ho as [Ho|Ho]; [eapply att_attached_new; eassumption|].
      eapply att_attached_fwd; [eassumption | apply Hroot; exact Ho].
    - unfold parent. rewrite Ec. simpl. exact (ar_new _ _ _ _ R d Hd).
    - rewrite Ec. reflexivity.
    - rewrite Ec. reflexivity.
    - exact Hd.
    - rewrite (pf_skids_wf _ _ PF). exact Hk. }
  (* a node that had a (live) parent is not adopted *)
  assert (Hnad : forall x, parent s x <> None -> ~ In x (adopted E)).
  { intros x Hx Ha. apply in_adopted in Ha. destruct Ha as [d [f [i Hin]]].
    destruct (K2 _ _ _ _ Hin) as [_ [_ [Ho|Ho]]].
    - assert (Hdx := att_detached_D _ _ _ _ _ R Ho).
      assert (Hpid : c_pid (cellD s x) <> None) by (unfold parent in Hx; destruct (c_pid (cellD s x)); congruence).
      destruct (HP x Hpid) as [Hy|[Hxa _]]; [apply Hx; apply HY; exact Hy | unfold attached in Hxa; congruence].
    - apply Hroot in Ho. destruct Ho as [_ Ho]. contradiction. }
  assert (Hpar_same : forall x p, ~ In x (adopted E) -> parent s x = Some p -> parent s1 x = Some p).
  { intros x p Hn Hp. unfold parent in *. rewrite (ar_same _ _ _ _ R x Hn).
    destruct (c_pid (cellD s x)); [|discriminate]. apply (ar_mono _ _ _ _ R). exact Hp. }
  (* a node with a stored parent id that is not adopted had a live parent *)
  assert (Hpid_par : forall x, c_pid (cellD s x) <> None -> ~ In x (adopted E) -> attached s x /\ parent s x <> None).
  { intros x Hx Ha. destruct (HP x Hx) as [Hy|Hok]; [exfalso; apply Ha; apply HYE; exact Hy | exact Hok]. }
  split; [|split; [|split]].
  - intros i x Hx. destruct (id_in_dec s D i) as [[d [Hd Ei]]|Hn].
    + rewrite <- Ei, (ar_new _ _ _ _ R d Hd) in Hx. inversion Hx; subst x.
      split; [apply (pf_live _ _ PF); apply HDl; exact Hd | rewrite (pf_id _ _ PF); exact Ei].
    + rewrite (ar_reg _ _ _ _ R _ Hn) in Hx. destruct (HR _ _ Hx) as [Hl Hi].
      split; [apply (pf_live _ _ PF); exact Hl | rewrite (pf_id _ _ PF); exact Hi].
  - eapply Rank_pf; eassumption.
  - intros x Hx. destruct (in_dec Nat.eq_dec x (adopted E)) as [Ha|Ha].
    + apply in_adopted in Ha. destruct Ha as [d [f [i Hin]]].
      destruct (Had _ _ _ _ Hin) as [A [B _]]. split; [exact A | rewrite B; discriminate].
    + rewrite (ar_same _ _ _ _ R x Ha) in Hx. destruct (Hpid_par x Hx Ha) as [Hxa Hxp].
      split; [eapply att_attached_fwd; eassumption|].
      destruct (parent s x) as [p|] eqn:Hp; [|congruence]. rewrite (Hpar_same x p Ha Hp). discriminate.
  - intros x Hlx Hax. apply (pf_live _ _ PF) in Hlx.
    assert (Hslot : forall p, parent s1 x = Some p ->
                      (c_pid (cellD s x) = None -> ~ In x (adopted E) -> False) ->
                      exists f, c_pf (cellD s1 x) = Some f /\ In (x, f, c_pi (cellD s1 x)) (skids_wf s1 p)).
    { intros p Hp Hnone. destruct (in_dec Nat.eq_dec x (adopted E)) as [Ha|Ha].
      - apply in_adopted in Ha. destruct Ha as [d [f [i Hin]]].
        destruct (Had _ _ _ _ Hin) as [_ [B [C [Dd [_ F]]]]]. rewrite B in Hp. inversion Hp; subst p.
        exists f. rewrite Dd. split; assumption.
      - destruct (c_pid (cellD s x)) as [pid|] eqn:Epid; [|exfalso; apply Hnone; [reflexivity | exact Ha]].
        assert (Hx : c_pid (cellD s x) <> None) by congruence.
        destruct (Hpid_par x Hx Ha) as [Hxa Hxp]. destruct (parent s x) as [p0|] eqn:Hp0; [|congruence].
        rewrite (Hpar_same x p0 Ha Hp0) in Hp. inversion Hp; subst p0.
        destruct (HL x Hlx Hxa) as [_ [Hs _]]. destruct (Hs p Hp0) as [f [Hf Hin]].
        exists f. rewrite (ar_same _ _ _ _ R x Ha), (pf_skids_wf _ _ PF). split; assumption. }
    destruct (in_dec Nat.eq_dec x D) as [HxD|HxD].
    + split; [|split].
      * intros k f i Hin _. rewrite (pf_skids_wf _ _ PF) in Hin.
        destruct (Had _ _ _ _ (K3 x _ HxD Hin)) as [A [B [C [Dd _]]]]. auto.
      * intros p Hp. apply (Hslot p Hp). intros Hn Ha. unfold parent in Hp.
        rewrite (ar_same _ _ _ _ R x Ha), Hn in Hp. discriminate.
      * apply attached_reg. exact Hax.
    + assert (Hxa : attached s x).
      { destruct (att_attached_back _ _ _ _ _ R Hax); [assumption | contradiction]. }
      destruct (HL x Hlx Hxa) as [Hc [Hs Hlk]]. split; [|split].
      * intros k f i Hin HnX. rewrite (pf_skids_wf _ _ PF) in Hin.
        destruct (Hc k f i Hin HnX) as [Hk1 [Hk2 [Hk3 Hk4]]].
        assert (Hkn : ~ In k (adopted E)) by (apply Hnad; rewrite Hk2; discriminate).
        split; [eapply att_attached_fwd; eassumption|]. split; [apply Hpar_same; assumption|].
        rewrite (ar_same _ _ _ _ R k Hkn). split; assumption.
      * intros p Hp. apply (Hslot p Hp). intros Hn Ha. unfold parent in Hp.
        rewrite (ar_same _ _ _ _ R x Ha), Hn in Hp. discriminate.
      * apply attached_reg. exact Hax.
Qed.

Theorem sinvxy_attach_inner (X : xset) (Y : nat -> Prop) fuel s a s1 :
  SInvXY X Y s -> live s a -> tree_shaped s a -> ids_apart (fun x => detached s x = true) s a ->
  (forall y, Y y -> In y (skids s a)) ->
  attach_inner fuel s a = Ok s1 None ->
  SInvX X s1 /\ pframe s s1 /\ attached s1 a /\
  (forall x, attached s1 x -> attached s x \/ (reach s a x /\ detached s x = true)) /\
  (forall x, attached s x -> attached s1 x).
Proof.
  intros HS Hl HT HI HYa Eq. assert (HK : Rank s) by (destruct HS as [_ [HK _]]; exact HK).
  destruct (attach_inner_spec (fun x => detached s x = true) fuel s a s1 HK HT HI (fun x Hx => Hx) Eq)
    as [D [E [R [K1 [K2 [K3 K4]]]]]].
  split; [|split; [|split; [|split]]].
  - eapply sinvxy_att; try eassumption.
    + intros d Hd. apply K1 in Hd. eapply reach_live; eassumption.
    + intros y Hy. apply HYa in Hy. apply in_skids in Hy. destruct Hy as [f [i Hy]].
      apply in_adopted. exists a, f, i. apply K3; assumption.
  - exact (ar_pf _ _ _ _ R).
  - eapply att_attached_new; eassumption.
  - intros x Hx. destruct (att_attached_back _ _ _ _ _ R Hx) as [Hx'|Hx']; [left; exact Hx'|].
    right. split; [apply K1; exact Hx' | eapply att_detached_D; eassumption].
  - intros x Hx. eapply att_attached_fwd; eassumption.
Qed.

(* ---------- into it: the id flip of an attached root ---------- *)
Section FlipAttached.
  Variable H : pystr -> pystr.
  Variable ct : ctable.

  Lemma flip_attached (X : xset) s n newid :
    HInvX H ct X s -> live s n -> attached s n -> parent s n = None -> (forall e, ~ X n e) ->
    let s2 := upd (reg_pop s (id_of s n)) n (fun c => with_ids newid (Some (c_id c)) (c_coll c) c) in
    SInvXY X (fun k => In k (skids s n)) s2 /\
    (forall x, live s2 x -> (attached s2 x \/ x = n) -> cid_ok H ct s2 x) /\
    detached s2 n = true /\ (forall x, x <> n -> detached s2 x = detached s x) /\
    (forall x, c_cls (cellD s2 x) = c_cls (cellD s x) /\ c_fs (cellD s2 x) = c_fs (cellD s x) /\
               c_pid (cellD s2 x) = c_pid (cellD s x) /\ c_pf (cellD s2 x) = c_pf (cellD s x) /\
               c_pi (cellD s2 x) = c_pi (cellD s x) /\ c_cid (cellD s2 x) = c_cid (cellD s x)) /\
    (forall x, x <> n -> id_of s2 x = id_of s x) /\ id_of s2 n = newid /\
    List.length (heap s2) = List.length (heap s).
  Proof.
    intros [[HR [HK [HP HL]]] HCid] Hln Hna Hnp HXn s2.
    set (s1 := reg_pop s (id_of s n)) in *.
    assert (Hsame : forall x, c_cls (cellD s2 x) = c_cls (cellD s x) /\ c_fs (cellD s2 x) = c_fs (cellD s x) /\
               c_pid (cellD s2 x) = c_pid (cellD s x) /\ c_pf (cellD s2 x) = c_pf (cellD s x) /\
               c_pi (cellD s2 x) = c_pi (cellD s x) /\ c_cid (cellD s2 x) = c_cid (cellD s x)).
    { intros x. unfold s2. rewrite cellD_upd. change (cellD s1 x) with (cellD s x).
      destruct (Nat.eqb n x && Nat.ltb n (List.length (heap s1))); repeat split; reflexivity. }
    assert (Hne : forall x, x <> n -> cellD s2 x = cellD s x).
    { intros x Hx. unfold s2. rewrite cellD_upd. change (cellD s1 x) with (cellD s x).
      destruct (Nat.eqb n x) eqn:E; [|reflexivity]. apply Nat.eqb_eq in E. congruence. }
    assert (Hidne : forall x, x <> n -> id_of s2 x = id_of s x) by (intros x Hx; unfold id_of; rewrite (Hne x Hx); reflexivity).
    assert (Hidn : id_of s2 n = newid).
    { unfold id_of, s2. rewrite cellD_upd, Nat.eqb_refl. change (List.length (heap s1)) with (List.length (heap s)).
      apply Nat.ltb_lt in Hln. rewrite Hln. reflexivity. }
    assert (Hlen : List.length (heap s2) = List.length (heap s)) by (unfold s2; rewrite heap_len_upd; reflexivity).
    assert (Hreg : forall i, reg_get s2 i = if pystr_eqb i (id_of s n) then None else reg_get s i).
    { intros i. unfold s2. rewrite reg_get_upd. unfold s1. apply reg_get_reg_pop. }
    assert (Hnreg : reg_get s (id_of s n) = Some n) by (apply attached_reg; exact Hna).
    (* an attached node other than n has another id *)
    assert (Hidx : forall x, attached s x -> x <> n -> pystr_eqb (id_of s x) (id_of s n) = false).
    { intros x Hx Hxn. destruct (pystr_eqb (id_of s x) (id_of s n)) eqn:E; [|reflexivity].
      apply pystr_eqb_eq in E. apply attached_reg in Hx. rewrite E, Hnreg in Hx. congruence. }
    assert (Hatt : forall x, x <> n -> (attached s2 x <-> attached s x)).
    { intros x Hxn. unfold attached, detached. rewrite Hreg, (Hidne x Hxn).
      destruct (pystr_eqb (id_of s x) (id_of s n)) eqn:E; [|tauto].
      apply pystr_eqb_eq in E. rewrite E, Hnreg. apply Nat.eqb_neq in Hxn. rewrite Nat.eqb_sym, Hxn. simpl. split; discriminate. }
    assert (Hdetn : detached s2 n = true).
    { unfold detached. rewrite Hreg. destruct (pystr_eqb (id_of s2 n) (id_of s n)) eqn:Ee; [reflexivity|].
      destruct (reg_get s (id_of s2 n)) as [x|] eqn:E; [|reflexivity].
      apply negb_true_iff. apply Nat.eqb_neq. intros ->. destruct (HR _ _ E) as [_ Ei].
      rewrite <- Ei, pystr_eqb_refl in Ee. discriminate. }
    assert (Hdet : forall x, x <> n -> detached s2 x = detached s x).
    { intros x Hxn. destruct (Hatt x Hxn) as [A B]. unfold attached in *.
      destruct (detached s2 x), (detached s x); try reflexivity; [apply B | symmetry; apply A]; reflexivity. }
    (* parent links: unchanged unless the parent was n *)
    assert (Hpar : forall x q, parent s x = Some q -> q <> n -> parent s2 x = Some q).
    { intros x q Hq Hqn. destruct (parent_attached _ _ _ HR Hq) as [Hqa Hpid].
      unfold parent. destruct (Hsame x) as [_ [_ [Ep _]]]. rewrite Ep, Hpid, Hreg, (Hidx q Hqa Hqn).
      unfold parent in Hq. rewrite Hpid in Hq. exact Hq. }
    assert (Hparn : forall x, parent s x = Some n -> parent s2 x = None).
    { intros x Hq. destruct (parent_attached _ _ _ HR Hq) as [_ Hpid].
      unfold parent. destruct (Hsame x) as [_ [_ [Ep _]]]. rewrite Ep, Hpid, Hreg, pystr_eqb_refl. reflexivity. }
    assert (Hpar_back : forall x q, parent s2 x = Some q -> parent s x = Some q /\ q <> n).
    { intros x q Hq. unfold parent in *. destruct (Hsame x) as [_ [_ [Ep _]]]. rewrite Ep in Hq.
      destruct (c_pid (cellD s x)) as [pid|]; [|discriminate]. rewrite Hreg in Hq.
      destruct (pystr_eqb pid (id_of s n)) eqn:E; [discriminate|]. split; [exact Hq|].
      intros ->. destruct (HR _ _ Hq) as [_ Ei]. rewrite Ei, pystr_eqb_refl in E. discriminate. }
    assert (Hskw : forall x, skids_wf s2 x = skids_wf s x).
    { intros x. unfold skids_wf, kids_wf. destruct (Hsame x) as [_ [E _]]. rewrite E. reflexivity. }
    destruct (HL n Hln Hna) as [Hcn _].
    assert (Hkidn : forall k, In k (skids s n) -> attached s k /\ parent s k = Some n /\ k <> n).
    { intros k Hk. assert (Hk' := Hk). apply in_skids in Hk. destruct Hk as [g [j Hk]].
      destruct (Hcn k g j Hk (HXn _)) as [A [B _]]. split; [exact A | split; [exact B|]].
      intros ->. congruence. }
    split; [split; [|split; [|split; [|split]]]|split; [|split; [exact Hdetn | split; [exact Hdet | split; [exact Hsame | split; [exact Hidne | split; [exact Hidn | exact Hlen]]]]]]].
    - intros i x Hx. rewrite Hreg in Hx. destruct (pystr_eqb i (id_of s n)) eqn:E; [discriminate|].
      destruct (HR _ _ Hx) as [Hl Hi]. split; [unfold live in *; rewrite Hlen; exact Hl|].
      assert (Hxn : x <> n) by (intros ->; rewrite Hi, pystr_eqb_refl in E; discriminate).
      rewrite (Hidne x Hxn). exact Hi.
    - apply (rank_same_kids s s2); [exact Hlen | | exact HK].
      intros b. unfold skids, kids, kids_wf. destruct (Hsame b) as [_ [E _]]. rewrite E. reflexivity.
    - intros x Hx. destruct (Hsame x) as [_ [_ [Ep _]]]. rewrite Ep in Hx. destruct (HP x Hx) as [Hxa Hxp].
      destruct (parent s x) as [q|] eqn:Hq; [|congruence].
      destruct (Nat.eq_dec q n) as [->|Hqn].
      + left. assert (Hlx : live s x) by (apply attached_reg in Hxa; apply HR in Hxa; tauto).
        destruct (HL x Hlx Hxa) as [_ [Hs _]]. destruct (Hs n Hq) as [g [_ Hin]]. eapply edge_kid; exact Hin.
      + right. assert (Hxn : x <> n) by (intros ->; congruence).
        split; [apply (Hatt x Hxn); exact Hxa | rewrite (Hpar x q Hq Hqn); discriminate].
    - intros x Hlx Hax. assert (Hxn : x <> n) by (intros ->; unfold attached in Hax; congruence).
      assert (Hlx0 : live s x) by (unfold live in *; rewrite <- Hlen; exact Hlx).
      assert (Hax0 : attached s x) by (apply (Hatt x Hxn); exact Hax).
      destruct (HL x Hlx0 Hax0) as [Hc [Hs Hl]]. split; [|split].
      + intros k g j Hin HnX. rewrite Hskw in Hin. destruct (Hc k g j Hin HnX) as [A [B [C Dd]]].
        assert (Hkn : k <> n) by (intros ->; congruence).
        destruct (Hsame k) as [_ [_ [_ [Ef [Ei _]]]]].
        split; [apply (Hatt k Hkn); exact A|]. rewrite (Hpar k x B Hxn), Ef, Ei. auto.
      + intros q Hq. destruct (Hpar_back x q Hq) as [Hq0 _]. destruct (Hs q Hq0) as [g [Hg Hin]].
        destruct (Hsame x) as [_ [_ [_ [Ef [Ei _]]]]]. exists g. rewrite Ef, Ei, Hskw. split; assumption.
      + rewrite Hreg, (Hidne x Hxn), (Hidx x Hax0 Hxn). exact Hl.
    - intros y Hy. destruct (Hkidn y Hy) as [_ [B _]]. apply Hparn. exact B.
    - intros x Hlx Hx.
      assert (Hlx0 : live s x) by (unfold live in *; rewrite <- Hlen; exact Hlx).
      assert (Hax0 : attached s x).
      { destruct Hx as [Hx| ->]; [|exact Hna]. destruct (Nat.eq_dec x n) as [->|Hxn]; [exact Hna | apply (Hatt x Hxn); exact Hx]. }
      destruct (Hsame x) as [_ [_ [_ [_ [_ Ecid]]]]].
      unfold cid_ok. rewrite Ecid, (HCid x Hlx0 Hax0). symmetry.
      assert (Hfu : fuel_of s2 = fuel_of s) by (unfold fuel_of; rewrite Hlen; reflexivity).
      rewrite Hfu. apply tree_cid_skel. intros y. destruct (Hsame y) as [A [B _]]. split; assumption.
  Qed.
End FlipAttached.
