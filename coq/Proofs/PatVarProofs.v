(* C08: a pattern accepted by the interpreter never raises the run-time "variable before capture" error.
   compile threads the list [seen] of capture names left to right and refuses "$x" unless x is in it; the matcher
   threads the dictionary of captures made so far in the same order and stops at the first failure, so on every path
   that is still running every name of [seen] has a value: [covers seen ctx].  Proved on the documented semantics
   (Spec/PatSem.v) and carried over to the matcher objects by run_sem. *)
From Oak Require Import Model.Pattern Spec.PatSem Proofs.PatternProofs.
From Coq Require Import List Bool Arith Lia.
Import ListNotations.

Definition bound (k : pystr) (d : dict) : Prop := dget k d <> None.
(* every capture name the interpreter has seen has a value in the dictionary *)
Definition covers (seen : list pystr) (ctx : dict) : Prop := forall k, mem k seen = true -> bound k ctx.

Lemma dget_none k l : dget k l = None <-> forall k' v, In (k', v) l -> pystr_eqb k' k = false.
Proof.
  induction l as [|[a b] l IH]; simpl.
  - split; [intros _ k' v []|reflexivity].
  - destruct (pystr_eqb a k) eqn:E.
    + split; [discriminate|]. intros Hall. specialize (Hall a b (or_introl eq_refl)). congruence.
    + rewrite IH. split.
      * intros Hall k' v [Heq|Hin]; [inversion Heq; subst; exact E|eauto].
      * intros Hall k' v Hin. eauto.
Qed.
Lemma dget_rev_none k l : dget k (rev l) = None <-> dget k l = None.
Proof.
  rewrite !dget_none. split; intros Hall k' v Hin; apply (Hall k' v).
  - rewrite <- in_rev. exact Hin.
  - rewrite in_rev. exact Hin.
Qed.
Lemma bound_dupdate k d new : bound k (dupdate d new) <-> bound k d \/ bound k new.
Proof.
  unfold bound. rewrite dget_dupdate. destruct (dget k (rev new)) as [v|] eqn:E.
  - split; [|discriminate]. intros _. right. intros Hn. apply (proj2 (dget_rev_none k new)) in Hn. congruence.
  - apply (proj1 (dget_rev_none k new)) in E. rewrite E. split; [auto|intros [A|A]; [exact A|congruence]].
Qed.
Lemma bound_single k c v : bound k [(c, v)] <-> pystr_eqb c k = true.
Proof. unfold bound. simpl. destruct (pystr_eqb c k); split; congruence. Qed.
Lemma mem_cons k c s : mem k (c :: s) = pystr_eqb k c || mem k s.
Proof. reflexivity. Qed.
Lemma pystr_eqb_sym a b : pystr_eqb a b = pystr_eqb b a.
Proof.
  destruct (pystr_eqb a b) eqn:E.
  - apply pystr_eqb_eq in E. subst. symmetry. apply pystr_eqb_refl.
  - destruct (pystr_eqb b a) eqn:E2; [|reflexivity]. apply pystr_eqb_eq in E2. subst. rewrite pystr_eqb_refl in E. discriminate.
Qed.

(* what a part of the pattern owes: it does not raise, and when it matches, every name seen after it is bound
   in the context extended by its captures *)
Definition post (seen' : list pystr) (ctx : dict) (r : res) : Prop :=
  match r with RRaise => False | RFail => True | ROk nv => covers seen' (dupdate ctx nv) end.
Definition cap_cons (cap : option pystr) (s : list pystr) : list pystr := match cap with Some c => c :: s | None => s end.

Lemma post_named cap seen1 ctx v r : post seen1 ctx r -> post (cap_cons cap seen1) ctx (named cap v r).
Proof.
  destruct r as [|nv|]; simpl; auto. destruct cap as [c|]; simpl; auto.
  intros Hc k Hk. rewrite mem_cons in Hk. apply bound_dupdate.
  destruct (pystr_eqb k c) eqn:E; simpl in Hk.
  - right. apply bound_dupdate. left. apply bound_single. rewrite pystr_eqb_sym. exact E.
  - apply Hc in Hk. apply bound_dupdate in Hk. destruct Hk as [A|A]; [left; exact A|].
    right. apply bound_dupdate. right. exact A.
Qed.

Lemma take_capture_seen cap seen n seen' : take_capture cap seen = COk n seen' -> seen' = cap_cons cap seen.
Proof. destruct cap as [c|]; simpl; [destruct (mem c seen); [discriminate|]|]; intros E; inversion E; reflexivity. Qed.
Lemma attach_seen m cap seen m' seen' : attach true m cap seen = COk m' seen' -> seen' = cap_cons cap seen.
Proof.
  unfold attach. destruct (take_capture cap seen) as [n s|] eqn:E; [|discriminate].
  apply take_capture_seen in E. subst s.
  destruct n; [destruct (replace_name true m (Some p)); [|discriminate]|]; intros E; inversion E; reflexivity.
Qed.

Section NoRaise.
  Variable H : pystr -> pystr.
  Variable ct : ctable.
  Variable re_ok : pystr -> bool.
  Variable re_match : pystr -> pystr -> bool.
  Variable node_repr : node -> pystr.

  Notation c_pat := (c_pat ct re_ok true).
  Notation c_fspec := (c_fspec ct re_ok true).
  Notation c_vpat := (c_vpat ct re_ok true).
  Notation pm_pat := (pm_pat H ct re_match node_repr).
  Notation pm_fspec := (pm_fspec H ct re_match node_repr).
  Notation pm_vpat := (pm_vpat H ct re_match node_repr).

  Definition Vpat (p : pat) : Prop :=
    forall seen m seen', c_pat p seen = COk m seen' -> forall v ctx, covers seen ctx -> post seen' ctx (pm_pat p v ctx).
  Definition Vfspec (s : fspec) : Prop :=
    forall seen m seen', c_fspec s seen = COk m seen' -> forall v ctx, covers seen ctx -> post seen' ctx (pm_fspec s v ctx).
  Definition Vvpat (vp : vpat) : Prop :=
    forall seen m seen', c_vpat vp seen = COk m seen' -> forall v ctx, covers seen ctx -> post seen' ctx (pm_vpat vp v ctx).

  (* the loop invariant: the local context holds nothing but the outer context and the captures returned so far *)
  Definition linv (ctx0 lctx ret : dict) : Prop := forall k, bound k lctx -> bound k ctx0 \/ bound k ret.

  Lemma linv_step ctx0 lctx ret nv : linv ctx0 lctx ret -> linv ctx0 (dupdate lctx nv) (dupdate ret nv).
  Proof.
    intros Hi k Hk. apply bound_dupdate in Hk. destruct Hk as [A|A].
    - destruct (Hi k A) as [B|B]; [left; exact B|right; apply bound_dupdate; left; exact B].
    - right. apply bound_dupdate. right. exact A.
  Qed.
  Lemma linv_done ctx0 lctx ret seen : linv ctx0 lctx ret -> covers seen lctx -> covers seen (dupdate ctx0 ret).
  Proof. intros Hi Hc k Hk. apply bound_dupdate. apply Hi. apply Hc. exact Hk. Qed.
  Lemma covers_step seen' lctx nv : covers seen' (dupdate lctx nv) -> covers seen' (dupdate lctx nv).
  Proof. auto. Qed.

  Lemma fields_inv fs : Forall (fun f => Vfspec (snd f)) fs ->
    forall seen content seen',
      c_list (fun (fs : pystr * fspec) seen =>
                match c_fspec (snd fs) seen with CErr e => CErr e | COk m seen1 => COk (fst fs, m) seen1 end) fs seen
      = COk content seen' ->
    forall getf ctx0 lctx ret, covers seen lctx -> linv ctx0 lctx ret ->
      post seen' ctx0 (field_loop pm_fspec getf fs lctx ret).
  Proof.
    induction 1 as [|[f sp] fs Hx _ IH]; intros seen content seen' E getf ctx0 lctx ret Hc Hi; simpl in E |- *.
    - inversion E; subst. eapply linv_done; eauto.
    - destruct (c_fspec sp seen) as [m1 s1|] eqn:E1; [|discriminate].
      match type of E with context [c_list ?g fs s1] => destruct (c_list g fs s1) as [ys s2|] eqn:E2 end; [|discriminate].
      inversion E; subst; clear E.
      destruct (getf f) as [fv|]; [|exact I].
      pose proof (Hx _ _ _ E1 fv lctx Hc) as Hp. simpl in Hp.
      destruct (pm_fspec sp fv lctx) as [|nv|]; [exact I| |contradiction].
      eapply IH; [exact E2|exact Hp|apply linv_step; exact Hi].
  Qed.

  Lemma items_inv items : Forall (fun it => Vvpat (fst it)) items ->
    forall seen ms seen',
      c_list (fun (it : vpat * option pystr) seen =>
                match c_vpat (fst it) seen with CErr e => CErr e | COk m seen1 => attach true m (snd it) seen1 end) items seen
      = COk ms seen' ->
    forall fin seen'' elems ctx0 lctx ret, length items <= length elems ->
      (forall lctx ret, covers seen' lctx -> linv ctx0 lctx ret -> post seen'' ctx0 (fin lctx ret)) ->
      covers seen lctx -> linv ctx0 lctx ret ->
      post seen'' ctx0
        (zip_loop (fun (it : vpat * option pystr) e ctx => named (snd it) e (pm_vpat (fst it) e ctx)) fin items elems lctx ret).
  Proof.
    induction 1 as [|[vp cap] items Hx _ IH]; intros seen ms seen' E fin seen'' elems ctx0 lctx ret Hlen Hfin Hc Hi; simpl in E |- *.
    - inversion E; subst. apply Hfin; assumption.
    - destruct (c_vpat vp seen) as [m1 s1|] eqn:E1; [|discriminate].
      destruct (attach true m1 cap s1) as [m2 s2|] eqn:Ea; [|discriminate].
      match type of E with context [c_list ?g items s2] => destruct (c_list g items s2) as [ys s3|] eqn:E2 end; [|discriminate].
      inversion E; subst; clear E.
      destruct elems as [|e elems]; [simpl in Hlen; lia|]. simpl in Hlen.
      apply attach_seen in Ea. subst s2.
      pose proof (post_named cap s1 lctx e _ (Hx _ _ _ E1 e lctx Hc)) as Hp.
      cbn [fst snd] in Hp.
      destruct (named cap e (pm_vpat vp e lctx)) as [|nv|]; [exact I| |exact Hp].
      eapply IH; [exact E2|lia|exact Hfin|exact Hp|apply linv_step; exact Hi].
  Qed.

  Lemma var_T cls fs : Forall (fun f => Vfspec (snd f)) fs -> Vpat (PTree cls fs).
  Proof.
    intros HF seen m seen' E v ctx Hc. rewrite (c_pat_eq ct re_ok) in E.
    destruct (match cls with None => None | Some l => check_classes ct l end); [discriminate|].
    match type of E with context [c_list ?f fs seen] => destruct (c_list f fs seen) as [content s1|] eqn:EL end; [|discriminate].
    inversion E; subst; clear E. rewrite pm_pat_eq. destruct v as [pv|n|ns]; try exact I.
    destruct (match cls with None => true | Some l => existsb (subclass ct (Node.cls n)) l end); [|exact I].
    eapply fields_inv; [exact HF|exact EL|exact Hc|]. intros k Hk. left. exact Hk.
  Qed.

  Lemma var_A cap : Vfspec (FAny cap).
  Proof.
    intros seen m seen' E v ctx Hc. rewrite (c_fany_eq ct re_ok) in E. rewrite pm_fany_eq.
    destruct (take_capture cap seen) as [n s|] eqn:Et; [|discriminate]. inversion E; subst; clear E.
    apply take_capture_seen in Et. subst. apply post_named. exact Hc.
  Qed.

  Lemma var_V vp cap : Vvpat vp -> Vfspec (FVal vp cap).
  Proof.
    intros HV seen m seen' E v ctx Hc. rewrite (c_fval_eq ct re_ok) in E. rewrite pm_fval_eq.
    destruct (c_vpat vp seen) as [m1 s1|] eqn:E1; [|discriminate].
    apply attach_seen in E. subst. apply post_named. eapply HV; eauto.
  Qed.

  Lemma post_const seen ctx b : covers seen ctx -> post seen ctx (if b : bool then ROk [] else RFail).
  Proof. intros Hc. destruct b; simpl; auto. Qed.

  Lemma fin_post ctx0 lctx ret s1 (tail : option (option pystr)) v :
    covers s1 lctx -> linv ctx0 lctx ret ->
    post (match tail with Some tc => cap_cons tc s1 | None => s1 end) ctx0
         (match tail with Some (Some t) => ROk (dupdate ret [(t, v)]) | _ => ROk ret end).
  Proof.
    intros Hcl Hil. destruct tail as [[t|]|]; [|exact (linv_done _ _ _ _ Hil Hcl)|exact (linv_done _ _ _ _ Hil Hcl)].
    unfold post, cap_cons. intros k Hk. rewrite mem_cons in Hk. apply bound_dupdate.
    destruct (pystr_eqb k t) eqn:Ek.
    - right. apply bound_dupdate. right. apply bound_single. rewrite pystr_eqb_sym. exact Ek.
    - destruct (Hil k (Hcl k Hk)) as [A|A]; [left; exact A|right; apply bound_dupdate; left; exact A].
  Qed.

  Lemma var_S items tail cap : Forall (fun i => Vvpat (fst i)) items -> Vfspec (FSeq items tail cap).
  Proof.
    intros HF seen m seen' E v ctx Hc. rewrite (c_fseq_eq ct re_ok) in E.
    match type of E with context [c_list ?f items seen] => destruct (c_list f items seen) as [ms s1|] eqn:EL end; [|discriminate].
    (* the names seen after the tail *)
    assert (E' : exists m0 s2, attach true m0 cap s2 = COk m seen' /\
                   s2 = match tail with Some tc => cap_cons tc s1 | None => s1 end).
    { destruct tail as [tc|].
      - destruct (take_capture tc s1) as [n s2|] eqn:Et; [|discriminate]. apply take_capture_seen in Et. subst s2.
        destruct (ms ++ [MAny n]); [eauto|]. destruct (seq_post None (m0 :: l) None); [eauto|discriminate].
      - destruct ms; [eauto|]. destruct (seq_post None (m0 :: ms) None); [eauto|discriminate]. }
    clear E. destruct E' as [m0 [s2 [Ea Es2]]]. apply attach_seen in Ea. subst seen'.
    assert (Hgen : (items <> [] \/ tail <> None) -> post (cap_cons cap s2) ctx (pm_fspec (FSeq items tail cap) v ctx)).
    { intros Hne. rewrite pm_fseq_eq by exact Hne. apply post_named.
      destruct (seq_items v) as [elems|]; [|exact I].
      match goal with |- post _ _ (if ?b then _ else _) => destruct b eqn:Elen end; [|exact I].
      eapply items_inv; [exact HF|exact EL| | |exact Hc|intros k Hk; left; exact Hk].
      - destruct tail; [apply Nat.leb_le in Elen|apply Nat.eqb_eq in Elen]; lia.
      - intros lctx ret Hcl Hil. subst s2. eapply fin_post; eassumption. }
    destruct items as [|i0 items'].
    - destruct tail as [tc|]; [apply Hgen; right; discriminate|].
      simpl in EL. inversion EL; subst ms s1; clear EL. subst s2.
      rewrite pm_fseq_nil_eq. apply post_named. apply post_const. exact Hc.
    - apply Hgen. left. discriminate.
  Qed.

  Lemma var_VT p : Vpat p -> Vvpat (VTree p).
  Proof. intros HP seen m seen' E v ctx Hc. rewrite (c_vpat_eq ct re_ok) in E. rewrite pm_vpat_eq. eapply HP; eauto. Qed.
  Lemma var_VV x : Vvpat (VVar x).
  Proof.
    intros seen m seen' E v ctx Hc. rewrite (c_vpat_eq ct re_ok) in E. rewrite pm_vpat_eq.
    destruct (mem x seen) eqn:Em; [|discriminate]. inversion E; subst; clear E.
    pose proof (Hc x Em) as Hb. unfold bound in Hb. destruct (dget x ctx) as [w|]; [|congruence].
    apply post_const. exact Hc.
  Qed.
  Lemma var_VN : Vvpat VNoneP.
  Proof.
    intros seen m seen' E v ctx Hc. rewrite (c_vpat_eq ct re_ok) in E. rewrite pm_vpat_eq. inversion E; subst.
    apply post_const. exact Hc.
  Qed.
  Lemma var_VR r : Vvpat (VRegex r).
  Proof.
    intros seen m seen' E v ctx Hc. rewrite (c_vpat_eq ct re_ok) in E. rewrite pm_vpat_eq.
    destruct (re_ok r); [|discriminate]. inversion E; subst.
    apply post_const. exact Hc.
  Qed.

  Lemma var_pat p : Vpat p.
  Proof. exact (pat_ind' Vpat Vfspec Vvpat var_T var_A var_V var_S var_VT var_VV var_VN var_VR p). Qed.

  (* the scan invariant, for a part of a pattern compiled after the names [seen] *)
  Theorem scan_invariant p seen m seen' :
    c_pat p seen = COk m seen' ->
    forall v ctx, covers seen ctx ->
      pm_pat p v ctx <> RRaise /\ forall nv, pm_pat p v ctx = ROk nv -> covers seen' (dupdate ctx nv).
  Proof.
    intros E v ctx Hc. pose proof (var_pat p _ _ _ E v ctx Hc) as Hp.
    destruct (pm_pat p v ctx); simpl in Hp; [split; [discriminate|discriminate]| |contradiction].
    split; [discriminate|]. intros nv Hn; inversion Hn; subst; exact Hp.
  Qed.

  (* a compiled pattern never raises "variable before capture", whatever the value and the initial context *)
  Theorem sem_no_var_error p m :
    compile ct re_ok true p = inl m -> forall v ctx, pm_pat p v ctx <> RRaise.
  Proof.
    unfold compile. intros E v ctx. destruct (c_pat p []) as [m1 s1|] eqn:E1; [|discriminate].
    apply (scan_invariant p [] m1 s1 E1 v ctx). intros k Hk; discriminate.
  Qed.
  Theorem run_no_var_error p m :
    compile ct re_ok true p = inl m -> forall v ctx, run H ct re_match node_repr true m v ctx <> RRaise.
  Proof. intros E v ctx. rewrite (run_sem H ct re_ok re_match node_repr p m E). eapply sem_no_var_error; eauto. Qed.

  (* on success every capture name of the pattern has a value *)
  Theorem run_binds_all p m seen' :
    c_pat p [] = COk m seen' ->
    forall v nv, run H ct re_match node_repr true m v [] = ROk nv -> forall k, mem k seen' = true -> dget k nv <> None.
  Proof.
    intros E v nv Hr k Hk.
    assert (Ec : compile ct re_ok true p = inl m) by (unfold compile; rewrite E; reflexivity).
    rewrite (run_sem H ct re_ok re_match node_repr p m Ec) in Hr.
    destruct (scan_invariant p [] m seen' E v []) as [_ Hb]; [intros k' Hk'; discriminate|].
    specialize (Hb nv Hr k Hk). apply bound_dupdate in Hb. destruct Hb as [A|A]; [exfalso; apply A; reflexivity|exact A].
  Qed.

  (* MultiPatternMatcher.match never lets the error escape either *)
  Theorem multi_no_var_error rules crules v name :
    compiled ct re_ok rules crules ->
    multi_match H ct re_match node_repr true crules v <> Some (name, RRaise).
  Proof.
    induction 1 as [|r cr rules crules [Hn Hc] _ IH]; simpl; [discriminate|].
    destruct cr as [name' m]. simpl in *.
    pose proof (run_no_var_error (snd r) m Hc v []) as Hne.
    destruct (run H ct re_match node_repr true m v []); [exact IH| |congruence].
    intros E; inversion E.
  Qed.
End NoRaise.

(* the length test matters: with the pre-repair test len(value) < len(matchers) - 1 (D7) the zip stops early, a
   capture of a skipped element stays unbound and a later $variable raises at run time *)
Definition pat_D7var : pat :=
  PTree (Some [lit "L"]) [(lit "items", FSeq [(pcls "A", None); (pcls "B", Some (lit "b"))] (Some None) None);
                          (lit "items", FSeq [(VVar (lit "b"), None)] (Some None) None)].
Lemma refuted_D7_var_raises :
  exists m, compile wit_ct (fun _ => true) true pat_D7var = inl m
    /\ run idH wit_ct any_re no_repr false m (XN (nL 0 [nA 1 "a"])) [] = RRaise
    /\ run idH wit_ct any_re no_repr true m (XN (nL 0 [nA 1 "a"])) [] = RFail.
Proof. eexists. split; [vm_compute; reflexivity|]. vm_compute. auto. Qed.
