(* Proofs for C09. Part 1: accept() dispatch. Part 2: the dictionary loop of _transform_children equals a
   field-by-field traversal (gv_tr). Part 3: invariants of visit by induction on the fuel. Part 4: the theorems. *)
From Oak Require Import Model.Visitor Spec.RewriteSpec Proofs.AccessProofs.
From Oak Require Import Base.Term.

(* ====================================================================== Part 1: dispatch *)
Lemma find_first {A} (p : A -> bool) l x :
  find p l = Some x <-> exists pre post, l = pre ++ x :: post /\ p x = true /\ forall y, In y pre -> p y = false.
Proof.
  induction l as [|a l IH]; simpl.
  - split; [discriminate|]. intros (pre & post & E & _). destruct pre; discriminate.
  - destruct (p a) eqn:Pa.
    + split.
      * intros [= <-]. exists [], l. simpl. repeat split; auto. intros y [].
      * intros (pre & post & E & Px & Hpre). destruct pre as [|b pre]; simpl in E.
        -- congruence.
        -- injection E as <- _. rewrite (Hpre a) in Pa; [discriminate|left; auto].
    + rewrite IH. split.
      * intros (pre & post & -> & Px & Hpre). exists (a :: pre), post. simpl. repeat split; auto.
        intros y [<-|Hy]; auto.
      * intros (pre & post & E & Px & Hpre). destruct pre as [|b pre]; simpl in E.
        -- injection E as -> _. congruence.
        -- injection E as <- ->. exists pre, post. repeat split; auto. intros y Hy. apply Hpre. right; auto.
Qed.
Lemma find_none {A} (p : A -> bool) l : find p l = None <-> forall y, In y l -> p y = false.
Proof.
  induction l as [|a l IH]; simpl.
  - split; auto. intros _ y [].
  - destruct (p a) eqn:Pa.
    + split; [discriminate|]. intros Hn. rewrite (Hn a) in Pa; [discriminate|auto].
    + rewrite IH. split; intros Hn y; [intros [<-|Hy]; auto|intros Hy; apply Hn; auto].
Qed.

Theorem dispatch_spec ct strict has c :
  (forall m, dispatch ct strict has c = Some m <->
     if strict then m = c /\ has c = true
     else exists pre post, mro ct c = pre ++ m :: post /\ has m = true /\ forall y, In y pre -> has y = false)
  /\ (dispatch ct strict has c = None <->
     if strict then has c = false else forall y, In y (mro ct c) -> has y = false).
Proof.
  unfold dispatch. destruct strict.
  - destruct (has c) eqn:Hc; split.
    + intros m. split; [intros [= <-]; auto|intros [-> _]; auto].
    + split; [discriminate|intros; discriminate].
    + intros m. split; [discriminate|intros [_ ?]; discriminate].
    + split; auto.
  - split; [intros m; apply find_first|apply find_none].
Qed.

(* the class itself always heads its MRO: a method of the node's own class wins in both modes *)
Lemma mro_head ct c : exists tl, mro ct c = c :: tl.
Proof. unfold mro. destruct (find_class ct c); eexists; reflexivity. Qed.
Theorem dispatch_own ct strict has c : has c = true -> dispatch ct strict has c = Some c.
Proof.
  intros Hc. unfold dispatch. destruct strict; [rewrite Hc; auto|].
  destruct (mro_head ct c) as [tl ->]. simpl. rewrite Hc. reflexivity.
Qed.

(* ====================================================================== Part 2: the loop, field by field *)
(* ---- dictionary facts ---- *)
Lemma assoc_app_last {A} k (d : list (pystr * A)) x :
  ~ In k (map fst d) -> assoc k (d ++ [(k, x)]) = Some x.
Proof.
  induction d as [|[k' v'] d IH]; simpl; intros Hn.
  - rewrite pystr_eqb_refl. reflexivity.
  - destruct (pystr_eqb_spec k' k) as [->|_]; [exfalso; apply Hn; auto|]. apply IH. intros Hin. apply Hn. auto.
Qed.
Lemma assoc_notin {A} k (d : list (pystr * A)) : ~ In k (map fst d) -> assoc k d = None.
Proof.
  induction d as [|[k' v'] d IH]; simpl; intros Hn; auto.
  destruct (pystr_eqb_spec k' k) as [->|_]; [exfalso; apply Hn; auto|]. apply IH. intros Hin. apply Hn. auto.
Qed.
Lemma dict_set_new {A} k (y : A) d : ~ In k (map fst d) -> dict_set k y d = d ++ [(k, y)].
Proof.
  induction d as [|[k' v'] d IH]; simpl; intros Hn; auto.
  destruct (pystr_eqb_spec k' k) as [->|_]; [exfalso; apply Hn; auto|]. rewrite IH; auto.
Qed.
Lemma dict_set_last {A} k (x y : A) d : ~ In k (map fst d) -> dict_set k y (d ++ [(k, x)]) = d ++ [(k, y)].
Proof.
  induction d as [|[k' v'] d IH]; simpl; intros Hn.
  - rewrite pystr_eqb_refl. reflexivity.
  - destruct (pystr_eqb_spec k' k) as [->|_]; [exfalso; apply Hn; auto|]. rewrite IH; auto.
Qed.
Lemma existsb_eqb_in k m : existsb (pystr_eqb k) m = true <-> In k m.
Proof.
  rewrite existsb_exists. split.
  - intros (x & Hx & E). apply pystr_eqb_eq in E. subst. auto.
  - intros Hin. exists k. split; auto. apply pystr_eqb_refl.
Qed.
Lemma existsb_eqb_notin k m : ~ In k m -> existsb (pystr_eqb k) m = false.
Proof. intros Hn. destruct (existsb (pystr_eqb k) m) eqn:E; auto. apply existsb_eqb_in in E. contradiction. Qed.
Definition flag (b : bool) (k : pystr) : list pystr := if b then [k] else [].
Lemma set_add_flag k m b : ~ In k m -> set_add k (m ++ flag b k) = m ++ [k].
Proof.
  intros Hn. unfold set_add. destruct b; simpl.
  - assert (E : existsb (pystr_eqb k) (m ++ [k]) = true) by (apply existsb_eqb_in, in_or_app; right; left; auto).
    rewrite E. reflexivity.
  - rewrite app_nil_r. rewrite existsb_eqb_notin; auto.
Qed.

(* ---- one tuple field ---- *)
Section OneField.
  Variables (v : visitfn) (name : pystr) (rest : list (node * pystr * option nat)).
  Variables (chg0 : changes) (m0 : list pystr).
  Hypothesis Hchg : ~ In name (map fst chg0).
  Hypothesis Hm : ~ In name m0.

  Definition many_edges (i : nat) (l : list node) : list (node * pystr * option nat) :=
    map (fun p => (fst p, name, Some (snd p))) (number_from i l).

  Lemma many_loop l : forall i s acc b,
    tc_loop v (many_edges i l ++ rest) s (chg0 ++ [(name, (ShMany, acc))]) (m0 ++ flag b name) =
    match seq_visit v l s with
    | None => None
    | Some (s', None) => Some (s', None)
    | Some (s', Some rs) =>
      tc_loop v rest s' (chg0 ++ [(name, (ShMany, acc ++ rkeep rs))]) (m0 ++ flag (b || lmarked l rs) name)
    end.
  Proof.
    induction l as [|x l IH]; intros i s acc b; simpl.
    - rewrite app_nil_r, orb_false_r. reflexivity.
    - unfold dict_has. rewrite assoc_app_last by exact Hchg.
      destruct (v x s) as [[s1 r1]|]; [|reflexivity]. simpl.
      destruct r1 as [c'| |]; simpl.
      + unfold dict_append. rewrite assoc_app_last by exact Hchg. rewrite dict_set_last by exact Hchg.
        assert (Em : (if Nat.eqb (addr c') (addr x) then m0 ++ flag b name else set_add name (m0 ++ flag b name))
                     = m0 ++ flag (b || negb (Nat.eqb (addr c') (addr x))) name).
        { destruct (Nat.eqb (addr c') (addr x)); simpl.
          - rewrite orb_false_r. reflexivity.
          - rewrite orb_true_r. apply set_add_flag, Hm. }
        rewrite Em. fold (many_edges (S i) l). rewrite IH. destruct (seq_visit v l s1) as [[s2 [rs|]]|]; simpl; auto.
        rewrite <- app_assoc. simpl. unfold lmarked. simpl. rewrite orb_assoc. reflexivity.
      + rewrite set_add_flag by exact Hm.
        change (m0 ++ [name]) with (m0 ++ flag true name). fold (many_edges (S i) l). rewrite IH.
        destruct (seq_visit v l s1) as [[s2 [rs|]]|]; simpl; auto.
        unfold lmarked. simpl. rewrite orb_true_r. reflexivity.
      + reflexivity.
  Qed.

  (* entries a field leaves in the dictionary / in the marked set *)
  Definition entry (sh : kshape) (l : list node) (rs : list result) : changes :=
    match l with [] => [] | _ => [(name, vnew sh rs)] end.

  Lemma field_loop sh l s :
    shape_len_ok (sh, l) = true ->
    tc_loop v (map (fun ci => (fst ci, name, snd ci)) (field_children (sh, l)) ++ rest) s chg0 m0 =
    match seq_visit v l s with
    | None => None
    | Some (s', None) => Some (s', None)
    | Some (s', Some rs) => tc_loop v rest s' (chg0 ++ entry sh l rs) (m0 ++ flag (lmarked l rs) name)
    end.
  Proof.
    intros Hok. destruct sh; simpl in Hok.
    - destruct l; [|discriminate]. simpl. rewrite !app_nil_r. reflexivity.
    - destruct l as [|x [|y l]]; try discriminate. simpl.
      destruct (v x s) as [[s1 r1]|]; [|reflexivity]. simpl.
      destruct r1 as [c'| |]; simpl; auto.
      + rewrite dict_set_new by exact Hchg. unfold lmarked. simpl. rewrite orb_false_r.
        destruct (Nat.eqb (addr c') (addr x)); simpl.
        * rewrite app_nil_r. reflexivity.
        * unfold set_add. rewrite existsb_eqb_notin by exact Hm. reflexivity.
      + rewrite dict_set_new by exact Hchg. unfold set_add. rewrite existsb_eqb_notin by exact Hm. reflexivity.
    - destruct l as [|x l].
      + simpl. rewrite !app_nil_r. reflexivity.
      + unfold field_children. rewrite map_map. simpl map.
        change (map (fun x0 : node * nat => (fst x0, name, Some (snd x0))) (number_from 1 l)) with (many_edges 1 l).
        simpl app. cbn [tc_loop].
        unfold dict_has. rewrite assoc_notin by exact Hchg. rewrite dict_set_new by exact Hchg.
        cbn [seq_visit].
        destruct (v x s) as [[s1 r1]|]; [|reflexivity]. cbn [fst snd].
        destruct r1 as [c'| |]; cbn [fst snd].
        * unfold dict_append. rewrite assoc_app_last by exact Hchg. rewrite dict_set_last by exact Hchg.
          assert (Em : (if Nat.eqb (addr c') (addr x) then m0 else set_add name m0)
                       = m0 ++ flag (negb (Nat.eqb (addr c') (addr x))) name).
          { destruct (Nat.eqb (addr c') (addr x)); simpl; [rewrite app_nil_r; auto|].
            unfold set_add. rewrite existsb_eqb_notin by exact Hm. reflexivity. }
          rewrite Em, many_loop. destruct (seq_visit v l s1) as [[s2 [rs|]]|]; simpl; auto.
        * assert (Em : set_add name m0 = m0 ++ flag true name).
          { unfold set_add. rewrite existsb_eqb_notin by exact Hm. reflexivity. }
          rewrite Em, many_loop. destruct (seq_visit v l s1) as [[s2 [rs|]]|]; simpl; auto.
        * reflexivity.
  Qed.
End OneField.

(* ---- all fields ---- *)
Definition edges_of (ks : list kfield) : list (node * pystr * option nat) :=
  flat_map (fun p => map (fun ci => (fst ci, fst p, snd ci)) (field_children (snd p))) ks.
Definition chg_of (ks : list kfield) (rss : list (list result)) : changes :=
  flat_map (fun p => match snd (snd (fst p)) with [] => [] | _ => [fnew (fst p) (snd p)] end) (combine ks rss).
Definition marked_of (ks : list kfield) (rss : list (list result)) : list pystr :=
  flat_map (fun p => flag (fmarked (fst p) (snd p)) (fst (fst p))) (combine ks rss).
Definition mchg (ks : list kfield) (rss : list (list result)) : changes :=
  flat_map (fun p => if fmarked (fst p) (snd p) then [fnew (fst p) (snd p)] else []) (combine ks rss).

Lemma chg_of_cons k ks rs rss :
  chg_of (k :: ks) (rs :: rss) = (match snd (snd k) with [] => [] | _ => [fnew k rs] end) ++ chg_of ks rss.
Proof. reflexivity. Qed.
Lemma marked_of_cons k ks rs rss : marked_of (k :: ks) (rs :: rss) = flag (fmarked k rs) (fst k) ++ marked_of ks rss.
Proof. reflexivity. Qed.
Lemma mchg_cons k ks rs rss : mchg (k :: ks) (rs :: rss) = (if fmarked k rs then [fnew k rs] else []) ++ mchg ks rss.
Proof. reflexivity. Qed.
Lemma rebuild_cons k ks rs rss : rebuild (k :: ks) (rs :: rss) = (if fmarked k rs then fnew k rs else k) :: rebuild ks rss.
Proof. reflexivity. Qed.
Lemma any_marked_cons k ks rs rss : any_marked (k :: ks) (rs :: rss) = fmarked k rs || any_marked ks rss.
Proof. reflexivity. Qed.

Lemma chg_of_keys ks : forall rss k, In k (map fst (chg_of ks rss)) -> In k (map fst ks).
Proof.
  induction ks as [|[nm [sh l]] ks IH]; intros [|rs rss] k; try (simpl; tauto).
  rewrite chg_of_cons, map_app, in_app_iff. simpl. intros [H|H]; [|right; eapply IH; eauto].
  destruct l; simpl in H; [tauto|]. destruct H as [<-|[]]. auto.
Qed.
Lemma marked_of_names ks : forall rss k, In k (marked_of ks rss) -> In k (map fst ks).
Proof.
  induction ks as [|[nm [sh l]] ks IH]; intros [|rs rss] k; try (simpl; tauto).
  rewrite marked_of_cons, in_app_iff. simpl. intros [H|H]; [|right; eapply IH; eauto].
  destruct (fmarked (nm, (sh, l)) rs); simpl in H; [|tauto]. destruct H as [<-|[]]. auto.
Qed.
Lemma mchg_keys ks : forall rss k, In k (map fst (mchg ks rss)) -> In k (map fst ks).
Proof.
  induction ks as [|[nm [sh l]] ks IH]; intros [|rs rss] k; try (simpl; tauto).
  rewrite mchg_cons, map_app, in_app_iff. simpl. intros [H|H]; [|right; eapply IH; eauto].
  destruct (fmarked (nm, (sh, l)) rs); simpl in H; [|tauto]. destruct H as [<-|[]]. auto.
Qed.

Lemma fields_loop v ks : forall s chg m,
  NoDup (map fst ks) ->
  (forall k, In k (map fst ks) -> ~ In k (map fst chg) /\ ~ In k m) ->
  forallb (fun k => shape_len_ok (snd k)) ks = true ->
  tc_loop v (edges_of ks) s chg m =
  match fields_visit v ks s with
  | None => None
  | Some (s', None) => Some (s', None)
  | Some (s', Some rss) => Some (s', Some (chg ++ chg_of ks rss, m ++ marked_of ks rss))
  end.
Proof.
  induction ks as [|[nm [sh l]] ks IH]; intros s chg m Hnd Hdis Hok.
  - simpl. rewrite !app_nil_r. reflexivity.
  - simpl in Hok. apply andb_prop in Hok as [Hok1 Hok2].
    inversion Hnd as [|? ? Hnotin Hnd']; subst.
    destruct (Hdis nm) as [Hc Hm]; [left; auto|].
    unfold edges_of. cbn [flat_map fst snd]. fold (edges_of ks).
    rewrite (field_loop v nm (edges_of ks) chg m Hc Hm sh l s Hok1).
    cbn [fields_visit fst snd].
    destruct (seq_visit v l s) as [[s1 [rs|]]|]; cbn [fst snd]; auto.
    rewrite IH; auto.
    + destruct (fields_visit v ks s1) as [[s2 [rss|]]|]; cbn [fst snd option_map]; auto.
      rewrite chg_of_cons, marked_of_cons, <- !app_assoc.
      unfold entry, fnew, fmarked. cbn [fst snd]. destruct l; reflexivity.
    + intros k Hk. destruct (Hdis k) as [Hc' Hm']; [right; auto|].
      assert (k <> nm) by (intros ->; contradiction).
      split.
      * rewrite map_app, in_app_iff. intros [?|Hin]; [contradiction|].
        unfold entry in Hin. destruct l; simpl in Hin; [tauto|]. destruct Hin as [->|[]]. congruence.
      * rewrite in_app_iff. intros [?|Hin]; [contradiction|].
        unfold flag in Hin. destruct (lmarked l rs); simpl in Hin; [|tauto]. destruct Hin as [->|[]]. congruence.
Qed.

Lemma assoc_app {A} k (c d : list (pystr * A)) :
  assoc k (c ++ d) = match assoc k c with Some x => Some x | None => assoc k d end.
Proof. induction c as [|[k' x] c IH]; simpl; auto. destruct (pystr_eqb k' k); auto. Qed.

Lemma filter_marked ks : forall rss M,
  NoDup (map fst ks) -> (forall k, In k (map fst ks) -> ~ In k M) ->
  filter (fun kv : pystr * (kshape * list node) => existsb (pystr_eqb (fst kv)) (M ++ marked_of ks rss)) (chg_of ks rss)
  = mchg ks rss.
Proof.
  induction ks as [|[nm [sh l]] ks IH]; intros [|rs rss] M Hnd HM; simpl; auto.
  inversion Hnd as [|? ? Hnotin Hnd']; subst.
  rewrite chg_of_cons, marked_of_cons, mchg_cons. cbn [fst snd].
  rewrite filter_app. f_equal.
  - assert (Eb : existsb (pystr_eqb nm) (M ++ flag (fmarked (nm, (sh, l)) rs) nm ++ marked_of ks rss) = fmarked (nm, (sh, l)) rs).
    { destruct (fmarked (nm, (sh, l)) rs) eqn:Fm; simpl.
      - apply existsb_eqb_in, in_or_app. right. left. auto.
      - apply existsb_eqb_notin. rewrite in_app_iff. intros [H|H].
        + eapply HM; eauto. left; auto.
        + apply Hnotin. eapply marked_of_names; eauto. }
    destruct l as [|x l].
    + simpl. unfold fmarked, lmarked. simpl. reflexivity.
    + simpl. unfold fnew at 1. cbn [fst]. rewrite Eb. destruct (fmarked (nm, (sh, x :: l)) rs); reflexivity.
  - rewrite app_assoc. apply IH; auto.
    intros k Hk. rewrite in_app_iff. intros [H|H].
    + eapply HM; eauto. right; auto.
    + unfold flag in H. destruct (fmarked (nm, (sh, l)) rs); simpl in H; [|tauto].
      destruct H as [->|[]]. contradiction.
Qed.

Lemma upd_rebuild ks : forall rss C,
  NoDup (map fst ks) -> (forall k, In k (map fst ks) -> ~ In k (map fst C)) -> length rss = length ks ->
  map (upd (C ++ mchg ks rss)) ks = rebuild ks rss.
Proof.
  induction ks as [|[nm [sh l]] ks IH]; intros [|rs rss] C Hnd HC Hlen; simpl in *; try discriminate; auto.
  inversion Hnd as [|? ? Hnotin Hnd']; subst.
  rewrite rebuild_cons, mchg_cons. cbn [map]. f_equal.
  - unfold upd. cbn [fst]. rewrite assoc_app, assoc_notin by (apply HC; left; auto).
    destruct (fmarked (nm, (sh, l)) rs).
    + simpl. rewrite pystr_eqb_refl. reflexivity.
    + simpl. rewrite assoc_notin; auto. intros H. apply Hnotin. eapply mchg_keys; eauto.
  - rewrite app_assoc. apply IH; auto.
    intros k Hk. rewrite map_app, in_app_iff. intros [H|H].
    + eapply HC; eauto.
    + destruct (fmarked (nm, (sh, l)) rs); simpl in H; [|tauto]. destruct H as [->|[]]. contradiction.
Qed.

Lemma marked_of_nil ks : forall rss, marked_of ks rss = [] <-> any_marked ks rss = false.
Proof.
  induction ks as [|k ks IH]; intros [|rs rss]; simpl; try tauto.
  rewrite marked_of_cons, any_marked_cons.
  destruct (fmarked k rs); simpl; [split; discriminate|apply IH].
Qed.
Lemma mchg_nil ks : forall rss, any_marked ks rss = true -> mchg ks rss <> [].
Proof.
  induction ks as [|k ks IH]; intros [|rs rss]; simpl; try discriminate.
  rewrite mchg_cons, any_marked_cons.
  destruct (fmarked k rs); simpl; [discriminate|apply IH].
Qed.

Lemma seq_visit_length v l : forall s s' rs, seq_visit v l s = Some (s', Some rs) -> length rs = length l.
Proof.
  induction l as [|x l IH]; simpl; intros s s' rs H.
  - injection H as _ <-. reflexivity.
  - destruct (v x s) as [[s1 r1]|]; [|discriminate]. simpl in H.
    destruct r1; try discriminate;
      (destruct (seq_visit v l s1) as [[s2 [rs2|]]|] eqn:E; simpl in H; try discriminate;
       injection H as _ <-; simpl; f_equal; eapply IH; eauto).
Qed.
Lemma fields_visit_length v ks : forall s s' rss, fields_visit v ks s = Some (s', Some rss) -> length rss = length ks.
Proof.
  induction ks as [|k ks IH]; simpl; intros s s' rss H.
  - injection H as _ <-. reflexivity.
  - destruct (seq_visit v (snd (snd k)) s) as [[s1 [rs|]]|]; simpl in H; try discriminate.
    destruct (fields_visit v ks s1) as [[s2 [rss2|]]|] eqn:E; simpl in H; try discriminate.
    injection H as _ <-. simpl. f_equal. eapply IH; eauto.
Qed.

(* ---- the node's child fields are the declared ones ---- *)
Definition root_ok (ct : ctable) (n : node) : bool :=
  names_eqb (map fst (nkids n)) (map fd_name (child_fields ct (cls n))) && nodupb (map fst (nkids n))
  && forallb (fun k => shape_len_ok (snd k)) (nkids n).

Lemma nodupb_NoDup l : nodupb l = true -> NoDup l.
Proof.
  induction l as [|x l IH]; simpl; intros H; constructor; apply andb_prop in H as [H1 H2]; auto.
  intros Hin. apply existsb_eqb_in in Hin. rewrite Hin in H1. discriminate.
Qed.
Lemma names_eqb_eq a : forall b, names_eqb a b = true -> a = b.
Proof.
  induction a as [|x a IH]; intros [|y b]; simpl; try discriminate; auto.
  intros H. apply andb_prop in H as [H1 H2]. apply pystr_eqb_eq in H1. f_equal; auto.
Qed.
Lemma field_values_are_kids (ks : list kfield) : forall fs,
  map fst ks = map fd_name fs -> NoDup (map fst ks) ->
  map (fun f => (fd_name f, field_value ks f)) fs = ks.
Proof.
  induction ks as [|[nm val] ks IH]; intros [|f fs] E Hnd; simpl in *; try discriminate; auto.
  injection E as E1 E2. inversion Hnd as [|? ? Hnotin Hnd']; subst.
  f_equal.
  - unfold field_value. simpl. rewrite pystr_eqb_refl. reflexivity.
  - transitivity (map (fun f => (fd_name f, field_value ks f)) fs); [|apply IH; auto].
    apply map_ext_in. intros g Hg.
    unfold field_value. simpl.
    destruct (pystr_eqb_spec (fd_name f) (fd_name g)) as [Eq|_]; auto.
    exfalso. apply Hnotin. rewrite E2, Eq. apply in_map. exact Hg.
Qed.

Theorem generic_visit_tr ct v n s : root_ok ct n = true -> generic_visit ct v n s = gv_tr v n s.
Proof.
  unfold root_ok. intros H. apply andb_prop in H as [H Hsh]. apply andb_prop in H as [Hnames Hnd].
  apply names_eqb_eq in Hnames. apply nodupb_NoDup in Hnd.
  unfold generic_visit, transform_children, gv_tr.
  rewrite edges_from_fields. unfold iter_child_fields, kid_fields.
  rewrite (field_values_are_kids (nkids n) _ Hnames Hnd). fold (edges_of (nkids n)).
  rewrite fields_loop; auto; try (intros k _; simpl; tauto).
  destruct (fields_visit v (nkids n) s) as [[s1 [rss|]]|] eqn:Efv; cbn [fst snd]; auto.
  simpl app.
  destruct (any_marked (nkids n) rss) eqn:Am.
  - destruct (marked_of (nkids n) rss) as [|mk mks] eqn:Emk.
    + apply marked_of_nil in Emk. congruence.
    + cbn [fst snd]. rewrite <- Emk.
      pose proof (filter_marked (nkids n) rss [] Hnd) as Hf. simpl app in Hf.
      rewrite Hf by (intros; simpl; tauto).
      pose proof (mchg_nil _ _ Am) as Hne.
      destruct (mchg (nkids n) rss) as [|e es] eqn:Em; [congruence|]. cbn [fst snd].
      rewrite <- Em. unfold dc_replace.
      assert (Ep : map (upd []) (nprops n) = nprops n).
      { rewrite <- (map_id (nprops n)) at 2. apply map_ext. intros [k x]; reflexivity. }
      pose proof (upd_rebuild (nkids n) rss [] Hnd) as Hu. simpl app in Hu.
      rewrite Ep, Hu; auto. eapply fields_visit_length; eauto.
  - apply marked_of_nil in Am. rewrite Am. reflexivity.
Qed.

(* ====================================================================== Part 3: invariants *)
(* induction over nodes through their size *)
Lemma size_in_list x l : In x l -> size x <= list_sum (map size l).
Proof. induction l as [|y l IH]; simpl; intros []; subst; try lia. apply IH in H. lia. Qed.
Lemma size_kid a c o ps ks k x : In k ks -> In x (snd (snd k)) -> size x < size (Node a c o ps ks).
Proof.
  intros Hk Hx. simpl. apply size_in_list in Hx.
  assert (list_sum (map size (snd (snd k))) <= list_sum (map (fun k => list_sum (map size (snd (snd k)))) ks)).
  { clear Hx. induction ks as [|k0 ks IH]; simpl; destruct Hk; subst; try lia. apply IH in H. lia. }
  lia.
Qed.
Lemma node_ind2 (P : node -> Prop) :
  (forall a c o ps ks, (forall k x, In k ks -> In x (snd (snd k)) -> P x) -> P (Node a c o ps ks)) -> forall n, P n.
Proof.
  intros H n. remember (size n) as m eqn:Em. revert n Em.
  induction m as [m IH] using lt_wf_ind. intros [a c o ps ks] ->.
  apply H. intros k x Hk Hx. eapply IH; [|reflexivity]. eapply size_kid; eauto.
Qed.

Lemma subterms_self n : In n (subterms n).
Proof. destruct n; simpl; auto. Qed.
Lemma subterms_cons n y :
  In y (subterms n) <-> y = n \/ exists k x, In k (nkids n) /\ In x (snd (snd k)) /\ In y (subterms x).
Proof.
  destruct n as [a c o ps ks]. simpl. split.
  - intros [<-|H]; auto. right. apply in_flat_map in H as (k & Hk & H). apply in_flat_map in H as (x & Hx & H). eauto.
  - intros [->|(k & x & Hk & Hx & H)]; auto. right. apply in_flat_map. exists k. split; auto.
    apply in_flat_map. eauto.
Qed.
Lemma subterms_trans n : forall x y, In x (subterms n) -> In y (subterms x) -> In y (subterms n).
Proof.
  induction n as [a c o ps ks IH] using node_ind2. intros x y Hx Hy.
  apply subterms_cons in Hx as [->|(k & z & Hk & Hz & Hx)]; auto.
  apply subterms_cons. right. exists k, z. repeat split; auto. eapply IH; eauto.
Qed.
Lemma kid_subterm n k x : In k (nkids n) -> In x (snd (snd k)) -> In x (subterms n).
Proof. intros Hk Hx. apply subterms_cons. right. exists k, x. repeat split; auto. apply subterms_self. Qed.

Lemma upd_nil {A} (l : list (pystr * A)) : map (upd []) l = l.
Proof. rewrite <- (map_id l) at 2. apply map_ext. intros [k x]; reflexivity. Qed.

Section Inv.
  Variables (ct : ctable) (strict : bool) (ms : methods) (root : node).
  Let U := universe ms root.
  Notation V := (visit ct strict ms).
  Notation rw := (rewrite ct strict ms).
  Notation chd := (changed ct strict ms).
  Notation rl := (rule ct strict ms).

  Lemma U_closed n y : In n U -> In y (subterms n) -> In y U.
  Proof.
    unfold U, universe. intros Hn Hy. apply in_flat_map in Hn as (t & Ht & Hn).
    apply in_flat_map. exists t. split; auto. eapply subterms_trans; eauto.
  Qed.
  Lemma template_in_U c t : (assoc c ms = Some (AReplaceBy t) \/ assoc c ms = Some (AReplaceNew t)) -> In t U.
  Proof.
    intros H. unfold U, universe. apply in_flat_map. exists t. split; [|apply subterms_self]. right.
    clear U. induction ms as [|[c' a'] m IH]; simpl in *; [destruct H; discriminate|].
    destruct (pystr_eqb c' c).
    - destruct H as [[= ->]|[= ->]]; left; auto.
    - specialize (IH H). destruct a'; auto; right; auto.
  Qed.

  (* provenance: every node of a result is an old object or was allocated in the window [a, b) *)
  Definition prov (a b : nat) (n' : node) : Prop := forall y, In y (subterms n') -> In y U \/ (a <= addr y < b).

  Definition kids_changed (n : node) : bool := existsb (fun k => existsb chd (snd (snd k))) (nkids n).
  Definition rebuilt_of (n : node) : sres :=
    let kids' := map (fun k => (fst k, (fst (snd k), map rw (snd (snd k))))) (nkids n) in
    if existsb (fun k : pystr * (kshape * list sres) => existsb is_serr (snd (snd k))) kids' then SErr
    else SNode (Node 0 (cls n) (norigin n) (nprops n)
                     (map (fun k : pystr * (kshape * list sres) => (fst k, field_rw (fst (snd k)) (snd (snd k)))) kids')).

  Lemma rewrite_eq n :
    rw n = match rl (cls n) with
           | None | Some AGeneric => rebuilt_of n
           | Some AKeep => SNode (strip n)
           | Some (ASetProp f v) => match set_prop ct 0 (strip n) f v with Some n' => SNode n' | None => SErr end
           | Some (AGenSetProp f v) =>
             match rebuilt_of n with
             | SNode m => match set_prop ct 0 m f v with Some n' => SNode n' | None => SErr end
             | r => r
             end
           | Some (AReplaceBy t) | Some (AReplaceNew t) => SNode (strip t)
           | Some ARemove => SNone
           | Some ARaise => SErr
           end.
  Proof. destruct n as [a c o ps ks]. unfold rebuilt_of. cbn [cls nkids norigin nprops]. cbn [rewrite].
         destruct (rl c) as [[]|]; try reflexivity.
         match goal with |- context [if ?b then _ else _] => destruct b end; reflexivity. Qed.
  Lemma changed_eq n :
    chd n = match rl (cls n) with
            | None | Some AGeneric => kids_changed n
            | Some AKeep => false
            | Some (AReplaceBy t) => negb (Nat.eqb (addr t) (addr n))
            | Some _ => true
            end.
  Proof. destruct n; reflexivity. Qed.

  Definition Inv (x : node) (a b : nat) (r : result) : Prop :=
    a <= b /\
    (forall n', r = RNode n' -> prov a b n') /\
    (coherent U -> below a U -> sres_of r = rw x) /\
    (below a U -> chd x = true -> not_same x r = true) /\
    (below a U -> generic_like ct strict ms (cls x) = true -> chd x = true -> forall n', r = RNode n' -> a <= addr n' < b).

  Lemma below_mono a a' : a' <= a -> below a' U -> below a U.
  Proof. intros Hle Hb x Hx. specialize (Hb x Hx). lia. Qed.
  Lemma Inv_mono x a b r a' b' : Inv x a b r -> a' <= a -> b <= b' -> Inv x a' b' r.
  Proof.
    intros (H1 & H2 & H3 & H4 & H5) Ha Hb. split; [lia|]. split; [|split; [|split]].
    - intros n' E y Hy. destruct (H2 n' E y Hy); auto. right. lia.
    - intros Hc Hbl. apply H3; auto. eapply below_mono; eauto.
    - intros Hbl. apply H4. eapply below_mono; eauto.
    - intros Hbl Hg Hch n' E. assert (Hbl' : below a U) by (eapply below_mono; eauto).
      specialize (H5 Hbl' Hg Hch n' E). lia.
  Qed.

  Definition KInv (a b : nat) (x : node) (r : result) : Prop := Inv x a b r /\ r <> RErr.

  Lemma Forall2_mono {A B} (R1 R2 : A -> B -> Prop) l1 l2 :
    (forall x y, R1 x y -> R2 x y) -> Forall2 R1 l1 l2 -> Forall2 R2 l1 l2.
  Proof. intros H F. induction F; constructor; auto. Qed.

  Lemma seq_Inv v l :
    (forall x, In x l -> forall s s' r, v x s = Some (s', r) -> Inv x (next s) (next s') r) ->
    forall s s' o, seq_visit v l s = Some (s', o) ->
    next s <= next s' /\
    match o with
    | Some rs => Forall2 (KInv (next s) (next s')) l rs
    | None => exists x, In x l /\ Inv x (next s) (next s') RErr
    end.
  Proof.
    induction l as [|x l IH]; intros Hv s s' o H; simpl in H.
    - injection H as <- <-. split; auto.
    - destruct (v x s) as [[s1 r1]|] eqn:Ev; [|discriminate]. cbn [fst snd] in H.
      pose proof (Hv x (or_introl eq_refl) _ _ _ Ev) as Hx.
      assert (Hle1 : next s <= next s1) by apply Hx.
      assert (Hrest : r1 <> RErr ->
                match seq_visit v l s1 with
                | Some sr2 => Some (fst sr2, option_map (cons r1) (snd sr2))
                | None => None
                end = Some (s', o) ->
                next s <= next s' /\
                match o with
                | Some rs => Forall2 (KInv (next s) (next s')) (x :: l) rs
                | None => exists x0, In x0 (x :: l) /\ Inv x0 (next s) (next s') RErr
                end).
      { intros Hne H'. destruct (seq_visit v l s1) as [[s2 o2]|] eqn:E2; [|discriminate].
        cbn [fst snd] in H'. injection H' as <- <-.
        destruct (IH (fun y Hy => Hv y (or_intror Hy)) _ _ _ E2) as [Hle2 Ho2].
        split; [lia|]. destruct o2 as [rs|]; cbn [option_map].
        - constructor.
          + split; auto. eapply Inv_mono; eauto.
          + eapply Forall2_mono; [|exact Ho2]. intros y r [Hi Hr]. split; auto. eapply Inv_mono; eauto.
        - destruct Ho2 as (y & Hy & Hi). exists y. split; [right; auto|]. eapply Inv_mono; eauto. }
      destruct r1.
      + apply Hrest; [discriminate|exact H].
      + apply Hrest; [discriminate|exact H].
      + injection H as <- <-. split; auto. exists x. split; [left; auto|exact Hx].
  Qed.

  Lemma fields_Inv v ks :
    (forall k x, In k ks -> In x (snd (snd k)) -> forall s s' r, v x s = Some (s', r) -> Inv x (next s) (next s') r) ->
    forall s s' o, fields_visit v ks s = Some (s', o) ->
    next s <= next s' /\
    match o with
    | Some rss => Forall2 (fun k rs => Forall2 (KInv (next s) (next s')) (snd (snd k)) rs) ks rss
    | None => exists k x, In k ks /\ In x (snd (snd k)) /\ Inv x (next s) (next s') RErr
    end.
  Proof.
    induction ks as [|k ks IH]; intros Hv s s' o H; simpl in H.
    - injection H as <- <-. split; auto.
    - destruct (seq_visit v (snd (snd k)) s) as [[s1 o1]|] eqn:E1; [|discriminate]. cbn [fst snd] in H.
      destruct (seq_Inv v (snd (snd k)) (fun x Hx => Hv k x (or_introl eq_refl) Hx) _ _ _ E1) as [Hle1 Ho1].
      destruct o1 as [rs|].
      + destruct (fields_visit v ks s1) as [[s2 o2]|] eqn:E2; [|discriminate].
        cbn [fst snd] in H. injection H as <- <-.
        destruct (IH (fun k' x Hk Hx => Hv k' x (or_intror Hk) Hx) _ _ _ E2) as [Hle2 Ho2].
        split; [lia|]. destruct o2 as [rss|]; cbn [option_map].
        * constructor.
          -- eapply Forall2_mono; [|exact Ho1]. intros y r [Hi Hr]. split; auto. eapply Inv_mono; eauto.
          -- eapply Forall2_mono; [|exact Ho2]. intros k' rs' F. eapply Forall2_mono; [|exact F].
             intros y r [Hi Hr]. split; auto. eapply Inv_mono; eauto.
        * destruct Ho2 as (k' & y & Hk & Hy & Hi). exists k', y. split; [right; auto|]. split; auto. eapply Inv_mono; eauto.
      + injection H as <- <-. split; auto. destruct Ho1 as (y & Hy & Hi). exists k, y. split; [left; auto|]. split; auto.
  Qed.

  (* ---- one field ---- *)
  Definition strip_field (k : kfield) : kfield := (fst k, (fst (snd k), map strip (snd (snd k)))).
  Definition rwk (k : kfield) : pystr * (kshape * list sres) := (fst k, (fst (snd k), map rw (snd (snd k)))).
  Definition frw (k : pystr * (kshape * list sres)) : kfield := (fst k, field_rw (fst (snd k)) (snd (snd k))).

  Definition any_err (l : list (pystr * (kshape * list sres))) : bool :=
    existsb (fun k => existsb is_serr (snd (snd k))) l.
  Lemma rebuilt_of_eq n :
    rebuilt_of n = if any_err (map rwk (nkids n)) then SErr
                   else SNode (Node 0 (cls n) (norigin n) (nprops n) (map frw (map rwk (nkids n)))).
  Proof. reflexivity. Qed.
  Lemma strip_eq n : strip n = Node 0 (cls n) (norigin n) (nprops n) (map strip_field (nkids n)).
  Proof. destruct n; reflexivity. Qed.

  Lemma keep_sres rs : keep (map sres_of rs) = map strip (rkeep rs).
  Proof. induction rs as [|[n| |] rs IH]; simpl; auto. f_equal. auto. Qed.

  Lemma rkeep_prov a b l rs n' : Forall2 (KInv a b) l rs -> In n' (rkeep rs) -> prov a b n'.
  Proof.
    induction 1 as [|x r l rs [Hi _] F IH]; simpl; [tauto|].
    rewrite in_app_iff. intros [H|H]; auto.
    destruct r; simpl in H; try tauto. destruct H as [->|[]]. apply Hi. reflexivity.
  Qed.

  Lemma same_is_self a b x y :
    coherent U -> below a U -> In x U -> Inv x a b (RNode y) -> Nat.eqb (addr y) (addr x) = true -> y = x.
  Proof.
    intros Hc Hb Hx (_ & Hp & _) E. apply Nat.eqb_eq in E.
    destruct (Hp y eq_refl y (subterms_self y)) as [Hy|Hy].
    - apply Hc; auto.
    - specialize (Hb x Hx). lia.
  Qed.

  Lemma unmarked_results a b l rs :
    coherent U -> below a U -> (forall x, In x l -> In x U) ->
    Forall2 (KInv a b) l rs -> lmarked l rs = false -> rs = map RNode l.
  Proof.
    intros Hc Hb HU F. induction F as [|x r l rs [Hi Hne] F IH]; auto.
    unfold lmarked. simpl. intros H. apply orb_false_elim in H as [H1 H2].
    f_equal.
    - destruct r; simpl in H1; try discriminate. f_equal.
      eapply same_is_self; eauto. + apply HU; left; auto. + destruct (Nat.eqb (addr n) (addr x)); auto; discriminate.
    - apply IH; auto. intros y Hy. apply HU. right; auto.
  Qed.

  Lemma results_rw a b l rs :
    coherent U -> below a U -> Forall2 (KInv a b) l rs ->
    map rw l = map sres_of rs /\ existsb is_serr (map rw l) = false.
  Proof.
    intros Hc Hb F. induction F as [|x r l rs [Hi Hne] F [IH1 IH2]]; simpl; auto.
    destruct Hi as (_ & _ & H3 & _). specialize (H3 Hc Hb). rewrite IH2, <- H3, IH1. split; auto.
    destruct r; simpl; auto. exfalso; apply Hne; reflexivity.
  Qed.

  Lemma field_content a b nm sh l rs :
    coherent U -> below a U -> (forall x, In x l -> In x U) -> shape_len_ok (sh, l) = true ->
    Forall2 (KInv a b) l rs ->
    strip_field (if fmarked (nm, (sh, l)) rs then fnew (nm, (sh, l)) rs else (nm, (sh, l))) = frw (rwk (nm, (sh, l)))
    /\ existsb is_serr (map rw l) = false.
  Proof.
    intros Hc Hb HU Hok F. destruct (results_rw a b l rs Hc Hb F) as [Erw Eerr]. split; auto.
    unfold frw, rwk, fmarked. cbn [fst snd]. rewrite Erw.
    destruct (lmarked l rs) eqn:Em.
    - unfold strip_field, fnew, vnew. cbn [fst snd]. f_equal.
      destruct sh; cbn [field_rw]; rewrite ?keep_sres; auto. destruct (rkeep rs); reflexivity.
    - rewrite (unmarked_results a b l rs Hc Hb HU F Em).
      unfold strip_field. cbn [fst snd]. f_equal.
      assert (Ek : rkeep (map RNode l) = l) by (clear; induction l; simpl; f_equal; auto).
      destruct sh; cbn [field_rw]; rewrite ?keep_sres, ?Ek; simpl in Hok.
      + destruct l; [reflexivity|discriminate].
      + destruct l as [|x [|]]; try discriminate. reflexivity.
      + reflexivity.
  Qed.

  Lemma field_marked a b l rs :
    below a U -> Forall2 (KInv a b) l rs -> existsb chd l = true -> lmarked l rs = true.
  Proof.
    intros Hb F. induction F as [|x r l rs [Hi Hne] F IH]; simpl; [discriminate|].
    intros H. unfold lmarked. simpl. apply orb_true_iff in H as [H|H].
    - destruct Hi as (_ & _ & _ & H4 & _). rewrite (H4 Hb H). reflexivity.
    - apply IH in H. unfold lmarked in H. rewrite H. apply orb_true_r.
  Qed.

  (* ---- all fields of a node ---- *)
  Definition FInv (a b : nat) (k : kfield) (rs : list result) : Prop := Forall2 (KInv a b) (snd (snd k)) rs.

  Lemma rebuild_prov a b ks rss k' x y :
    (forall k x, In k ks -> In x (snd (snd k)) -> In x U) ->
    Forall2 (FInv a b) ks rss ->
    In k' (rebuild ks rss) -> In x (snd (snd k')) -> In y (subterms x) -> In y U \/ a <= addr y < b.
  Proof.
    intros HU F. induction F as [|k rs ks rss Fk F IH]; [simpl; tauto|].
    rewrite rebuild_cons. intros [<-|Hk'] Hx Hy.
    - destruct (fmarked k rs).
      + unfold fnew, vnew in Hx. cbn [fst snd] in Hx.
        assert (Hin : In x (rkeep rs)).
        { destruct (fst (snd k)); simpl in Hx; auto; [tauto|]. destruct (rkeep rs); simpl in *; tauto. }
        eapply rkeep_prov; eauto.
      + left. eapply U_closed; [|exact Hy]. eapply HU; [left; reflexivity|exact Hx].
    - eapply IH; eauto. intros k0 x0 Hk0. apply HU. right; auto.
  Qed.

  Lemma rebuild_content a b ks rss :
    coherent U -> below a U ->
    (forall k x, In k ks -> In x (snd (snd k)) -> In x U) ->
    forallb (fun k : kfield => shape_len_ok (snd k)) ks = true ->
    Forall2 (FInv a b) ks rss ->
    map strip_field (rebuild ks rss) = map frw (map rwk ks)
    /\ any_err (map rwk ks) = false.
  Proof.
    unfold any_err. intros Hc Hb HU Hok F. induction F as [|k rs ks rss Fk F IH]; [simpl; auto|].
    simpl in Hok. apply andb_prop in Hok as [Hok1 Hok2].
    destruct IH as [IH1 IH2]; auto. { intros k0 x0 Hk0. apply HU. right; auto. }
    destruct k as [nm [sh l]].
    destruct (field_content a b nm sh l rs Hc Hb) as [E1 E2]; auto.
    { intros x Hx. eapply HU; [left; reflexivity|exact Hx]. }
    rewrite rebuild_cons. cbn [map existsb]. rewrite E1, IH1. split; auto.
    unfold rwk at 1. cbn [fst snd]. rewrite E2, IH2. reflexivity.
  Qed.

  Lemma rebuild_unmarked ks : forall rss, length rss = length ks -> any_marked ks rss = false -> rebuild ks rss = ks.
  Proof.
    induction ks as [|k ks IH]; intros [|rs rss] Hl; simpl in Hl; try discriminate; auto.
    rewrite any_marked_cons, rebuild_cons. intros H. apply orb_false_elim in H as [H1 H2].
    rewrite H1, IH; auto.
  Qed.

  Lemma any_marked_changed a b ks rss :
    below a U -> Forall2 (FInv a b) ks rss ->
    existsb (fun k : kfield => existsb chd (snd (snd k))) ks = true -> any_marked ks rss = true.
  Proof.
    intros Hb F. induction F as [|k rs ks rss Fk F IH]; simpl; [discriminate|].
    rewrite any_marked_cons. intros H. apply orb_true_iff in H as [H|H].
    - unfold fmarked. rewrite (field_marked a b _ _ Hb Fk H). reflexivity.
    - rewrite (IH H). apply orb_true_r.
  Qed.

  Lemma Forall2_length' {A B} (R : A -> B -> Prop) l1 l2 : Forall2 R l1 l2 -> length l2 = length l1.
  Proof. induction 1; simpl; auto. Qed.

  Lemma rebuilt_err n k x :
    In k (nkids n) -> In x (snd (snd k)) -> rw x = SErr -> rebuilt_of n = SErr.
  Proof.
    intros Hk Hx E. rewrite rebuilt_of_eq.
    replace (any_err (map rwk (nkids n))) with true; [reflexivity|symmetry].
    apply existsb_exists. exists (rwk k). split; [apply in_map_iff; exists k; auto|].
    unfold rwk. cbn [snd]. apply existsb_exists. exists SErr. split; auto.
    apply in_map_iff. exists x. auto.
  Qed.

  (* ---- generic_visit ---- *)
  Definition GInv (n : node) (a b : nat) (r : result) : Prop :=
    a <= b /\
    (forall n', r = RNode n' -> prov a b n') /\
    (coherent U -> below a U -> sres_of r = rebuilt_of n) /\
    (kids_changed n = true -> below a U -> forall n', r = RNode n' -> a <= addr n' < b) /\
    r <> RNone.

  Lemma gv_Inv v n s s' r :
    In n U -> root_ok ct n = true ->
    (forall k x, In k (nkids n) -> In x (snd (snd k)) ->
       forall s s' r, v x s = Some (s', r) -> Inv x (next s) (next s') r) ->
    gv_tr v n s = Some (s', r) -> GInv n (next s) (next s') r.
  Proof.
    intros HnU Hok Hv H. unfold gv_tr in H.
    destruct (fields_visit v (nkids n) s) as [[s1 o]|] eqn:Ef; [|discriminate]. cbn [fst snd] in H.
    destruct (fields_Inv v (nkids n) Hv _ _ _ Ef) as [Hle Ho].
    assert (HkU : forall k x, In k (nkids n) -> In x (snd (snd k)) -> In x U).
    { intros k x Hk Hx. eapply U_closed; eauto. eapply kid_subterm; eauto. }
    unfold root_ok in Hok. apply andb_prop in Hok as [_ Hsh].
    destruct o as [rss|].
    - pose proof (Forall2_length' _ _ _ Ho) as Hlen.
      destruct (any_marked (nkids n) rss) eqn:Am; injection H as <- <-; cbn [bump next].
      + repeat split; try lia; try discriminate.
        * intros n' [= <-] y Hy. apply subterms_cons in Hy as [->|(k' & x & Hk' & Hx & Hy)].
          -- right. simpl. lia.
          -- cbn [nkids] in Hk'. destruct (rebuild_prov _ _ _ _ _ _ _ HkU Ho Hk' Hx Hy); auto. right. lia.
        * intros Hc Hb. destruct (rebuild_content _ _ _ _ Hc Hb HkU Hsh Ho) as [E1 E2].
          rewrite rebuilt_of_eq, E2. unfold sres_of. rewrite strip_eq. cbn [cls norigin nprops nkids]. rewrite E1. reflexivity.
        * injection H1 as <-. simpl. lia.
        * injection H1 as <-. simpl. lia.
      + repeat split; try lia; try discriminate.
        * intros n' [= <-] y Hy. left. eapply U_closed; eauto.
        * intros Hc Hb. destruct (rebuild_content _ _ _ _ Hc Hb HkU Hsh Ho) as [E1 E2].
          rewrite (rebuild_unmarked _ _ Hlen Am) in E1.
          rewrite rebuilt_of_eq, E2. unfold sres_of. rewrite strip_eq, E1. reflexivity.
        * pose proof (any_marked_changed _ _ _ _ H0 Ho H). congruence.
        * pose proof (any_marked_changed _ _ _ _ H0 Ho H). congruence.
    - injection H as <- <-. repeat split; try lia; try discriminate.
      intros Hc Hb. destruct Ho as (k & x & Hk & Hx & Hi). simpl.
      symmetry. eapply rebuilt_err; eauto. destruct Hi as (_ & _ & H3 & _). symmetry. apply H3; auto.
  Qed.

  (* ---- visit ---- *)
  Lemma wf_tree_root n :
    wf_tree ct n = true ->
    root_ok ct n = true /\ forall k x, In k (nkids n) -> In x (snd (snd k)) -> wf_tree ct x = true.
  Proof.
    destruct n as [a c o ps ks]. cbn [wf_tree]. intros H. apply andb_prop in H as [H H3].
    rewrite forallb_forall in H3. split.
    - unfold root_ok. cbn [nkids cls]. rewrite H. simpl. apply forallb_forall. intros k Hk.
      specialize (H3 k Hk). apply andb_prop in H3 as [H3 _]. exact H3.
    - cbn [nkids]. intros k x Hk Hx. specialize (H3 k Hk). apply andb_prop in H3 as [_ H3].
      rewrite forallb_forall in H3. auto.
  Qed.

  Lemma set_prop_strip a n f v :
    match set_prop ct a n f v with
    | Some n' => set_prop ct 0 (strip n) f v = Some (strip n') /\ addr n' = a /\ nkids n' = nkids n
    | None => set_prop ct 0 (strip n) f v = None
    end.
  Proof.
    destruct n as [a0 c o ps ks]. unfold set_prop. cbn [cls strip].
    destruct (find (fun d => pystr_eqb (fd_name d) f) (prop_fields ct c)) as [d|]; auto.
    destruct (fd_init d); auto. unfold dc_replace. cbn [cls norigin nprops nkids strip addr].
    rewrite !upd_nil. auto.
  Qed.

  Lemma subterms_same_kids n' m y : nkids n' = nkids m -> In y (subterms n') -> y = n' \/ In y (subterms m).
  Proof.
    intros E Hy. apply subterms_cons in Hy as [->|H]; auto. right. apply subterms_cons. right. rewrite <- E. exact H.
  Qed.

  Lemma next_logc s a d : next (logc s a d) = next s.
  Proof. reflexivity. Qed.

  Lemma not_same_fresh n a n' : below a U -> In n U -> a <= addr n' -> not_same n (RNode n') = true.
  Proof.
    intros Hb Hn Hle. specialize (Hb n Hn). simpl. apply negb_true_iff, Nat.eqb_neq. lia.
  Qed.

  Lemma visit_Inv k : forall n s s' r,
    In n U -> wf_tree ct n = true -> V k n s = Some (s', r) -> Inv n (next s) (next s') r.
  Proof.
    induction k as [|k IH]; intros n s s' r HnU Hwf H; [discriminate|].
    destruct (wf_tree_root n Hwf) as [Hroot Hkids].
    assert (HG : forall s0 s1 r1, gv_tr (V k) n s0 = Some (s1, r1) -> GInv n (next s0) (next s1) r1).
    { intros s0 s1 r1 Hg. eapply gv_Inv; eauto. intros k0 x Hk0 Hx s2 s3 r3 Hv.
      apply IH; [eapply U_closed; [exact HnU|eapply kid_subterm; eauto]|eapply Hkids; eauto|exact Hv]. }
    assert (Hgen : forall s1 r1, rl (cls n) = None \/ rl (cls n) = Some AGeneric ->
                   GInv n (next s) (next s1) r1 -> Inv n (next s) (next s1) r1).
    { intros s1 r1 Hrl (G1 & G2 & G3 & G4 & G5). unfold Inv. rewrite rewrite_eq, changed_eq. unfold generic_like.
      split; [exact G1|]. split; [exact G2|]. split; [|split].
      - intros Hc Hb. rewrite G3 by auto. destruct Hrl as [-> | ->]; reflexivity.
      - intros Hb Hch. assert (Hkc : kids_changed n = true) by (destruct Hrl as [E|E]; rewrite E in Hch; exact Hch).
        destruct r1 as [n'| |]; auto. eapply not_same_fresh; eauto. apply (G4 Hkc Hb n' eq_refl).
      - intros Hb _ Hch n' En. assert (Hkc : kids_changed n = true) by (destruct Hrl as [E|E]; rewrite E in Hch; exact Hch).
        apply (G4 Hkc Hb n' En). }
    cbn [visit] in H. rewrite !(generic_visit_tr ct (V k) n _ Hroot) in H.
    set (d := dispatch ct strict (has_method ms) (cls n)) in *.
    assert (Hrl : rl (cls n) = match d with Some m => assoc m ms | None => None end) by reflexivity.
    destruct d as [m|].
    - destruct (assoc m ms) as [act|] eqn:Ea.
      + destruct act as [| |f v|f v|t|t| |].
        * (* AKeep *) injection H as <- <-. rewrite next_logc. unfold Inv. rewrite rewrite_eq, changed_eq. unfold generic_like. rewrite Hrl.
          repeat split; auto; try discriminate. intros n' [= <-] y Hy. left. eapply U_closed; eauto.
        * (* AGeneric *) apply HG in H. rewrite next_logc in H. apply Hgen; auto.
        * (* ASetProp *)
          pose proof (set_prop_strip (next (logc s (addr n) (Some m))) n f v) as Hsp.
          destruct (set_prop ct (next (logc s (addr n) (Some m))) n f v) as [n1|]; injection H as <- <-.
          -- destruct Hsp as (Hs1 & Hs2 & Hs3). cbn [bump next logc] in *.
             unfold Inv. rewrite rewrite_eq, changed_eq. unfold generic_like. rewrite Hrl, Hs1.
             repeat split; auto; try discriminate.
             ++ intros n' [= <-] y Hy. destruct (subterms_same_kids _ _ _ Hs3 Hy) as [->|Hy'].
                ** right. lia.
                ** left. eapply U_closed; eauto.
             ++ intros Hb _. eapply not_same_fresh; eauto. lia.
          -- cbn [next logc]. unfold Inv. rewrite rewrite_eq, changed_eq. unfold generic_like. rewrite Hrl, Hsp.
             repeat split; auto; try discriminate.
        * (* AGenSetProp *)
          destruct (gv_tr (V k) n (logc s (addr n) (Some m))) as [[s1 r1]|] eqn:Eg; [|discriminate].
          apply HG in Eg. rewrite next_logc in Eg. destruct Eg as (G1 & G2 & G3 & G4 & G5).
          cbn [fst snd] in H. destruct r1 as [m'| |].
          -- pose proof (set_prop_strip (next s1) m' f v) as Hsp.
             destruct (set_prop ct (next s1) m' f v) as [n1|]; injection H as <- <-.
             ++ destruct Hsp as (Hs1 & Hs2 & Hs3). cbn [bump next].
                unfold Inv. rewrite rewrite_eq, changed_eq. unfold generic_like. rewrite Hrl.
                repeat split; auto; try discriminate.
                ** intros n' [= <-] y Hy. destruct (subterms_same_kids _ _ _ Hs3 Hy) as [->|Hy'].
                   --- right. lia.
                   --- destruct (G2 m' eq_refl y Hy'); auto. right. lia.
                ** intros Hc Hb. rewrite <- (G3 Hc Hb). simpl. rewrite Hs1. reflexivity.
                ** intros Hb _. eapply not_same_fresh; eauto. lia.
             ++ unfold Inv. rewrite rewrite_eq, changed_eq. unfold generic_like. rewrite Hrl.
                repeat split; auto; try discriminate.
                intros Hc Hb. rewrite <- (G3 Hc Hb). simpl. rewrite Hsp. reflexivity.
          -- exfalso. apply G5. reflexivity.
          -- injection H as <- <-. unfold Inv. rewrite rewrite_eq, changed_eq. unfold generic_like. rewrite Hrl.
             repeat split; auto; try discriminate.
             intros Hc Hb. rewrite <- (G3 Hc Hb). reflexivity.
        * (* AReplaceBy *) injection H as <- <-. rewrite next_logc. unfold Inv. rewrite rewrite_eq, changed_eq. unfold generic_like. rewrite Hrl.
          repeat split; auto; try discriminate.
          intros n' [= <-] y Hy. left. eapply U_closed; [|exact Hy]. eapply template_in_U; eauto.
        * (* AReplaceNew *) injection H as <- <-. cbn [bump next logc].
          unfold Inv. rewrite rewrite_eq, changed_eq. unfold generic_like. rewrite Hrl.
          assert (Hk : nkids (dc_replace (next s) t [] []) = nkids t) by (unfold dc_replace; cbn [nkids]; apply upd_nil).
          repeat split; auto; try discriminate.
          -- intros n' [= <-] y Hy. destruct (subterms_same_kids _ _ _ Hk Hy) as [->|Hy'].
             ++ right. simpl. lia.
             ++ left. eapply U_closed; [|exact Hy']. eapply template_in_U; eauto.
          -- intros _ _. simpl. destruct t as [a0 c0 o0 ps0 ks0]. unfold dc_replace. cbn [cls norigin nprops nkids strip].
             rewrite !upd_nil. reflexivity.
          -- intros Hb _. eapply not_same_fresh; eauto.
        * (* ARemove *) injection H as <- <-. rewrite next_logc. unfold Inv. rewrite rewrite_eq, changed_eq. unfold generic_like. rewrite Hrl.
          repeat split; auto; try discriminate.
        * (* ARaise *) injection H as <- <-. rewrite next_logc. unfold Inv. rewrite rewrite_eq, changed_eq. unfold generic_like. rewrite Hrl.
          repeat split; auto; try discriminate.
      + apply HG in H. rewrite next_logc in H. apply Hgen; auto.
    - apply HG in H. rewrite next_logc in H. apply Hgen; auto.
  Qed.
End Inv.

(* ====================================================================== Part 4: identity, totality, theorems *)
Section Same.
  Variables (ct : ctable) (strict : bool) (ms : methods).
  Notation V := (visit ct strict ms).
  Notation chd := (changed ct strict ms).
  Notation rl := (rule ct strict ms).

  Definition Same (x : node) (s s' : vst) (r : result) : Prop :=
    next s' = next s /\ exists n', r = RNode n' /\ addr n' = addr x.

  Lemma seq_same v l :
    (forall x, In x l -> chd x = false) ->
    (forall x, In x l -> forall s s' r, v x s = Some (s', r) -> Same x s s' r) ->
    forall s s' o, seq_visit v l s = Some (s', o) ->
    next s' = next s /\ exists rs, o = Some rs /\ lmarked l rs = false.
  Proof.
    induction l as [|x l IH]; intros Hc Hv s s' o H; simpl in H.
    - injection H as <- <-. split; auto. exists []. auto.
    - destruct (v x s) as [[s1 r1]|] eqn:Ev; [|discriminate]. cbn [fst snd] in H.
      destruct (Hv x (or_introl eq_refl) _ _ _ Ev) as (E1 & n' & -> & Ea).
      destruct (seq_visit v l s1) as [[s2 o2]|] eqn:E2; [|discriminate]. cbn [fst snd] in H. injection H as <- <-.
      destruct (IH (fun y Hy => Hc y (or_intror Hy)) (fun y Hy => Hv y (or_intror Hy)) _ _ _ E2) as (E3 & rs & -> & Em).
      split; [congruence|]. exists (RNode n' :: rs). split; auto.
      unfold lmarked in *. simpl. rewrite Ea, Nat.eqb_refl, Em. reflexivity.
  Qed.
  Lemma fields_same v ks :
    (forall k x, In k ks -> In x (snd (snd k)) -> chd x = false) ->
    (forall k x, In k ks -> In x (snd (snd k)) -> forall s s' r, v x s = Some (s', r) -> Same x s s' r) ->
    forall s s' o, fields_visit v ks s = Some (s', o) ->
    next s' = next s /\ exists rss, o = Some rss /\ any_marked ks rss = false.
  Proof.
    induction ks as [|k ks IH]; intros Hc Hv s s' o H; simpl in H.
    - injection H as <- <-. split; auto. exists []. auto.
    - destruct (seq_visit v (snd (snd k)) s) as [[s1 o1]|] eqn:E1; [|discriminate]. cbn [fst snd] in H.
      destruct (seq_same v (snd (snd k)) (fun x Hx => Hc k x (or_introl eq_refl) Hx)
                         (fun x Hx => Hv k x (or_introl eq_refl) Hx) _ _ _ E1) as (En1 & rs & -> & Em1).
      destruct (fields_visit v ks s1) as [[s2 o2]|] eqn:E2; [|discriminate]. cbn [fst snd] in H. injection H as <- <-.
      destruct (IH (fun k' x Hk Hx => Hc k' x (or_intror Hk) Hx) (fun k' x Hk Hx => Hv k' x (or_intror Hk) Hx) _ _ _ E2)
        as (En2 & rss & -> & Em2).
      split; [congruence|]. exists (rs :: rss). split; auto.
      rewrite any_marked_cons. unfold fmarked. rewrite Em1, Em2. reflexivity.
  Qed.

  Lemma existsb_false_in {A} (p : A -> bool) l x : existsb p l = false -> In x l -> p x = false.
  Proof.
    intros H Hx. destruct (p x) eqn:E; auto.
    assert (existsb p l = true) by (apply existsb_exists; eauto). congruence.
  Qed.

  Lemma changed_eq' n :
    chd n = match rl (cls n) with
            | None | Some AGeneric => existsb (fun k => existsb chd (snd (snd k))) (nkids n)
            | Some AKeep => false
            | Some (AReplaceBy t) => negb (Nat.eqb (addr t) (addr n))
            | Some _ => true
            end.
  Proof. destruct n; reflexivity. Qed.

  Lemma visit_same k : forall n s s' r,
    wf_tree ct n = true -> chd n = false -> V k n s = Some (s', r) -> Same n s s' r.
  Proof.
    induction k as [|k IH]; intros n s s' r Hwf Hch H; [discriminate|].
    destruct (wf_tree_root ct n Hwf) as [Hroot Hkids].
    rewrite changed_eq' in Hch.
    assert (HG : forall d s1 r1, existsb (fun k => existsb chd (snd (snd k))) (nkids n) = false ->
                 gv_tr (V k) n (logc s (addr n) d) = Some (s1, r1) -> Same n s s1 r1).
    { intros d s1 r1 Hk Hg. unfold gv_tr in Hg.
      destruct (fields_visit (V k) (nkids n) (logc s (addr n) d)) as [[s2 o]|] eqn:Ef; [|discriminate].
      cbn [fst snd] in Hg.
      destruct (fields_same (V k) (nkids n)) with (s := logc s (addr n) d) (s' := s2) (o := o) as (En & rss & -> & Em); auto.
      - intros k0 x Hk0 Hx. eapply existsb_false_in; [|exact Hx].
        apply (existsb_false_in (fun k => existsb chd (snd (snd k))) _ k0 Hk Hk0).
      - intros k0 x Hk0 Hx s3 s4 r4 Hv. apply IH; auto. + eapply Hkids; eauto.
        + eapply existsb_false_in; [|exact Hx]. apply (existsb_false_in (fun k => existsb chd (snd (snd k))) _ k0 Hk Hk0).
      - rewrite Em in Hg. injection Hg as <- <-. split; [exact En|]. exists n. auto. }
    cbn [visit] in H. rewrite !(generic_visit_tr ct (V k) n _ Hroot) in H.
    set (d := dispatch ct strict (has_method ms) (cls n)) in *.
    assert (Hrl : rl (cls n) = match d with Some m => assoc m ms | None => None end) by reflexivity.
    destruct d as [m|].
    - destruct (assoc m ms) as [act|] eqn:Ea; rewrite Hrl in Hch.
      + destruct act as [| |f v|f v|t|t| |]; try discriminate.
        * injection H as <- <-. split; auto. exists n. auto.
        * eapply HG; eauto.
        * injection H as <- <-. split; auto. exists t. split; auto.
          apply negb_false_iff, Nat.eqb_eq in Hch. exact Hch.
      + eapply HG; eauto.
    - rewrite Hrl in Hch. eapply HG; eauto.
  Qed.

  (* ---- enough fuel ---- *)
  Lemma depth_kid a c o ps ks k x : In k ks -> In x (snd (snd k)) -> depth x < depth (Node a c o ps ks).
  Proof.
    intros Hk Hx. simpl.
    assert (H1 : depth x <= list_max (map depth (snd (snd k)))).
    { pose proof (proj1 (list_max_le (map depth (snd (snd k))) _) (le_n _)) as F.
      rewrite Forall_forall in F. apply F. apply in_map. exact Hx. }
    assert (H2 : list_max (map depth (snd (snd k))) <= list_max (map (fun k => list_max (map depth (snd (snd k)))) ks)).
    { pose proof (proj1 (list_max_le (map (fun k => list_max (map depth (snd (snd k)))) ks) _) (le_n _)) as F.
      rewrite Forall_forall in F. apply F. apply (in_map (fun k => list_max (map depth (snd (snd k))))). exact Hk. }
    lia.
  Qed.
  Lemma seq_total v l : (forall x, In x l -> forall s, exists s' r, v x s = Some (s', r)) ->
    forall s, exists s' o, seq_visit v l s = Some (s', o).
  Proof.
    induction l as [|x l IH]; intros Hv s; simpl; eauto.
    destruct (Hv x (or_introl eq_refl) s) as (s1 & r1 & ->). cbn [fst snd].
    destruct (IH (fun y Hy => Hv y (or_intror Hy)) s1) as (s2 & o2 & ->).
    destruct r1; cbn [fst snd]; eauto.
  Qed.
  Lemma fields_total v ks : (forall k x, In k ks -> In x (snd (snd k)) -> forall s, exists s' r, v x s = Some (s', r)) ->
    forall s, exists s' o, fields_visit v ks s = Some (s', o).
  Proof.
    induction ks as [|k ks IH]; intros Hv s; simpl; eauto.
    destruct (seq_total v (snd (snd k)) (fun x Hx => Hv k x (or_introl eq_refl) Hx) s) as (s1 & o1 & ->). cbn [fst snd].
    destruct (IH (fun k' x Hk Hx => Hv k' x (or_intror Hk) Hx) s1) as (s2 & o2 & ->).
    destruct o1; cbn [fst snd]; eauto.
  Qed.
  Lemma visit_total k : forall n s, depth n <= k -> wf_tree ct n = true -> exists s' r, V k n s = Some (s', r).
  Proof.
    induction k as [|k IH]; intros n s Hd Hwf.
    - destruct n; simpl in Hd; lia.
    - destruct (wf_tree_root ct n Hwf) as [Hroot Hkids].
      assert (HG : forall s0, exists s1 r1, gv_tr (V k) n s0 = Some (s1, r1)).
      { intros s0. unfold gv_tr.
        destruct (fields_total (V k) (nkids n)) with (s := s0) as (s1 & o & ->).
        - intros k0 x Hk0 Hx s2. apply IH; [|eapply Hkids; eauto].
          destruct n as [a c o ps ks]. pose proof (depth_kid a c o ps ks k0 x Hk0 Hx). lia.
        - cbn [fst snd]. destruct o as [rss|]; eauto. destruct (any_marked (nkids n) rss); eauto. }
      cbn [visit]. rewrite !(generic_visit_tr ct (V k) n _ Hroot).
      destruct (dispatch ct strict (has_method ms) (cls n)) as [m|]; [|apply HG].
      destruct (assoc m ms) as [[| |f v|f v|t|t| |]|]; eauto.
      + destruct (set_prop ct _ n f v); eauto.
      + destruct (HG (logc s (addr n) (Some m))) as (s1 & r1 & ->). cbn [fst snd].
        destruct r1; eauto. destruct (set_prop ct (next s1) n0 f v); eauto.
  Qed.

  (* ---- the accept() decision for the visited node is logged first ---- *)
  Definition extends (s s' : vst) : Prop := exists l, calls s' = l ++ calls s.
  Lemma extends_refl s : extends s s. Proof. exists []. reflexivity. Qed.
  Lemma extends_trans a b c : extends a b -> extends b c -> extends a c.
  Proof. intros [l1 E1] [l2 E2]. exists (l2 ++ l1). rewrite E2, E1, app_assoc. reflexivity. Qed.
  Lemma tc_loop_extends v edges :
    (forall x s s' r, v x s = Some (s', r) -> extends s s') ->
    forall s chg m s' o, tc_loop v edges s chg m = Some (s', o) -> extends s s'.
  Proof.
    intros Hv. induction edges as [|[[child fname] [i|]] rest IH]; intros s chg m s' o H; simpl in H.
    - injection H as <- _. apply extends_refl.
    - destruct (v child s) as [[s1 r1]|] eqn:Ev; [|discriminate]. cbn [fst snd] in H. apply Hv in Ev.
      destruct r1; [apply IH in H|apply IH in H|injection H as <- _]; eauto using extends_trans.
    - destruct (v child s) as [[s1 r1]|] eqn:Ev; [|discriminate]. cbn [fst snd] in H. apply Hv in Ev.
      destruct r1; [apply IH in H|apply IH in H|injection H as <- _]; eauto using extends_trans.
  Qed.
  Lemma generic_visit_extends v n s s' r :
    (forall x s s' r, v x s = Some (s', r) -> extends s s') -> generic_visit ct v n s = Some (s', r) -> extends s s'.
  Proof.
    intros Hv H. unfold generic_visit, transform_children in H.
    destruct (tc_loop v (get_child_nodes_with_field ct n false) s [] []) as [[s1 o]|] eqn:E; [|discriminate].
    apply (tc_loop_extends v _ Hv) in E. cbn [fst snd] in H.
    destruct o as [[chg [|mk m]]|]; cbn [fst snd] in H.
    - injection H as <- _. exact E.
    - destruct (filter _ chg); injection H as <- _; auto.
    - injection H as <- _. exact E.
  Qed.
  Lemma visit_logs k : forall n s s' r,
    V k n s = Some (s', r) ->
    exists l, calls s' = l ++ (addr n, dispatch ct strict (has_method ms) (cls n)) :: calls s.
  Proof.
    induction k as [|k IH]; intros n s s' r H; [discriminate|].
    assert (Hv : forall x s s' r, V k x s = Some (s', r) -> extends s s').
    { intros x s1 s2 r2 Hx. destruct (IH _ _ _ _ Hx) as [l El]. exists (l ++ [(addr x, dispatch ct strict (has_method ms) (cls x))]).
      rewrite El, <- app_assoc. reflexivity. }
    cbn [visit] in H.
    set (d := dispatch ct strict (has_method ms) (cls n)) in *.
    assert (HG : forall s1 r1, generic_visit ct (V k) n (logc s (addr n) d) = Some (s1, r1) ->
                 exists l, calls s1 = l ++ (addr n, d) :: calls s).
    { intros s1 r1 Hg. apply generic_visit_extends in Hg; auto. }
    destruct d as [m|]; [|eapply HG; eauto].
    destruct (assoc m ms) as [[| |f v|f v|t|t| |]|]; try (eapply HG; eauto; fail);
      try (injection H as <- _; exists []; reflexivity).
    - destruct (set_prop ct _ n f v); injection H as <- _; exists []; reflexivity.
    - destruct (generic_visit ct (V k) n (logc s (addr n) (Some m))) as [[s1 r1]|] eqn:Eg; [|discriminate].
      specialize (HG s1 r1 eq_refl). cbn [fst snd] in H. destruct r1; try (injection H as <- _; exact HG).
      destruct (set_prop ct (next s1) n0 f v); injection H as <- _; exact HG.
  Qed.
End Same.

(* ---- the statements of Props/C09.v ---- *)
Section Theorems.
  Variables (ct : ctable) (strict : bool) (ms : methods).
  Notation V := (visit ct strict ms).

  Lemma root_in_universe n : In n (universe ms n).
  Proof. unfold universe. simpl. apply in_or_app. left. apply subterms_self. Qed.

  Theorem transform_total n s : wf_tree ct n = true -> exists s' r, transform ct strict ms n s = Some (s', r).
  Proof. intros Hwf. apply visit_total; auto. Qed.

  Theorem transform_content fuel n s s' r :
    wf_tree ct n = true -> coherent (universe ms n) -> below (next s) (universe ms n) ->
    V fuel n s = Some (s', r) -> sres_of r = rewrite ct strict ms n.
  Proof.
    intros Hwf Hc Hb H. destruct (visit_Inv ct strict ms n fuel n s s' r (root_in_universe n) Hwf H) as (_ & _ & H3 & _).
    apply H3; auto.
  Qed.

  Theorem identity_unchanged fuel n s s' r :
    wf_tree ct n = true -> changed ct strict ms n = false -> V fuel n s = Some (s', r) ->
    next s' = next s /\ exists n', r = RNode n' /\ addr n' = addr n /\
                        (coherent (universe ms n) -> below (next s) (universe ms n) -> n' = n).
  Proof.
    intros Hwf Hch H. destruct (visit_same ct strict ms fuel n s s' r Hwf Hch H) as (En & n' & -> & Ea).
    split; auto. exists n'. repeat split; auto. intros Hc Hb.
    destruct (visit_Inv ct strict ms n fuel n s s' _ (root_in_universe n) Hwf H) as (_ & Hp & _).
    destruct (Hp n' eq_refl n' (subterms_self n')) as [Hu|Hf].
    - apply Hc; auto. apply root_in_universe.
    - lia.
  Qed.

  Theorem ancestors_fresh fuel n s s' r :
    wf_tree ct n = true -> below (next s) (universe ms n) -> changed ct strict ms n = true ->
    V fuel n s = Some (s', r) ->
    not_same n r = true /\
    (generic_like ct strict ms (cls n) = true -> forall n', r = RNode n' -> next s <= addr n' < next s').
  Proof.
    intros Hwf Hb Hch H.
    destruct (visit_Inv ct strict ms n fuel n s s' r (root_in_universe n) Hwf H) as (_ & _ & _ & H4 & H5).
    split; auto.
  Qed.

  Theorem input_frame fuel n s s' n' :
    wf_tree ct n = true -> V fuel n s = Some (s', RNode n') ->
    (forall y, In y (subterms n') -> In y (universe ms n) \/ next s <= addr y < next s') /\
    (coherent (universe ms n) -> below (next s) (universe ms n) ->
     forall y x, In y (subterms n') -> In x (universe ms n) -> addr y = addr x -> y = x).
  Proof.
    intros Hwf H.
    destruct (visit_Inv ct strict ms n fuel n s s' _ (root_in_universe n) Hwf H) as (_ & Hp & _).
    split; [exact (Hp n' eq_refl)|].
    intros Hc Hb y x Hy Hx E. destruct (Hp n' eq_refl y Hy) as [Hu|Hf].
    - apply Hc; auto.
    - specialize (Hb x Hx). lia.
  Qed.

  Lemma rkeep_app a b : rkeep (a ++ b) = rkeep a ++ rkeep b.
  Proof. unfold rkeep. apply flat_map_app. Qed.

  Theorem removal_order :
    (forall k n s, wf_tree ct n = true -> generic_like ct strict ms (cls n) = true ->
       V (S k) n s = gv_tr (V k) n (logc s (addr n) (dispatch ct strict (has_method ms) (cls n))))
    /\ (forall nm l rs, fnew (nm, (ShMany, l)) rs = (nm, (ShMany, rkeep rs)))
    /\ (forall rs1 rs2, rkeep (rs1 ++ RNone :: rs2) = rkeep rs1 ++ rkeep rs2)
    /\ (forall rs1 x rs2, rkeep (rs1 ++ RNode x :: rs2) = rkeep rs1 ++ x :: rkeep rs2)
    /\ (forall nm l, fnew (nm, (ShOne, l)) [RNone] = (nm, (ShNone, [])))
    /\ (forall nm l x, fnew (nm, (ShOne, l)) [RNode x] = (nm, (ShOne, [x]))).
  Proof.
    split; [|repeat split; intros; try reflexivity; rewrite rkeep_app; reflexivity].
    intros k n s Hwf Hg. destruct (wf_tree_root ct n Hwf) as [Hroot _].
    cbn [visit]. rewrite !(generic_visit_tr ct (V k) n _ Hroot).
    unfold generic_like, rule in Hg.
    destruct (dispatch ct strict (has_method ms) (cls n)) as [m|]; auto.
    destruct (assoc m ms) as [[]|]; try discriminate; reflexivity.
  Qed.

  Theorem visit_dispatches fuel n s s' r :
    V fuel n s = Some (s', r) ->
    exists l, rev (calls s') = rev (calls s) ++ (addr n, dispatch ct strict (has_method ms) (cls n)) :: l.
  Proof.
    intros H. destruct (visit_logs ct strict ms fuel n s s' r H) as [l El].
    exists (rev l). rewrite El, rev_app_distr. simpl. rewrite <- app_assoc. reflexivity.
  Qed.
End Theorems.
