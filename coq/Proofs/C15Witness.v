(* C15, second tie (Props/C15b.v): the five theorems there are equations for ALL inputs, without premises, so there
   is nothing to inhabit.  What is shown instead: the regenerated functions are not constant - every guard and every
   relation takes both values, on well-formed points and ranges (so the equations do not compare two trivial
   functions). *)
From Oak Require Import Model.Origin Gen.OriginGen.
From Coq Require Import ZArith List.
Import ListNotations.
Local Open Scope Z_scope.

Definition w15_p (i l c : Z) : point := {| p_idx := i; p_line := l; p_col := c |}.
Definition w15_r (a b : Z) : range := {| r_start := w15_p a 1 a; r_end := w15_p b 2 0 |}.

Lemma w15_branches :
  g_point_rejected (w15_p 3 1 0) = false /\ g_point_rejected (w15_p (-1) 1 0) = true
  /\ g_point_rejected (w15_p 3 0 0) = true /\ g_point_rejected (w15_p 3 1 (-2)) = true
  /\ g_p_lt (w15_p 3 1 3) (w15_p 5 1 5) = true /\ g_p_lt (w15_p 5 1 5) (w15_p 5 2 0) = false
  /\ g_p_le (w15_p 5 1 5) (w15_p 5 2 0) = true /\ g_p_le (w15_p 6 1 5) (w15_p 5 2 0) = false
  /\ g_mk_range (w15_p 3 1 3) (w15_p 5 1 5) = Some {| r_start := w15_p 3 1 3; r_end := w15_p 5 1 5 |}
  /\ g_mk_range (w15_p 5 1 5) (w15_p 3 1 3) = None
  /\ g_overlaps (w15_r 1 4) (w15_r 3 9) = true /\ g_overlaps (w15_r 1 2) (w15_r 3 9) = false
  /\ g_contains (w15_r 1 9) (w15_r 3 4) = true /\ g_contains (w15_r 3 4) (w15_r 1 9) = false
  /\ g_r_lt (w15_r 1 2) (w15_r 3 9) = true /\ g_r_lt (w15_r 1 3) (w15_r 3 9) = false
  /\ g_r_le (w15_r 1 3) (w15_r 3 9) = true /\ g_r_le (w15_r 1 4) (w15_r 3 9) = false
  /\ g_hull (w15_r 3 4) (w15_r 1 2) = Some {| r_start := w15_p 1 1 1; r_end := w15_p 4 2 0 |}
  /\ g_hull (w15_r 1 9) (w15_r 3 4) = Some (w15_r 1 9).
Proof. vm_compute. repeat split. Qed.
